/-
Helper lemmas for C07.query_parse_print: the recursive-descent parser of
Model/QueryParse.lean on canonical token streams, level by level.
Core Lean only.
-/
import LedgerModel.Model.QueryParse

namespace Ledger
namespace Query

/-- a stream that may follow a term: it does not start with `=` or a lexer error. -/
def Follow2 : List Tok → Prop
  | .teq :: _ => False
  | .lexErr _ :: _ => False
  | _ => True

/-- … and not with `and`. -/
def Follow1 : List Tok → Prop
  | .teq :: _ => False
  | .lexErr _ :: _ => False
  | .tand :: _ => False
  | _ => True

/-- … and not with `or` either. -/
def Follow0 : List Tok → Prop
  | .teq :: _ => False
  | .lexErr _ :: _ => False
  | .tand :: _ => False
  | .tor :: _ => False
  | _ => True

theorem Follow0.to1 {r : List Tok} (h : Follow0 r) : Follow1 r := by
  unfold Follow0 at h; unfold Follow1; split <;> simp_all
theorem Follow1.to2 {r : List Tok} (h : Follow1 r) : Follow2 r := by
  unfold Follow1 at h; unfold Follow2; split <;> simp_all

def comb (lim : Option Pred) (p : Pred) : Pred :=
  match lim with
  | none => p
  | some l => .or l p

variable (exprOf : String → Option Pred)

theorem andLoop_stop (ctx : Ctx) (P : Pred) (r : List Tok) (h : Follow1 r) :
    andLoop exprOf ctx P r = .ok (some P, r) := by
  unfold andLoop
  split
  · simp [Follow1] at h
  · simp [Follow1] at h
  · rfl

theorem orLoop_stop (ctx : Ctx) (P : Pred) (r : List Tok) (h : Follow0 r) :
    orLoop exprOf ctx P r = .ok (some P, r) := by
  unfold orLoop
  split
  · simp [Follow0] at h
  · simp [Follow0] at h
  · rfl

theorem unary_of_term (ctx : Ctx) (toks r : List Tok) (P : Pred)
    (h : parseTerm exprOf ctx toks = .ok (some P, r)) :
    parseUnary exprOf ctx toks = .ok (some P, r) := by
  unfold parseUnary
  split
  · unfold parseTerm at h; simp at h
  · unfold parseTerm at h; simp at h
  · exact h

theorem and_of_unary (ctx : Ctx) (toks r : List Tok) (P : Pred)
    (h : parseUnary exprOf ctx toks = .ok (some P, r)) (hl : r.length ≤ toks.length) :
    parseAnd exprOf ctx toks = andLoop exprOf ctx P r := by
  unfold parseAnd
  simp [h, hl]

theorem or_of_and (ctx : Ctx) (toks r : List Tok) (P : Pred)
    (h : parseAnd exprOf ctx toks = andLoop exprOf ctx P r) (hf : Follow1 r) (hl : r.length ≤ toks.length) :
    parseOr exprOf ctx toks = orLoop exprOf ctx P r := by
  unfold parseOr
  rw [h, andLoop_stop exprOf ctx P r hf]
  simp [hl]

theorem query_of_or (ctx : Ctx) (toks r : List Tok) (P : Pred) (lim : Option Pred)
    (h : parseOr exprOf ctx toks = orLoop exprOf ctx P r) (hf : Follow0 r) (hl : r.length < toks.length) :
    queryLoop exprOf ctx lim toks = queryLoop exprOf ctx (some (comb lim P)) r := by
  conv => lhs; unfold queryLoop
  rw [h, orLoop_stop exprOf ctx P r hf]
  simp only [hl, if_true]
  cases lim <;> rfl


/-- `ts` renders a term denoting `P`. -/
def T4 (ctx : Ctx) (P : Pred) (ts : List Tok) : Prop :=
  ∀ rest, Follow2 rest → parseTerm exprOf ctx (ts ++ rest) = .ok (some P, rest)
def T3 (ctx : Ctx) (P : Pred) (ts : List Tok) : Prop :=
  ∀ rest, Follow2 rest → parseUnary exprOf ctx (ts ++ rest) = .ok (some P, rest)
def T2 (ctx : Ctx) (P : Pred) (ts : List Tok) : Prop :=
  ∀ rest, Follow2 rest → parseAnd exprOf ctx (ts ++ rest) = andLoop exprOf ctx P rest
def T1 (ctx : Ctx) (P : Pred) (ts : List Tok) : Prop :=
  ∀ rest, Follow1 rest → parseOr exprOf ctx (ts ++ rest) = orLoop exprOf ctx P rest
def T0 (ctx : Ctx) (F : Option Pred → Pred) (ts : List Tok) : Prop :=
  ∀ rest, Follow0 rest → ∀ lim, queryLoop exprOf ctx lim (ts ++ rest) = queryLoop exprOf ctx (some (F lim)) rest

/-- `ts` renders a juxtaposition denoting `P` when it starts the list. -/
def T0' (ctx : Ctx) (P : Pred) (ts : List Tok) : Prop :=
  ∃ F : Option Pred → Pred, F none = P ∧ T0 exprOf ctx F ts

theorem T3_of_T4 {ctx : Ctx} {P : Pred} {ts : List Tok} (h : T4 exprOf ctx P ts) : T3 exprOf ctx P ts :=
  fun rest hf => unary_of_term exprOf ctx _ _ P (h rest hf)

theorem T2_of_T3 {ctx : Ctx} {P : Pred} {ts : List Tok} (h : T3 exprOf ctx P ts) : T2 exprOf ctx P ts :=
  fun rest hf => and_of_unary exprOf ctx _ _ P (h rest hf) (by simp)

theorem T1_of_T2 {ctx : Ctx} {P : Pred} {ts : List Tok} (h : T2 exprOf ctx P ts) : T1 exprOf ctx P ts :=
  fun rest hf => or_of_and exprOf ctx _ _ P (h rest hf.to2) hf (by simp)

theorem T0_of_T1 {ctx : Ctx} {P : Pred} {ts : List Tok} (h : T1 exprOf ctx P ts) (hne : ts ≠ []) :
    T0 exprOf ctx (fun lim => comb lim P) ts :=
  fun rest hf lim => query_of_or exprOf ctx _ _ P lim (h rest hf.to1) hf (by
    cases ts with
    | nil => exact absurd rfl hne
    | cons t ts => simp only [List.cons_append, List.length_cons, List.length_append]; omega)

/-- a stream starting with `)` ends a juxtaposition. -/
theorem queryLoop_rparen (ctx : Ctx) (lim : Option Pred) (rest : List Tok) :
    queryLoop exprOf ctx lim (.rparen :: rest) = .ok (lim, .rparen :: rest) := by
  unfold queryLoop parseOr parseAnd parseUnary parseTerm
  simp

theorem queryLoop_nil (ctx : Ctx) (lim : Option Pred) :
    queryLoop exprOf ctx lim [] = .ok (lim, []) := by
  unfold queryLoop parseOr parseAnd parseUnary parseTerm
  simp

theorem T0'_of_T1 {ctx : Ctx} {P : Pred} {ts : List Tok} (h : T1 exprOf ctx P ts) (hne : ts ≠ []) :
    T0' exprOf ctx P ts := ⟨fun lim => comb lim P, rfl, T0_of_T1 exprOf h hne⟩

theorem T4_paren {ctx : Ctx} {P : Pred} {ts : List Tok} (h : T0' exprOf ctx P ts) :
    T4 exprOf ctx P (.lparen :: ts ++ [.rparen]) := by
  intro rest _
  obtain ⟨F, hF, h⟩ := h
  have h0 := h (.rparen :: rest) (by simp [Follow0]) none
  simp only [List.cons_append, List.append_assoc, List.nil_append]
  unfold parseTerm
  simp only [parseQuery]
  rw [h0, queryLoop_rparen]
  simp [hF]


theorem all_of_T4 {ctx : Ctx} {P : Pred} {ts : List Tok} (h : T4 exprOf ctx P ts) (hne : ts ≠ []) :
    T4 exprOf ctx P ts ∧ T3 exprOf ctx P ts ∧ T2 exprOf ctx P ts ∧ T1 exprOf ctx P ts ∧ T0' exprOf ctx P ts :=
  ⟨h, T3_of_T4 exprOf h, T2_of_T3 exprOf (T3_of_T4 exprOf h), T1_of_T2 exprOf (T2_of_T3 exprOf (T3_of_T4 exprOf h)),
   T0'_of_T1 exprOf (T1_of_T2 exprOf (T2_of_T3 exprOf (T3_of_T4 exprOf h))) hne⟩

/-- a TERM in a context. -/
theorem parseTerm_term (ctx : Ctx) (pat : String) (P : Pred) (rest : List Tok) (hf : Follow2 rest)
    (hP : (Q.term pat).toPred exprOf ctx = some P) :
    parseTerm exprOf ctx (.term pat.toList :: rest) = .ok (some P, rest) := by
  unfold parseTerm
  cases ctx <;> simp only [Q.toPred, Option.some.injEq] at hP
  case tags =>
    subst hP
    cases rest with
    | nil => simp
    | cons t r => cases t <;> simp_all [Follow2]
  case expr => simp [mkLeaf, hP]
  all_goals (subst hP; simp [mkLeaf])

theorem toks_ne_nil (q : Q) (p : Nat) : q.toks p ≠ [] := by
  induction q generalizing p with
  | term pat => simp [Q.toks]
  | tag n v => cases v <;> simp [Q.toks]
  | expr t => simp [Q.toks]
  | ctx c q _ => simp [Q.toks]
  | not q _ => simp only [Q.toks]; split <;> simp
  | and a b _ _ => simp only [Q.toks]; split <;> simp
  | or a b _ _ => simp only [Q.toks]; split <;> simp
  | juxt a b iha _ =>
    simp only [Q.toks]; split
    · intro h; exact iha 0 (List.append_eq_nil_iff.mp h).1
    · simp

/-- the first token of a rendering starts a term. -/
theorem follow0_toks (q : Q) (p : Nat) (rest : List Tok) : Follow0 (q.toks p ++ rest) := by
  induction q generalizing p rest with
  | term pat => simp [Q.toks, Follow0]
  | tag n v => cases v <;> simp [Q.toks, Follow0]
  | expr t => simp [Q.toks, Follow0]
  | ctx c q _ => simp [Q.toks, Follow0]
  | not q _ => simp only [Q.toks]; split <;> simp [Follow0]
  | and a b iha _ =>
    simp only [Q.toks]; split
    · simpa using iha 2 (.tand :: b.toks 3 ++ rest)
    · simp [Follow0]
  | or a b iha _ =>
    simp only [Q.toks]; split
    · simpa using iha 1 (.tor :: b.toks 2 ++ rest)
    · simp [Follow0]
  | juxt a b iha _ =>
    simp only [Q.toks]; split
    · simpa using iha 0 (b.toks 1 ++ rest)
    · simp [Follow0]

theorem toks_spec (q : Q) : ∀ (ctx : Ctx) (P : Pred), q.toPred exprOf ctx = some P →
    T4 exprOf ctx P (q.toks 4) ∧ T3 exprOf ctx P (q.toks 3) ∧ T2 exprOf ctx P (q.toks 2) ∧
    T1 exprOf ctx P (q.toks 1) ∧ T0' exprOf ctx P (q.toks 0) := by
  induction q with
  | term pat =>
    intro ctx P hP
    have h4 : T4 exprOf ctx P [.term pat.toList] := fun rest hf => parseTerm_term exprOf ctx pat P rest hf hP
    simpa [Q.toks] using all_of_T4 exprOf h4 (by simp)
  | tag n v =>
    intro ctx P hP
    simp only [Q.toPred, Option.some.injEq] at hP
    subst hP
    cases v with
    | none =>
      have h4 : T4 exprOf ctx (.hasTag n none) [.ctx .tags, .term n.toList] := by
        intro rest hf
        have := parseTerm_term exprOf .tags n (.hasTag n none) rest hf (by simp [Q.toPred])
        simp only [List.cons_append, List.nil_append]
        unfold parseTerm
        simp [this]
      simpa [Q.toks] using all_of_T4 exprOf h4 (by simp)
    | some v =>
      have h4 : T4 exprOf ctx (.hasTag n (some v)) [.ctx .tags, .term n.toList, .teq, .term v.toList] := by
        intro rest hf
        simp only [List.cons_append, List.nil_append]
        unfold parseTerm
        unfold parseTerm
        simp
      simpa [Q.toks] using all_of_T4 exprOf h4 (by simp)
  | expr t =>
    intro ctx P hP
    simp only [Q.toPred] at hP
    have h4 : T4 exprOf ctx P [.ctx .expr, .term t.toList] := by
      intro rest hf
      simp only [List.cons_append, List.nil_append]
      unfold parseTerm
      unfold parseTerm
      simp [mkLeaf, hP]
    simpa [Q.toks] using all_of_T4 exprOf h4 (by simp)
  | ctx c q ih =>
    intro ctx P hP
    simp only [Q.toPred] at hP
    have h4 : T4 exprOf ctx P (.ctx c.toCtx :: q.toks 4) := by
      intro rest hf
      have := (ih c.toCtx P hP).1 rest hf
      simp only [List.cons_append]
      unfold parseTerm
      simp [this]
    simpa [Q.toks] using all_of_T4 exprOf h4 (by simp)
  | not q ih =>
    intro ctx P hP
    simp only [Q.toPred, Option.map_eq_some_iff] at hP
    obtain ⟨P', hP', rfl⟩ := hP
    have h3 : T3 exprOf ctx (.not P') (.tnot :: q.toks 4) := by
      intro rest hf
      have := (ih ctx P' hP').1 rest hf
      simp only [List.cons_append]
      unfold parseUnary
      simp [this]
    have h2 := T2_of_T3 exprOf h3
    have h1 := T1_of_T2 exprOf h2
    have h0 := T0'_of_T1 exprOf h1 (by simp)
    have h4 := T4_paren exprOf h0
    simpa [Q.toks] using (And.intro h4 (And.intro h3 (And.intro h2 (And.intro h1 h0))))
  | and a b iha ihb =>
    intro ctx P hP
    simp only [Q.toPred] at hP
    cases ha : a.toPred exprOf ctx with
    | none => simp [ha] at hP
    | some Pa =>
    cases hb : b.toPred exprOf ctx with
    | none => simp [ha, hb] at hP
    | some Pb =>
    simp only [ha, hb, Option.some.injEq] at hP
    subst hP
    have h2 : T2 exprOf ctx (.and Pa Pb) (a.toks 2 ++ .tand :: b.toks 3) := by
      intro rest hf
      have ea := (iha ctx Pa ha).2.2.1 (.tand :: b.toks 3 ++ rest) (by simp [Follow2])
      have eb := (ihb ctx Pb hb).2.1 rest hf
      simp only [List.append_assoc, List.cons_append]
      simp only [List.cons_append] at ea
      rw [ea]
      conv => lhs; unfold andLoop
      simp [eb]
    have h1 := T1_of_T2 exprOf h2
    have h0 := T0'_of_T1 exprOf h1 (by simp)
    have h4 := T4_paren exprOf h0
    have h3 := T3_of_T4 exprOf h4
    simpa [Q.toks] using (And.intro h4 (And.intro h3 (And.intro h2 (And.intro h1 h0))))
  | or a b iha ihb =>
    intro ctx P hP
    simp only [Q.toPred] at hP
    cases ha : a.toPred exprOf ctx with
    | none => simp [ha] at hP
    | some Pa =>
    cases hb : b.toPred exprOf ctx with
    | none => simp [ha, hb] at hP
    | some Pb =>
    simp only [ha, hb, Option.some.injEq] at hP
    subst hP
    have h1 : T1 exprOf ctx (.or Pa Pb) (a.toks 1 ++ .tor :: b.toks 2) := by
      intro rest hf
      have ea := (iha ctx Pa ha).2.2.2.1 (.tor :: b.toks 2 ++ rest) (by simp [Follow1])
      have eb := (ihb ctx Pb hb).2.2.1 rest hf.to2
      simp only [List.append_assoc, List.cons_append]
      simp only [List.cons_append] at ea
      rw [ea]
      conv => lhs; unfold orLoop
      simp [eb, andLoop_stop exprOf ctx Pb rest hf]
    have h0 := T0'_of_T1 exprOf h1 (by simp)
    have h4 := T4_paren exprOf h0
    have h3 := T3_of_T4 exprOf h4
    have h2 := T2_of_T3 exprOf h3
    simpa [Q.toks] using (And.intro h4 (And.intro h3 (And.intro h2 (And.intro h1 h0))))
  | juxt a b iha ihb =>
    intro ctx P hP
    simp only [Q.toPred] at hP
    cases ha : a.toPred exprOf ctx with
    | none => simp [ha] at hP
    | some Pa =>
    cases hb : b.toPred exprOf ctx with
    | none => simp [ha, hb] at hP
    | some Pb =>
    simp only [ha, hb, Option.some.injEq] at hP
    subst hP
    obtain ⟨Fa, hFa, hTa⟩ := (iha ctx Pa ha).2.2.2.2
    have h0 : T0' exprOf ctx (.or Pa Pb) (a.toks 0 ++ b.toks 1) := by
      refine ⟨fun lim => .or (Fa lim) Pb, by simp [hFa], ?_⟩
      intro rest hf lim
      have ea := hTa (b.toks 1 ++ rest) (follow0_toks b 1 rest) lim
      have eb := T0_of_T1 exprOf (ihb ctx Pb hb).2.2.2.1 (toks_ne_nil b 1) rest hf (some (Fa lim))
      simp only [List.append_assoc]
      rw [ea, eb]
      simp [comb]
    have h4 := T4_paren exprOf h0
    have h3 := T3_of_T4 exprOf h4
    have h2 := T2_of_T3 exprOf h3
    have h1 := T1_of_T2 exprOf h2
    simpa [Q.toks] using (And.intro h4 (And.intro h3 (And.intro h2 (And.intro h1 h0))))


/-! ### Lexer on canonical arguments -/

theorem lexChars_nil (cna b : Bool) : lexChars cna b [] = ⟨[], cna, false⟩ := by
  unfold lexChars; rfl

/-- every single-character token is also a stop character, as is `=`. -/
theorem charTok_stop : ∀ c t, charTok c = some t → isStop c = true := by
  intro c t h
  simp only [charTok, Option.map_eq_some_iff] at h
  obtain ⟨kv, hkv, _⟩ := h
  have hm := List.mem_of_find?_eq_some hkv
  have hc : kv.1 = c := by simpa using List.find?_some hkv
  subst hc
  revert hm
  simp only [Gen.queryCharTokens, List.mem_cons, List.not_mem_nil, or_false]
  rintro (h | h | h | h | h | h | h | h) <;> (subst h; decide)

theorem scanIdent_plain (cs tail : List Char) (h : ∀ x ∈ cs, isStop x = false)
    (ht : tail = [] ∨ ∃ t ts, tail = t :: ts ∧ isStop t = true) :
    scanIdent false (cs ++ tail) = (cs, tail) := by
  induction cs with
  | nil =>
    rcases ht with rfl | ⟨t, ts, rfl, hs⟩
    · simp [scanIdent]
    · simp [scanIdent, hs]
  | cons c cs ih =>
    have hc := h c List.mem_cons_self
    simp only [List.cons_append, scanIdent, hc]
    simp [ih (fun x hx => h x (List.mem_cons_of_mem _ hx))]

/-- a plain identifier `c :: cs` followed by the end of the argument or a stop
    character is one token. -/
theorem lexChars_ident (b : Bool) (c : Char) (cs tail : List Char)
    (hq : isQuote c = false) (hs : isSpace c = false)
    (hall : ∀ x ∈ c :: cs, isStop x = false ∧ x ≠ '\\')
    (ht : tail = [] ∨ ∃ t ts, tail = t :: ts ∧ isStop t = true) :
    lexChars false b (c :: cs ++ tail) =
      (lexChars (setsNextArg (c :: cs)) false tail).cons (identTok (c :: cs)) := by
  have hc := hall c List.mem_cons_self
  have hne : c ≠ '=' := by
    intro h; subst h; have := hc.1; revert this; decide
  have hct : charTok c = none := by
    cases h : charTok c with
    | none => rfl
    | some t => have := charTok_stop c t h; simp [hc.1] at this
  have hsc := scanIdent_plain cs tail (fun x hx => (hall x (List.mem_cons_of_mem _ hx)).1) ht
  rw [List.cons_append, lexChars]
  simp only [hq, hs, hne, hct, hc.2, hsc, Bool.false_eq_true, if_false]

theorem lexChars_single (b : Bool) (c : Char) (cs : List Char) (t : Tok)
    (hq : isQuote c = false) (hs : isSpace c = false) (hne : c ≠ '=') (hct : charTok c = some t) :
    lexChars false b (c :: cs) = (lexChars false false cs).cons t := by
  rw [lexChars]
  simp only [hq, hs, hne, hct, Bool.false_eq_true, if_false]

theorem not_kw_setsNextArg (ident : List Char)
    (h : (Gen.queryKeywords.find? (fun kv => kv.1.toList = ident)).isNone = true) :
    setsNextArg ident = false := by
  cases hs : setsNextArg ident with
  | false => rfl
  | true =>
    simp only [setsNextArg, Gen.queryNextArgKeywords, List.any_cons, List.any_nil, Bool.or_false,
      decide_eq_true_eq] at hs
    subst hs
    revert h; decide

theorem plainPat_spec {s : String} (h : plainPat s = true) :
    ∃ c cs, s.toList = c :: cs ∧ isQuote c = false ∧ isSpace c = false ∧
      (∀ x ∈ c :: cs, isStop x = false ∧ x ≠ '\\') ∧
      identTok (c :: cs) = .term (c :: cs) ∧ setsNextArg (c :: cs) = false := by
  unfold plainPat at h
  cases hl : s.toList with
  | nil => simp [hl] at h
  | cons c cs =>
    simp only [hl, Bool.and_eq_true, Bool.not_eq_true', List.all_eq_true, decide_eq_true_eq] at h
    obtain ⟨⟨⟨hq, hs⟩, hall⟩, hk⟩ := h
    refine ⟨c, cs, rfl, hq, hs, ?_, ?_, not_kw_setsNextArg _ hk⟩
    · intro x hx
      have := hall x hx
      simpa using this
    · simp only [identTok]
      cases hf : Gen.queryKeywords.find? (fun kv => kv.1.toList = c :: cs) with
      | none => rfl
      | some kv => simp [hf] at hk

theorem lexMore_cons (a : List Char) (as : List (List Char)) (hne : a ≠ []) (r : LexR)
    (h : lexChars false true a = r) (hs : r.stopped = false) :
    lexMore false (a :: as) = r.toks ++ lexMore r.cna as := by
  simp [lexMore, hne, h, hs]

/-- a plain pattern standing alone as an argument. -/
theorem lexMore_pat (s : String) (as : List (List Char)) (h : plainPat s = true) :
    lexMore false (s.toList :: as) = .term s.toList :: lexMore false as := by
  obtain ⟨c, cs, hl, hq, hs, hall, hid, hna⟩ := plainPat_spec h
  have := lexChars_ident true c cs [] hq hs hall (Or.inl rfl)
  simp only [List.append_nil, hid, hna, lexChars_nil] at this
  rw [hl, lexMore_cons (c :: cs) as (by simp) _ this rfl]
  simp [LexR.cons]

/-- `%name` -/
theorem lexMore_tag (n : String) (as : List (List Char)) (h : plainPat n = true) :
    lexMore false (("%" ++ n).toList :: as) = .ctx .tags :: .term n.toList :: lexMore false as := by
  obtain ⟨c, cs, hl, hq, hs, hall, hid, hna⟩ := plainPat_spec h
  have h1 := lexChars_single true '%' (c :: cs) (.ctx .tags) (by decide) (by decide) (by decide) (by decide)
  have h2 := lexChars_ident false c cs [] hq hs hall (Or.inl rfl)
  simp only [List.append_nil, hid, hna, lexChars_nil] at h2
  have he : ("%" ++ n).toList = '%' :: c :: cs := by simp [hl]
  rw [he, lexMore_cons _ as (by simp) _ (h1.trans (by rw [h2])) rfl]
  simp [LexR.cons, hl]

/-- `%name=value` -/
theorem lexMore_tagv (n v : String) (as : List (List Char)) (h : plainPat n = true) (hv : plainPat v = true) :
    lexMore false (("%" ++ n ++ "=" ++ v).toList :: as) =
      .ctx .tags :: .term n.toList :: .teq :: .term v.toList :: lexMore false as := by
  obtain ⟨c, cs, hl, hq, hs, hall, hid, hna⟩ := plainPat_spec h
  obtain ⟨d, ds, hl', hq', hs', hall', hid', hna'⟩ := plainPat_spec hv
  have h1 := lexChars_single true '%' (c :: cs ++ '=' :: d :: ds) (.ctx .tags) (by decide) (by decide) (by decide) (by decide)
  have h2 := lexChars_ident false c cs ('=' :: d :: ds) hq hs hall (Or.inr ⟨'=', d :: ds, rfl, by decide⟩)
  have h3 : lexChars false false ('=' :: d :: ds) = (lexChars false false (d :: ds)).cons .teq := by
    conv => lhs; unfold lexChars
    have e1 : isQuote '=' = false := by decide
    have e2 : isSpace '=' = false := by decide
    have e3 : tokOfName Gen.queryEqTokens.2 = .teq := by decide
    simp [e1, e2, e3]
  have h4 := lexChars_ident false d ds [] hq' hs' hall' (Or.inl rfl)
  simp only [List.append_nil, hid', hna', lexChars_nil] at h4
  simp only [hid, hna] at h2
  have he : ("%" ++ n ++ "=" ++ v).toList = '%' :: (c :: cs ++ '=' :: d :: ds) := by simp [hl, hl']
  rw [he, lexMore_cons _ as (by simp) _ (h1.trans (by rw [h2, h3, h4])) rfl]
  simp [LexR.cons, hl, hl']

/-- `expr TEXT` -/
theorem lexMore_expr (t : String) (as : List (List Char)) (h : plainExprText t = true) :
    lexMore false ("expr".toList :: t.toList :: as) = .ctx .expr :: .term t.toList :: lexMore false as := by
  unfold plainExprText at h
  cases hl : t.toList with
  | nil => simp [hl] at h
  | cons c cs =>
    simp only [hl, Bool.not_eq_true'] at h
    have h1 := lexChars_ident true 'e' ['x', 'p', 'r'] [] (by decide) (by decide) (by decide) (Or.inl rfl)
    have e1 : identTok ['e', 'x', 'p', 'r'] = .ctx .expr := by decide
    have e2 : setsNextArg ['e', 'x', 'p', 'r'] = true := by decide
    simp only [List.append_nil, e1, e2, lexChars_nil] at h1
    have h2 : lexChars true true (c :: cs) = ⟨[.term (c :: cs)], false, false⟩ := by
      unfold lexChars; simp [h]
    have he : "expr".toList = ['e', 'x', 'p', 'r'] := by decide
    rw [he, lexMore_cons _ _ (by simp) _ h1 rfl]
    simp only [LexR.cons]
    simp [lexMore, h2]

/-- the fixed one-token arguments. -/
theorem lexMore_fixed (a : String) (t : Tok) (as : List (List Char))
    (h : lexChars false true a.toList = ⟨[t], false, false⟩) (hne : a.toList ≠ []) :
    lexMore false (a.toList :: as) = t :: lexMore false as := by
  rw [lexMore_cons _ as hne _ h rfl]; rfl

theorem lex_lparen : lexChars false true "(".toList = ⟨[.lparen], false, false⟩ := by
  have := lexChars_single true '(' [] .lparen (by decide) (by decide) (by decide) (by decide)
  simpa [lexChars_nil, LexR.cons] using this
theorem lex_rparen : lexChars false true ")".toList = ⟨[.rparen], false, false⟩ := by
  have := lexChars_single true ')' [] .rparen (by decide) (by decide) (by decide) (by decide)
  simpa [lexChars_nil, LexR.cons] using this
theorem lex_at : lexChars false true "@".toList = ⟨[.ctx .payee], false, false⟩ := by
  have := lexChars_single true '@' [] (.ctx .payee) (by decide) (by decide) (by decide) (by decide)
  simpa [lexChars_nil, LexR.cons] using this
theorem lex_hash : lexChars false true "#".toList = ⟨[.ctx .code], false, false⟩ := by
  have := lexChars_single true '#' [] (.ctx .code) (by decide) (by decide) (by decide) (by decide)
  simpa [lexChars_nil, LexR.cons] using this
theorem lex_pct : lexChars false true "%".toList = ⟨[.ctx .tags], false, false⟩ := by
  have := lexChars_single true '%' [] (.ctx .tags) (by decide) (by decide) (by decide) (by decide)
  simpa [lexChars_nil, LexR.cons] using this
theorem lex_eq : lexChars false true "=".toList = ⟨[.ctx .note], false, false⟩ := by
  have e0 : "=".toList = ['='] := by decide
  rw [e0]
  unfold lexChars
  have e1 : isQuote '=' = false := by decide
  have e2 : isSpace '=' = false := by decide
  have e3 : tokOfName Gen.queryEqTokens.1 = .ctx .note := by decide
  simp [e1, e2, e3, lexChars_nil, LexR.cons]
theorem lex_and : lexChars false true "and".toList = ⟨[.tand], false, false⟩ := by
  have := lexChars_ident true 'a' ['n', 'd'] [] (by decide) (by decide) (by decide) (Or.inl rfl)
  have e1 : identTok ['a', 'n', 'd'] = .tand := by decide
  have e2 : setsNextArg ['a', 'n', 'd'] = false := by decide
  have e0 : "and".toList = ['a', 'n', 'd'] := by decide
  simpa [e0, e1, e2, lexChars_nil, LexR.cons] using this
theorem lex_or : lexChars false true "or".toList = ⟨[.tor], false, false⟩ := by
  have := lexChars_ident true 'o' ['r'] [] (by decide) (by decide) (by decide) (Or.inl rfl)
  have e1 : identTok ['o', 'r'] = .tor := by decide
  have e2 : setsNextArg ['o', 'r'] = false := by decide
  have e0 : "or".toList = ['o', 'r'] := by decide
  simpa [e0, e1, e2, lexChars_nil, LexR.cons] using this
theorem lex_not : lexChars false true "not".toList = ⟨[.tnot], false, false⟩ := by
  have := lexChars_ident true 'n' ['o', 't'] [] (by decide) (by decide) (by decide) (Or.inl rfl)
  have e1 : identTok ['n', 'o', 't'] = .tnot := by decide
  have e2 : setsNextArg ['n', 'o', 't'] = false := by decide
  have e0 : "not".toList = ['n', 'o', 't'] := by decide
  simpa [e0, e1, e2, lexChars_nil, LexR.cons] using this

theorem lex_ctxArg (c : QCtx) : lexChars false true c.arg.toList = ⟨[.ctx c.toCtx], false, false⟩ := by
  cases c
  · exact lex_at
  · exact lex_hash
  · exact lex_eq
  · exact lex_pct

/-- the lexer turns the canonical arguments of a well-formed tree into its
    canonical tokens. -/
theorem lex_spec (q : Q) (hw : q.wf exprOf = true) : ∀ (p : Nat) (as : List (List Char)),
    lexMore false ((q.args p).map String.toList ++ as) = q.toks p ++ lexMore false as := by
  have LP := fun as => lexMore_fixed "(" .lparen as lex_lparen (by decide)
  have RP := fun as => lexMore_fixed ")" .rparen as lex_rparen (by decide)
  have AND := fun as => lexMore_fixed "and" .tand as lex_and (by decide)
  have OR := fun as => lexMore_fixed "or" .tor as lex_or (by decide)
  have NOT := fun as => lexMore_fixed "not" .tnot as lex_not (by decide)
  induction q with
  | term pat => intro p as; simpa [Q.args, Q.toks] using lexMore_pat pat as hw
  | tag n v =>
    intro p as
    cases v with
    | none => simpa [Q.args, Q.toks] using lexMore_tag n as hw
    | some v =>
      simp only [Q.wf, Bool.and_eq_true] at hw
      simpa [Q.args, Q.toks] using lexMore_tagv n v as hw.1 hw.2
  | expr t =>
    intro p as
    simp only [Q.wf, Bool.and_eq_true] at hw
    simpa [Q.args, Q.toks] using lexMore_expr t as hw.1
  | ctx c q ih =>
    intro p as
    simp only [Q.wf] at hw
    have hne : c.arg.toList ≠ [] := by cases c <;> decide
    simp only [Q.args, Q.toks, List.map_cons, List.cons_append]
    rw [lexMore_fixed c.arg (.ctx c.toCtx) _ (lex_ctxArg c) hne, ih hw 4 as]
  | not q ih =>
    intro p as
    simp only [Q.wf] at hw
    simp only [Q.args, Q.toks]
    split
    · simp only [List.map_cons, List.cons_append]
      rw [NOT, ih hw 4 as]
    · simp only [List.map_cons, List.cons_append, List.map_append, List.append_assoc, List.map_nil, List.nil_append]
      rw [LP, NOT, ih hw 4, RP]
  | and a b iha ihb =>
    intro p as
    simp only [Q.wf, Bool.and_eq_true] at hw
    simp only [Q.args, Q.toks]
    split
    · simp only [List.map_cons, List.cons_append, List.map_append, List.append_assoc]
      rw [iha hw.1 2, AND, ihb hw.2 3]
    · simp only [List.map_cons, List.cons_append, List.map_append, List.append_assoc, List.map_nil, List.nil_append]
      rw [LP, iha hw.1 2, AND, ihb hw.2 3, RP]
  | or a b iha ihb =>
    intro p as
    simp only [Q.wf, Bool.and_eq_true] at hw
    simp only [Q.args, Q.toks]
    split
    · simp only [List.map_cons, List.cons_append, List.map_append, List.append_assoc]
      rw [iha hw.1 1, OR, ihb hw.2 2]
    · simp only [List.map_cons, List.cons_append, List.map_append, List.append_assoc, List.map_nil, List.nil_append]
      rw [LP, iha hw.1 1, OR, ihb hw.2 2, RP]
  | juxt a b iha ihb =>
    intro p as
    simp only [Q.wf, Bool.and_eq_true] at hw
    simp only [Q.args, Q.toks]
    split
    · simp only [List.map_append, List.append_assoc]
      rw [iha hw.1 0, ihb hw.2 1]
    · simp only [List.map_cons, List.cons_append, List.map_append, List.append_assoc, List.map_nil, List.nil_append]
      rw [LP, iha hw.1 0, ihb hw.2 1, RP]


theorem toPred_isSome (q : Q) (hw : q.wf exprOf = true) : ∀ ctx : Ctx, ctx ≠ .expr →
    ∃ P, q.toPred exprOf ctx = some P := by
  induction q with
  | term pat => intro ctx hc; cases ctx <;> simp_all [Q.toPred]
  | tag n v => intro ctx _; simp [Q.toPred]
  | expr t =>
    intro ctx _
    simp only [Q.wf, Bool.and_eq_true, Option.isSome_iff_exists] at hw
    simpa [Q.toPred] using hw.2
  | ctx c q ih =>
    intro ctx _
    simp only [Q.wf] at hw
    simp only [Q.toPred]
    exact ih hw c.toCtx (by cases c <;> simp [QCtx.toCtx])
  | not q ih =>
    intro ctx hc
    simp only [Q.wf] at hw
    obtain ⟨P, hP⟩ := ih hw ctx hc
    exact ⟨.not P, by simp [Q.toPred, hP]⟩
  | and a b iha ihb =>
    intro ctx hc
    simp only [Q.wf, Bool.and_eq_true] at hw
    obtain ⟨Pa, hPa⟩ := iha hw.1 ctx hc
    obtain ⟨Pb, hPb⟩ := ihb hw.2 ctx hc
    exact ⟨.and Pa Pb, by simp [Q.toPred, hPa, hPb]⟩
  | or a b iha ihb =>
    intro ctx hc
    simp only [Q.wf, Bool.and_eq_true] at hw
    obtain ⟨Pa, hPa⟩ := iha hw.1 ctx hc
    obtain ⟨Pb, hPb⟩ := ihb hw.2 ctx hc
    exact ⟨.or Pa Pb, by simp [Q.toPred, hPa, hPb]⟩
  | juxt a b iha ihb =>
    intro ctx hc
    simp only [Q.wf, Bool.and_eq_true] at hw
    obtain ⟨Pa, hPa⟩ := iha hw.1 ctx hc
    obtain ⟨Pb, hPb⟩ := ihb hw.2 ctx hc
    exact ⟨.or Pa Pb, by simp [Q.toPred, hPa, hPb]⟩

theorem lexArgs_canonical (q : Q) (hw : q.wf exprOf = true) :
    lexArgs ((q.args 0).map String.toList) = q.toks 0 := by
  have h := lex_spec exprOf q hw 0 []
  simp only [List.append_nil, lexMore] at h
  have hf := follow0_toks q 0 []
  rw [List.append_nil, ← h] at hf
  cases hl : (q.args 0).map String.toList with
  | nil => rw [hl] at h; simpa [lexArgs, lexMore] using h
  | cons a as =>
    rw [hl] at h hf
    by_cases ha : a = []
    · subst ha; simp [lexMore, Follow0] at hf
    · rw [← h]; simp [lexArgs, lexMore, ha]

/-- parsing the canonical arguments of a well-formed query tree gives its predicate. -/
theorem parseAll_canonical (q : Q) (hw : q.wf exprOf = true) (P : Pred)
    (hP : q.toPred exprOf .account = some P) :
    parseAll exprOf (q.args 0) = .ok { limit := some P } := by
  obtain ⟨F, hF, h0⟩ := (toks_spec exprOf q .account P hP).2.2.2.2
  have := h0 [] (by simp [Follow0]) none
  simp only [List.append_nil] at this
  simp only [parseAll, lexArgs_canonical exprOf q hw, parseQuery, this, queryLoop_nil, hF]
  unfold sections
  rfl

end Query
end Ledger
