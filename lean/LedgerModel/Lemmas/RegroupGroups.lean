/-
Helper lemmas behind Props/C17: what subtotal_posts, by_payee_posts,
day_of_week_posts and collapse_posts emit, as "group sums" of their input.
-/
import LedgerModel.Lemmas.RegroupSums
import LedgerModel.Lemmas.RegroupRuns

namespace Ledger
namespace Regroup

open List

/-- `rows` replaces the groups of `posts` (postings with equal `grp`) by their
    exact per-commodity sums: one row per group (`rowKey` names the group a row
    stands for), every group present, nothing else, and the totals agree. -/
structure GroupSums {K : Type} [DecidableEq K] (grp rowKey : RPost → K) (posts rows : List RPost) : Prop where
  each : ∀ r ∈ rows, ∀ c, r.amount.den c = sumDen (posts.filter (fun p => grp p = rowKey r)) c
  covered : ∀ p ∈ posts, ∃ r ∈ rows, rowKey r = grp p
  noExtra : ∀ r ∈ rows, ∃ p ∈ posts, grp p = rowKey r
  nodup : (rows.map rowKey).Nodup
  total : ∀ c, sumDen rows c = sumDen posts c
  qty : AllQty rows

/-! ### subtotal_posts -/

theorem addAll_accum (ps : List RPost) (st st' : SubState) (h : st.addAll ps = .ok st') :
    st'.values = accum (fun p => p.account) acctStep st.values ps ∧ st'.posts = st.posts ++ ps := by
  induction ps generalizing st with
  | nil => simp only [SubState.addAll] at h; cases h; simp [accum]
  | cons p ps ih =>
    simp only [SubState.addAll, SubState.add] at h
    split at h
    · simp [bind, Except.bind] at h
    · simp only [bind, Except.bind] at h
      have := ih _ h
      simp only [accum, List.foldl_cons] at this ⊢
      exact ⟨this.1, by rw [this.2]; simp⟩

theorem acctStep_ok (c : Comm) :
    StepOK (fun av : AcctVal => isQty av.value = true) (fun p => isQty p.amount = true)
      (fun av => av.value.den c) (fun p => p.amount.den c) acctStep := by
  constructor
  · intro p hp; exact ⟨hp, rfl⟩
  · intro v p hv hp
    exact ⟨vplus_isQty _ _ (isAcc_of_isQty hv) hp, vplus_den _ _ (isAcc_of_isQty hv) hp c⟩

theorem sumDen_map_sumBy (m : AMap AcctVal) (f : String × AcctVal → RPost)
    (hf : ∀ e, (f e).amount = e.2.value) (c : Comm) :
    sumDen (m.map f) c = AMap.sumBy (fun av => av.value.den c) m := by
  induction m with
  | nil => rfl
  | cons e m ih =>
    simp only [List.map_cons, sumDen, wsum, AMap.sumBy, hf] at ih ⊢
    rw [ih]

theorem minDate_mem (ps : List RPost) (h : ps ≠ []) : ∃ p ∈ ps, p.date = minDate ps := by
  induction ps with
  | nil => exact absurd rfl h
  | cons p ps ih =>
    cases ps with
    | nil => exact ⟨p, by simp, rfl⟩
    | cons q qs =>
      obtain ⟨r, hr, he⟩ := ih (by simp)
      simp only [minDate]
      by_cases hle : p.date ≤ minDate (q :: qs)
      · exact ⟨p, by simp, by omega⟩
      · exact ⟨r, by simp [hr], by omega⟩

/-- what one subtotal_posts object reports after being fed `ps` -/
theorem subState_report (ps : List RPost) (hq : AllQty ps) (st : SubState)
    (h : SubState.empty.addAll ps = .ok st) (title : String) :
    GroupSums (fun p => p.account) (fun r => r.account) ps (st.report title) ∧
    (∀ r ∈ st.report title, r.payee = title ∧ r.date = minDate ps) := by
  obtain ⟨hv, hp⟩ := addAll_accum ps _ _ h
  simp only [SubState.empty, List.nil_append] at hv hp
  cases ps with
  | nil =>
    simp only [SubState.report, hp, List.isEmpty_nil, if_true]
    exact ⟨⟨by simp, by simp, by simp, by simp, fun c => rfl, by simp [AllQty]⟩, by simp⟩
  | cons p0 ps0 =>
    have hrep : st.report title = st.values.map (fun kv =>
        { line := 0, xid := 0, date := minDate st.posts, payee := title, account := kv.1,
          virt := kv.2.virt, amount := kv.2.value }) := by
      simp [SubState.report, hp]
    have key : ∀ c, _ := fun c => accum_spec (acctStep_ok c) (fun p => p.account) (p0 :: ps0) hq
      ([] : AMap AcctVal) (by simp [AMap.keys]) (by intro k v hk; simp [AMap.get?] at hk)
    rw [← hv] at key
    have hn := (key "").1
    have hmem : ∀ r ∈ st.report title, ∃ kv ∈ st.values, r.account = kv.1 ∧ r.amount = kv.2.value ∧
        r.payee = title ∧ r.date = minDate (p0 :: ps0) := by
      intro r hr
      rw [hrep] at hr
      obtain ⟨kv, hkv, rfl⟩ := List.mem_map.mp hr
      exact ⟨kv, hkv, rfl, rfl, rfl, by rw [hp]⟩
    refine ⟨⟨?_, ?_, ?_, ?_, ?_, ?_⟩, ?_⟩
    · intro r hr c
      obtain ⟨kv, hkv, ha, hv', _⟩ := hmem r hr
      obtain ⟨_, _, h3, _, _⟩ := key c
      have hg := AMap.mem_get? hn (k := kv.1) (v := kv.2) hkv
      have := h3 kv.1
      simp only [muAt, hg, Option.map_some, Option.getD_some, AMap.get?, Option.map_none, Option.getD_none] at this
      rw [hv', ha, this]
      simp only [sumDen]; grind
    · intro p hp'
      have := ((key "").2.2.2.1 p.account).mpr (Or.inr ⟨p, hp', rfl⟩)
      obtain ⟨kv, hkv, he⟩ := List.mem_map.mp this
      refine ⟨{ line := 0, xid := 0, date := minDate st.posts, payee := title, account := kv.1,
                virt := kv.2.virt, amount := kv.2.value }, ?_, he⟩
      rw [hrep]; exact List.mem_map.mpr ⟨kv, hkv, rfl⟩
    · intro r hr
      obtain ⟨kv, hkv, ha, _, _⟩ := hmem r hr
      have hk : kv.1 ∈ AMap.keys st.values := List.mem_map.mpr ⟨kv, hkv, rfl⟩
      rcases ((key "").2.2.2.1 kv.1).mp hk with h0 | ⟨p, hp', he⟩
      · simp [AMap.keys] at h0
      · exact ⟨p, hp', by rw [ha]; exact he⟩
    · rw [hrep, List.map_map]
      exact hn
    · intro c
      obtain ⟨_, _, _, _, h5⟩ := key c
      rw [hrep, sumDen_map_sumBy _ _ (fun _ => rfl), h5]
      simp only [AMap.sumBy, sumDen]; grind
    · intro r hr
      obtain ⟨kv, hkv, _, hv', _⟩ := hmem r hr
      have hg := AMap.mem_get? hn (k := kv.1) (v := kv.2) hkv
      rw [hv']
      exact (key "").2.1 kv.1 kv.2 hg
    · intro r hr
      obtain ⟨_, _, _, _, h1, h2⟩ := hmem r hr
      exact ⟨h1, h2⟩

theorem subtotal_groups (posts rows : List RPost) (hq : AllQty posts) (h : subtotal posts = .ok rows) :
    GroupSums (fun p => p.account) (fun r => r.account) posts rows := by
  simp only [subtotal, bind, Except.bind] at h
  split at h
  · cases h
  · rename_i st hst
    simp only [pure, Except.pure, Except.ok.injEq] at h
    subst h
    exact (subState_report posts hq st hst _).1

/-! ### putting classes of groups side by side -/

def lsum : List Rat → Rat
  | [] => 0
  | x :: xs => x + lsum xs

theorem wsum_flatMap {J : Type} (w : RPost → Rat) (js : List J) (f : J → List RPost) :
    wsum w (js.flatMap f) = lsum (js.map (fun j => wsum w (f j))) := by
  induction js with
  | nil => rfl
  | cons j js ih => simp only [List.flatMap_cons, wsum_append, ih, List.map_cons, lsum]

theorem wsum_filter_classes {J : Type} [DecidableEq J] (w : RPost → Rat) (cls : RPost → J) (js : List J)
    (hn : js.Nodup) (posts : List RPost) :
    wsum w (posts.filter (fun p => decide (cls p ∈ js))) =
      lsum (js.map (fun j => wsum w (posts.filter (fun p => cls p = j)))) := by
  induction js with
  | nil =>
    have : posts.filter (fun p => decide (cls p ∈ ([] : List J))) = [] := by
      apply List.filter_eq_nil_iff.mpr; simp
    rw [this]; rfl
  | cons j js ih =>
    have hj : j ∉ js := (List.nodup_cons.mp hn).1
    simp only [List.map_cons, lsum]
    rw [← ih (List.nodup_cons.mp hn).2]
    rw [wsum_filter_split w (fun p => decide (cls p = j)) (posts.filter (fun p => decide (cls p ∈ j :: js)))]
    simp only [List.filter_filter]
    congr 1
    · congr 1
      apply List.filter_congr
      intro p _
      by_cases h : cls p = j <;> simp [h]
    · congr 1
      apply List.filter_congr
      intro p _
      by_cases h : cls p = j
      · simp [h, hj]
      · simp [h]

/-- group sums of the classes `js` of a partition `cls`, reported class by class -/
theorem groupSums_classes {K J : Type} [DecidableEq K] [DecidableEq J]
    (grp rowKey : RPost → K) (proj : K → J) (cls : RPost → J) (hcls : ∀ p, proj (grp p) = cls p)
    (posts : List RPost) (js : List J) (hn : js.Nodup) (rowsOf : J → List RPost)
    (hg : ∀ j ∈ js, GroupSums grp rowKey (posts.filter (fun p => cls p = j)) (rowsOf j))
    (hall : ∀ p ∈ posts, cls p ∈ js) :
    GroupSums grp rowKey posts (js.flatMap rowsOf) := by
  have hproj : ∀ j ∈ js, ∀ r ∈ rowsOf j, proj (rowKey r) = j := by
    intro j hj r hr
    obtain ⟨p, hp, he⟩ := (hg j hj).noExtra r hr
    rw [← he, hcls]
    simpa using (List.mem_filter.mp hp).2
  refine ⟨?_, ?_, ?_, ?_, ?_, ?_⟩
  · intro r hr c
    obtain ⟨j, hj, hrj⟩ := List.mem_flatMap.mp hr
    rw [(hg j hj).each r hrj c, List.filter_filter]
    congr 1
    apply List.filter_congr
    intro p _
    by_cases h : grp p = rowKey r
    · have : cls p = j := by rw [← hcls, h]; exact hproj j hj r hrj
      simp [h, this]
    · simp [h]
  · intro p hp
    have hj := hall p hp
    obtain ⟨r, hr, he⟩ := (hg (cls p) hj).covered p (List.mem_filter.mpr ⟨hp, by simp⟩)
    exact ⟨r, List.mem_flatMap.mpr ⟨cls p, hj, hr⟩, he⟩
  · intro r hr
    obtain ⟨j, hj, hrj⟩ := List.mem_flatMap.mp hr
    obtain ⟨p, hp, he⟩ := (hg j hj).noExtra r hrj
    exact ⟨p, (List.mem_filter.mp hp).1, he⟩
  · rw [List.Nodup, List.pairwise_map, List.flatMap_def, List.pairwise_flatten]
    constructor
    · intro l hl
      obtain ⟨j, hj, rfl⟩ := List.mem_map.mp hl
      have := (hg j hj).nodup
      rwa [List.Nodup, List.pairwise_map] at this
    · rw [List.pairwise_map]
      have hn' : js.Pairwise (· ≠ ·) := hn
      exact hn'.imp_of_mem (fun {j j'} hj hj' hne x hx y hy e => by
        apply hne
        rw [← hproj j hj x hx, ← hproj j' hj' y hy, e])
  · intro c
    have h1 : sumDen posts c = wsum (fun p => p.amount.den c) (posts.filter (fun p => decide (cls p ∈ js))) := by
      congr 1
      symm
      apply List.filter_eq_self.mpr
      intro p hp; simpa using hall p hp
    rw [h1, wsum_filter_classes _ cls js hn posts, sumDen, wsum_flatMap]
    congr 1
    apply List.map_congr_left
    intro j hj
    exact (hg j hj).total c
  · intro r hr
    obtain ⟨j, hj, hrj⟩ := List.mem_flatMap.mp hr
    exact (hg j hj).qty r hrj

/-- refine the group key by a component that is constant on the postings and on the rows -/
theorem GroupSums.lift {K J : Type} [DecidableEq K] [DecidableEq J] {g g' : RPost → K} {posts rows : List RPost}
    (h : GroupSums g g' posts rows) (f f' : RPost → J) (j : J)
    (hp : ∀ p ∈ posts, f p = j) (hr : ∀ r ∈ rows, f' r = j) :
    GroupSums (fun p => (f p, g p)) (fun r => (f' r, g' r)) posts rows := by
  refine ⟨?_, ?_, ?_, ?_, h.total, h.qty⟩
  · intro r hr' c
    rw [h.each r hr' c]
    congr 1
    apply List.filter_congr
    intro p hp'
    simp [hp p hp', hr r hr']
  · intro p hp'
    obtain ⟨r, hr', he⟩ := h.covered p hp'
    exact ⟨r, hr', by simp [hp p hp', hr r hr', he]⟩
  · intro r hr'
    obtain ⟨p, hp', he⟩ := h.noExtra r hr'
    exact ⟨p, hp', by simp [hp p hp', hr r hr', he]⟩
  · have := h.nodup
    rw [List.Nodup, List.pairwise_map] at this ⊢
    exact this.imp (fun hne e => hne (by simpa using (Prod.ext_iff.mp e).2))

/-! ### day_of_week_posts -/

/-- rows reported for weekday `i` -/
def dowRowsOf (posts : List RPost) (i : Int) : List RPost :=
  match SubState.empty.addAll (dowBucket i posts) with
  | .ok st => st.report (dayName i ++ "s")
  | .error _ => []

theorem dowDays_eq (posts : List RPost) (is : List Int) (rows : List RPost)
    (h : dowDays posts is = .ok rows) :
    rows = is.flatMap (dowRowsOf posts) ∧
    ∀ i ∈ is, ∃ st, SubState.empty.addAll (dowBucket i posts) = .ok st := by
  induction is generalizing rows with
  | nil => simp only [dowDays, Except.ok.injEq] at h; subst h; simp
  | cons i is ih =>
    simp only [dowDays, bind, Except.bind] at h
    split at h
    · cases h
    · rename_i st hst
      split at h
      · cases h
      · rename_i rest hrest
        simp only [pure, Except.pure, Except.ok.injEq] at h
        obtain ⟨h1, h2⟩ := ih rest hrest
        subst h
        constructor
        · simp only [List.flatMap_cons, dowRowsOf, hst, h1]
        · intro j hj
          rcases List.mem_cons.mp hj with rfl | hj
          · exact ⟨st, hst⟩
          · exact h2 j hj

theorem weekday_mem (n : Int) : Cal.weekday n ∈ [(0 : Int), 1, 2, 3, 4, 5, 6] := by
  unfold Cal.weekday
  have h1 : 0 ≤ (n + 4) % 7 := Int.emod_nonneg _ (by omega)
  have h2 : (n + 4) % 7 < 7 := Int.emod_lt_of_pos _ (by omega)
  simp only [List.mem_cons, List.not_mem_nil, or_false]
  omega

theorem dow_groups (posts rows : List RPost) (hq : AllQty posts) (h : dow posts = .ok rows) :
    GroupSums (fun p => (Cal.weekday p.date, p.account)) (fun r => (Cal.weekday r.date, r.account)) posts rows := by
  obtain ⟨h1, h2⟩ := dowDays_eq posts _ rows h
  rw [h1]
  apply groupSums_classes _ _ Prod.fst (fun p => Cal.weekday p.date) (fun _ => rfl) posts _ (by decide)
  · intro j hj
    obtain ⟨st, hst⟩ := h2 j hj
    have hb : dowBucket j posts = posts.filter (fun p => decide (Cal.weekday p.date = j)) := rfl
    have hqb : AllQty (dowBucket j posts) := fun p hp => hq p (List.mem_filter.mp hp).1
    obtain ⟨hg, hd⟩ := subState_report (dowBucket j posts) hqb st hst (dayName j ++ "s")
    simp only [dowRowsOf, hst]
    rw [← hb]
    apply hg.lift (fun p => Cal.weekday p.date) (fun r => Cal.weekday r.date) j
    · intro p hp; simpa [dowBucket] using (List.mem_filter.mp hp).2
    · intro r hr
      obtain ⟨p, hp, _⟩ := hg.noExtra r hr
      have hne : dowBucket j posts ≠ [] := List.ne_nil_of_mem hp
      obtain ⟨q, hq', hqd⟩ := minDate_mem _ hne
      rw [(hd r hr).2, ← hqd]
      simpa [dowBucket] using (List.mem_filter.mp hq').2
  · intro p _; exact weekday_mem p.date

/-! ### by_payee_posts -/

theorem addAll_cons_ok (st : SubState) (p : RPost) (ps : List RPost) (st1 : SubState) (h : st.add p = .ok st1) :
    st.addAll (p :: ps) = st1.addAll ps := by
  simp [SubState.addAll, h, bind, Except.bind]

theorem byPayeeAll_spec (ps : List RPost) (m m' : AMap SubState) (hn : (AMap.keys m).Nodup)
    (h : byPayeeAll m ps = .ok m') :
    (AMap.keys m').Nodup ∧
    (∀ k, k ∈ AMap.keys m' ↔ k ∈ AMap.keys m ∨ ∃ p ∈ ps, p.payee = k) ∧
    (∀ k, ((m.get? k).getD SubState.empty).addAll (ps.filter (fun p => p.payee = k)) =
            .ok ((m'.get? k).getD SubState.empty)) := by
  induction ps generalizing m with
  | nil =>
    simp only [byPayeeAll, Except.ok.injEq] at h; subst h
    exact ⟨hn, by simp, fun k => rfl⟩
  | cons p ps ih =>
    simp only [byPayeeAll, bind, Except.bind] at h
    split at h
    · cases h
    · rename_i m1 hm1
      simp only [byPayeeAdd] at hm1
      split at hm1
      · rename_i st1 hst1
        simp only [Except.ok.injEq] at hm1
        have hst1' : ((m.get? p.payee).getD SubState.empty).add p = .ok st1 := by
          cases hg : m.get? p.payee <;> simp [hg] at hst1 ⊢ <;> exact hst1
        have hn1 : (AMap.keys m1).Nodup := by rw [← hm1]; exact AMap.keys_upd_nodup m _ _ hn
        obtain ⟨i1, i2, i3⟩ := ih m1 hn1 h
        refine ⟨i1, ?_, ?_⟩
        · intro k
          rw [i2 k, ← hm1, AMap.mem_keys_upd]
          constructor
          · rintro ((e | e) | ⟨q, hq, e⟩)
            · exact Or.inr ⟨p, by simp, e.symm⟩
            · exact Or.inl e
            · exact Or.inr ⟨q, by simp [hq], e⟩
          · rintro (e | ⟨q, hq, e⟩)
            · exact Or.inl (Or.inr e)
            · rcases List.mem_cons.mp hq with rfl | hq
              · exact Or.inl (Or.inl e.symm)
              · exact Or.inr ⟨q, hq, e⟩
        · intro k
          rw [← i3 k]
          by_cases hk : p.payee = k
          · subst hk
            simp only [List.filter_cons, decide_true, if_true]
            rw [addAll_cons_ok _ p _ st1 hst1', ← hm1, AMap.get?_upd_same]
            rfl
          · have hk' : k ≠ p.payee := fun e => hk e.symm
            simp only [List.filter_cons, hk, decide_false, Bool.false_eq_true, if_false]
            rw [← hm1, AMap.get?_upd_other m p.payee k _ hk']
      · cases hm1

theorem flatMap_keys {V : Type} (m : AMap V) (hn : (AMap.keys m).Nodup) (f : String × V → List RPost) (d : V) :
    m.flatMap f = (AMap.keys m).flatMap (fun k => f (k, (m.get? k).getD d)) := by
  have : ∀ e ∈ m, f e = f (e.1, (m.get? e.1).getD d) := by
    intro e he
    have := AMap.mem_get? hn (k := e.1) (v := e.2) he
    rw [this]; rfl
  simp only [AMap.keys, List.flatMap_def, List.map_map]
  congr 1
  apply List.map_congr_left
  intro e he
  exact this e he

theorem byPayee_groups (posts rows : List RPost) (hq : AllQty posts) (h : byPayee posts = .ok rows) :
    GroupSums (fun p => (p.payee, p.account)) (fun r => (r.payee, r.account)) posts rows := by
  simp only [byPayee, bind, Except.bind] at h
  split at h
  · cases h
  · rename_i m hm
    simp only [pure, Except.pure, Except.ok.injEq] at h
    subst h
    obtain ⟨hn, hk, hs⟩ := byPayeeAll_spec posts [] m (by simp [AMap.keys]) hm
    rw [flatMap_keys m hn (fun kv => kv.2.report kv.1) SubState.empty]
    apply groupSums_classes _ _ Prod.fst (fun p => p.payee) (fun _ => rfl) posts _ hn
    · intro k _
      have hst := hs k
      simp only [AMap.get?, Option.getD_none] at hst
      have hqf : AllQty (posts.filter (fun p => decide (p.payee = k))) :=
        fun p hp => hq p (List.mem_filter.mp hp).1
      obtain ⟨hg, hd⟩ := subState_report _ hqf _ hst k
      apply hg.lift (fun p => p.payee) (fun r => r.payee) k
      · intro p hp; simpa using (List.mem_filter.mp hp).2
      · intro r hr; exact (hd r hr).1
    · intro p hp
      exact (hk p.payee).mpr (Or.inr ⟨p, hp, rfl⟩)

/-! ### collapse_posts -/

/-- `post->xact` as the model sees it -/
abbrev pxid : RPost → Nat := fun p => p.xid

theorem runs_const (p : RPost) (g : List RPost) (h : ∀ q ∈ g, q.xid = p.xid) : runs pxid (p :: g) = [p :: g] := by
  induction g generalizing p with
  | nil => rfl
  | cons q g ih =>
    have hq : q.xid = p.xid := h q (by simp)
    have := ih q (fun r hr => by rw [h r (by simp [hr]), hq])
    show consRun pxid p (runs pxid (q :: g)) = _
    rw [this]
    simp [consRun, pxid, hq]

theorem goodRuns_nonempty {prev : Option Nat} {gs : List (List RPost)} (h : GoodRuns pxid prev gs) :
    ∀ g ∈ gs, g ≠ [] := by
  induction gs generalizing prev with
  | nil => simp
  | cons g gs ih =>
    obtain ⟨p, g', rfl, _, _, h4⟩ := h
    intro g hg
    rcases List.mem_cons.mp hg with rfl | hg
    · simp
    · exact ih h4 g hg

theorem runs_mem_nonempty (l : List RPost) : ∀ g ∈ runs pxid l, g ≠ [] :=
  goodRuns_nonempty (runs_good pxid l)

theorem runs_mem_subset (l : List RPost) (g : List RPost) (hg : g ∈ runs pxid l) : ∀ p ∈ g, p ∈ l := by
  intro p hp
  rw [← runs_flatten pxid l]
  exact List.mem_flatten.mpr ⟨g, hg, hp⟩

theorem collapseGroup_nil (depth : Nat) (pass : Bool) (σ : AMap Value → AMap Value) :
    collapseGroup depth pass σ [] = [] := rfl

theorem collapse_fold (depth : Nat) (pass : Bool) (σ : AMap Value → AMap Value) (posts : List RPost) :
    ∀ st : CollapseState, (∀ a ∈ st.group, ∀ b ∈ st.group, a.xid = b.xid) →
      (posts.foldl (collapseStep depth pass σ) st).out ++
          collapseGroup depth pass σ (posts.foldl (collapseStep depth pass σ) st).group =
        st.out ++ ((runs pxid (st.group ++ posts)).map (collapseGroup depth pass σ)).flatten := by
  induction posts with
  | nil =>
    intro st hc
    simp only [List.foldl_nil, List.append_nil]
    cases hg : st.group with
    | nil => simp [runs, collapseGroup_nil]
    | cons a g =>
      have := runs_const a g (fun q hq => hc q (by simp [hg, hq]) a (by simp [hg]))
      rw [this]; simp
  | cons p ps ih =>
    intro st hc
    simp only [List.foldl_cons]
    cases hg : st.group with
    | nil =>
      have hstep : collapseStep depth pass σ st p = { st with group := [p] } := by
        simp [collapseStep, hg]
      rw [hstep, ih _ (by simp)]
      simp
    | cons a g =>
      have hne : (a :: g) ≠ [] := by simp
      have hlast : (a :: g).getLast? = some ((a :: g).getLast hne) := List.getLast?_eq_some_getLast hne
      by_cases hx : ((a :: g).getLast hne).xid = p.xid
      · have hstep : collapseStep depth pass σ st p = { st with group := (a :: g) ++ [p] } := by
          simp [collapseStep, hg, hlast, hx]
        rw [hstep, ih _ (by
          intro x hx' y hy'
          have hall : ∀ z ∈ (a :: g) ++ [p], z.xid = p.xid := by
            intro z hz
            rcases List.mem_append.mp hz with hz | hz
            · rw [← hx]; exact hc z (by rw [hg]; exact hz) _ (by rw [hg]; exact List.getLast_mem hne)
            · simp at hz; rw [hz]
          rw [hall x hx', hall y hy'])]
        simp
      · have hstep : collapseStep depth pass σ st p =
            { group := [p], out := st.out ++ collapseGroup depth pass σ (a :: g) } := by
          simp [collapseStep, hg, hlast, hx]
        rw [hstep, ih _ (by simp)]
        have hb : runs pxid ((a :: g) ++ p :: ps) = runs pxid (a :: g) ++ runs pxid (p :: ps) := by
          apply runs_append_boundary
          intro x hx' y hy'
          rw [hlast] at hx'
          simp only [Option.some.injEq] at hx'
          simp only [List.head?_cons, Option.some.injEq] at hy'
          subst hx'; subst hy'
          exact hx
        rw [hb, runs_const a g (fun q hq => hc q (by simp [hg, hq]) a (by simp [hg]))]
        simp

theorem collapse_eq_runs (depth : Nat) (pass : Bool) (σ : AMap Value → AMap Value) (posts : List RPost) :
    collapse depth pass σ posts = ((runs pxid posts).map (collapseGroup depth pass σ)).flatten := by
  have := collapse_fold depth pass σ posts { group := [], out := [] } (by simp)
  simpa [collapse] using this

theorem totalsStep_ok (c : Comm) :
    StepOK (fun v : Value => isQty v = true) (fun p => isQty p.amount = true)
      (fun v => v.den c) (fun p => p.amount.den c) totalsStep := by
  constructor
  · intro p hp
    have h1 : vplus .void p.amount = p.amount := by simp [vplus, Value.add]
    show isQty (totalsStep none p) = true ∧ (totalsStep none p).den c = p.amount.den c
    have h2 : totalsStep none p = p.amount := h1
    rw [h2]
    exact ⟨hp, rfl⟩
  · intro v p hv hp
    simp only [totalsStep, Option.getD_some]
    exact ⟨vplus_isQty _ _ (isAcc_of_isQty hv) hp, vplus_den _ _ (isAcc_of_isQty hv) hp c⟩

theorem sumBy_perm {V : Type} (μ : V → Rat) {a b : AMap V} (h : List.Perm a b) : AMap.sumBy μ a = AMap.sumBy μ b := by
  induction h with
  | nil => rfl
  | cons x _ ih => simp only [AMap.sumBy, ih]
  | swap x y l => simp only [AMap.sumBy]; grind
  | trans _ _ ih1 ih2 => exact ih1.trans ih2

theorem sumDen_map_sumBy' (m : AMap Value) (f : String × Value → RPost)
    (hf : ∀ e, (f e).amount = e.2) (c : Comm) :
    sumDen (m.map f) c = AMap.sumBy (fun v => v.den c) m := by
  induction m with
  | nil => rfl
  | cons e m ih =>
    simp only [List.map_cons, sumDen, wsum, AMap.sumBy, hf] at ih ⊢
    rw [ih]

/-- what collapse_posts reports for one transaction -/
theorem collapseGroup_groups (depth : Nat) (pass : Bool) (σ : AMap Value → AMap Value)
    (hσ : ∀ m, (σ m).Perm m) (g : List RPost) (hq : AllQty g) (hg : g ≠ []) :
    (depth = 0 ∧ pass = true ∧ g.length = 1 ∧ collapseGroup depth pass σ g = g) ∨
    (GroupSums (totalsKey depth) (fun r => r.account) g (collapseGroup depth pass σ g) ∧
      ∀ r ∈ collapseGroup depth pass σ g, r.line = 0 ∧ r.date = minDate g ∧
        ∃ lastp, g.getLast? = some lastp ∧ r.payee = lastp.payee ∧ r.xid = lastp.xid) := by
  have hlast : g.getLast? = some (g.getLast hg) := List.getLast?_eq_some_getLast hg
  by_cases hs : depth = 0 ∧ pass = true ∧ g.length = 1
  · left
    refine ⟨hs.1, hs.2.1, hs.2.2, ?_⟩
    simp only [collapseGroup, hlast, hs, and_self, if_true]
    match g, hs.2.2 with
    | [a], _ => rfl
  · right
    have hrows : collapseGroup depth pass σ g = (σ (totalsOf depth g)).map (fun kv =>
        { line := 0, xid := (g.getLast hg).xid, date := minDate g, payee := (g.getLast hg).payee,
          account := kv.1, virt := false, amount := kv.2 }) := by
      simp only [collapseGroup, hlast]
      rw [if_neg]
      intro h; exact hs ⟨h.1, by simpa using h.2.1, h.2.2⟩
    have hacc : totalsOf depth g = accum (totalsKey depth) totalsStep [] g := rfl
    have key : ∀ c, _ := fun c => accum_spec (totalsStep_ok c) (totalsKey depth) g hq
      ([] : AMap Value) (by simp [AMap.keys]) (by intro k v hk; simp [AMap.get?] at hk)
    rw [← hacc] at key
    have hn := (key "").1
    have hperm := hσ (totalsOf depth g)
    have hmem : ∀ r ∈ collapseGroup depth pass σ g, ∃ kv ∈ totalsOf depth g, r.account = kv.1 ∧ r.amount = kv.2 ∧
        r.line = 0 ∧ r.date = minDate g ∧ r.payee = (g.getLast hg).payee ∧ r.xid = (g.getLast hg).xid := by
      intro r hr
      rw [hrows] at hr
      obtain ⟨kv, hkv, rfl⟩ := List.mem_map.mp hr
      exact ⟨kv, hperm.subset hkv, rfl, rfl, rfl, rfl, rfl, rfl⟩
    refine ⟨⟨?_, ?_, ?_, ?_, ?_, ?_⟩, ?_⟩
    · intro r hr c
      obtain ⟨kv, hkv, ha, hv', _⟩ := hmem r hr
      obtain ⟨_, _, h3, _, _⟩ := key c
      have hgk := AMap.mem_get? hn (k := kv.1) (v := kv.2) hkv
      have := h3 kv.1
      simp only [muAt, hgk, Option.map_some, Option.getD_some, AMap.get?, Option.map_none, Option.getD_none] at this
      rw [hv', ha, this]
      simp only [sumDen]; grind
    · intro p hp'
      have := ((key "").2.2.2.1 (totalsKey depth p)).mpr (Or.inr ⟨p, hp', rfl⟩)
      obtain ⟨kv, hkv, he⟩ := List.mem_map.mp this
      refine ⟨{ line := 0, xid := (g.getLast hg).xid, date := minDate g, payee := (g.getLast hg).payee,
                account := kv.1, virt := false, amount := kv.2 }, ?_, he⟩
      rw [hrows]; exact List.mem_map.mpr ⟨kv, hperm.symm.subset hkv, rfl⟩
    · intro r hr
      obtain ⟨kv, hkv, ha, _⟩ := hmem r hr
      have hk : kv.1 ∈ AMap.keys (totalsOf depth g) := List.mem_map.mpr ⟨kv, hkv, rfl⟩
      rcases ((key "").2.2.2.1 kv.1).mp hk with h0 | ⟨p, hp', he⟩
      · simp [AMap.keys] at h0
      · exact ⟨p, hp', by rw [ha]; exact he⟩
    · rw [hrows, List.map_map]
      have : (List.map ((fun r : RPost => r.account) ∘ fun kv : String × Value =>
          ({ line := 0, xid := (g.getLast hg).xid, date := minDate g, payee := (g.getLast hg).payee,
             account := kv.1, virt := false, amount := kv.2 } : RPost)) (σ (totalsOf depth g))) =
          AMap.keys (σ (totalsOf depth g)) := rfl
      rw [this]
      exact (List.Perm.map _ hperm).nodup_iff.mpr hn
    · intro c
      obtain ⟨_, _, _, _, h5⟩ := key c
      rw [hrows, sumDen_map_sumBy' _ _ (fun _ => rfl), sumBy_perm _ hperm, h5]
      simp only [AMap.sumBy, sumDen]; grind
    · intro r hr
      obtain ⟨kv, hkv, _, hv', _⟩ := hmem r hr
      have hgk := AMap.mem_get? hn (k := kv.1) (v := kv.2) hkv
      rw [hv']
      exact (key "").2.1 kv.1 kv.2 hgk
    · intro r hr
      obtain ⟨_, _, _, _, h1, h2, h3, h4⟩ := hmem r hr
      exact ⟨h1, h2, _, hlast, h3, h4⟩

theorem collapse_total (depth : Nat) (pass : Bool) (σ : AMap Value → AMap Value)
    (hσ : ∀ m, (σ m).Perm m) (posts : List RPost) (hq : AllQty posts) (c : Comm) :
    sumDen (collapse depth pass σ posts) c = sumDen posts c ∧ AllQty (collapse depth pass σ posts) := by
  rw [collapse_eq_runs]
  have hsub : ∀ g ∈ runs pxid posts, AllQty g ∧ g ≠ [] :=
    fun g hg => ⟨fun p hp => hq p (runs_mem_subset posts g hg p hp), runs_mem_nonempty posts g hg⟩
  have heach : ∀ g ∈ runs pxid posts, sumDen (collapseGroup depth pass σ g) c = sumDen g c ∧
      AllQty (collapseGroup depth pass σ g) := by
    intro g hg
    rcases collapseGroup_groups depth pass σ hσ g (hsub g hg).1 (hsub g hg).2 with ⟨_, _, _, h1⟩ | ⟨h1, _⟩
    · rw [h1]; exact ⟨rfl, (hsub g hg).1⟩
    · exact ⟨h1.total c, h1.qty⟩
  constructor
  · conv => rhs; rw [← runs_flatten pxid posts]
    simp only [sumDen, wsum_flatten, List.map_map]
    congr 1
    apply List.map_congr_left
    intro g hg
    exact (heach g hg).1
  · intro r hr
    obtain ⟨l, hl, hrl⟩ := List.mem_flatten.mp hr
    obtain ⟨g, hg, rfl⟩ := List.mem_map.mp hl
    exact (heach g hg).2 r hrl

/-! ### in the plain register the runs are the transactions -/

theorem xactPosts_xid (f : Filter) (x : Xact) : ∀ p ∈ xactPosts f x, p.xid = x.line := by
  intro p hp
  simp only [xactPosts, List.mem_filterMap] at hp
  obtain ⟨q, _, hq⟩ := hp
  split at hq
  · split at hq
    · cases hq; rfl
    · cases hq
  · cases hq

theorem plainPosts_xid (f : Filter) (xs : List Xact) :
    ∀ p ∈ xs.flatMap (xactPosts f), ∃ x ∈ xs, p.xid = x.line := by
  intro p hp
  obtain ⟨x, hx, hpx⟩ := List.mem_flatMap.mp hp
  exact ⟨x, hx, xactPosts_xid f x p hpx⟩

theorem plain_runs_aux (f : Filter) (xs : List Xact) (hd : xs.Pairwise (fun a b => a.line ≠ b.line)) :
    runs pxid (xs.flatMap (xactPosts f)) = (xs.map (xactPosts f)).filter (fun g => !g.isEmpty) := by
  induction xs with
  | nil => rfl
  | cons x xs ih =>
    have hd' := List.pairwise_cons.mp hd
    simp only [List.flatMap_cons, List.map_cons, List.filter_cons]
    cases hg : xactPosts f x with
    | nil => simp [ih hd'.2]
    | cons a g =>
      have hxid := xactPosts_xid f x
      rw [hg] at hxid
      have hb : runs pxid ((a :: g) ++ xs.flatMap (xactPosts f)) =
          runs pxid (a :: g) ++ runs pxid (xs.flatMap (xactPosts f)) := by
        apply runs_append_boundary
        intro u hu v hv
        have hu' : u ∈ a :: g := List.mem_of_getLast? hu
        have hv' : v ∈ xs.flatMap (xactPosts f) := List.mem_of_head? hv
        obtain ⟨y, hy, hvy⟩ := plainPosts_xid f xs v hv'
        show u.xid ≠ v.xid
        rw [hxid u hu', hvy]
        exact hd'.1 y hy
      rw [hb, ih hd'.2, runs_const a g (fun q hq => by rw [hxid q (by simp [hq]), hxid a (by simp)])]
      simp

/-! ### a sample used by the non-vacuity examples of Props/C17 -/

/-- three transactions, two commodities, ties on date and payee -/
def sample : List RPost :=
  let mk (line xid : Nat) (d : Int) (payee acct : String) (q : Rat) (comm : String) : RPost :=
    { line := line, xid := xid, date := d, payee := payee, account := acct, virt := false,
      amount := .amt { q := q, prec := 2, keep := false, comm := comm } }
  [mk 2 1 18263 "b" "Expenses:Food" 10 "$", mk 3 1 18263 "b" "Assets:Cash" (-10) "$",
   mk 6 5 18262 "a" "Expenses:Food" 5 "EUR", mk 7 5 18262 "a" "Expenses:Rent" 7 "$",
   mk 8 5 18262 "a" "Assets:Cash" (-5) "EUR", mk 9 5 18262 "a" "Assets:Cash" (-7) "$",
   mk 12 11 18263 "a" "Expenses:Food" 10 "$", mk 13 11 18263 "a" "Assets:Bank:Checking" (-10) "$"]

theorem sample_allQty : AllQty sample := by
  intro p hp
  simp only [sample, List.mem_cons, List.not_mem_nil, or_false] at hp
  rcases hp with rfl | rfl | rfl | rfl | rfl | rfl | rfl | rfl <;> rfl

end Regroup
end Ledger
