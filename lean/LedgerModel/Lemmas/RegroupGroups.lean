/-
Helper lemmas behind Props/C17: what subtotal_posts, by_payee_posts,
day_of_week_posts and collapse_posts emit, as "group sums" of their input, for
any valuation of the postings, and how such stages compose.
-/
import LedgerModel.Lemmas.RegroupSums
import LedgerModel.Lemmas.RegroupRuns

namespace Ledger
namespace Regroup

open List

/-- `rows` replaces the groups of `posts` (postings with equal `grp`) by their
    exact per-commodity sums: one row per group (`rowKey` names the group a row
    stands for), every group present, nothing else, and the totals agree.
    `vin` is the value a posting contributes, `vout` the value a row carries. -/
structure GroupSums {K : Type} [DecidableEq K] (vin vout : RPost → Value) (grp rowKey : RPost → K)
    (posts rows : List RPost) : Prop where
  each : ∀ r ∈ rows, ∀ c, (vout r).den c = sumDenBy vin (posts.filter (fun p => grp p = rowKey r)) c
  covered : ∀ p ∈ posts, ∃ r ∈ rows, rowKey r = grp p
  noExtra : ∀ r ∈ rows, ∃ p ∈ posts, grp p = rowKey r
  nodup : (rows.map rowKey).Nodup
  total : ∀ c, sumDenBy vout rows c = sumDenBy vin posts c
  qty : ∀ r ∈ rows, isQty (vout r) = true

theorem sumDenBy_congr {v v' : RPost → Value} {ps : List RPost} (h : ∀ p ∈ ps, v p = v' p) (c : Comm) :
    sumDenBy v ps c = sumDenBy v' ps c := by
  induction ps with
  | nil => rfl
  | cons p ps ih =>
    simp only [sumDenBy, wsum] at ih ⊢
    rw [h p (by simp), ih (fun q hq => h q (by simp [hq]))]

theorem GroupSums.congr_vin {K : Type} [DecidableEq K] {vin vin' vout : RPost → Value} {grp rowKey : RPost → K}
    {posts rows : List RPost} (h : GroupSums vin vout grp rowKey posts rows) (he : ∀ p ∈ posts, vin p = vin' p) :
    GroupSums vin' vout grp rowKey posts rows :=
  ⟨fun r hr c => by
      rw [h.each r hr c]
      exact sumDenBy_congr (fun p hp => he p (List.mem_filter.mp hp).1) c,
   h.covered, h.noExtra, h.nodup, fun c => by rw [h.total c]; exact sumDenBy_congr he c, h.qty⟩

theorem GroupSums.congr_vout {K : Type} [DecidableEq K] {vin vout vout' : RPost → Value} {grp rowKey : RPost → K}
    {posts rows : List RPost} (h : GroupSums vin vout grp rowKey posts rows) (he : ∀ r ∈ rows, vout r = vout' r) :
    GroupSums vin vout' grp rowKey posts rows :=
  ⟨fun r hr c => by rw [← he r hr]; exact h.each r hr c,
   h.covered, h.noExtra, h.nodup, fun c => by rw [← h.total c]; exact (sumDenBy_congr he c).symm,
   fun r hr => by rw [← he r hr]; exact h.qty r hr⟩

/-! ### subtotal_posts -/

/-- what subtotal_posts adds for a posting (`post.amount`; 0 stands for a null amount) -/
def rawAmt (p : RPost) : Value := (subAmt p).getD (.int 0)

/-- every `post.amount` is a proper quantity: no posting is a compound (multi-commodity) one -/
def GoodAmts (ps : List RPost) : Prop := ∀ p ∈ ps, ∃ v, subAmt p = some v ∧ isQty v = true

/-- decidable form of the first half of `GoodAmts` -/
def noCompound (ps : List RPost) : Bool := ps.all (fun p => (subAmt p).isSome)

theorem subAmtWith_some (rc : Bool) {p : RPost} {v : Value} (h : subAmtWith rc p = some v) : p.amount = v := by
  unfold subAmtWith at h
  cases rc with
  | true => simpa using h
  | false =>
    simp only [Bool.false_eq_true, if_false] at h
    split at h <;> simp_all

/-- a journal posting's single amount is read the same way under either shape of the source -/
theorem subAmt_amt {p : RPost} {a : Amount} (h : p.amount = .amt a) : subAmt p = some (.amt a) := by
  unfold subAmt subAmtWith
  cases Gen.Regroup.subtotalReadsCompound <;> simp [h]

theorem subAmt_some {p : RPost} {v : Value} (h : subAmt p = some v) : p.amount = v :=
  subAmtWith_some _ h

/-- when subtotal_posts reads the compound value, every posting has a readable amount -/
theorem noCompound_of_flag (hf : Gen.Regroup.subtotalReadsCompound = true) (ps : List RPost) :
    noCompound ps = true := by
  apply List.all_eq_true.mpr
  intro p _
  simp [subAmt, subAmtWith, hf]

theorem rawAmt_eq_amount {p : RPost} {v : Value} (h : subAmt p = some v) : rawAmt p = p.amount := by
  rw [subAmt_some h]; simp [rawAmt, h]

theorem addAll_accum (ps : List RPost) (st st' : SubState) (h : st.addAll ps = .ok st') :
    st'.values = accum (fun p => p.account) acctStep st.values ps ∧ st'.posts = st.posts ++ ps := by
  induction ps generalizing st with
  | nil => simp only [SubState.addAll] at h; cases h; simp [accum]
  | cons p ps ih =>
    simp only [SubState.addAll, SubState.add] at h
    split at h
    · simp [bind, Except.bind] at h
    · split at h
      · simp [bind, Except.bind] at h
      · simp only [bind, Except.bind] at h
        have := ih _ h
        simp only [accum, List.foldl_cons] at this ⊢
        exact ⟨this.1, by rw [this.2]; simp⟩

theorem den_int_zero (c : Comm) : (Value.int 0).den c = 0 := by
  simp [Value.den]

theorem den_bal_nil (c : Comm) : (Value.bal []).den c = 0 := rfl

theorem acctStep_ok (c : Comm) :
    StepOK (fun av : AcctVal => isQty av.value = true ∧ (av.null = true → av.value = .int 0))
      (fun p => ∃ v, subAmt p = some v ∧ isQty v = true)
      (fun av => av.value.den c) (fun p => (rawAmt p).den c) acctStep := by
  constructor
  · intro p ⟨v, hv, hq⟩
    have h1 : acctStep none p = { value := v, virt := p.virt, null := false } := by
      simp [acctStep, hv]
    have h2 : rawAmt p = v := by simp [rawAmt, hv]
    rw [h1, h2]
    exact ⟨⟨hq, by simp⟩, rfl⟩
  · intro av p ⟨hv, hn⟩ ⟨v, hpv, hq⟩
    have h2 : rawAmt p = v := by simp [rawAmt, hpv]
    rw [h2]
    by_cases hnull : av.null = true
    · have h1 : acctStep (some av) p = { av with value := vplus (.bal []) v, null := false } := by
        simp [acctStep, hpv, hnull]
      rw [h1]
      refine ⟨⟨vplus_isQty _ _ rfl hq, by simp⟩, ?_⟩
      show (vplus (.bal []) v).den c = av.value.den c + v.den c
      rw [vplus_den _ _ rfl hq c, hn hnull, den_bal_nil, den_int_zero]
    · have h1 : acctStep (some av) p = { av with value := vplus av.value v } := by
        simp [acctStep, hpv, hnull]
      rw [h1]
      exact ⟨⟨vplus_isQty _ _ (isAcc_of_isQty hv) hq, fun h => absurd h hnull⟩,
             vplus_den _ _ (isAcc_of_isQty hv) hq c⟩

theorem sumDen_map_sumBy {V : Type} (m : AMap V) (f : String × V → RPost) (μ : V → Rat) (c : Comm)
    (hf : ∀ e, ((f e).value).den c = μ e.2) :
    sumDen (m.map f) c = AMap.sumBy μ m := by
  induction m with
  | nil => rfl
  | cons e m ih =>
    simp only [List.map_cons, sumDen, sumDenBy, wsum, AMap.sumBy, hf] at ih ⊢
    rw [ih]

theorem minDate_mem (ps : List RPost) (h : ps ≠ []) : ∃ p ∈ ps, p.date = minDate ps := by
  induction ps with
  | nil => exact absurd rfl h
  | cons p ps ih =>
    cases ps with
    | nil => exact ⟨p, by simp, rfl⟩
    | cons q qs =>
      obtain ⟨r, hr, he⟩ := ih (by simp)
      simp only [minDate]
      by_cases hle : p.date ≤ minDate (q :: qs)
      · exact ⟨p, by simp, by omega⟩
      · exact ⟨r, by simp [hr], by omega⟩

/-- the shape of the rows one subtotal_posts object reports -/
structure Generated (title : String) (xid : Nat) (date : Int) (r : RPost) : Prop where
  payee : r.payee = title
  xid : r.xid = xid
  date : r.date = date
  same : r.amount = r.value
  line : r.line = 0

/-- what one subtotal_posts object reports after being fed `ps` -/
theorem subState_report (ps : List RPost) (hq : GoodAmts ps) (st : SubState)
    (h : SubState.empty.addAll ps = .ok st) (title : String) (xid : Nat) (hasReal : String → Bool) :
    GroupSums rawAmt (fun r => r.value) (fun p => p.account) (fun r => r.account) ps (st.report title xid hasReal) ∧
    (∀ r ∈ st.report title xid hasReal, Generated title xid (minDate ps) r) := by
  obtain ⟨hv, hp⟩ := addAll_accum ps _ _ h
  simp only [SubState.empty, List.nil_append] at hv hp
  cases ps with
  | nil =>
    simp only [SubState.report, hp, List.isEmpty_nil, if_true]
    exact ⟨⟨by simp, by simp, by simp, by simp, fun c => rfl, by simp⟩, by simp⟩
  | cons p0 ps0 =>
    have hrep : st.report title xid hasReal = st.values.map (fun kv =>
        { line := 0, xid := xid, date := minDate st.posts, payee := title, account := kv.1,
          virt := !hasReal kv.1, amount := kv.2.value, value := kv.2.value, vdate := maxDate st.posts }) := by
      simp [SubState.report, hp]
    have key : ∀ c, _ := fun c => accum_spec (acctStep_ok c) (fun p => p.account) (p0 :: ps0) hq
      ([] : AMap AcctVal) (by simp [AMap.keys]) (by intro k v hk; simp [AMap.get?] at hk)
    rw [← hv] at key
    have hn := (key "").1
    have hmem : ∀ r ∈ st.report title xid hasReal, ∃ kv ∈ st.values, r.account = kv.1 ∧ r.value = kv.2.value ∧
        Generated title xid (minDate (p0 :: ps0)) r := by
      intro r hr
      rw [hrep] at hr
      obtain ⟨kv, hkv, rfl⟩ := List.mem_map.mp hr
      exact ⟨kv, hkv, rfl, rfl, ⟨rfl, rfl, by rw [hp], rfl, rfl⟩⟩
    refine ⟨⟨?_, ?_, ?_, ?_, ?_, ?_⟩, ?_⟩
    · intro r hr c
      obtain ⟨kv, hkv, ha, hv', _⟩ := hmem r hr
      obtain ⟨_, _, h3, _, _⟩ := key c
      have hg := AMap.mem_get? hn (k := kv.1) (v := kv.2) hkv
      have := h3 kv.1
      simp only [muAt, hg, Option.map_some, Option.getD_some, AMap.get?, Option.map_none, Option.getD_none] at this
      show r.value.den c = _
      rw [hv', ha, this]
      simp only [sumDenBy]; grind
    · intro p hp'
      have := ((key "").2.2.2.1 p.account).mpr (Or.inr ⟨p, hp', rfl⟩)
      obtain ⟨kv, hkv, he⟩ := List.mem_map.mp this
      refine ⟨{ line := 0, xid := xid, date := minDate st.posts, payee := title, account := kv.1,
                virt := !hasReal kv.1, amount := kv.2.value, value := kv.2.value, vdate := maxDate st.posts }, ?_, he⟩
      rw [hrep]; exact List.mem_map.mpr ⟨kv, hkv, rfl⟩
    · intro r hr
      obtain ⟨kv, hkv, ha, _, _⟩ := hmem r hr
      have hk : kv.1 ∈ AMap.keys st.values := List.mem_map.mpr ⟨kv, hkv, rfl⟩
      rcases ((key "").2.2.2.1 kv.1).mp hk with h0 | ⟨p, hp', he⟩
      · simp [AMap.keys] at h0
      · exact ⟨p, hp', by rw [ha]; exact he⟩
    · rw [hrep, List.map_map]
      exact hn
    · intro c
      obtain ⟨_, _, _, _, h5⟩ := key c
      show sumDen _ c = _
      rw [hrep, sumDen_map_sumBy _ _ (fun av => av.value.den c) c (fun _ => rfl), h5]
      simp only [AMap.sumBy, sumDenBy]; grind
    · intro r hr
      obtain ⟨kv, hkv, _, hv', _⟩ := hmem r hr
      have hg := AMap.mem_get? hn (k := kv.1) (v := kv.2) hkv
      show isQty r.value = true
      rw [hv']
      exact ((key "").2.1 kv.1 kv.2 hg).1
    · intro r hr
      obtain ⟨_, _, _, _, hgen⟩ := hmem r hr
      exact hgen

theorem subtotal_groups (posts rows : List RPost) (hq : GoodAmts posts) (h : subtotal posts = .ok rows) :
    GroupSums rawAmt (fun r => r.value) (fun p => p.account) (fun r => r.account) posts rows ∧
    ∀ r ∈ rows, r.xid = 0 ∧ r.amount = r.value := by
  simp only [subtotal, bind, Except.bind] at h
  split at h
  · cases h
  · rename_i st hst
    simp only [pure, Except.pure, Except.ok.injEq] at h
    subst h
    have := subState_report posts hq st hst ("- " ++ fmtPrinted (maxDate st.posts)) 0 (hasRealIn posts)
    exact ⟨this.1, fun r hr => ⟨(this.2 r hr).xid, (this.2 r hr).same⟩⟩

/-! ### putting classes of groups side by side -/

def lsum : List Rat → Rat
  | [] => 0
  | x :: xs => x + lsum xs

theorem wsum_flatMap {J : Type} (w : RPost → Rat) (js : List J) (f : J → List RPost) :
    wsum w (js.flatMap f) = lsum (js.map (fun j => wsum w (f j))) := by
  induction js with
  | nil => rfl
  | cons j js ih => simp only [List.flatMap_cons, wsum_append, ih, List.map_cons, lsum]

theorem wsum_filter_classes {J : Type} [DecidableEq J] (w : RPost → Rat) (cls : RPost → J) (js : List J)
    (hn : js.Nodup) (posts : List RPost) :
    wsum w (posts.filter (fun p => decide (cls p ∈ js))) =
      lsum (js.map (fun j => wsum w (posts.filter (fun p => cls p = j)))) := by
  induction js with
  | nil =>
    have : posts.filter (fun p => decide (cls p ∈ ([] : List J))) = [] := by
      apply List.filter_eq_nil_iff.mpr; simp
    rw [this]; rfl
  | cons j js ih =>
    have hj : j ∉ js := (List.nodup_cons.mp hn).1
    simp only [List.map_cons, lsum]
    rw [← ih (List.nodup_cons.mp hn).2]
    rw [wsum_filter_split w (fun p => decide (cls p = j)) (posts.filter (fun p => decide (cls p ∈ j :: js)))]
    simp only [List.filter_filter]
    congr 1
    · congr 1
      apply List.filter_congr
      intro p _
      by_cases h : cls p = j <;> simp [h]
    · congr 1
      apply List.filter_congr
      intro p _
      by_cases h : cls p = j
      · simp [h, hj]
      · simp [h]

/-- group sums of the classes `js` of a partition `cls`, reported class by class -/
theorem groupSums_classes {K J : Type} [DecidableEq K] [DecidableEq J] (vin vout : RPost → Value)
    (grp rowKey : RPost → K) (proj : K → J) (cls : RPost → J) (hcls : ∀ p, proj (grp p) = cls p)
    (posts : List RPost) (js : List J) (hn : js.Nodup) (rowsOf : J → List RPost)
    (hg : ∀ j ∈ js, GroupSums vin vout grp rowKey (posts.filter (fun p => cls p = j)) (rowsOf j))
    (hall : ∀ p ∈ posts, cls p ∈ js) :
    GroupSums vin vout grp rowKey posts (js.flatMap rowsOf) := by
  have hproj : ∀ j ∈ js, ∀ r ∈ rowsOf j, proj (rowKey r) = j := by
    intro j hj r hr
    obtain ⟨p, hp, he⟩ := (hg j hj).noExtra r hr
    rw [← he, hcls]
    simpa using (List.mem_filter.mp hp).2
  refine ⟨?_, ?_, ?_, ?_, ?_, ?_⟩
  · intro r hr c
    obtain ⟨j, hj, hrj⟩ := List.mem_flatMap.mp hr
    rw [(hg j hj).each r hrj c, List.filter_filter]
    congr 1
    apply List.filter_congr
    intro p _
    by_cases h : grp p = rowKey r
    · have : cls p = j := by rw [← hcls, h]; exact hproj j hj r hrj
      simp [h, this]
    · simp [h]
  · intro p hp
    have hj := hall p hp
    obtain ⟨r, hr, he⟩ := (hg (cls p) hj).covered p (List.mem_filter.mpr ⟨hp, by simp⟩)
    exact ⟨r, List.mem_flatMap.mpr ⟨cls p, hj, hr⟩, he⟩
  · intro r hr
    obtain ⟨j, hj, hrj⟩ := List.mem_flatMap.mp hr
    obtain ⟨p, hp, he⟩ := (hg j hj).noExtra r hrj
    exact ⟨p, (List.mem_filter.mp hp).1, he⟩
  · rw [List.Nodup, List.pairwise_map, List.flatMap_def, List.pairwise_flatten]
    constructor
    · intro l hl
      obtain ⟨j, hj, rfl⟩ := List.mem_map.mp hl
      have := (hg j hj).nodup
      rwa [List.Nodup, List.pairwise_map] at this
    · rw [List.pairwise_map]
      have hn' : js.Pairwise (· ≠ ·) := hn
      exact hn'.imp_of_mem (fun {j j'} hj hj' hne x hx y hy e => by
        apply hne
        rw [← hproj j hj x hx, ← hproj j' hj' y hy, e])
  · intro c
    have h1 : sumDenBy vin posts c = wsum (fun p => (vin p).den c) (posts.filter (fun p => decide (cls p ∈ js))) := by
      unfold sumDenBy
      congr 1
      symm
      apply List.filter_eq_self.mpr
      intro p hp; simpa using hall p hp
    rw [h1, wsum_filter_classes _ cls js hn posts, sumDenBy, wsum_flatMap]
    congr 1
    apply List.map_congr_left
    intro j hj
    exact (hg j hj).total c
  · intro r hr
    obtain ⟨j, hj, hrj⟩ := List.mem_flatMap.mp hr
    exact (hg j hj).qty r hrj

/-- refine the group key by a component that is constant on the postings and on the rows -/
theorem GroupSums.lift {K J : Type} [DecidableEq K] [DecidableEq J] {vin vout : RPost → Value} {g g' : RPost → K}
    {posts rows : List RPost} (h : GroupSums vin vout g g' posts rows) (f f' : RPost → J) (j : J)
    (hp : ∀ p ∈ posts, f p = j) (hr : ∀ r ∈ rows, f' r = j) :
    GroupSums vin vout (fun p => (f p, g p)) (fun r => (f' r, g' r)) posts rows := by
  refine ⟨?_, ?_, ?_, ?_, h.total, h.qty⟩
  · intro r hr' c
    rw [h.each r hr' c]
    congr 1
    apply List.filter_congr
    intro p hp'
    simp [hp p hp', hr r hr']
  · intro p hp'
    obtain ⟨r, hr', he⟩ := h.covered p hp'
    exact ⟨r, hr', by simp [hp p hp', hr r hr', he]⟩
  · intro r hr'
    obtain ⟨p, hp', he⟩ := h.noExtra r hr'
    exact ⟨p, hp', by simp [hp p hp', hr r hr', he]⟩
  · have := h.nodup
    rw [List.Nodup, List.pairwise_map] at this ⊢
    exact this.imp (fun hne e => hne (by simpa using (Prod.ext_iff.mp e).2))

/-- Two regrouping stages in a row: when the second stage's key is a function `f`
    of the group a first-stage row stands for, the result is the regrouping of
    the original postings by `f ∘ grp`. -/
theorem GroupSums.comp {K1 K2 : Type} [DecidableEq K1] [DecidableEq K2] {v0 v1 v2 : RPost → Value}
    {k1 rk1 : RPost → K1} {k2 rk2 : RPost → K2} {posts rows1 rows2 : List RPost}
    (G1 : GroupSums v0 v1 k1 rk1 posts rows1) (G2 : GroupSums v1 v2 k2 rk2 rows1 rows2)
    (f : K1 → K2) (hf : ∀ r ∈ rows1, k2 r = f (rk1 r)) :
    GroupSums v0 v2 (fun p => f (k1 p)) rk2 posts rows2 := by
  refine ⟨?_, ?_, ?_, G2.nodup, fun c => (G2.total c).trans (G1.total c), G2.qty⟩
  · intro r2 hr2 c
    rw [G2.each r2 hr2 c]
    -- S: the first-stage rows that go into r2
    let S := rows1.filter (fun r1 => k2 r1 = rk2 r2)
    let P := posts.filter (fun p => f (k1 p) = rk2 r2)
    have hSn : (S.map rk1).Nodup := (G1.nodup.sublist ((List.filter_sublist).map rk1))
    have hall : ∀ p ∈ P, k1 p ∈ S.map rk1 := by
      intro p hp
      have hp' := List.mem_filter.mp hp
      obtain ⟨r1, hr1, he⟩ := G1.covered p hp'.1
      refine List.mem_map.mpr ⟨r1, List.mem_filter.mpr ⟨hr1, ?_⟩, he⟩
      rw [hf r1 hr1, he]; simpa using hp'.2
    have h1 : sumDenBy v0 P c = wsum (fun p => (v0 p).den c) (P.filter (fun p => decide (k1 p ∈ S.map rk1))) := by
      unfold sumDenBy
      congr 1
      symm
      apply List.filter_eq_self.mpr
      intro p hp; simpa using hall p hp
    show sumDenBy v1 S c = sumDenBy v0 P c
    rw [h1, wsum_filter_classes _ k1 (S.map rk1) hSn P, List.map_map]
    unfold sumDenBy
    have : ∀ (l : List RPost), (∀ r1 ∈ l, r1 ∈ S) →
        wsum (fun p => (v1 p).den c) l =
          lsum (l.map ((fun j => wsum (fun p => (v0 p).den c) (P.filter (fun p => k1 p = j))) ∘ rk1)) := by
      intro l hl
      induction l with
      | nil => rfl
      | cons r1 l ih =>
        have hr1S := hl r1 (by simp)
        have hr1 := (List.mem_filter.mp hr1S)
        simp only [wsum, List.map_cons, lsum, Function.comp]
        rw [ih (fun r hr => hl r (by simp [hr])), G1.each r1 hr1.1 c]
        congr 1
        unfold sumDenBy
        congr 1
        simp only [P, List.filter_filter]
        apply List.filter_congr
        intro p _
        by_cases hk : k1 p = rk1 r1
        · have h2 : f (rk1 r1) = rk2 r2 := by
            rw [← hf r1 hr1.1]; simpa using hr1.2
          simp [hk, h2]
        · simp [hk]
    exact this S (fun _ h => h)
  · intro p hp
    obtain ⟨r1, hr1, he1⟩ := G1.covered p hp
    obtain ⟨r2, hr2, he2⟩ := G2.covered r1 hr1
    exact ⟨r2, hr2, by rw [he2, hf r1 hr1, he1]⟩
  · intro r2 hr2
    obtain ⟨r1, hr1, he1⟩ := G2.noExtra r2 hr2
    obtain ⟨p, hp, he⟩ := G1.noExtra r1 hr1
    exact ⟨p, hp, by rw [he, ← hf r1 hr1, he1]⟩

/-! ### day_of_week_posts -/

/-- rows reported for weekday `i` -/
def dowRowsOf (posts : List RPost) (i : Int) : List RPost :=
  match SubState.empty.addAll (dowBucket i posts) with
  | .ok st => st.report (dayName i ++ "s") (i.toNat + 1) (hasRealIn (posts.filter (fun p => Cal.weekday p.date ≤ i)))
  | .error _ => []

theorem dowDays_eq (posts : List RPost) (is : List Int) (rows : List RPost)
    (h : dowDays posts is = .ok rows) :
    rows = is.flatMap (dowRowsOf posts) ∧
    ∀ i ∈ is, ∃ st, SubState.empty.addAll (dowBucket i posts) = .ok st := by
  induction is generalizing rows with
  | nil => simp only [dowDays, Except.ok.injEq] at h; subst h; simp
  | cons i is ih =>
    simp only [dowDays, bind, Except.bind] at h
    split at h
    · cases h
    · rename_i st hst
      split at h
      · cases h
      · rename_i rest hrest
        simp only [pure, Except.pure, Except.ok.injEq] at h
        obtain ⟨h1, h2⟩ := ih rest hrest
        subst h
        constructor
        · simp only [List.flatMap_cons, dowRowsOf, hst, h1]
        · intro j hj
          rcases List.mem_cons.mp hj with rfl | hj
          · exact ⟨st, hst⟩
          · exact h2 j hj

theorem weekday_mem (n : Int) : Cal.weekday n ∈ [(0 : Int), 1, 2, 3, 4, 5, 6] := by
  unfold Cal.weekday
  have h1 : 0 ≤ (n + 4) % 7 := Int.emod_nonneg _ (by omega)
  have h2 : (n + 4) % 7 < 7 := Int.emod_lt_of_pos _ (by omega)
  simp only [List.mem_cons, List.not_mem_nil, or_false]
  omega

theorem goodAmts_filter {ps : List RPost} (h : GoodAmts ps) (q : RPost → Bool) : GoodAmts (ps.filter q) :=
  fun p hp => h p (List.mem_filter.mp hp).1

/-- the rows `--dow` reports for weekday `j`, as group sums of that day's postings -/
theorem dowRowsOf_groups (posts : List RPost) (hq : GoodAmts posts) (j : Int)
    (hst : ∃ st, SubState.empty.addAll (dowBucket j posts) = .ok st) :
    GroupSums rawAmt (fun r => r.value) (fun p => (Cal.weekday p.date, p.account)) (fun r => (Cal.weekday r.date, r.account))
      (posts.filter (fun p => Cal.weekday p.date = j)) (dowRowsOf posts j) ∧
    ∀ r ∈ dowRowsOf posts j, Generated (dayName j ++ "s") (j.toNat + 1) (minDate (dowBucket j posts)) r := by
  obtain ⟨st, hst⟩ := hst
  have hb : dowBucket j posts = posts.filter (fun p => decide (Cal.weekday p.date = j)) := rfl
  obtain ⟨hg, hd⟩ := subState_report (dowBucket j posts) (goodAmts_filter hq _) st hst (dayName j ++ "s") (j.toNat + 1)
    (hasRealIn (posts.filter (fun p => Cal.weekday p.date ≤ j)))
  simp only [dowRowsOf, hst]
  refine ⟨?_, hd⟩
  rw [← hb]
  apply hg.lift (fun p => Cal.weekday p.date) (fun r => Cal.weekday r.date) j
  · intro p hp; simpa [dowBucket] using (List.mem_filter.mp hp).2
  · intro r hr
    obtain ⟨p, hp, _⟩ := hg.noExtra r hr
    have hne : dowBucket j posts ≠ [] := List.ne_nil_of_mem hp
    obtain ⟨q, hq', hqd⟩ := minDate_mem _ hne
    rw [(hd r hr).date, ← hqd]
    simpa [dowBucket] using (List.mem_filter.mp hq').2

theorem dow_groups (posts rows : List RPost) (hq : GoodAmts posts) (h : dow posts = .ok rows) :
    GroupSums rawAmt (fun r => r.value) (fun p => (Cal.weekday p.date, p.account)) (fun r => (Cal.weekday r.date, r.account))
      posts rows := by
  obtain ⟨h1, h2⟩ := dowDays_eq posts _ rows h
  rw [h1]
  apply groupSums_classes _ _ _ _ Prod.fst (fun p => Cal.weekday p.date) (fun _ => rfl) posts _ (by decide)
  · intro j hj; exact (dowRowsOf_groups posts hq j (h2 j hj)).1
  · intro p _; exact weekday_mem p.date

/-! ### by_payee_posts -/

theorem addAll_cons_ok (st : SubState) (p : RPost) (ps : List RPost) (st1 : SubState) (h : st.add p = .ok st1) :
    st.addAll (p :: ps) = st1.addAll ps := by
  simp [SubState.addAll, h, bind, Except.bind]

theorem byPayeeAll_spec (ps : List RPost) (m m' : AMap SubState) (hn : (AMap.keys m).Nodup)
    (h : byPayeeAll m ps = .ok m') :
    (AMap.keys m').Nodup ∧
    (∀ k, k ∈ AMap.keys m' ↔ k ∈ AMap.keys m ∨ ∃ p ∈ ps, p.payee = k) ∧
    (∀ k, ((m.get? k).getD SubState.empty).addAll (ps.filter (fun p => p.payee = k)) =
            .ok ((m'.get? k).getD SubState.empty)) := by
  induction ps generalizing m with
  | nil =>
    simp only [byPayeeAll, Except.ok.injEq] at h; subst h
    exact ⟨hn, by simp, fun k => rfl⟩
  | cons p ps ih =>
    simp only [byPayeeAll, bind, Except.bind] at h
    split at h
    · cases h
    · rename_i m1 hm1
      simp only [byPayeeAdd] at hm1
      split at hm1
      · rename_i st1 hst1
        simp only [Except.ok.injEq] at hm1
        have hst1' : ((m.get? p.payee).getD SubState.empty).add p = .ok st1 := by
          cases hg : m.get? p.payee <;> simp [hg] at hst1 ⊢ <;> exact hst1
        have hn1 : (AMap.keys m1).Nodup := by rw [← hm1]; exact AMap.keys_upd_nodup m _ _ hn
        obtain ⟨i1, i2, i3⟩ := ih m1 hn1 h
        refine ⟨i1, ?_, ?_⟩
        · intro k
          rw [i2 k, ← hm1, AMap.mem_keys_upd]
          constructor
          · rintro ((e | e) | ⟨q, hq, e⟩)
            · exact Or.inr ⟨p, by simp, e.symm⟩
            · exact Or.inl e
            · exact Or.inr ⟨q, by simp [hq], e⟩
          · rintro (e | ⟨q, hq, e⟩)
            · exact Or.inl (Or.inr e)
            · rcases List.mem_cons.mp hq with rfl | hq
              · exact Or.inl (Or.inl e.symm)
              · exact Or.inr ⟨q, hq, e⟩
        · intro k
          rw [← i3 k]
          by_cases hk : p.payee = k
          · subst hk
            simp only [List.filter_cons, decide_true, if_true]
            rw [addAll_cons_ok _ p _ st1 hst1', ← hm1, AMap.get?_upd_same]
            rfl
          · have hk' : k ≠ p.payee := fun e => hk e.symm
            simp only [List.filter_cons, hk, decide_false, Bool.false_eq_true, if_false]
            rw [← hm1, AMap.get?_upd_other m p.payee k _ hk']
      · cases hm1

/-- rows `--by-payee` reports for payee `k` out of the map `m` -/
def payeeRowsOf (posts : List RPost) (m : AMap SubState) (k : String) : List RPost :=
  ((m.get? k).getD SubState.empty).report k ((amapKeys m).idxOf k + 1) (hasRealIn posts)

theorem byPayee_eq (posts rows : List RPost) (h : byPayee posts = .ok rows) :
    ∃ m, byPayeeAll [] posts = .ok m ∧ rows = (AMap.keys m).flatMap (payeeRowsOf posts m) := by
  simp only [byPayee, bind, Except.bind] at h
  split at h
  · cases h
  · rename_i m hm
    simp only [pure, Except.pure, Except.ok.injEq] at h
    exact ⟨m, hm, h.symm⟩

theorem payeeRowsOf_groups (posts : List RPost) (hq : GoodAmts posts) (m : AMap SubState)
    (hm : byPayeeAll [] posts = .ok m) (k : String) :
    GroupSums rawAmt (fun r => r.value) (fun p => (p.payee, p.account)) (fun r => (r.payee, r.account))
      (posts.filter (fun p => p.payee = k)) (payeeRowsOf posts m k) ∧
    ∀ r ∈ payeeRowsOf posts m k,
      Generated k ((amapKeys m).idxOf k + 1) (minDate (posts.filter (fun p => p.payee = k))) r := by
  obtain ⟨_, _, hs⟩ := byPayeeAll_spec posts [] m (by simp [AMap.keys]) hm
  have hst := hs k
  simp only [AMap.get?, Option.getD_none] at hst
  obtain ⟨hg, hd⟩ := subState_report _ (goodAmts_filter hq _) _ hst k ((amapKeys m).idxOf k + 1) (hasRealIn posts)
  refine ⟨?_, hd⟩
  apply hg.lift (fun p => p.payee) (fun r => r.payee) k
  · intro p hp; simpa using (List.mem_filter.mp hp).2
  · intro r hr; exact (hd r hr).payee

theorem byPayee_groups (posts rows : List RPost) (hq : GoodAmts posts) (h : byPayee posts = .ok rows) :
    GroupSums rawAmt (fun r => r.value) (fun p => (p.payee, p.account)) (fun r => (r.payee, r.account)) posts rows := by
  obtain ⟨m, hm, rfl⟩ := byPayee_eq posts rows h
  obtain ⟨hn, hk, _⟩ := byPayeeAll_spec posts [] m (by simp [AMap.keys]) hm
  apply groupSums_classes _ _ _ _ Prod.fst (fun p => p.payee) (fun _ => rfl) posts _ hn
  · intro k _; exact (payeeRowsOf_groups posts hq m hm k).1
  · intro p hp
    exact (hk p.payee).mpr (Or.inr ⟨p, hp, rfl⟩)

/-! ### collapse_posts -/

/-- `post->xact` as the model sees it -/
abbrev pxid : RPost → Nat := fun p => p.xid

theorem runs_const (p : RPost) (g : List RPost) (h : ∀ q ∈ g, q.xid = p.xid) : runs pxid (p :: g) = [p :: g] := by
  induction g generalizing p with
  | nil => rfl
  | cons q g ih =>
    have hq : q.xid = p.xid := h q (by simp)
    have := ih q (fun r hr => by rw [h r (by simp [hr]), hq])
    show consRun pxid p (runs pxid (q :: g)) = _
    rw [this]
    simp [consRun, pxid, hq]

theorem goodRuns_nonempty {prev : Option Nat} {gs : List (List RPost)} (h : GoodRuns pxid prev gs) :
    ∀ g ∈ gs, g ≠ [] := by
  induction gs generalizing prev with
  | nil => simp
  | cons g gs ih =>
    obtain ⟨p, g', rfl, _, _, h4⟩ := h
    intro g hg
    rcases List.mem_cons.mp hg with rfl | hg
    · simp
    · exact ih h4 g hg

theorem runs_mem_nonempty (l : List RPost) : ∀ g ∈ runs pxid l, g ≠ [] :=
  goodRuns_nonempty (runs_good pxid l)

theorem runs_mem_subset (l : List RPost) (g : List RPost) (hg : g ∈ runs pxid l) : ∀ p ∈ g, p ∈ l := by
  intro p hp
  rw [← runs_flatten pxid l]
  exact List.mem_flatten.mpr ⟨g, hg, hp⟩

theorem collapseGroup_nil (depth : Nat) (pass : Bool) (σ : AMap Value → AMap Value) :
    collapseGroup depth pass σ [] = [] := rfl

theorem collapse_fold (depth : Nat) (pass : Bool) (σ : AMap Value → AMap Value) (posts : List RPost) :
    ∀ st : CollapseState, (∀ a ∈ st.group, ∀ b ∈ st.group, a.xid = b.xid) →
      (posts.foldl (collapseStep depth pass σ) st).out ++
          collapseGroup depth pass σ (posts.foldl (collapseStep depth pass σ) st).group =
        st.out ++ ((runs pxid (st.group ++ posts)).map (collapseGroup depth pass σ)).flatten := by
  induction posts with
  | nil =>
    intro st hc
    simp only [List.foldl_nil, List.append_nil]
    cases hg : st.group with
    | nil => simp [runs, collapseGroup_nil]
    | cons a g =>
      have := runs_const a g (fun q hq => hc q (by simp [hg, hq]) a (by simp [hg]))
      rw [this]; simp
  | cons p ps ih =>
    intro st hc
    simp only [List.foldl_cons]
    cases hg : st.group with
    | nil =>
      have hstep : collapseStep depth pass σ st p = { st with group := [p] } := by
        simp [collapseStep, hg]
      rw [hstep, ih _ (by simp)]
      simp
    | cons a g =>
      have hne : (a :: g) ≠ [] := by simp
      have hlast : (a :: g).getLast? = some ((a :: g).getLast hne) := List.getLast?_eq_some_getLast hne
      by_cases hx : ((a :: g).getLast hne).xid = p.xid
      · have hstep : collapseStep depth pass σ st p = { st with group := (a :: g) ++ [p] } := by
          simp [collapseStep, hg, hlast, hx]
        rw [hstep, ih _ (by
          intro x hx' y hy'
          have hall : ∀ z ∈ (a :: g) ++ [p], z.xid = p.xid := by
            intro z hz
            rcases List.mem_append.mp hz with hz | hz
            · rw [← hx]; exact hc z (by rw [hg]; exact hz) _ (by rw [hg]; exact List.getLast_mem hne)
            · simp at hz; rw [hz]
          rw [hall x hx', hall y hy'])]
        simp
      · have hstep : collapseStep depth pass σ st p =
            { group := [p], out := st.out ++ collapseGroup depth pass σ (a :: g) } := by
          simp [collapseStep, hg, hlast, hx]
        rw [hstep, ih _ (by simp)]
        have hb : runs pxid ((a :: g) ++ p :: ps) = runs pxid (a :: g) ++ runs pxid (p :: ps) := by
          apply runs_append_boundary
          intro x hx' y hy'
          rw [hlast] at hx'
          simp only [Option.some.injEq] at hx'
          simp only [List.head?_cons, Option.some.injEq] at hy'
          subst hx'; subst hy'
          exact hx
        rw [hb, runs_const a g (fun q hq => hc q (by simp [hg, hq]) a (by simp [hg]))]
        simp

theorem collapse_eq_runs (depth : Nat) (pass : Bool) (σ : AMap Value → AMap Value) (posts : List RPost) :
    collapse depth pass σ posts = ((runs pxid posts).map (collapseGroup depth pass σ)).flatten := by
  have := collapse_fold depth pass σ posts { group := [], out := [] } (by simp)
  simpa [collapse] using this

theorem castInt_den (v : Value) (c : Comm) : (castInt v).den c = v.den c := by
  cases v <;> simp [castInt, Value.den, Amount.den, Amount.ofInt]

theorem castInt_isQty (v : Value) (h : isQty v = true) : isQty (castInt v) = true := by
  cases v <;> simp_all [castInt, isQty]

theorem totalsStep_ok (c : Comm) :
    StepOK (fun v : Value => isQty v = true) (fun p => isQty p.value = true)
      (fun v => v.den c) (fun p => p.value.den c) totalsStep := by
  constructor
  · intro p hp
    have h1 : vplus .void p.value = p.value := by simp [vplus, Value.add]
    show isQty (totalsStep none p) = true ∧ (totalsStep none p).den c = p.value.den c
    have h2 : totalsStep none p = p.value := h1
    rw [h2]
    exact ⟨hp, rfl⟩
  · intro v p hv hp
    simp only [totalsStep, Option.getD_some]
    exact ⟨vplus_isQty _ _ (isAcc_of_isQty hv) hp, vplus_den _ _ (isAcc_of_isQty hv) hp c⟩

theorem sumBy_perm {V : Type} (μ : V → Rat) {a b : AMap V} (h : List.Perm a b) : AMap.sumBy μ a = AMap.sumBy μ b := by
  induction h with
  | nil => rfl
  | cons x _ ih => simp only [AMap.sumBy, ih]
  | swap x y l => simp only [AMap.sumBy]; grind
  | trans _ _ ih1 ih2 => exact ih1.trans ih2

/-- what collapse_posts reports for one transaction -/
theorem collapseGroup_groups (depth : Nat) (pass : Bool) (σ : AMap Value → AMap Value)
    (hσ : ∀ m, (σ m).Perm m) (g : List RPost) (hq : AllQty g) (hg : g ≠ []) :
    (depth = 0 ∧ pass = true ∧ g.length = 1 ∧ collapseGroup depth pass σ g = g) ∨
    (GroupSums (fun p => p.value) (fun r => r.value) (totalsKey depth) (fun r => r.account) g (collapseGroup depth pass σ g) ∧
      ∀ r ∈ collapseGroup depth pass σ g, r.line = 0 ∧ r.date = minDate g ∧ r.amount = r.value ∧
        ∃ lastp, g.getLast? = some lastp ∧ r.payee = lastp.payee ∧ r.xid = lastp.xid) := by
  have hlast : g.getLast? = some (g.getLast hg) := List.getLast?_eq_some_getLast hg
  by_cases hs : depth = 0 ∧ pass = true ∧ g.length = 1
  · left
    refine ⟨hs.1, hs.2.1, hs.2.2, ?_⟩
    simp only [collapseGroup, hlast, hs, and_self, if_true]
    match g, hs.2.2 with
    | [a], _ => rfl
  · right
    have hrows : collapseGroup depth pass σ g = (σ (totalsOf depth g)).map (fun kv =>
        { line := 0, xid := (g.getLast hg).xid, date := minDate g, payee := (g.getLast hg).payee,
          account := kv.1, virt := false, amount := castInt kv.2, value := castInt kv.2, vdate := maxDate g }) := by
      simp only [collapseGroup, hlast]
      rw [if_neg]
      intro h; exact hs ⟨h.1, by simpa using h.2.1, h.2.2⟩
    have hacc : totalsOf depth g = accum (totalsKey depth) totalsStep [] g := rfl
    have key : ∀ c, _ := fun c => accum_spec (totalsStep_ok c) (totalsKey depth) g hq
      ([] : AMap Value) (by simp [AMap.keys]) (by intro k v hk; simp [AMap.get?] at hk)
    rw [← hacc] at key
    have hn := (key "").1
    have hperm := hσ (totalsOf depth g)
    have hmem : ∀ r ∈ collapseGroup depth pass σ g, ∃ kv ∈ totalsOf depth g, r.account = kv.1 ∧ r.value = castInt kv.2 ∧
        r.line = 0 ∧ r.date = minDate g ∧ r.amount = r.value ∧ r.payee = (g.getLast hg).payee ∧ r.xid = (g.getLast hg).xid := by
      intro r hr
      rw [hrows] at hr
      obtain ⟨kv, hkv, rfl⟩ := List.mem_map.mp hr
      exact ⟨kv, hperm.subset hkv, rfl, rfl, rfl, rfl, rfl, rfl, rfl⟩
    refine ⟨⟨?_, ?_, ?_, ?_, ?_, ?_⟩, ?_⟩
    · intro r hr c
      obtain ⟨kv, hkv, ha, hv', _⟩ := hmem r hr
      obtain ⟨_, _, h3, _, _⟩ := key c
      have hgk := AMap.mem_get? hn (k := kv.1) (v := kv.2) hkv
      have := h3 kv.1
      simp only [muAt, hgk, Option.map_some, Option.getD_some, AMap.get?, Option.map_none, Option.getD_none] at this
      show r.value.den c = _
      rw [hv', castInt_den, ha, this]
      simp only [sumDenBy]; grind
    · intro p hp'
      have := ((key "").2.2.2.1 (totalsKey depth p)).mpr (Or.inr ⟨p, hp', rfl⟩)
      obtain ⟨kv, hkv, he⟩ := List.mem_map.mp this
      refine ⟨{ line := 0, xid := (g.getLast hg).xid, date := minDate g, payee := (g.getLast hg).payee,
                account := kv.1, virt := false, amount := castInt kv.2, value := castInt kv.2, vdate := maxDate g }, ?_, he⟩
      rw [hrows]; exact List.mem_map.mpr ⟨kv, hperm.symm.subset hkv, rfl⟩
    · intro r hr
      obtain ⟨kv, hkv, ha, _⟩ := hmem r hr
      have hk : kv.1 ∈ AMap.keys (totalsOf depth g) := List.mem_map.mpr ⟨kv, hkv, rfl⟩
      rcases ((key "").2.2.2.1 kv.1).mp hk with h0 | ⟨p, hp', he⟩
      · simp [AMap.keys] at h0
      · exact ⟨p, hp', by rw [ha]; exact he⟩
    · rw [hrows, List.map_map]
      have : (List.map ((fun r : RPost => r.account) ∘ fun kv : String × Value =>
          ({ line := 0, xid := (g.getLast hg).xid, date := minDate g, payee := (g.getLast hg).payee,
             account := kv.1, virt := false, amount := castInt kv.2, value := castInt kv.2, vdate := maxDate g } : RPost)) (σ (totalsOf depth g))) =
          AMap.keys (σ (totalsOf depth g)) := rfl
      rw [this]
      exact (List.Perm.map _ hperm).nodup_iff.mpr hn
    · intro c
      obtain ⟨_, _, _, _, h5⟩ := key c
      show sumDen _ c = _
      rw [hrows, sumDen_map_sumBy _ _ (fun v => v.den c) c (fun e => castInt_den e.2 c), sumBy_perm _ hperm, h5]
      simp only [AMap.sumBy, sumDenBy]; grind
    · intro r hr
      obtain ⟨kv, hkv, _, hv', _⟩ := hmem r hr
      have hgk := AMap.mem_get? hn (k := kv.1) (v := kv.2) hkv
      show isQty r.value = true
      rw [hv']
      exact castInt_isQty _ ((key "").2.1 kv.1 kv.2 hgk)
    · intro r hr
      obtain ⟨_, _, _, _, h1, h2, h2', h3, h4⟩ := hmem r hr
      exact ⟨h1, h2, h2', _, hlast, h3, h4⟩

theorem collapse_total (depth : Nat) (pass : Bool) (σ : AMap Value → AMap Value)
    (hσ : ∀ m, (σ m).Perm m) (posts : List RPost) (hq : AllQty posts) (c : Comm) :
    sumDen (collapse depth pass σ posts) c = sumDen posts c ∧ AllQty (collapse depth pass σ posts) := by
  rw [collapse_eq_runs]
  have hsub : ∀ g ∈ runs pxid posts, AllQty g ∧ g ≠ [] :=
    fun g hg => ⟨fun p hp => hq p (runs_mem_subset posts g hg p hp), runs_mem_nonempty posts g hg⟩
  have heach : ∀ g ∈ runs pxid posts, sumDen (collapseGroup depth pass σ g) c = sumDen g c ∧
      AllQty (collapseGroup depth pass σ g) := by
    intro g hg
    rcases collapseGroup_groups depth pass σ hσ g (hsub g hg).1 (hsub g hg).2 with ⟨_, _, _, h1⟩ | ⟨h1, _⟩
    · rw [h1]; exact ⟨rfl, (hsub g hg).1⟩
    · exact ⟨h1.total c, h1.qty⟩
  constructor
  · conv => rhs; rw [← runs_flatten pxid posts]
    simp only [sumDen, sumDenBy, wsum_flatten, List.map_map]
    congr 1
    apply List.map_congr_left
    intro g hg
    exact (heach g hg).1
  · intro r hr
    obtain ⟨l, hl, hrl⟩ := List.mem_flatten.mp hr
    obtain ⟨g, hg, rfl⟩ := List.mem_map.mp hl
    exact (heach g hg).2 r hrl


/-! ### blocks of one transaction each are the runs of their concatenation -/

theorem runs_flatMap_blocks {J : Type} (js : List J) (f : J → List RPost) (idf : J → Nat)
    (hconst : ∀ j ∈ js, ∀ p ∈ f j, p.xid = idf j) (hinj : js.Pairwise (fun a b => idf a ≠ idf b)) :
    runs pxid (js.flatMap f) = (js.map f).filter (fun g => !g.isEmpty) := by
  induction js with
  | nil => rfl
  | cons x xs ih =>
    have hd' := List.pairwise_cons.mp hinj
    have ih' := ih (fun j hj => hconst j (by simp [hj])) hd'.2
    simp only [List.flatMap_cons, List.map_cons, List.filter_cons]
    cases hg : f x with
    | nil => simp [ih']
    | cons a g =>
      have hxid := hconst x (by simp)
      rw [hg] at hxid
      have hb : runs pxid ((a :: g) ++ xs.flatMap f) = runs pxid (a :: g) ++ runs pxid (xs.flatMap f) := by
        apply runs_append_boundary
        intro u hu v hv
        have hu' : u ∈ a :: g := List.mem_of_getLast? hu
        have hv' : v ∈ xs.flatMap f := List.mem_of_head? hv
        obtain ⟨y, hy, hvy⟩ := List.mem_flatMap.mp hv'
        show u.xid ≠ v.xid
        rw [hxid u hu', hconst y (by simp [hy]) v hvy]
        exact hd'.1 y hy
      rw [hb, ih', runs_const a g (fun q hq => by rw [hxid q (by simp [hq]), hxid a (by simp)])]
      simp

/-! ### in the plain register the runs are the transactions -/

theorem xactPosts_xid (f : Filter) (x : Xact) : ∀ p ∈ xactPosts f x, p.xid = x.line := by
  intro p hp
  simp only [xactPosts, List.mem_filterMap] at hp
  obtain ⟨q, _, hq⟩ := hp
  split at hq
  · split at hq
    · cases hq; rfl
    · cases hq
  · cases hq

theorem plain_runs_aux (f : Filter) (xs : List Xact) (hd : xs.Pairwise (fun a b => a.line ≠ b.line)) :
    runs pxid (xs.flatMap (xactPosts f)) = (xs.map (xactPosts f)).filter (fun g => !g.isEmpty) :=
  runs_flatMap_blocks xs (xactPosts f) (fun x => x.line) (fun x _ => xactPosts_xid f x) hd

/-! ### the totals map is kept in key order -/

theorem AMap.insertSorted_sorted {V : Type} (m : AMap V) (k : String) (v : V)
    (hs : (AMap.keys m).Pairwise (· < ·)) (hk : k ∉ AMap.keys m) :
    (AMap.keys (m.insertSorted k v)).Pairwise (· < ·) := by
  induction m with
  | nil => simp [AMap.insertSorted, AMap.keys]
  | cons e m ih =>
    obtain ⟨k', v'⟩ := e
    simp only [AMap.keys, List.map_cons, List.pairwise_cons, List.mem_cons, not_or] at hs hk
    simp only [AMap.insertSorted]
    split
    · rename_i hlt
      simp only [AMap.keys, List.map_cons, List.pairwise_cons, List.mem_cons]
      refine ⟨?_, hs.1, hs.2⟩
      rintro x (rfl | hx)
      · exact hlt
      · exact String.lt_trans hlt (hs.1 x hx)
    · rename_i hnlt
      have hlt' : k' < k := by
        by_cases h : k' < k
        · exact h
        · exact absurd (String.le_antisymm (String.not_lt.mp h) (String.not_lt.mp hnlt)) hk.1
      have ih' := ih hs.2 hk.2
      simp only [AMap.keys, List.map_cons, List.pairwise_cons]
      refine ⟨?_, ih'⟩
      intro x hx
      have := (AMap.keys_insertSorted m k v).subset hx
      rcases List.mem_cons.mp this with rfl | hx'
      · exact hlt'
      · exact hs.1 x hx'

theorem AMap.upd_sorted {V : Type} (m : AMap V) (k : String) (f : Option V → V)
    (hs : (AMap.keys m).Pairwise (· < ·)) : (AMap.keys (m.upd k f)).Pairwise (· < ·) := by
  cases h : m.get? k with
  | none =>
    rw [AMap.upd_none m k f h]
    exact AMap.insertSorted_sorted m k _ hs ((AMap.get?_none_iff m k).mp h)
  | some v => rw [AMap.upd_some m k f v h, AMap.keys_setAt]; exact hs

theorem accum_sorted {V : Type} (key : RPost → String) (step : Option V → RPost → V) (ps : List RPost) (m : AMap V)
    (hs : (AMap.keys m).Pairwise (· < ·)) : (AMap.keys (accum key step m ps)).Pairwise (· < ·) := by
  induction ps generalizing m with
  | nil => exact hs
  | cons p ps ih => exact ih _ (AMap.upd_sorted m _ _ hs)

/-- the rows collapse_posts reports for one transaction under `--depth N` come in strictly ascending account order -/
theorem collapseGroup_rows_sorted (depth : Nat) (g : List RPost) :
    ((collapseGroup depth false id g).map (fun r => r.account)).Pairwise (· < ·) := by
  unfold collapseGroup
  cases g.getLast? with
  | none => simp
  | some lastp =>
    have hne : ¬ (depth = 0 ∧ false = true ∧ g.length = 1) := by simp
    simp only [hne, if_false, id, List.map_map]
    have : totalsOf depth g = accum (totalsKey depth) totalsStep [] g := rfl
    have hs := accum_sorted (totalsKey depth) totalsStep g ([] : AMap Value) (by simp [AMap.keys])
    rw [← this] at hs
    exact hs

/-! ### two regrouping stages in a row -/

/-- key of collapse's totals map as a function of the account name -/
def totalsKeyOf (depth : Nat) (a : String) : String := if depth = 0 then "<Total>" else depthAccount depth a

theorem totalsKey_eq (depth : Nat) (p : RPost) : totalsKey depth p = totalsKeyOf depth p.account := rfl

/-- rows that are the output of a subtotal-family stage and carry no compound value can be fed to the next one -/
theorem goodAmts_of_generated {rows : List RPost} (hsame : ∀ r ∈ rows, r.amount = r.value)
    (hq : ∀ r ∈ rows, isQty r.value = true) (hnc : noCompound rows = true) :
    GoodAmts rows ∧ ∀ r ∈ rows, rawAmt r = r.value := by
  have h : ∀ r ∈ rows, ∃ v, subAmt r = some v := by
    intro r hr
    have := List.all_eq_true.mp hnc r hr
    exact Option.isSome_iff_exists.mp this
  constructor
  · intro r hr
    obtain ⟨v, hv⟩ := h r hr
    exact ⟨v, hv, by rw [← subAmt_some hv, hsame r hr]; exact hq r hr⟩
  · intro r hr
    obtain ⟨v, hv⟩ := h r hr
    rw [rawAmt_eq_amount hv, hsame r hr]

theorem byPayee_same (posts rows : List RPost) (hq : GoodAmts posts) (h : byPayee posts = .ok rows) :
    ∀ r ∈ rows, r.amount = r.value := by
  obtain ⟨m, hm, rfl⟩ := byPayee_eq posts rows h
  intro r hr
  obtain ⟨k, _, hrk⟩ := List.mem_flatMap.mp hr
  exact ((payeeRowsOf_groups posts hq m hm k).2 r hrk).same

theorem dow_same (posts rows : List RPost) (hq : GoodAmts posts) (h : dow posts = .ok rows) :
    ∀ r ∈ rows, r.amount = r.value := by
  obtain ⟨h1, h2⟩ := dowDays_eq posts _ rows h
  subst h1
  intro r hr
  obtain ⟨j, hj, hrj⟩ := List.mem_flatMap.mp hr
  exact ((dowRowsOf_groups posts hq j (h2 j hj)).2 r hrj).same

/-- `--by-payee` (or `--dow`) followed by `--subtotal`: when no row handed over is a
    compound one, the result is the plain `--subtotal` grouping of the original postings -/
theorem stage_then_subtotal {K : Type} [DecidableEq K] {k1 rk1 : RPost → K} (acc : K → String)
    (posts r1 r2 : List RPost)
    (G1 : GroupSums rawAmt (fun r => r.value) k1 rk1 posts r1)
    (hacc : ∀ r ∈ r1, r.account = acc (rk1 r))
    (hsame : ∀ r ∈ r1, r.amount = r.value) (hnc : noCompound r1 = true) (h2 : subtotal r1 = .ok r2) :
    GroupSums rawAmt (fun r => r.value) (fun p => acc (k1 p)) (fun r => r.account) posts r2 := by
  obtain ⟨hg1, hraw⟩ := goodAmts_of_generated hsame G1.qty hnc
  have G2 := ((subtotal_groups r1 r2 hg1 h2).1).congr_vin hraw
  exact G1.comp G2 acc hacc

theorem byPayee_subtotal_groups (posts r1 r2 : List RPost) (hq : GoodAmts posts) (h1 : byPayee posts = .ok r1)
    (hnc : noCompound r1 = true) (h2 : subtotal r1 = .ok r2) :
    GroupSums rawAmt (fun r => r.value) (fun p => p.account) (fun r => r.account) posts r2 :=
  stage_then_subtotal Prod.snd posts r1 r2 (byPayee_groups posts r1 hq h1) (fun _ _ => rfl)
    (byPayee_same posts r1 hq h1) hnc h2

theorem dow_subtotal_groups (posts r1 r2 : List RPost) (hq : GoodAmts posts) (h1 : dow posts = .ok r1)
    (hnc : noCompound r1 = true) (h2 : subtotal r1 = .ok r2) :
    GroupSums rawAmt (fun r => r.value) (fun p => p.account) (fun r => r.account) posts r2 :=
  stage_then_subtotal Prod.snd posts r1 r2 (dow_groups posts r1 hq h1) (fun _ _ => rfl)
    (dow_same posts r1 hq h1) hnc h2

/-- `--subtotal` followed by collapse_posts (`--collapse`, `--depth N`): the subtotal rows are one
    transaction, so the outcome is the original postings grouped by the ancestor account at depth N
    (by nothing at all for N = 0), unless `--collapse` passes a single row through. -/
theorem subtotal_collapse_groups (depth : Nat) (pass : Bool) (posts r1 : List RPost) (hq : GoodAmts posts)
    (h1 : subtotal posts = .ok r1) :
    (depth = 0 ∧ pass = true ∧ r1.length = 1 ∧ collapse depth pass id r1 = r1) ∨
    GroupSums rawAmt (fun r => r.value) (fun p => totalsKeyOf depth p.account) (fun r => r.account) posts
      (collapse depth pass id r1) := by
  obtain ⟨G1, hx⟩ := subtotal_groups posts r1 hq h1
  cases hr : r1 with
  | nil =>
    right
    subst hr
    have hp : posts = [] := by
      cases posts with
      | nil => rfl
      | cons p ps => obtain ⟨r, hr', _⟩ := G1.covered p (by simp); simp at hr'
    subst hp
    exact ⟨by simp [collapse, collapseGroup], by simp, by simp [collapse, collapseGroup], by simp [collapse, collapseGroup],
           fun c => rfl, by simp [collapse, collapseGroup]⟩
  | cons a g =>
    have hruns : runs pxid (a :: g) = [a :: g] := by
      apply runs_const
      intro q hq'
      show q.xid = a.xid
      rw [(hx q (by rw [hr]; simp [hq'])).1, (hx a (by rw [hr]; simp)).1]
    have hcol : collapse depth pass id (a :: g) = collapseGroup depth pass id (a :: g) := by
      rw [collapse_eq_runs, hruns]; simp
    have hq1 : AllQty (a :: g) := by rw [← hr]; exact G1.qty
    rw [hcol]
    rcases collapseGroup_groups depth pass id (fun _ => List.Perm.refl _) (a :: g) hq1 (by simp) with
      ⟨h0, hp, hl, he⟩ | ⟨G2, _⟩
    · exact Or.inl ⟨h0, hp, hl, he⟩
    · right
      rw [hr] at G1
      exact G1.comp G2 (totalsKeyOf depth) (fun r _ => totalsKey_eq depth r)

theorem flatten_map_filter_nonempty (cg : List RPost → List RPost) (hcg : cg [] = []) (l : List (List RPost)) :
    ((l.filter (fun g => !g.isEmpty)).map cg).flatten = (l.map cg).flatten := by
  induction l with
  | nil => rfl
  | cons g l ih =>
    cases g with
    | nil => simp [hcg, ih]
    | cons a g => simp [ih]

theorem groupSums_nil {K : Type} [DecidableEq K] (vin vout : RPost → Value) (grp rowKey : RPost → K) :
    GroupSums vin vout grp rowKey [] [] :=
  ⟨by simp, by simp, by simp, by simp, fun _ => rfl, by simp⟩

/-- blocks of rows, one transaction per class `j` (as --by-payee and --dow emit them), through
    collapse_posts with `--depth N`, N ≥ 1: every class is regrouped by the ancestor account at depth N -/
theorem blocks_depth_groups {J : Type} [DecidableEq J] (n : Nat) (hn : n ≠ 0) (posts : List RPost)
    (js : List J) (hnd : js.Nodup) (rowsOf : J → List RPost) (idf : J → Nat) (cls rcls : RPost → J)
    (hG : ∀ j ∈ js, GroupSums rawAmt (fun r => r.value) (fun p => (cls p, p.account)) (fun r => (rcls r, r.account))
            (posts.filter (fun p => cls p = j)) (rowsOf j))
    (hx : ∀ j ∈ js, ∀ r ∈ rowsOf j, r.xid = idf j)
    (hinj : js.Pairwise (fun a b => idf a ≠ idf b))
    (hstable : ∀ j ∈ js, ∀ r ∈ collapseGroup n false id (rowsOf j), rcls r = j)
    (hall : ∀ p ∈ posts, cls p ∈ js) :
    GroupSums rawAmt (fun r => r.value) (fun p => (cls p, depthAccount n p.account)) (fun r => (rcls r, r.account))
      posts (collapse n false id (js.flatMap rowsOf)) := by
  have hcol : collapse n false id (js.flatMap rowsOf) = js.flatMap (fun j => collapseGroup n false id (rowsOf j)) := by
    rw [collapse_eq_runs, runs_flatMap_blocks js rowsOf idf hx hinj,
      flatten_map_filter_nonempty _ (collapseGroup_nil n false id), List.map_map, List.flatMap_def]
    rfl
  rw [hcol]
  apply groupSums_classes _ _ _ _ Prod.fst cls (fun _ => rfl) posts js hnd
  · intro j hj
    have G1 := hG j hj
    cases hb : rowsOf j with
    | nil =>
      have hp : posts.filter (fun p => decide (cls p = j)) = [] := by
        cases hf : posts.filter (fun p => decide (cls p = j)) with
        | nil => rfl
        | cons p ps =>
          rw [hf, hb] at G1
          obtain ⟨r, hr', _⟩ := G1.covered p (by simp); simp at hr'
      rw [hp, collapseGroup_nil]
      exact groupSums_nil _ _ _ _
    | cons a g =>
      have hq1 : AllQty (a :: g) := by rw [← hb]; exact G1.qty
      rcases collapseGroup_groups n false id (fun _ => List.Perm.refl _) (a :: g) hq1 (by simp) with
        ⟨_, hp, _⟩ | ⟨G2, _⟩
      · cases hp
      · have hblock : ∀ r ∈ a :: g, rcls r = j := by
          intro r hr
          rw [← hb] at hr
          obtain ⟨p, hp, he⟩ := G1.noExtra r hr
          have : cls p = rcls r := (Prod.ext_iff.mp he).1
          rw [← this]; simpa using (List.mem_filter.mp hp).2
        have hst := hstable j hj
        rw [hb] at hst
        have G2' := G2.lift rcls rcls j hblock hst
        rw [hb] at G1
        have G := G1.comp G2' (fun pa => (pa.1, totalsKeyOf n pa.2)) (fun r _ => rfl)
        have hkey : (fun p : RPost => (fun pa : J × String => (pa.1, totalsKeyOf n pa.2)) (cls p, p.account)) =
            (fun p => (cls p, depthAccount n p.account)) := by
          funext p; simp [totalsKeyOf, hn]
        rw [hkey] at G
        exact G
  · exact hall

theorem byPayee_depth_groups (n : Nat) (hn : n ≠ 0) (posts r1 : List RPost) (hq : GoodAmts posts)
    (h1 : byPayee posts = .ok r1) :
    GroupSums rawAmt (fun r => r.value) (fun p => (p.payee, depthAccount n p.account)) (fun r => (r.payee, r.account))
      posts (collapse n false id r1) := by
  obtain ⟨m, hm, rfl⟩ := byPayee_eq posts r1 h1
  obtain ⟨hnd, hk, _⟩ := byPayeeAll_spec posts [] m (by simp [AMap.keys]) hm
  apply blocks_depth_groups n hn posts (AMap.keys m) hnd (payeeRowsOf posts m)
    (fun k => (amapKeys m).idxOf k + 1) (fun p => p.payee) (fun r => r.payee)
  · intro k _; exact (payeeRowsOf_groups posts hq m hm k).1
  · intro k _ r hr; exact ((payeeRowsOf_groups posts hq m hm k).2 r hr).xid
  · have hnd' : (AMap.keys m).Pairwise (· ≠ ·) := hnd
    apply hnd'.imp_of_mem
    intro a b ha hb hne he
    apply hne
    have ha' := List.idxOf_lt_length_of_mem ha
    have hb' := List.idxOf_lt_length_of_mem hb
    have e : (AMap.keys m).idxOf a = (AMap.keys m).idxOf b := by
      have : (amapKeys m) = AMap.keys m := rfl
      rw [this] at he; omega
    have h1 := List.getElem_idxOf ha'
    have h2 := List.getElem_idxOf hb'
    rw [← h1, ← h2]
    simp [e]
  · intro k _ r hr
    cases hb : payeeRowsOf posts m k with
    | nil => rw [hb, collapseGroup_nil] at hr; simp at hr
    | cons a g =>
      rw [hb] at hr
      have hgen := (payeeRowsOf_groups posts hq m hm k).2
      rw [hb] at hgen
      have hq1 : AllQty (a :: g) := by
        have := (payeeRowsOf_groups posts hq m hm k).1.qty
        rw [hb] at this; exact this
      rcases collapseGroup_groups n false id (fun _ => List.Perm.refl _) (a :: g) hq1 (by simp) with
        ⟨_, hp, _⟩ | ⟨_, hrows⟩
      · cases hp
      · obtain ⟨_, _, _, lastp, hl, hpay, _⟩ := hrows r hr
        have hmem : lastp ∈ a :: g := List.mem_of_getLast? hl
        show r.payee = k
        rw [hpay]; exact (hgen lastp hmem).payee
  · intro p hp
    exact (hk p.payee).mpr (Or.inr ⟨p, hp, rfl⟩)

theorem minDate_const (d : Int) (ps : List RPost) (hne : ps ≠ []) (h : ∀ p ∈ ps, p.date = d) : minDate ps = d := by
  obtain ⟨p, hp, he⟩ := minDate_mem ps hne
  rw [← he]; exact h p hp

theorem dow_depth_groups (n : Nat) (hn : n ≠ 0) (posts r1 : List RPost) (hq : GoodAmts posts)
    (h1 : dow posts = .ok r1) :
    GroupSums rawAmt (fun r => r.value) (fun p => (Cal.weekday p.date, depthAccount n p.account))
      (fun r => (Cal.weekday r.date, r.account)) posts (collapse n false id r1) := by
  obtain ⟨he, hst⟩ := dowDays_eq posts _ r1 h1
  subst he
  apply blocks_depth_groups n hn posts [0, 1, 2, 3, 4, 5, 6] (by decide) (dowRowsOf posts)
    (fun i : Int => i.toNat + 1) (fun p => Cal.weekday p.date) (fun r => Cal.weekday r.date)
  · intro j hj; exact (dowRowsOf_groups posts hq j (hst j hj)).1
  · intro j hj r hr; exact ((dowRowsOf_groups posts hq j (hst j hj)).2 r hr).xid
  · decide
  · intro j hj r hr
    cases hb : dowRowsOf posts j with
    | nil => rw [hb, collapseGroup_nil] at hr; simp at hr
    | cons a g =>
      rw [hb] at hr
      obtain ⟨G, hgen⟩ := dowRowsOf_groups posts hq j (hst j hj)
      rw [hb] at hgen G
      have hq1 : AllQty (a :: g) := G.qty
      rcases collapseGroup_groups n false id (fun _ => List.Perm.refl _) (a :: g) hq1 (by simp) with
        ⟨_, hp, _⟩ | ⟨_, hrows⟩
      · cases hp
      · obtain ⟨_, hdate, _⟩ := hrows r hr
        have hconst : minDate (a :: g) = minDate (dowBucket j posts) :=
          minDate_const _ (a :: g) (by simp) (fun p hp => (hgen p hp).date)
        -- the weekday of the group's date is j: the row `a` stands for a posting of that day
        obtain ⟨p, hp, hpe⟩ := G.noExtra a (by simp)
        have h1 : Cal.weekday a.date = j := by
          have h3 : Cal.weekday p.date = Cal.weekday a.date := (Prod.ext_iff.mp hpe).1
          rw [← h3]; simpa using (List.mem_filter.mp hp).2
        show Cal.weekday r.date = j
        rw [hdate, hconst, ← (hgen a (by simp)).date]; exact h1
  · intro p _; exact weekday_mem p.date

/-! ### the grand total through all regrouping stages -/

theorem sumDen_eq_of_raw {ps : List RPost} (h : ∀ p ∈ ps, rawAmt p = p.value) (c : Comm) :
    sumDenBy rawAmt ps c = sumDen ps c := sumDenBy_congr h c

/-- Whatever subset of --dow | --by-payee, --subtotal, --collapse / --depth N is
    given, the per-commodity sum of the rows equals that of the postings, provided
    subtotal_posts is handed amounts it reads correctly: `hfirst` – the first
    subtotal-family stage sees single amounts whose valuation is the amount
    itself; `hmid` – no compound row goes from --dow or --by-payee to --subtotal. -/
theorem regroup_total (o : Opts) (posts rows : List RPost) (h : regroup o posts = .ok rows)
    (hq : AllQty posts)
    (hfirst : (o.pre ≠ .none ∨ o.subtotal = true) → GoodAmts posts ∧ ∀ p ∈ posts, rawAmt p = p.value)
    (hmid : o.pre ≠ .none → o.subtotal = true → ∀ s1, preStage o posts = .ok s1 → noCompound s1 = true)
    (c : Comm) : sumDen rows c = sumDen posts c ∧ AllQty rows := by
  unfold regroup at h
  cases h1 : preStage o posts with
  | error e => simp [h1] at h
  | ok s1 =>
    simp only [h1] at h
    cases h2 : subStage o s1 with
    | error e => simp [h2] at h
    | ok s2 =>
      simp only [h2, Except.ok.injEq] at h
      subst h
      -- stage 1
      have st1 : sumDen s1 c = sumDen posts c ∧ AllQty s1 ∧
          (o.pre ≠ .none → ∀ r ∈ s1, r.amount = r.value) := by
        unfold preStage at h1
        cases hp : o.pre with
        | none => simp only [hp, Except.ok.injEq] at h1; subst h1; exact ⟨rfl, hq, fun h => absurd rfl h⟩
        | dow =>
          simp only [hp] at h1
          obtain ⟨hg, hraw⟩ := hfirst (Or.inl (by simp [hp]))
          have G := dow_groups posts s1 hg h1
          exact ⟨(G.total c).trans (sumDen_eq_of_raw hraw c), G.qty, fun _ => dow_same posts s1 hg h1⟩
        | byPayee =>
          simp only [hp] at h1
          obtain ⟨hg, hraw⟩ := hfirst (Or.inl (by simp [hp]))
          have G := byPayee_groups posts s1 hg h1
          exact ⟨(G.total c).trans (sumDen_eq_of_raw hraw c), G.qty, fun _ => byPayee_same posts s1 hg h1⟩
      -- stage 2
      have st2 : sumDen s2 c = sumDen s1 c ∧ AllQty s2 := by
        unfold subStage at h2
        by_cases hs : o.subtotal = true
        · simp only [hs, if_true] at h2
          have hgood : GoodAmts s1 ∧ ∀ r ∈ s1, rawAmt r = r.value := by
            by_cases hp : o.pre = .none
            · have : s1 = posts := by
                unfold preStage at h1; simp only [hp, Except.ok.injEq] at h1; exact h1.symm
              rw [this]; exact hfirst (Or.inr hs)
            · exact goodAmts_of_generated (st1.2.2 hp) st1.2.1 (hmid hp hs s1 h1)
          have G := (subtotal_groups s1 s2 hgood.1 h2).1
          exact ⟨(G.total c).trans (sumDen_eq_of_raw hgood.2 c), G.qty⟩
        · simp only [hs, Bool.false_eq_true, if_false, Except.ok.injEq] at h2
          subst h2; exact ⟨rfl, st1.2.1⟩
      -- stage 3
      unfold colStage
      split
      · have := collapse_total (o.depth.getD 0) (o.collapse && o.depth.isNone) id (fun _ => List.Perm.refl _) s2 st2.2 c
        exact ⟨this.1.trans (st2.1.trans st1.1), this.2⟩
      · exact ⟨st2.1.trans st1.1, st2.2⟩

/-! ### a sample used by the non-vacuity examples of Props/C17 -/

/-- three transactions, two commodities, ties on date and payee -/
def sample : List RPost :=
  let mk (line xid : Nat) (d : Int) (payee acct : String) (q : Rat) (comm : String) : RPost :=
    { line := line, xid := xid, date := d, payee := payee, account := acct, virt := false,
      amount := .amt { q := q, prec := 2, keep := false, comm := comm },
      value := .amt { q := q, prec := 2, keep := false, comm := comm }, vdate := d }
  [mk 2 1 18263 "b" "Expenses:Food" 10 "$", mk 3 1 18263 "b" "Assets:Cash" (-10) "$",
   mk 6 5 18262 "a" "Expenses:Food" 5 "EUR", mk 7 5 18262 "a" "Expenses:Rent" 7 "$",
   mk 8 5 18262 "a" "Assets:Cash" (-5) "EUR", mk 9 5 18262 "a" "Assets:Cash" (-7) "$",
   mk 12 11 18263 "a" "Expenses:Food" 10 "$", mk 13 11 18263 "a" "Assets:Bank:Checking" (-10) "$"]

theorem sample_allQty : AllQty sample := by
  intro p hp
  simp only [sample, List.mem_cons, List.not_mem_nil, or_false] at hp
  rcases hp with rfl | rfl | rfl | rfl | rfl | rfl | rfl | rfl <;> rfl

theorem sample_goodAmts : GoodAmts sample := by
  intro p hp
  simp only [sample, List.mem_cons, List.not_mem_nil, or_false] at hp
  rcases hp with rfl | rfl | rfl | rfl | rfl | rfl | rfl | rfl <;> exact ⟨_, rfl, rfl⟩

end Regroup
end Ledger
