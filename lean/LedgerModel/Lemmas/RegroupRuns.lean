/-
Helper lemmas behind Props/C17 (transaction groups, truncate_xacts).
-/
import LedgerModel.Model.Regroup

namespace Ledger
namespace Regroup

open List

variable {α : Type} (xid : α → Nat)

/-! ### `runs` is the decomposition into maximal runs -/

/-- `gs` is a list of non-empty blocks, each of one transaction, neighbouring
    blocks of different transactions; `prev` is the transaction in front. -/
def GoodRuns : Option Nat → List (List α) → Prop
  | _, [] => True
  | prev, g :: gs => ∃ p g', g = p :: g' ∧ (∀ q ∈ g', xid q = xid p) ∧ prev ≠ some (xid p) ∧
      GoodRuns (some (xid p)) gs

theorem GoodRuns.weaken {prev : Option Nat} {gs : List (List α)} (h : GoodRuns xid prev gs) :
    GoodRuns xid none gs := by
  cases gs with
  | nil => trivial
  | cons g gs =>
    obtain ⟨p, g', h1, h2, _, h4⟩ := h
    exact ⟨p, g', h1, h2, by simp, h4⟩

theorem runs_flatten (l : List α) : (runs xid l).flatten = l := by
  induction l with
  | nil => rfl
  | cons p ps ih =>
    simp only [runs]
    generalize runs xid ps = gs at ih
    subst ih
    match gs with
    | [] => simp [consRun]
    | [] :: gs => simp [consRun]
    | (q :: g) :: gs =>
      simp only [consRun]
      split <;> simp

/-- the first block of `runs (p :: ps)` starts with `p` -/
theorem runs_cons_head (p : α) (ps : List α) : ∃ g gs, runs xid (p :: ps) = (p :: g) :: gs := by
  simp only [runs]
  match runs xid ps with
  | [] => exact ⟨[], [], rfl⟩
  | [] :: gs => exact ⟨[], gs, rfl⟩
  | (q :: g) :: gs =>
    simp only [consRun]
    split
    · exact ⟨q :: g, gs, rfl⟩
    · exact ⟨[], (q :: g) :: gs, rfl⟩

theorem runs_good (l : List α) : GoodRuns xid none (runs xid l) := by
  induction l with
  | nil => trivial
  | cons p ps ih =>
    simp only [runs]
    match h : runs xid ps, ih with
    | [], _ => exact ⟨p, [], rfl, by simp, by simp, trivial⟩
    | [] :: gs, ih =>
      obtain ⟨_, _, h1, _⟩ := ih
      cases h1
    | (q :: g) :: gs, ih =>
      obtain ⟨q', g', h1, h2, _, h4⟩ := ih
      cases h1
      simp only [consRun]
      split
      · rename_i he
        refine ⟨p, q :: g, rfl, ?_, by simp, ?_⟩
        · intro r hr
          rcases List.mem_cons.mp hr with rfl | hr
          · exact he.symm
          · rw [h2 r hr, he]
        · rw [he]; exact h4
      · rename_i hne
        refine ⟨p, [], rfl, by simp, by simp, q, g, rfl, h2, ?_, h4⟩
        simp only [ne_eq, Option.some.injEq]
        exact hne

theorem consRun_append (p : α) (X Y : List (List α)) (hX : X ≠ []) :
    consRun xid p (X ++ Y) = consRun xid p X ++ Y := by
  match X, hX with
  | [] :: gs, _ => simp [consRun]
  | (q :: g) :: gs, _ =>
    simp only [List.cons_append, consRun]
    split <;> simp

/-- at a boundary between two transactions `runs` distributes over `++` -/
theorem runs_append_boundary (A B : List α)
    (h : ∀ a, A.getLast? = some a → ∀ b, B.head? = some b → xid a ≠ xid b) :
    runs xid (A ++ B) = runs xid A ++ runs xid B := by
  induction A with
  | nil => simp [runs]
  | cons a A' ih =>
    cases A' with
    | nil =>
      simp only [List.singleton_append, runs]
      cases B with
      | nil => simp [runs, consRun]
      | cons b B' =>
        obtain ⟨g, gs, hg⟩ := runs_cons_head xid b B'
        have hne : xid a ≠ xid b := h a (by simp) b (by simp)
        show consRun xid a (runs xid (b :: B')) = consRun xid a [] ++ runs xid (b :: B')
        rw [hg]
        simp [consRun, hne]
    | cons a' A'' =>
      have ih' := ih (by
        intro x hx b hb
        apply h x _ b hb
        simpa [List.getLast?_cons_cons] using hx)
      have hne : runs xid (a' :: A'') ≠ [] := by
        obtain ⟨g, gs, hg⟩ := runs_cons_head xid a' A''
        rw [hg]; simp
      calc runs xid (a :: a' :: A'' ++ B)
          = consRun xid a (runs xid ((a' :: A'') ++ B)) := rfl
        _ = consRun xid a (runs xid (a' :: A'') ++ runs xid B) := by rw [ih']
        _ = consRun xid a (runs xid (a' :: A'')) ++ runs xid B := consRun_append xid a _ _ hne
        _ = runs xid (a :: a' :: A'') ++ runs xid B := rfl

/-! ### truncate_xacts::flush over the runs -/

/-- keep the blocks whose index satisfies `pr` -/
def selRuns (pr : Nat → Bool) : Nat → List (List α) → List α
  | _, [] => []
  | k, g :: gs => (if pr k then g else []) ++ selRuns pr (k + 1) gs

theorem selRuns_take (N : Nat) (gs : List (List α)) (k : Nat) :
    selRuns (fun j => decide (j < N)) k gs = (gs.take (N - k)).flatten := by
  induction gs generalizing k with
  | nil => simp [selRuns]
  | cons g gs ih =>
    simp only [selRuns, ih]
    by_cases hk : k < N
    · have : N - k = (N - (k + 1)) + 1 := by omega
      rw [this]; simp [hk]
    · have h1 : N - k = 0 := by omega
      have h2 : N - (k + 1) = 0 := by omega
      simp [hk, h1, h2]

theorem selRuns_drop (N L : Nat) (pr : Nat → Bool) (gs : List (List α)) (k : Nat)
    (hL : L = k + gs.length) (hpr : ∀ j, j < L → pr j = decide (L - j ≤ N)) :
    selRuns pr k gs = (gs.drop (gs.length - N)).flatten := by
  induction gs generalizing k with
  | nil => simp [selRuns]
  | cons g gs ih =>
    simp only [selRuns]
    have hk : k < L := by simp at hL; omega
    rw [hpr k hk, ih (k + 1) (by simp at hL ⊢; omega)]
    simp only [List.length_cons] at hL ⊢
    by_cases hle : L - k ≤ N
    · have h1 : gs.length + 1 - N = 0 := by omega
      have h2 : gs.length - N = 0 := by omega
      simp [hle, h1, h2]
    · have h1 : gs.length + 1 - N = (gs.length - N) + 1 := by omega
      simp [hle, h1]

variable (head tail l : Int)

/-- one block through the second loop of flush -/
theorem flushGo_block (x : Nat) (i : Int) (p : α) (g rest : List α) (hg : ∀ q ∈ g, xid q = xid p) :
    flushGo xid head tail l x i ((p :: g) ++ rest) =
      (if truncPrint head tail l (if x ≠ xid p then i + 1 else i) then p :: g else []) ++
        flushGo xid head tail l (xid p) (if x ≠ xid p then i + 1 else i) rest := by
  induction g generalizing x i p with
  | nil =>
    simp only [List.singleton_append, flushGo]
    generalize (if x ≠ xid p then i + 1 else i) = i'
    cases truncPrint head tail l i' <;> simp
  | cons q g ih =>
    have hq : xid q = xid p := hg q (by simp)
    have ih' := ih (xid p) (if x ≠ xid p then i + 1 else i) q
      (fun r hr => by rw [hg r (by simp [hr]), hq])
    simp only [List.cons_append, flushGo] at ih' ⊢
    rw [ih']
    simp only [hq, ne_eq, not_true_eq_false, if_false]
    generalize (if ¬ x = xid p then i + 1 else i) = i'
    cases truncPrint head tail l i' <;> simp

theorem flushGo_runs (x : Nat) (k : Nat) (gs : List (List α)) (h : GoodRuns xid (some x) gs) :
    flushGo xid head tail l x (k : Int) gs.flatten =
      selRuns (fun j => truncPrint head tail l (j : Int)) (k + 1) gs := by
  induction gs generalizing x k with
  | nil => simp [flushGo, selRuns]
  | cons g gs ih =>
    obtain ⟨p, g', rfl, h2, h3, h4⟩ := h
    have hne : x ≠ xid p := by intro e; apply h3; rw [e]
    simp only [List.flatten_cons, selRuns]
    rw [flushGo_block xid head tail l x k p g' gs.flatten h2]
    simp only [hne, ne_eq, not_false_eq_true, if_true]
    have := ih (xid p) (k + 1) h4
    simp only [Int.natCast_add, Int.cast_ofNat_Int] at this
    rw [this]
    rfl

theorem countChanges_block (x : Nat) (p : α) (g rest : List α) (hg : ∀ q ∈ g, xid q = xid p) :
    countChanges xid x ((p :: g) ++ rest) =
      countChanges xid (xid p) rest + (if x ≠ xid p then 1 else 0) := by
  induction g generalizing x p with
  | nil =>
    simp only [List.singleton_append, countChanges]
    split
    · simp
    · rename_i hx
      have hx' : x = xid p := by simpa using hx
      subst hx'; simp
  | cons q g ih =>
    have hq : xid q = xid p := hg q (by simp)
    have ih' := ih (xid p) q (fun r hr => by rw [hg r (by simp [hr]), hq])
    simp only [List.cons_append, countChanges] at ih' ⊢
    split
    · rw [ih']; simp [hq]
    · rename_i hx
      have hx' : x = xid p := by simpa using hx
      subst hx'
      rw [ih']; simp [hq]

theorem countChanges_runs (x : Nat) (gs : List (List α)) (h : GoodRuns xid (some x) gs) :
    countChanges xid x gs.flatten = gs.length := by
  induction gs generalizing x with
  | nil => simp [countChanges]
  | cons g gs ih =>
    obtain ⟨p, g', rfl, h2, h3, h4⟩ := h
    have hne : x ≠ xid p := by intro e; apply h3; rw [e]
    simp only [List.flatten_cons, List.length_cons]
    rw [countChanges_block xid x p g' gs.flatten h2, ih (xid p) h4]
    simp [hne]

/-- truncate_xacts::flush keeps the transactions whose index passes `truncPrint`,
    `l` being their number. -/
theorem truncFlush_eq_selRuns (posts : List α) :
    truncFlush xid head tail posts =
      selRuns (fun j => truncPrint head tail ((runs xid posts).length : Nat) (j : Int)) 0 (runs xid posts) := by
  cases posts with
  | nil => simp [truncFlush, runs, selRuns]
  | cons p0 ps =>
    have hgood := runs_good xid (p0 :: ps)
    have hflat := runs_flatten xid (p0 :: ps)
    obtain ⟨g, gs, hr⟩ := runs_cons_head xid p0 ps
    rw [hr] at hgood hflat ⊢
    obtain ⟨p, g', h1, h2, _, h4⟩ := hgood
    cases h1
    simp only [truncFlush]
    have hcount : countChanges xid (xid p0) (p0 :: ps) = gs.length := by
      rw [← hflat, List.flatten_cons, countChanges_block xid (xid p0) p0 g gs.flatten h2,
        countChanges_runs xid (xid p0) gs h4]
      simp
    rw [hcount]
    conv => lhs; rw [← hflat]
    simp only [List.flatten_cons]
    rw [flushGo_block xid head tail _ (xid p0) 0 p0 g gs.flatten h2]
    simp only [ne_eq, not_true_eq_false, if_false]
    have := flushGo_runs xid head tail ((gs.length : Nat) + 1 : Int) (xid p0) 0 gs h4
    simp only [Int.natCast_zero, Nat.zero_add] at this
    rw [this]
    simp only [selRuns, List.length_cons, Int.natCast_add, Int.natCast_one, Int.natCast_zero, Nat.zero_add]

theorem runs_length_cons (p0 : α) (ps : List α) :
    (runs xid (p0 :: ps)).length = countChanges xid (xid p0) (p0 :: ps) + 1 := by
  have hgood := runs_good xid (p0 :: ps)
  have hflat := runs_flatten xid (p0 :: ps)
  obtain ⟨g, gs, hr⟩ := runs_cons_head xid p0 ps
  rw [hr] at hgood hflat ⊢
  obtain ⟨p, g', h1, h2, _, h4⟩ := hgood
  cases h1
  rw [← hflat, List.flatten_cons, countChanges_block xid (xid p0) p0 g gs.flatten h2,
    countChanges_runs xid (xid p0) gs h4]
  simp

theorem countChanges_snoc (x : Nat) (A : List α) (p : α) :
    countChanges xid x (A ++ [p]) =
      countChanges xid x A + (if (A.getLast?.map xid).getD x ≠ xid p then 1 else 0) := by
  induction A generalizing x with
  | nil => simp only [List.nil_append, countChanges]; split <;> simp_all
  | cons a A ih =>
    have hl : ∀ y, (((a :: A).getLast?).map xid).getD y = ((A.getLast?).map xid).getD (xid a) := by
      intro y
      cases A with
      | nil => simp
      | cons b B =>
        rw [List.getLast?_cons_cons]
        have hne : (b :: B).getLast? = some ((b :: B).getLast (by simp)) := List.getLast?_eq_some_getLast (by simp)
        rw [hne]; simp
    simp only [List.cons_append, countChanges, hl]
    split
    · rw [ih (xid a)]; omega
    · rename_i hx
      have hx' : x = xid a := by simpa using hx
      subst hx'
      rw [ih (xid a)]

/-- appending one posting opens a new transaction exactly when its `xact` differs from the last one's -/
theorem runs_length_snoc (pre : List α) (p : α) :
    (runs xid (pre ++ [p])).length =
      if pre.getLast?.map xid = some (xid p) then (runs xid pre).length else (runs xid pre).length + 1 := by
  cases pre with
  | nil => simp [runs, consRun]
  | cons p0 ps =>
    rw [List.cons_append, runs_length_cons, runs_length_cons, ← List.cons_append, countChanges_snoc]
    have hne : (p0 :: ps).getLast? = some ((p0 :: ps).getLast (by simp)) := List.getLast?_eq_some_getLast (by simp)
    rw [hne]
    simp only [Option.map_some, Option.getD_some, Option.some.injEq]
    split <;> simp_all

theorem truncRun_completed (st : TruncState α) (rest : List α) (h : st.completed = true) :
    truncRun xid head tail st rest = st.out ++ truncFlush xid head tail st.posts := by
  induction rest with
  | nil => rfl
  | cons p rest ih => simp only [truncRun, truncStep, h, if_true]; exact ih

theorem truncRun_noStop (hns : ¬ (tail = 0 ∧ head > 0)) (st : TruncState α) (rest : List α)
    (h : st.completed = false) :
    truncRun xid head tail st rest = st.out ++ truncFlush xid head tail (st.posts ++ rest) := by
  induction rest generalizing st with
  | nil => simp [truncRun]
  | cons p rest ih =>
    simp only [truncRun]
    have hstep : truncStep xid head tail st p =
        { completed := false, posts := st.posts ++ [p],
          xactsSeen := (if st.lastXact ≠ some (xid p) then (if st.lastXact.isSome then st.xactsSeen + 1 else st.xactsSeen)
                        else st.xactsSeen),
          lastXact := some (xid p), out := st.out } := by
      unfold truncStep
      simp only [h, Bool.false_eq_true, if_false]
      rw [if_neg (by intro hh; exact hns ⟨hh.1, hh.2.1⟩)]
    rw [hstep, ih _ rfl]
    simp

/-- without the early stop the handler is its final flush -/
theorem truncate_eq_flush (hns : ¬ (tail = 0 ∧ head > 0)) (posts : List α) :
    truncate xid head tail posts = truncFlush xid head tail posts := by
  unfold truncate
  rw [truncRun_noStop xid head tail hns _ _ rfl]
  simp [TruncState.init]

theorem truncPrint_head (N : Nat) (l : Int) (j : Nat) :
    truncPrint (N : Int) 0 l (j : Int) = decide (j < N) := by
  unfold truncPrint
  simp only [Gen.Regroup.truncHeadPos, Gen.Regroup.Cmp.eval]
  by_cases hN : N = 0
  · subst hN; simp
  · have h1 : (N : Int) ≠ 0 := by omega
    have h2 : (N : Int) > 0 := by omega
    simp only [h1, h2, ne_eq, not_false_eq_true, if_true, true_and, not_true_eq_false, if_false]
    by_cases hj : j < N
    · have : (j : Int) < (N : Int) := by omega
      simp [hj, this]
    · have : ¬ (j : Int) < (N : Int) := by omega
      have h3 : ¬ (N : Int) < 0 := by omega
      simp [hj, this, h3]

theorem truncPrint_tail (N L : Nat) (j : Nat) (hj : j < L) :
    truncPrint 0 (N : Int) (L : Int) (j : Int) = decide (L - j ≤ N) := by
  unfold truncPrint
  simp only [Gen.Regroup.truncTailPos, Gen.Regroup.Cmp.eval]
  by_cases hN : N = 0
  · subst hN
    have : ¬ (L - j ≤ 0) := by omega
    simp [this]
  · have h1 : (N : Int) ≠ 0 := by omega
    have h2 : (N : Int) > 0 := by omega
    simp only [ne_eq, not_true_eq_false, if_false, h1, not_false_eq_true, if_true, h2, true_and]
    by_cases hle : L - j ≤ N
    · have : (L : Int) - (j : Int) ≤ (N : Int) := by omega
      simp [hle, this]
    · have : ¬ (L : Int) - (j : Int) ≤ (N : Int) := by omega
      have h3 : ¬ (N : Int) < 0 := by omega
      simp [hle, this, h3]

theorem truncFlush_head (N : Nat) (posts : List α) :
    truncFlush xid (N : Int) 0 posts = ((runs xid posts).take N).flatten := by
  rw [truncFlush_eq_selRuns]
  have : (fun j : Nat => truncPrint (N : Int) 0 ((runs xid posts).length : Nat) (j : Int)) =
      (fun j => decide (j < N)) := by
    funext j; exact truncPrint_head N _ j
  rw [this, selRuns_take]; simp

theorem truncFlush_tail (N : Nat) (posts : List α) :
    truncFlush xid 0 (N : Int) posts =
      ((runs xid posts).drop ((runs xid posts).length - N)).flatten := by
  rw [truncFlush_eq_selRuns]
  exact selRuns_drop N (runs xid posts).length _ (runs xid posts) 0 (by simp)
    (fun j hj => truncPrint_tail N _ j hj)

theorem getLast?_snoc (l : List α) (p : α) : (l ++ [p]).getLast? = some p := by simp

/-- state of the handler after the postings `pre` when it has not stopped -/
def TruncInv (N : Nat) (st : TruncState α) (pre : List α) : Prop :=
  st.completed = false ∧ st.posts = pre ∧ st.out = [] ∧ st.lastXact = pre.getLast?.map xid ∧
  st.xactsSeen = (runs xid pre).length - 1 ∧ (runs xid pre).length ≤ N

theorem runs_length_pos (p : α) (ps : List α) : 0 < (runs xid (p :: ps)).length := by
  obtain ⟨g, gs, h⟩ := runs_cons_head xid p ps
  rw [h]; simp

theorem truncRun_head (N : Nat) (hN : 0 < N) (rest : List α) :
    ∀ (st : TruncState α) (pre : List α), TruncInv xid N st pre →
      truncRun xid (N : Int) 0 st rest = ((runs xid (pre ++ rest)).take N).flatten := by
  induction rest with
  | nil =>
    intro st pre ⟨_, h2, h3, _, _, _⟩
    simp only [truncRun, h2, h3, List.nil_append, List.append_nil]
    exact truncFlush_head xid N pre
  | cons p rest ih =>
    intro st pre ⟨h1, h2, h3, h4, h5, h6⟩
    simp only [truncRun]
    have hsnoc := runs_length_snoc xid pre p
    have hassoc : pre ++ p :: rest = (pre ++ [p]) ++ rest := by simp
    by_cases hsame : pre.getLast?.map xid = some (xid p)
    · -- same transaction: no stop
      have hpre : pre ≠ [] := by intro e; subst e; simp at hsame
      have hpos : 0 < (runs xid pre).length := by
        cases pre with
        | nil => exact absurd rfl hpre
        | cons a A => exact runs_length_pos xid a A
      have hstep : truncStep xid (N : Int) 0 st p =
          { completed := false, posts := pre ++ [p], xactsSeen := st.xactsSeen, lastXact := some (xid p), out := [] } := by
        unfold truncStep
        simp only [h1, Bool.false_eq_true, if_false, h4, hsame, ne_eq, not_true_eq_false, h2, h3]
        rw [if_neg]
        simp only [Gen.Regroup.truncEarlyStop, Gen.Regroup.Cmp.eval]
        intro hh
        have := hh.2.2
        simp only [ge_iff_le, decide_eq_true_eq] at this
        omega
      rw [hstep, hassoc]
      apply ih
      refine ⟨rfl, rfl, rfl, by simp, ?_, ?_⟩
      · simp only [hsnoc, hsame, if_true]; exact h5
      · simp only [hsnoc, hsame, if_true]; exact h6
    · -- a new transaction begins with p
      have hb : runs xid (pre ++ p :: rest) = runs xid pre ++ runs xid (p :: rest) := by
        apply runs_append_boundary
        intro a ha b hb
        simp only [List.head?_cons, Option.some.injEq] at hb
        subst hb
        intro e; apply hsame; simp [ha, e]
      cases pre with
      | nil =>
        have hstep : truncStep xid (N : Int) 0 st p =
            { completed := false, posts := [p], xactsSeen := st.xactsSeen, lastXact := some (xid p), out := [] } := by
          unfold truncStep
          simp only [h1, Bool.false_eq_true, if_false, h4, h2, h3]
          simp only [List.getLast?_nil, Option.map_none, ne_eq, reduceCtorEq, not_false_eq_true, if_true,
            Option.isSome_none, List.nil_append]
          have h5' : st.xactsSeen = 0 := h5
          rw [if_neg]
          · simp
          · simp only [Gen.Regroup.truncEarlyStop, Gen.Regroup.Cmp.eval, h5']
            intro hh
            have := hh.2.2
            simp at this
            omega
        rw [hstep]
        have := ih { completed := false, posts := [p], xactsSeen := st.xactsSeen, lastXact := some (xid p), out := [] } [p]
          ⟨rfl, rfl, rfl, by simp, by simp [runs, consRun] at h5 ⊢; exact h5, by simp [runs, consRun]; omega⟩
        simpa using this
      | cons a A =>
        have hpos : 0 < (runs xid (a :: A)).length := runs_length_pos xid a A
        have hlast : ((a :: A).getLast?).isSome = true := by
          rw [List.getLast?_eq_some_getLast (by simp)]; rfl
        by_cases hstop : (runs xid (a :: A)).length = N
        · -- the early stop
          have hstep : truncStep xid (N : Int) 0 st p =
              { completed := true, posts := [], xactsSeen := st.xactsSeen + 1, lastXact := some (xid p),
                out := truncFlush xid (N : Int) 0 (a :: A) } := by
            unfold truncStep
            simp only [h1, Bool.false_eq_true, if_false, h4, h2, h3, List.nil_append]
            have hne : (Option.map xid (a :: A).getLast? ≠ some (xid p)) := hsame
            simp only [hne, ne_eq, not_false_eq_true, if_true, Option.isSome_map, hlast]
            rw [if_pos]
            simp only [Gen.Regroup.truncEarlyStop, Gen.Regroup.Cmp.eval, ge_iff_le, decide_eq_true_eq]
            and_intros <;> first | trivial | rfl | omega
          rw [hstep, truncRun_completed _ _ _ _ _ rfl]
          simp only [truncFlush, List.append_nil]
          have := truncFlush_head xid N (a :: A)
          simp only [truncFlush] at this
          rw [this, hb, List.take_append_of_le_length (by omega)]
        · have hlt : (runs xid (a :: A)).length < N := by omega
          have hstep : truncStep xid (N : Int) 0 st p =
              { completed := false, posts := (a :: A) ++ [p], xactsSeen := st.xactsSeen + 1, lastXact := some (xid p),
                out := [] } := by
            unfold truncStep
            simp only [h1, Bool.false_eq_true, if_false, h4, h2, h3]
            have hne : (Option.map xid (a :: A).getLast? ≠ some (xid p)) := hsame
            simp only [hne, ne_eq, not_false_eq_true, if_true, Option.isSome_map, hlast]
            rw [if_neg]
            simp only [Gen.Regroup.truncEarlyStop, Gen.Regroup.Cmp.eval, ge_iff_le, decide_eq_true_eq]
            intro hh
            have := hh.2.2
            omega
          rw [hstep, hassoc]
          apply ih
          refine ⟨rfl, rfl, rfl, ?_, ?_, ?_⟩
          · show some (xid p) = Option.map xid (((a :: A) ++ [p]).getLast?)
            rw [getLast?_snoc]; rfl
          · simp only [hsnoc, hsame, if_false]; omega
          · simp only [hsnoc, hsame, if_false]; omega

theorem truncate_head_eq (N : Nat) (posts : List α) :
    truncate xid (N : Int) 0 posts = ((runs xid posts).take N).flatten := by
  by_cases hN : N = 0
  · subst hN
    rw [truncate_eq_flush xid _ _ (by simp)]
    exact truncFlush_head xid 0 posts
  · unfold truncate
    have := truncRun_head xid N (by omega) posts TruncState.init []
      ⟨rfl, rfl, rfl, rfl, by simp [TruncState.init, runs], by simp [runs]⟩
    simpa using this

theorem truncate_tail_eq (N : Nat) (posts : List α) :
    truncate xid 0 (N : Int) posts =
      ((runs xid posts).drop ((runs xid posts).length - N)).flatten := by
  rw [truncate_eq_flush xid _ _ (by simp)]
  exact truncFlush_tail xid N posts

/-! ### both counts, negative counts -/

/-- the window of truncate_xacts::flush, over the comparison operators read from the source -/
theorem truncPrint_iff (h t l i : Int) :
    truncPrint h t l i = true ↔
      (h > 0 ∧ i < h) ∨ (h < 0 ∧ i ≥ -h) ∨ (t > 0 ∧ l - i ≤ t) ∨ (t < 0 ∧ l - i > -t) := by
  unfold truncPrint
  simp only [Gen.Regroup.truncHeadPos, Gen.Regroup.truncHeadNeg, Gen.Regroup.truncTailPos,
    Gen.Regroup.truncTailNeg, Gen.Regroup.Cmp.eval]
  by_cases h0 : h = 0 <;> by_cases t0 : t = 0 <;>
    by_cases a1 : (h > 0 ∧ i < h) <;> by_cases a2 : (h < 0 ∧ i ≥ -h) <;>
    by_cases a3 : (t > 0 ∧ l - i ≤ t) <;> by_cases a4 : (t < 0 ∧ l - i > -t) <;>
    simp_all <;> omega

/-- For every pair of counts the handler (state machine, early stop, flush) keeps the
    transactions whose index passes the window of flush. -/
theorem truncate_window (rows : List α) :
    truncate xid head tail rows =
      selRuns (fun j => truncPrint head tail ((runs xid rows).length : Nat) (j : Int)) 0 (runs xid rows) := by
  by_cases hs : tail = 0 ∧ head > 0
  · obtain ⟨ht, hh⟩ := hs
    subst ht
    have hN : head = ((head.toNat : Nat) : Int) := by omega
    rw [hN, truncate_head_eq, ← truncFlush_head, truncFlush_eq_selRuns]
  · rw [truncate_eq_flush xid head tail hs, truncFlush_eq_selRuns]

theorem selRuns_congr (p q : Nat → Bool) (gs : List (List α)) (k : Nat)
    (h : ∀ j, k ≤ j → j < k + gs.length → p j = q j) : selRuns p k gs = selRuns q k gs := by
  induction gs generalizing k with
  | nil => rfl
  | cons g gs ih =>
    simp only [selRuns]
    rw [h k (by omega) (by simp), ih (k + 1) (fun j h1 h2 => h j (by omega) (by simp at h2 ⊢; omega))]

theorem selRuns_union (N M L : Nat) (gs : List (List α)) (k : Nat) (hL : L = k + gs.length) :
    selRuns (fun j => decide (j < N) || decide (L - j ≤ M)) k gs =
      (gs.take (N - k) ++ gs.drop (max (N - k) (gs.length - M))).flatten := by
  induction gs generalizing k with
  | nil => simp [selRuns]
  | cons g gs ih =>
    simp only [selRuns, List.length_cons] at hL ⊢
    rw [ih (k + 1) (by omega)]
    by_cases hk : k < N
    · have e1 : N - k = (N - (k + 1)) + 1 := by omega
      have e2 : max (N - k) (gs.length + 1 - M) = max (N - (k + 1)) (gs.length - M) + 1 := by omega
      rw [e2, e1]
      simp [hk]
    · have e1 : N - k = 0 := by omega
      have e1' : N - (k + 1) = 0 := by omega
      rw [e1, e1']
      by_cases hm : L - k ≤ M
      · have e2 : gs.length + 1 - M = 0 := by omega
        have e3 : gs.length - M = 0 := by omega
        simp [hk, hm, e2, e3]
      · have e2 : max 0 (gs.length + 1 - M) = max 0 (gs.length - M) + 1 := by omega
        rw [e2]
        simp [hk, hm]

theorem selRuns_dropFront (K : Nat) (gs : List (List α)) (k : Nat) :
    selRuns (fun j => decide (K ≤ j)) k gs = (gs.drop (K - k)).flatten := by
  induction gs generalizing k with
  | nil => simp [selRuns]
  | cons g gs ih =>
    simp only [selRuns, ih]
    by_cases hk : K ≤ k
    · have e1 : K - k = 0 := by omega
      have e2 : K - (k + 1) = 0 := by omega
      simp [hk, e1, e2]
    · have e1 : K - k = (K - (k + 1)) + 1 := by omega
      rw [e1]; simp [hk]

/-- `--head N --tail M`: the first N transactions, then those of the last M that are not among them -/
theorem truncate_head_tail_eq (N M : Nat) (rows : List α) :
    truncate xid (N : Int) (M : Int) rows =
      ((runs xid rows).take N ++ (runs xid rows).drop (max N ((runs xid rows).length - M))).flatten := by
  rw [truncate_window]
  have := selRuns_union (α := α) N M (runs xid rows).length (runs xid rows) 0 (by simp)
  simp only [Nat.sub_zero] at this
  rw [← this]
  apply selRuns_congr
  intro j _ hj
  simp only [Nat.zero_add] at hj
  rw [Bool.eq_iff_iff, truncPrint_iff]
  simp only [Bool.or_eq_true, decide_eq_true_eq]
  omega

/-- `--head -K` (K ≥ 1): all but the first K transactions -/
theorem truncate_neg_head_eq (K : Nat) (hK : 0 < K) (rows : List α) :
    truncate xid (-(K : Int)) 0 rows = ((runs xid rows).drop K).flatten := by
  rw [truncate_window]
  have := selRuns_dropFront (α := α) K (runs xid rows) 0
  simp only [Nat.sub_zero] at this
  rw [← this]
  apply selRuns_congr
  intro j _ _
  rw [Bool.eq_iff_iff, truncPrint_iff]
  simp only [decide_eq_true_eq]
  omega

/-- `--tail -K` (K ≥ 1): all but the last K transactions -/
theorem truncate_neg_tail_eq (K : Nat) (hK : 0 < K) (rows : List α) :
    truncate xid 0 (-(K : Int)) rows = ((runs xid rows).take ((runs xid rows).length - K)).flatten := by
  rw [truncate_window]
  have := selRuns_take (α := α) ((runs xid rows).length - K) (runs xid rows) 0
  simp only [Nat.sub_zero] at this
  rw [← this]
  apply selRuns_congr
  intro j _ hj
  simp only [Nat.zero_add] at hj
  rw [Bool.eq_iff_iff, truncPrint_iff]
  simp only [decide_eq_true_eq]
  omega

end Regroup
end Ledger
