/-
Helper lemmas behind Props/C17 (sorting part): member-restricted versions of
core's merge sort theorems, uniqueness of the stable arrangement, and the
strict-weak-order algebra of sort_value_is_less_than.
-/
import LedgerModel.Model.Regroup
import LedgerModel.Model.RegroupGuard

namespace Ledger
namespace Regroup

open List

/-- `less` is a strict weak order on the members of `l`: asymmetric and
    negatively transitive (incomparability is then an equivalence and `less`
    is transitive, `SWOOn.trans`). -/
structure SWOOn {α : Type} (less : α → α → Bool) (l : List α) : Prop where
  asymm : ∀ a ∈ l, ∀ b ∈ l, less a b = true → less b a = false
  negTrans : ∀ a ∈ l, ∀ b ∈ l, ∀ c ∈ l, less a b = false → less b c = false → less a c = false

theorem SWOOn.irrefl {α : Type} {less : α → α → Bool} {l : List α} (h : SWOOn less l)
    (a : α) (ha : a ∈ l) : less a a = false := by
  cases hl : less a a with
  | false => rfl
  | true => have := h.asymm a ha a ha hl; simp [hl] at this

theorem SWOOn.trans {α : Type} {less : α → α → Bool} {l : List α} (h : SWOOn less l)
    (a b c : α) (ha : a ∈ l) (hb : b ∈ l) (hc : c ∈ l)
    (hab : less a b = true) (hbc : less b c = true) : less a c = true := by
  cases hac : less a c with
  | true => rfl
  | false =>
    have hcb := h.asymm b hb c hc hbc
    have := h.negTrans a ha c hc b hb hac hcb
    simp [hab] at this

theorem SWOOn.mono {α : Type} {less : α → α → Bool} {l l' : List α} (h : SWOOn less l)
    (hs : ∀ a ∈ l', a ∈ l) : SWOOn less l' :=
  ⟨fun a ha b hb => h.asymm a (hs a ha) b (hs b hb),
   fun a ha b hb c hc => h.negTrans a (hs a ha) b (hs b hb) c (hs c hc)⟩

/-! ### merge sort with hypotheses on the members only -/

theorem mergeSort_attach {α : Type} (l : List α) (le : α → α → Bool) :
    (l.attach.mergeSort (fun a b => le a.1 b.1)).map Subtype.val = l.mergeSort le := by
  have h := List.map_mergeSort (r := fun (a b : {x // x ∈ l}) => le a.1 b.1) (s := le)
    (f := Subtype.val) (l := l.attach) (by intros; rfl)
  rw [h, List.attach_map_subtype_val]

theorem pairwise_mergeSort_mem {α : Type} (le : α → α → Bool) (l : List α)
    (trans : ∀ a ∈ l, ∀ b ∈ l, ∀ c ∈ l, le a b = true → le b c = true → le a c = true)
    (total : ∀ a ∈ l, ∀ b ∈ l, (le a b || le b a) = true) :
    (l.mergeSort le).Pairwise (fun a b => le a b = true) := by
  rw [← mergeSort_attach]
  apply List.Pairwise.map Subtype.val (R := fun (a b : {x // x ∈ l}) => le a.1 b.1 = true)
  · intro a b h; exact h
  · exact List.pairwise_mergeSort (le := fun (a b : {x // x ∈ l}) => le a.1 b.1)
      (fun a b c => trans a.1 a.2 b.1 b.2 c.1 c.2) (fun a b => total a.1 a.2 b.1 b.2) l.attach

theorem pair_sublist_mergeSort_mem {α : Type} (le : α → α → Bool) (l : List α)
    (trans : ∀ a ∈ l, ∀ b ∈ l, ∀ c ∈ l, le a b = true → le b c = true → le a c = true)
    (total : ∀ a ∈ l, ∀ b ∈ l, (le a b || le b a) = true)
    {a b : α} (hab : le a b = true) (h : [a, b] <+ l) : [a, b] <+ l.mergeSort le := by
  rw [← mergeSort_attach]
  rw [← List.attach_map_subtype_val l] at h
  obtain ⟨l', hl', heq⟩ := List.sublist_map_iff.mp h
  match l', heq, hl' with
  | [a', b'], heq, hl' =>
    simp only [List.map_cons, List.map_nil, List.cons.injEq, and_true] at heq
    obtain ⟨rfl, rfl⟩ := heq
    have := List.pair_sublist_mergeSort (le := fun (a b : {x // x ∈ l}) => le a.1 b.1)
      (fun a b c => trans a.1 a.2 b.1 b.2 c.1 c.2) (fun a b => total a.1 a.2 b.1 b.2) hab hl'
    exact this.map Subtype.val

/-! ### `sortBy` -/

theorem sortBy_perm {α : Type} (less : α → α → Bool) (l : List α) : (sortBy less l).Perm l :=
  List.mergeSort_perm _ _

private theorem le_trans_of_swo {α : Type} {less : α → α → Bool} {l : List α} (h : SWOOn less l) :
    ∀ a ∈ l, ∀ b ∈ l, ∀ c ∈ l, (!less b a) = true → (!less c b) = true → (!less c a) = true := by
  intro a ha b hb c hc h1 h2
  simp only [Bool.not_eq_true'] at h1 h2 ⊢
  exact h.negTrans c hc b hb a ha h2 h1

private theorem le_total_of_swo {α : Type} {less : α → α → Bool} {l : List α} (h : SWOOn less l) :
    ∀ a ∈ l, ∀ b ∈ l, ((!less b a) || (!less a b)) = true := by
  intro a ha b hb
  cases hba : less b a with
  | false => simp
  | true => simp [h.asymm b hb a ha hba]

theorem sortBy_pairwise {α : Type} {less : α → α → Bool} {l : List α} (h : SWOOn less l) :
    (sortBy less l).Pairwise (fun a b => less b a = false) := by
  have := pairwise_mergeSort_mem (fun a b => !less b a) l (le_trans_of_swo h) (le_total_of_swo h)
  exact this.imp (by intro a b hab; simpa using hab)

theorem sortBy_stable {α : Type} {less : α → α → Bool} {l : List α} (h : SWOOn less l)
    {a b : α} (hba : less b a = false) (hs : [a, b] <+ l) : [a, b] <+ sortBy less l :=
  pair_sublist_mergeSort_mem (fun a b => !less b a) l (le_trans_of_swo h) (le_total_of_swo h)
    (by simp [hba]) hs

/-- `x` may stand in front of `y` in a stable arrangement by `less`: `y` is not
    strictly less than `x`, and if they tie, `x` had the smaller input position. -/
def MayPrecede {α : Type} (less : α → α → Bool) (x y : α × Nat) : Prop :=
  less y.1 x.1 = false ∧ (less x.1 y.1 = false → x.2 ≤ y.2)

theorem zipIdxLE_iff_mayPrecede {α : Type} (less : α → α → Bool) (x y : α × Nat) :
    List.zipIdxLE (fun a b => !less b a) x y = true ↔ MayPrecede less x y := by
  unfold List.zipIdxLE MayPrecede
  cases h1 : less y.1 x.1 <;> cases h2 : less x.1 y.1 <;> simp [h1, h2]

theorem fst_mem_of_mem_zipIdx {α : Type} {l : List α} {x : α × Nat} (h : x ∈ l.zipIdx) : x.1 ∈ l := by
  have := List.mem_zipIdx_iff_getElem?.mp h
  exact List.mem_of_getElem? this

theorem eq_of_mem_zipIdx_snd {α : Type} {l : List α} {x y : α × Nat} (hx : x ∈ l.zipIdx) (hy : y ∈ l.zipIdx)
    (h : x.2 = y.2) : x = y := by
  have h1 := List.mem_zipIdx_iff_getElem?.mp hx
  have h2 := List.mem_zipIdx_iff_getElem?.mp hy
  rw [h] at h1
  have : x.1 = y.1 := by rw [h1] at h2; exact Option.some.inj h2
  exact Prod.ext this h

theorem mergeSort_zipIdx_pairwise {α : Type} {less : α → α → Bool} {l : List α} (h : SWOOn less l) :
    (l.zipIdx.mergeSort (List.zipIdxLE (fun a b => !less b a))).Pairwise (MayPrecede less) := by
  have := pairwise_mergeSort_mem (List.zipIdxLE (fun a b => !less b a)) l.zipIdx
    (by
      intro a ha b hb c hc hab hbc
      rw [zipIdxLE_iff_mayPrecede] at hab hbc ⊢
      have ma := fst_mem_of_mem_zipIdx ha
      have mb := fst_mem_of_mem_zipIdx hb
      have mc := fst_mem_of_mem_zipIdx hc
      obtain ⟨h1, h2⟩ := hab
      obtain ⟨h3, h4⟩ := hbc
      refine ⟨h.negTrans c.1 mc b.1 mb a.1 ma h3 h1, ?_⟩
      intro hac
      -- a ~ c; then a ~ b and b ~ c
      have hab' : less a.1 b.1 = false := by
        cases hx : less a.1 b.1 with
        | false => rfl
        | true =>
          have := h.negTrans a.1 ma c.1 mc b.1 mb hac h3
          simp [hx] at this
      have hbc' : less b.1 c.1 = false := by
        cases hx : less b.1 c.1 with
        | false => rfl
        | true =>
          have := h.negTrans b.1 mb a.1 ma c.1 mc h1 hac
          simp [hx] at this
      exact Nat.le_trans (h2 hab') (h4 hbc'))
    (by
      intro a ha b hb
      have ma := fst_mem_of_mem_zipIdx ha
      have mb := fst_mem_of_mem_zipIdx hb
      have hasym := h.asymm a.1 ma b.1 mb
      have hasym' := h.asymm b.1 mb a.1 ma
      unfold List.zipIdxLE
      cases h1 : less b.1 a.1 <;> cases h2 : less a.1 b.1 <;> simp_all
      omega)
  exact this.imp (fun hab => (zipIdxLE_iff_mayPrecede less _ _).mp hab)

/-- Uniqueness of the stable arrangement: whatever algorithm produced `m`, if it
    is a rearrangement of the position-tagged input in which every element may
    precede all later ones, it is the model's output. -/
theorem sortBy_unique {α : Type} {less : α → α → Bool} {l : List α} (h : SWOOn less l)
    (m : List (α × Nat)) (hp : m.Perm l.zipIdx) (hm : m.Pairwise (MayPrecede less)) :
    m.map (·.1) = sortBy less l := by
  unfold sortBy
  rw [← List.mergeSort_zipIdx]
  congr 1
  have hS := mergeSort_zipIdx_pairwise h
  have hpS : (l.zipIdx.mergeSort (List.zipIdxLE (fun a b => !less b a))).Perm l.zipIdx := List.mergeSort_perm _ _
  refine List.Perm.eq_of_pairwise (le := MayPrecede less) ?_ hm hS (hp.trans hpS.symm)
  intro x y hx hy hxy hyx
  have mx : x ∈ l.zipIdx := hp.subset hx
  have my : y ∈ l.zipIdx := hpS.subset hy
  apply eq_of_mem_zipIdx_snd mx my
  have := hxy.2 hyx.1
  have := hyx.2 hxy.1
  omega

/-! ### strict-weak-order algebra of sort_value_is_less_than -/

theorem swo_false {α : Type} (l : List α) : SWOOn (fun (_ _ : α) => false) l :=
  ⟨fun _ _ _ _ h => by simp at h, fun _ _ _ _ _ _ _ _ => rfl⟩

theorem swo_flip {α : Type} {lt : α → α → Bool} {l : List α} (h : SWOOn lt l) :
    SWOOn (fun a b => lt b a) l :=
  ⟨fun a ha b hb hab => h.asymm b hb a ha hab,
   fun a ha b hb c hc h1 h2 => h.negTrans c hc b hb a ha h2 h1⟩

/-- one position of sort_value_is_less_than: decide by this key (reversed when
    `inv`), fall through to the later keys on a tie. -/
def lexStep {α : Type} (lt1 : α → α → Bool) (inv : Bool) (rest : α → α → Bool) (a b : α) : Bool :=
  if lt1 a b then !inv else if lt1 b a then inv else rest a b

theorem lexStep_inv {α : Type} {lt1 : α → α → Bool} {l : List α} (h1 : SWOOn lt1 l)
    (rest : α → α → Bool) (a b : α) (ha : a ∈ l) (hb : b ∈ l) :
    lexStep lt1 true rest a b = lexStep (fun a b => lt1 b a) false rest a b := by
  unfold lexStep
  have := h1.asymm a ha b hb
  have := h1.asymm b hb a ha
  cases h : lt1 a b <;> cases h' : lt1 b a <;> simp_all

theorem lexStep_swo_pos {α : Type} {lt1 rest : α → α → Bool} {l : List α}
    (h1 : SWOOn lt1 l) (h2 : SWOOn rest l) : SWOOn (lexStep lt1 false rest) l := by
  constructor
  · intro a ha b hb
    have := h1.asymm a ha b hb
    have := h1.asymm b hb a ha
    have := h2.asymm a ha b hb
    unfold lexStep
    cases h : lt1 a b <;> cases h' : lt1 b a <;> simp_all
  · intro a ha b hb c hc
    have n1 := h1.negTrans a ha b hb c hc
    have n2 := h1.negTrans b hb c hc a ha
    have n3 := h1.negTrans c hc a ha b hb
    have n4 := h2.negTrans a ha b hb c hc
    have s1 := h1.asymm a ha b hb
    have s2 := h1.asymm b hb c hc
    have s3 := h1.asymm a ha c hc
    have s4 := h1.asymm c hc a ha
    unfold lexStep
    cases hab : lt1 a b <;> cases hba : lt1 b a <;> cases hbc : lt1 b c <;> cases hcb : lt1 c b <;>
      cases hac : lt1 a c <;> cases hca : lt1 c a <;> simp_all

theorem lexStep_swo {α : Type} {lt1 rest : α → α → Bool} {l : List α} (inv : Bool)
    (h1 : SWOOn lt1 l) (h2 : SWOOn rest l) : SWOOn (lexStep lt1 inv rest) l := by
  cases inv with
  | false => exact lexStep_swo_pos h1 h2
  | true =>
    have h := lexStep_swo_pos (swo_flip h1) h2
    constructor
    · intro a ha b hb
      rw [lexStep_inv h1 rest a b ha hb, lexStep_inv h1 rest b a hb ha]
      exact h.asymm a ha b hb
    · intro a ha b hb c hc
      rw [lexStep_inv h1 rest a b ha hb, lexStep_inv h1 rest b c hb hc, lexStep_inv h1 rest a c ha hc]
      exact h.negTrans a ha b hb c hc

/-- comparison of two postings by one key field -/
def fieldLt (k : KeyField) (a b : RPost) : Bool := svLt (keyVal k a) (keyVal k b)

theorem postLess_nil (a b : RPost) : postLess [] a b = false := by
  simp [postLess, sortVals, sortValueLess]

theorem postLess_cons (k : SortKey) (ks : List SortKey) (a b : RPost) :
    postLess (k :: ks) a b =
      if !(keyVal k.field a).isBal && !(keyVal k.field b).isBal then
        lexStep (fieldLt k.field) k.inverted (postLess ks) a b
      else postLess ks a b := by
  unfold postLess lexStep fieldLt sortVals
  simp only [List.map_cons, sortValueLess]

/-- a key field is usable on `l`: its comparison is a strict weak order on the
    members and none of them has a balance there. -/
def KeyOK (k : KeyField) (l : List RPost) : Prop :=
  SWOOn (fieldLt k) l ∧ ∀ p ∈ l, (keyVal k p).isBal = false

theorem postLess_swo (ks : List SortKey) (l : List RPost) (h : ∀ k ∈ ks, KeyOK k.field l) :
    SWOOn (postLess ks) l := by
  induction ks with
  | nil =>
    have : postLess [] = fun (_ _ : RPost) => false := by funext a b; exact postLess_nil a b
    rw [this]; exact swo_false l
  | cons k ks ih =>
    have hk := h k (List.mem_cons_self)
    have ih' := ih (fun k' hk' => h k' (List.mem_cons_of_mem _ hk'))
    have hstep := lexStep_swo k.inverted hk.1 ih'
    have heq : ∀ a ∈ l, ∀ b ∈ l, postLess (k :: ks) a b = lexStep (fieldLt k.field) k.inverted (postLess ks) a b := by
      intro a ha b hb
      rw [postLess_cons, hk.2 a ha, hk.2 b hb]; simp
    constructor
    · intro a ha b hb
      rw [heq a ha b hb, heq b hb a ha]; exact hstep.asymm a ha b hb
    · intro a ha b hb c hc
      rw [heq a ha b hb, heq b hb c hc, heq a ha c hc]; exact hstep.negTrans a ha b hb c hc

/-! ### the key fields -/

theorem swo_of_int_key {α : Type} (lt : α → α → Bool) (key : α → Int) (l : List α)
    (h : ∀ a ∈ l, ∀ b ∈ l, lt a b = decide (key a < key b)) : SWOOn lt l := by
  constructor
  · intro a ha b hb; rw [h a ha b hb, h b hb a ha]; simp; omega
  · intro a ha b hb c hc; rw [h a ha b hb, h b hb c hc, h a ha c hc]; simp; omega

theorem swo_of_rat_key {α : Type} (lt : α → α → Bool) (key : α → Rat) (l : List α)
    (h : ∀ a ∈ l, ∀ b ∈ l, lt a b = decide (key a < key b)) : SWOOn lt l := by
  constructor
  · intro a ha b hb; rw [h a ha b hb, h b hb a ha]; simp; grind
  · intro a ha b hb c hc; rw [h a ha b hb, h b hb c hc, h a ha c hc]; simp; grind

theorem swo_of_string_key {α : Type} (lt : α → α → Bool) (key : α → String) (l : List α)
    (h : ∀ a ∈ l, ∀ b ∈ l, lt a b = decide (key a < key b)) : SWOOn lt l := by
  constructor
  · intro a ha b hb; rw [h a ha b hb, h b hb a ha]
    simp only [decide_eq_true_eq, decide_eq_false_iff_not]
    exact String.lt_asymm
  · intro a ha b hb c hc; rw [h a ha b hb, h b hb c hc, h a ha c hc]
    simp only [decide_eq_false_iff_not, String.not_lt]
    exact fun h1 h2 => String.le_trans h2 h1

/-- lexicographic order on (commodity symbol, quantity) -/
def lexLt (x y : String × Rat) : Prop := x.1 < y.1 ∨ (x.1 = y.1 ∧ x.2 < y.2)

instance (x y : String × Rat) : Decidable (lexLt x y) := by unfold lexLt; exact inferInstance

theorem lexLt_asymm {x y : String × Rat} (h : lexLt x y) : ¬ lexLt y x := by
  unfold lexLt at *
  rcases h with h | ⟨h1, h2⟩
  · rintro (h' | ⟨h1', _⟩)
    · exact String.lt_asymm h h'
    · rw [h1'] at h; exact String.lt_irrefl _ h
  · rintro (h' | ⟨_, h2'⟩)
    · rw [h1] at h'; exact String.lt_irrefl _ h'
    · grind

theorem lexLt_negTrans {x y z : String × Rat} (h1 : ¬ lexLt x y) (h2 : ¬ lexLt y z) : ¬ lexLt x z := by
  unfold lexLt at *
  simp only [not_or, String.not_lt, not_and] at h1 h2
  rintro (h | ⟨he, hq⟩)
  · have : z.1 ≤ x.1 := String.le_trans h2.1 h1.1
    exact (String.not_lt.mpr this) h
  · have hyx : y.1 ≤ x.1 := h1.1
    have hxy : x.1 ≤ y.1 := by rw [he]; exact h2.1
    have e1 : x.1 = y.1 := String.le_antisymm hxy hyx
    have e2 : y.1 = z.1 := by rw [← e1]; exact he
    have := h1.2 e1
    have := h2.2 e2
    grind

theorem swo_of_lex_key {α : Type} (lt : α → α → Bool) (key : α → String × Rat) (l : List α)
    (h : ∀ a ∈ l, ∀ b ∈ l, lt a b = decide (lexLt (key a) (key b))) : SWOOn lt l := by
  constructor
  · intro a ha b hb; rw [h a ha b hb, h b hb a ha]
    simp only [decide_eq_true_eq, decide_eq_false_iff_not]
    exact lexLt_asymm
  · intro a ha b hb c hc; rw [h a ha b hb, h b hb c hc, h a ha c hc]
    simp only [decide_eq_false_iff_not]
    exact lexLt_negTrans

theorem keyOK_date (l : List RPost) : KeyOK .date l :=
  ⟨swo_of_int_key _ (fun p => p.date) l (fun _ _ _ _ => rfl), fun _ _ => rfl⟩

theorem keyOK_payee (l : List RPost) : KeyOK .payee l :=
  ⟨swo_of_string_key _ (fun p => p.payee) l (fun _ _ _ _ => rfl), fun _ _ => rfl⟩

theorem keyOK_account (l : List RPost) : KeyOK .account l :=
  ⟨swo_of_string_key _ (fun p => p.account) l (fun _ _ _ _ => rfl), fun _ _ => rfl⟩

/-- the key of a posting amount after `.simplified()`: a real zero is INTEGER 0. -/
def amtKey (a : Amount) : Value := if a.q = 0 then .int 0 else .amt a

theorem simplify_amt (a : Amount) : (Value.amt a).simplify = amtKey a := by
  unfold Value.simplify amtKey Value.isRealZero Amount.isRealZero
  by_cases h : a.q = 0 <;> simp [h]

theorem ordLt (x y : Rat) :
    ((if x < y then Ordering.lt else if x = y then .eq else .gt) == Ordering.lt) = decide (x < y) := by
  by_cases h : x < y
  · simp [h]
  · by_cases h' : x = y <;> simp [h, h']

theorem ordGt (x y : Rat) :
    ((if x < y then Ordering.lt else if x = y then .eq else .gt) == Ordering.gt) = decide (y < x) := by
  by_cases h : x < y
  · have : ¬ y < x := by grind
    simp [h, this]
  · by_cases h' : x = y
    · subst h'; simp [h]
    · have : y < x := by grind
      simp [h, h', this]

theorem cmp_ok (a b : Amount) (h : ¬ (a.hasComm = true ∧ b.hasComm = true ∧ a.comm ≠ b.comm)) :
    Amount.cmp a b = .ok (if a.q < b.q then .lt else if a.q = b.q then .eq else .gt) := by
  unfold Amount.cmp; simp only [h, if_false]

theorem lt_amtKey_num (a b : Amount)
    (h : a.q = 0 ∨ b.q = 0 ∨ a.comm = b.comm ∨ a.comm = "" ∨ b.comm = "") :
    Value.lt (amtKey a) (amtKey b) = .ok (decide (a.q < b.q)) := by
  unfold amtKey
  by_cases ha : a.q = 0 <;> by_cases hb : b.q = 0
  · simp [ha, hb, Value.lt]
  · simp only [ha, hb, if_true, if_false, Value.lt]
    rw [cmp_ok _ _ (by simp [Amount.hasComm, Amount.ofInt])]
    simp [Except.map, Amount.ofInt]; exact ordGt _ _
  · simp only [ha, hb, if_true, if_false, Value.lt]
    rw [cmp_ok _ _ (by simp [Amount.hasComm, Amount.ofInt])]
    simp [Except.map, Amount.ofInt]; exact ordLt _ _
  · simp only [ha, hb, if_false, Value.lt]
    have hc : (a.comm = b.comm ∨ ¬ a.hasComm = true ∨ ¬ b.hasComm = true) := by
      simp [Amount.hasComm]; grind
    simp only [hc, if_true]
    rw [cmp_ok _ _ (by simp [Amount.hasComm]; grind)]
    simp [Except.map, ordLt]

theorem lt_amtKey_mixed (a b : Amount) (ha : a.q ≠ 0) (hb : b.q ≠ 0) (hca : a.comm ≠ "") (hcb : b.comm ≠ "")
    (hne : a.comm ≠ b.comm) :
    Value.lt (amtKey a) (amtKey b) = .ok (decide (a.comm < b.comm)) := by
  unfold amtKey
  simp only [ha, hb, if_false, Value.lt]
  have hc : ¬ (a.comm = b.comm ∨ ¬ a.hasComm = true ∨ ¬ b.hasComm = true) := by
    simp [Amount.hasComm, hca, hcb, hne]
  simp only [hc, if_false, Value.commLt]


theorem keyVal_amount (p : RPost) (x : Amount) (h : p.amount = .amt x) :
    keyVal .amount p = .num (amtKey x) := by
  simp [keyVal, Gen.Regroup.sortKeySimplified, h, simplify_amt]

theorem amtKey_not_bal (x : Amount) : (SortVal.num (amtKey x)).isBal = false := by
  unfold amtKey; split <;> rfl

/-- every posting amount is a single amount and all non-zero ones share the
    commodity `c` (or have none). -/
def OneCommodity (c : Comm) (l : List RPost) : Prop :=
  ∀ p ∈ l, ∃ x, p.amount = .amt x ∧ (x.q = 0 ∨ x.comm = c ∨ x.comm = "")

/-- every posting amount is a single non-zero amount with a commodity. -/
def AllCommoditised (l : List RPost) : Prop :=
  ∀ p ∈ l, ∃ x, p.amount = .amt x ∧ x.q ≠ 0 ∧ x.comm ≠ ""

/-- quantity of a posting amount -/
def amtQ (p : RPost) : Rat := match p.amount with
  | .amt x => x.q
  | _ => 0

def amtC (p : RPost) : String := match p.amount with
  | .amt x => x.comm
  | _ => ""

theorem fieldLt_amount_one {c : Comm} {l : List RPost} (h : OneCommodity c l) :
    ∀ a ∈ l, ∀ b ∈ l, fieldLt .amount a b = decide (amtQ a < amtQ b) := by
  intro a ha b hb
  obtain ⟨x, hx, hx'⟩ := h a ha
  obtain ⟨y, hy, hy'⟩ := h b hb
  unfold fieldLt
  rw [keyVal_amount a x hx, keyVal_amount b y hy]
  simp only [svLt, amtQ, hx, hy]
  rw [lt_amtKey_num x y (by grind)]

theorem fieldLt_amount_mixed {l : List RPost} (h : AllCommoditised l) :
    ∀ a ∈ l, ∀ b ∈ l, fieldLt .amount a b = decide (lexLt (amtC a, amtQ a) (amtC b, amtQ b)) := by
  intro a ha b hb
  obtain ⟨x, hx, hxq, hxc⟩ := h a ha
  obtain ⟨y, hy, hyq, hyc⟩ := h b hb
  unfold fieldLt
  rw [keyVal_amount a x hx, keyVal_amount b y hy]
  simp only [svLt, amtQ, amtC, hx, hy, lexLt]
  by_cases hc : x.comm = y.comm
  · rw [lt_amtKey_num x y (by grind)]
    simp [hc]
  · rw [lt_amtKey_mixed x y hxq hyq hxc hyc hc]
    simp [hc]

theorem keyOK_amount_one {c : Comm} {l : List RPost} (h : OneCommodity c l) : KeyOK .amount l :=
  ⟨swo_of_rat_key _ amtQ l (fieldLt_amount_one h),
   fun p hp => by obtain ⟨x, hx, _⟩ := h p hp; rw [keyVal_amount p x hx]; exact amtKey_not_bal x⟩

theorem keyOK_amount_mixed {l : List RPost} (h : AllCommoditised l) : KeyOK .amount l :=
  ⟨swo_of_lex_key _ (fun p => (amtC p, amtQ p)) l (fieldLt_amount_mixed h),
   fun p hp => by obtain ⟨x, hx, _⟩ := h p hp; rw [keyVal_amount p x hx]; exact amtKey_not_bal x⟩

/-! ### decidable guards for the amount key -/

theorem mem_nonzeroComms {l : List RPost} {p : RPost} {x : Amount} (hp : p ∈ l) (hx : p.amount = .amt x)
    (hq : x.q ≠ 0) (hc : x.comm ≠ "") : x.comm ∈ nonzeroComms l := by
  induction l with
  | nil => simp at hp
  | cons a l ih =>
    rcases List.mem_cons.mp hp with rfl | hp
    · simp [nonzeroComms, hx, hq, hc]
    · have := ih hp
      simp only [nonzeroComms]
      split
      · split
        · exact List.mem_cons_of_mem _ this
        · exact this
      · exact this

theorem oneCommodity_of_guard {l : List RPost} (h : oneCommGuard l = true) : ∃ c, OneCommodity c l := by
  simp only [oneCommGuard, Bool.and_eq_true] at h
  obtain ⟨h1, h2⟩ := h
  have hamt : ∀ p ∈ l, ∃ x, p.amount = .amt x := by
    intro p hp
    have := List.all_eq_true.mp h1 p hp
    cases hv : p.amount <;> simp [hv] at this
    exact ⟨_, rfl⟩
  cases hn : nonzeroComms l with
  | nil =>
    refine ⟨"", fun p hp => ?_⟩
    obtain ⟨x, hx⟩ := hamt p hp
    refine ⟨x, hx, ?_⟩
    by_cases hq : x.q = 0
    · exact Or.inl hq
    · by_cases hc : x.comm = ""
      · exact Or.inr (Or.inl hc)
      · have := mem_nonzeroComms hp hx hq hc
        rw [hn] at this; simp at this
  | cons c cs =>
    rw [hn] at h2
    refine ⟨c, fun p hp => ?_⟩
    obtain ⟨x, hx⟩ := hamt p hp
    refine ⟨x, hx, ?_⟩
    by_cases hq : x.q = 0
    · exact Or.inl hq
    · by_cases hc : x.comm = ""
      · exact Or.inr (Or.inr hc)
      · have hm := mem_nonzeroComms hp hx hq hc
        rw [hn] at hm
        rcases List.mem_cons.mp hm with e | e
        · exact Or.inr (Or.inl e)
        · have := List.all_eq_true.mp h2 _ e
          exact Or.inr (Or.inl (by simpa using this))

theorem allCommoditised_of_guard {l : List RPost} (h : allCommGuard l = true) : AllCommoditised l := by
  intro p hp
  have := List.all_eq_true.mp h p hp
  cases hv : p.amount <;> simp [hv] at this
  exact ⟨_, rfl, this.1, this.2⟩

theorem postLess_swo_of_guard (ks : List SortKey) (l : List RPost) (h : amountKeyGuard ks l = true) :
    SWOOn (postLess ks) l := by
  apply postLess_swo
  intro k hk
  cases hf : k.field with
  | date => exact keyOK_date l
  | payee => exact keyOK_payee l
  | account => exact keyOK_account l
  | amount =>
    simp only [amountKeyGuard, Bool.or_eq_true] at h
    rcases h with (h | h) | h
    · have := List.all_eq_true.mp h k hk
      simp [hf] at this
    · obtain ⟨c, hc⟩ := oneCommodity_of_guard h
      exact keyOK_amount_one hc
    · exact keyOK_amount_mixed (allCommoditised_of_guard h)

end Regroup
end Ledger
