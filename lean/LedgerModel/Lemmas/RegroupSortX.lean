/-
Helper lemmas behind Props/C17: sort_xacts (--sort-xacts) sorts every
transaction by itself and leaves the transactions where they are.
-/
import LedgerModel.Lemmas.RegroupSort
import LedgerModel.Lemmas.RegroupGroups

namespace Ledger
namespace Regroup

open List

theorem flatMap_perm_flatten (gs : List (List RPost)) (f : List RPost → List RPost)
    (h : ∀ g, (f g).Perm g) : (gs.flatMap f).Perm gs.flatten := by
  induction gs with
  | nil => simp
  | cons g gs ih => simp only [List.flatMap_cons, List.flatten_cons]; exact (h g).append ih

theorem sortXacts_perm (ks : List SortKey) (l : List RPost) : (sortXacts ks l).Perm l := by
  unfold sortXacts
  have := flatMap_perm_flatten (runs pxid l) (sortPosts ks) (fun g => sortBy_perm _ g)
  rw [runs_flatten] at this
  exact this

/-- replacing each block by a permutation of itself keeps the block structure -/
theorem GoodRuns.map_perm (f : List RPost → List RPost) (h : ∀ g, (f g).Perm g) :
    ∀ (prev : Option Nat) (gs : List (List RPost)), GoodRuns pxid prev gs → GoodRuns pxid prev (gs.map f)
  | _, [], _ => trivial
  | prev, g :: gs, hg => by
    obtain ⟨p, g', rfl, h2, h3, h4⟩ := hg
    have hp := h (p :: g')
    have hall : ∀ q ∈ f (p :: g'), pxid q = pxid p := by
      intro q hq
      have := hp.subset hq
      rcases List.mem_cons.mp this with rfl | hq'
      · rfl
      · exact h2 q hq'
    cases hf : f (p :: g') with
    | nil => rw [hf] at hp; exact absurd hp.length_eq (by simp)
    | cons p2 g2 =>
      rw [hf] at hall
      have e : pxid p2 = pxid p := hall p2 (by simp)
      refine ⟨p2, g2, by simp [hf], ?_, ?_, ?_⟩
      · intro q hq; rw [hall q (by simp [hq]), e]
      · rw [e]; exact h3
      · rw [e]; exact GoodRuns.map_perm f h _ gs h4

/-- good blocks are the runs of their concatenation -/
theorem runs_flatten_good : ∀ (prev : Option Nat) (gs : List (List RPost)), GoodRuns pxid prev gs →
    runs pxid gs.flatten = gs
  | _, [], _ => rfl
  | prev, g :: gs, hg => by
    obtain ⟨p, g', rfl, h2, _, h4⟩ := hg
    have ih := runs_flatten_good _ gs h4
    simp only [List.flatten_cons]
    have hb : runs pxid ((p :: g') ++ gs.flatten) = runs pxid (p :: g') ++ runs pxid gs.flatten := by
      apply runs_append_boundary
      intro u hu v hv
      have hu' : u ∈ p :: g' := List.mem_of_getLast? hu
      have hux : pxid u = pxid p := by
        rcases List.mem_cons.mp hu' with rfl | h
        · rfl
        · exact h2 u h
      rw [hux]
      cases gs with
      | nil => simp at hv
      | cons g2 gs2 =>
        obtain ⟨q, g2', rfl, _, h3', _⟩ := h4
        simp only [List.flatten_cons, List.cons_append, List.head?_cons, Option.some.injEq] at hv
        subst hv
        intro e; apply h3'; rw [e]
    rw [hb, ih, runs_const p g' (fun q hq => h2 q hq)]
    rfl

/-- after --sort-xacts the transactions are where they were, each one sorted -/
theorem sortXacts_runs (ks : List SortKey) (l : List RPost) :
    runs pxid (sortXacts ks l) = (runs pxid l).map (sortPosts ks) := by
  unfold sortXacts
  rw [List.flatMap_def]
  exact runs_flatten_good none _ (GoodRuns.map_perm (sortPosts ks) (fun g => sortBy_perm _ g) none _ (runs_good pxid l))

end Regroup
end Ledger
