/-
Helper lemmas behind Props/C17 (regrouping part): denotation of accumulated
values, keyed accumulation in an association map, subtotal / by-payee /
collapse invariants.
-/
import LedgerModel.Model.Regroup
import LedgerModel.Props.C03

namespace Ledger
namespace Regroup

open List

/-! ### values that occur as posting amounts and their sums -/

/-- an integer, an amount or a balance -/
def isQty : Value → Bool
  | .int _ => true
  | .amt _ => true
  | .bal _ => true
  | _ => false

/-- null or a quantity: what an accumulator holds -/
def isAcc : Value → Bool
  | .void => true
  | v => isQty v

theorem isAcc_of_isQty {v : Value} (h : isQty v = true) : isAcc v = true := by
  cases v <;> simp_all [isAcc, isQty]

theorem add_ok (a b : Value) (ha : isAcc a = true) (hb : isQty b = true) :
    ∃ r, Value.add a b = .ok r ∧ isQty r = true := by
  cases a with
  | void => exact ⟨b, by simp [Value.add], hb⟩
  | bool _ => simp [isAcc, isQty] at ha
  | int x =>
    cases b with
    | void => simp [isQty] at hb
    | bool _ => simp [isQty] at hb
    | int y => exact ⟨_, rfl, rfl⟩
    | amt y =>
      simp only [Value.add]
      split
      · exact ⟨_, rfl, rfl⟩
      · rename_i h
        simp only [Amount.add, Amount.hasComm, Amount.ofInt]
        simp [Except.map, isQty]
    | bal y => exact ⟨_, rfl, rfl⟩
  | amt x =>
    cases b with
    | void => simp [isQty] at hb
    | bool _ => simp [isQty] at hb
    | int y =>
      simp only [Value.add]
      split
      · exact ⟨_, rfl, rfl⟩
      · simp only [Amount.add, Amount.hasComm, Amount.ofInt]
        simp [Except.map, isQty]
    | amt y =>
      simp only [Value.add]
      split
      · exact ⟨_, rfl, rfl⟩
      · rename_i h
        have hc : x.comm = y.comm := by simpa using h
        simp only [Amount.add, hc]
        simp [Except.map, isQty]
    | bal y => exact ⟨_, rfl, rfl⟩
  | bal x =>
    cases b with
    | void => simp [isQty] at hb
    | bool _ => simp [isQty] at hb
    | int y => exact ⟨_, rfl, rfl⟩
    | amt y => exact ⟨_, rfl, rfl⟩
    | bal y => exact ⟨_, rfl, rfl⟩

theorem vplus_isQty (a b : Value) (ha : isAcc a = true) (hb : isQty b = true) : isQty (vplus a b) = true := by
  obtain ⟨r, hr, hq⟩ := add_ok a b ha hb
  simp [vplus, hr, hq]

theorem vplus_den (a b : Value) (ha : isAcc a = true) (hb : isQty b = true) (c : Comm) :
    (vplus a b).den c = a.den c + b.den c := by
  obtain ⟨r, hr, _⟩ := add_ok a b ha hb
  have := C03.add_den a b r hr c
  simp [vplus, hr, this]

/-- weighted sum over a posting list -/
def wsum (w : RPost → Rat) : List RPost → Rat
  | [] => 0
  | p :: ps => w p + wsum w ps

/-- per-commodity sum of a valuation `v` over a posting list -/
def sumDenBy (v : RPost → Value) (ps : List RPost) (c : Comm) : Rat := wsum (fun p => (v p).den c) ps

/-- per-commodity sum of the values (what the register shows as amount) of a posting list -/
def sumDen (ps : List RPost) (c : Comm) : Rat := sumDenBy (fun p => p.value) ps c

theorem wsum_append (w : RPost → Rat) (a b : List RPost) : wsum w (a ++ b) = wsum w a + wsum w b := by
  induction a with
  | nil => simp [wsum]; grind
  | cons p ps ih => simp only [List.cons_append, wsum, ih]; grind

theorem wsum_flatten (w : RPost → Rat) (gs : List (List RPost)) :
    wsum w gs.flatten = (gs.map (wsum w)).foldr (· + ·) 0 := by
  induction gs with
  | nil => rfl
  | cons g gs ih => simp only [List.flatten_cons, wsum_append, ih, List.map_cons, List.foldr_cons]

theorem wsum_filter_split (w : RPost → Rat) (q : RPost → Bool) (ps : List RPost) :
    wsum w ps = wsum w (ps.filter q) + wsum w (ps.filter (fun p => !q p)) := by
  induction ps with
  | nil => simp [wsum]; grind
  | cons p ps ih =>
    simp only [wsum, List.filter_cons]
    cases q p <;> simp [wsum] <;> grind

theorem wsum_perm (w : RPost → Rat) {a b : List RPost} (h : a.Perm b) : wsum w a = wsum w b := by
  induction h with
  | nil => rfl
  | cons x _ ih => simp only [wsum, ih]
  | swap x y l => simp only [wsum]; grind
  | trans _ _ ih1 ih2 => exact ih1.trans ih2

/-- every posting value is a quantity -/
def AllQty (ps : List RPost) : Prop := ∀ p ∈ ps, isQty p.value = true

theorem foldl_vplus_den (ps : List RPost) (hq : AllQty ps) (v : Value) (hv : isAcc v = true) (c : Comm) :
    (ps.foldl (fun v p => vplus v p.value) v).den c = v.den c + sumDen ps c ∧
    isAcc (ps.foldl (fun v p => vplus v p.value) v) = true := by
  induction ps generalizing v with
  | nil => simp [sumDen, sumDenBy, wsum, hv]; grind
  | cons p ps ih =>
    have hp : isQty p.value = true := hq p (by simp)
    have hq' : AllQty ps := fun r hr => hq r (by simp [hr])
    have h1 := vplus_isQty v p.value hv hp
    have := ih hq' (vplus v p.value) (isAcc_of_isQty h1)
    simp only [List.foldl_cons, this, vplus_den v p.value hv hp c, sumDen, sumDenBy, wsum, and_true]
    grind

theorem sumValue_den (ps : List RPost) (hq : AllQty ps) (c : Comm) : (sumValue ps).den c = sumDen ps c := by
  have := (foldl_vplus_den ps hq .void rfl c).1
  have hv : Value.void.den c = 0 := rfl
  unfold sumValue
  rw [this, hv]; grind

/-! ### running totals (calc_posts) -/

theorem runTotals_fst (t : Value) (ps : List RPost) : (runTotals t ps).map (·.1) = ps := by
  induction ps generalizing t with
  | nil => rfl
  | cons p ps ih => simp [runTotals, ih]

/-- the running total printed on row `k` is the sum of the amounts of rows `0..k` -/
theorem runTotals_den (t : Value) (ht : isAcc t = true) (ps : List RPost) (hq : AllQty ps) (c : Comm)
    (k : Nat) (r : RPost × Value) (hr : (runTotals t ps)[k]? = some r) :
    r.2.den c = t.den c + sumDen (ps.take (k + 1)) c := by
  induction ps generalizing t k with
  | nil => simp [runTotals] at hr
  | cons p ps ih =>
    have hp : isQty p.value = true := hq p (by simp)
    have hq' : AllQty ps := fun r hr => hq r (by simp [hr])
    have h1 := vplus_isQty t p.value ht hp
    cases k with
    | zero =>
      simp only [runTotals, List.getElem?_cons_zero, Option.some.injEq] at hr
      subst hr
      simp only [vplus_den t p.value ht hp c, sumDen, sumDenBy, wsum, List.take_succ_cons, List.take_zero]
      grind
    | succ k =>
      simp only [runTotals, List.getElem?_cons_succ] at hr
      have := ih (vplus t p.value) (isAcc_of_isQty h1) hq' k hr
      rw [this, vplus_den t p.value ht hp c]
      simp only [sumDen, sumDenBy, List.take_succ_cons, wsum]
      grind

/-! ### association maps -/

namespace AMap

variable {V : Type}

def keys (m : AMap V) : List String := m.map (·.1)

theorem get?_none_iff (m : AMap V) (k : String) : m.get? k = none ↔ k ∉ keys m := by
  induction m with
  | nil => simp [AMap.get?, keys]
  | cons e m ih =>
    obtain ⟨k', v⟩ := e
    simp only [AMap.get?, keys, List.map_cons, List.mem_cons, not_or]
    by_cases h : k = k'
    · simp [h]
    · simp only [h, if_false, not_false_eq_true, true_and]; exact ih

theorem get?_mem {m : AMap V} {k : String} {v : V} (h : m.get? k = some v) : (k, v) ∈ m := by
  induction m with
  | nil => simp [AMap.get?] at h
  | cons e m ih =>
    obtain ⟨k', v'⟩ := e
    simp only [AMap.get?] at h
    by_cases hk : k = k'
    · simp only [hk, if_true, Option.some.injEq] at h; subst h; subst hk; simp
    · simp only [hk, if_false] at h; exact List.mem_cons_of_mem _ (ih h)

theorem mem_get? {m : AMap V} (hn : (keys m).Nodup) {k : String} {v : V} (h : (k, v) ∈ m) :
    m.get? k = some v := by
  induction m with
  | nil => simp at h
  | cons e m ih =>
    obtain ⟨k', v'⟩ := e
    simp only [keys, List.map_cons, List.nodup_cons] at hn
    simp only [AMap.get?]
    rcases List.mem_cons.mp h with he | hm
    · cases he; simp
    · have hk : k ≠ k' := by
        intro e; subst e
        exact hn.1 (List.mem_map.mpr ⟨(k, v), hm, rfl⟩)
      simp only [hk, if_false]; exact ih hn.2 hm

theorem mem_keys_of_get? {m : AMap V} {k : String} {v : V} (h : m.get? k = some v) : k ∈ keys m := by
  have := get?_mem h
  exact List.mem_map.mpr ⟨(k, v), this, rfl⟩

theorem get?_insertSorted_same (m : AMap V) (k : String) (v : V) (h : m.get? k = none) :
    (m.insertSorted k v).get? k = some v := by
  induction m with
  | nil => simp [AMap.insertSorted, AMap.get?]
  | cons e m ih =>
    obtain ⟨k', v'⟩ := e
    simp only [AMap.get?] at h
    by_cases hk : k = k'
    · simp [hk] at h
    · simp only [hk, if_false] at h
      simp only [AMap.insertSorted]
      split
      · simp [AMap.get?]
      · simp only [AMap.get?, hk, if_false]; exact ih h

theorem get?_insertSorted_other (m : AMap V) (k k' : String) (v : V) (h : k' ≠ k) :
    (m.insertSorted k v).get? k' = m.get? k' := by
  induction m with
  | nil => simp [AMap.insertSorted, AMap.get?, h]
  | cons e m ih =>
    obtain ⟨k'', v''⟩ := e
    simp only [AMap.insertSorted]
    split
    · simp [AMap.get?, h]
    · simp only [AMap.get?, ih]

theorem keys_insertSorted (m : AMap V) (k : String) (v : V) :
    (keys (m.insertSorted k v)).Perm (k :: keys m) := by
  induction m with
  | nil => simp [AMap.insertSorted, keys]
  | cons e m ih =>
    obtain ⟨k', v'⟩ := e
    simp only [AMap.insertSorted]
    split
    · simp [keys]
    · simp only [keys, List.map_cons] at ih ⊢
      exact (List.Perm.cons k' ih).trans (List.Perm.swap k k' _)

/-- in-place update of the entry with key `k` -/
def setAt (k : String) (v' : V) (m : AMap V) : AMap V := m.map (fun e => if e.1 = k then (e.1, v') else e)

theorem keys_setAt (m : AMap V) (k : String) (v' : V) : keys (setAt k v' m) = keys m := by
  induction m with
  | nil => rfl
  | cons e m ih =>
    simp only [keys, setAt, List.map_cons, List.map_map] at ih ⊢
    split <;> simp [ih]

theorem get?_setAt_same (m : AMap V) (k : String) (v v' : V) (h : m.get? k = some v) :
    (setAt k v' m).get? k = some v' := by
  induction m with
  | nil => simp [AMap.get?] at h
  | cons e m ih =>
    obtain ⟨k', v''⟩ := e
    simp only [AMap.get?] at h
    by_cases hk : k = k'
    · subst hk; simp [setAt, AMap.get?]
    · simp only [hk, if_false] at h
      have hk' : ¬ k' = k := fun e => hk e.symm
      simp only [setAt, List.map_cons, hk', if_false, AMap.get?, hk]
      exact ih h

theorem get?_setAt_other (m : AMap V) (k k' : String) (v' : V) (h : k' ≠ k) :
    (setAt k v' m).get? k' = m.get? k' := by
  induction m with
  | nil => rfl
  | cons e m ih =>
    obtain ⟨k'', v''⟩ := e
    simp only [setAt, List.map_cons] at ih ⊢
    by_cases hk : k'' = k
    · subst hk; simp only [if_true, AMap.get?, h, if_false]; exact ih
    · simp only [hk, if_false, AMap.get?, ih]

theorem upd_some (m : AMap V) (k : String) (f : Option V → V) (v : V) (h : m.get? k = some v) :
    m.upd k f = setAt k (f (some v)) m := by
  simp [AMap.upd, h, setAt]

theorem upd_none (m : AMap V) (k : String) (f : Option V → V) (h : m.get? k = none) :
    m.upd k f = m.insertSorted k (f none) := by
  simp [AMap.upd, h]

theorem get?_upd_same (m : AMap V) (k : String) (f : Option V → V) :
    (m.upd k f).get? k = some (f (m.get? k)) := by
  cases h : m.get? k with
  | none => rw [upd_none m k f h]; exact get?_insertSorted_same m k _ h
  | some v => rw [upd_some m k f v h]; exact get?_setAt_same m k v _ h

theorem get?_upd_other (m : AMap V) (k k' : String) (f : Option V → V) (hk : k' ≠ k) :
    (m.upd k f).get? k' = m.get? k' := by
  cases h : m.get? k with
  | none => rw [upd_none m k f h]; exact get?_insertSorted_other m k k' _ hk
  | some v => rw [upd_some m k f v h]; exact get?_setAt_other m k k' _ hk

theorem keys_upd_nodup (m : AMap V) (k : String) (f : Option V → V) (hn : (keys m).Nodup) :
    (keys (m.upd k f)).Nodup := by
  cases h : m.get? k with
  | none =>
    rw [upd_none m k f h]
    have hk := (get?_none_iff m k).mp h
    exact (keys_insertSorted m k _).nodup_iff.mpr (List.nodup_cons.mpr ⟨hk, hn⟩)
  | some v => rw [upd_some m k f v h, keys_setAt]; exact hn

theorem mem_keys_upd (m : AMap V) (k k' : String) (f : Option V → V) :
    k' ∈ keys (m.upd k f) ↔ k' = k ∨ k' ∈ keys m := by
  cases h : m.get? k with
  | none =>
    rw [upd_none m k f h, (keys_insertSorted m k _).mem_iff]; simp
  | some v =>
    rw [upd_some m k f v h, keys_setAt]
    constructor
    · exact Or.inr
    · rintro (e | e)
      · subst e; exact mem_keys_of_get? h
      · exact e

/-- sum of a measure over the entries -/
def sumBy (μ : V → Rat) : AMap V → Rat
  | [] => 0
  | e :: r => μ e.2 + sumBy μ r

theorem sumBy_insertSorted (μ : V → Rat) (m : AMap V) (k : String) (v : V) :
    sumBy μ (m.insertSorted k v) = sumBy μ m + μ v := by
  induction m with
  | nil => simp [AMap.insertSorted, sumBy]; grind
  | cons e m ih =>
    simp only [AMap.insertSorted]
    split
    · simp only [sumBy]; grind
    · simp only [sumBy, ih]; grind

theorem setAt_of_not_mem (m : AMap V) (k : String) (v' : V) (h : k ∉ keys m) : setAt k v' m = m := by
  induction m with
  | nil => rfl
  | cons e m ih =>
    simp only [keys, List.map_cons, List.mem_cons, not_or] at h
    have hk : ¬ e.1 = k := fun e' => h.1 e'.symm
    simp only [setAt, List.map_cons, hk, if_false] at ih ⊢
    rw [ih h.2]

theorem sumBy_setAt (μ : V → Rat) (m : AMap V) (k : String) (v v' : V) (hn : (keys m).Nodup)
    (h : m.get? k = some v) : sumBy μ (setAt k v' m) = sumBy μ m - μ v + μ v' := by
  induction m with
  | nil => simp [AMap.get?] at h
  | cons e m ih =>
    obtain ⟨k', v''⟩ := e
    simp only [keys, List.map_cons, List.nodup_cons] at hn
    simp only [AMap.get?] at h
    by_cases hk : k = k'
    · subst hk
      simp only [if_true, Option.some.injEq] at h
      subst h
      have := setAt_of_not_mem m k v' hn.1
      simp only [setAt] at this
      simp only [setAt, List.map_cons, if_true, sumBy, this]
      grind
    · simp only [hk, if_false] at h
      have hk' : ¬ k' = k := fun e => hk e.symm
      have := ih hn.2 h
      simp only [setAt] at this
      simp only [setAt, List.map_cons, hk', if_false, sumBy, this]
      grind

end AMap

/-! ### keyed accumulation -/

/-- `ps.foldl` of update-or-insert under `key` -/
def accum {V : Type} (key : RPost → String) (step : Option V → RPost → V) (m : AMap V) (ps : List RPost) : AMap V :=
  ps.foldl (fun m p => m.upd (key p) (fun o => step o p)) m

/-- the accumulation step adds the weight `w p` to the measure `μ` and keeps the entries well-formed -/
structure StepOK {V : Type} (ok : V → Prop) (good : RPost → Prop) (μ : V → Rat) (w : RPost → Rat)
    (step : Option V → RPost → V) : Prop where
  none : ∀ p, good p → ok (step none p) ∧ μ (step none p) = w p
  some : ∀ v p, ok v → good p → ok (step (some v) p) ∧ μ (step (some v) p) = μ v + w p

def muAt {V : Type} (μ : V → Rat) (m : AMap V) (k : String) : Rat := ((m.get? k).map μ).getD 0

def AllOK {V : Type} (ok : V → Prop) (m : AMap V) : Prop := ∀ k v, m.get? k = some v → ok v

theorem accum_spec {V : Type} {ok : V → Prop} {good : RPost → Prop} {μ : V → Rat} {w : RPost → Rat}
    {step : Option V → RPost → V} (hs : StepOK ok good μ w step) (key : RPost → String)
    (ps : List RPost) (hg : ∀ p ∈ ps, good p) (m : AMap V) (hn : (AMap.keys m).Nodup) (hok : AllOK ok m) :
    (AMap.keys (accum key step m ps)).Nodup ∧ AllOK ok (accum key step m ps) ∧
    (∀ k, muAt μ (accum key step m ps) k = muAt μ m k + wsum w (ps.filter (fun p => key p = k))) ∧
    (∀ k, k ∈ AMap.keys (accum key step m ps) ↔ k ∈ AMap.keys m ∨ ∃ p ∈ ps, key p = k) ∧
    AMap.sumBy μ (accum key step m ps) = AMap.sumBy μ m + wsum w ps := by
  induction ps generalizing m with
  | nil =>
    simp only [accum, List.foldl_nil, List.filter_nil, wsum, List.not_mem_nil, false_and, exists_false, or_false]
    exact ⟨hn, hok, fun k => by grind, fun k => trivial, by grind⟩
  | cons p ps ih =>
    have hp : good p := hg p (by simp)
    have hg' : ∀ q ∈ ps, good q := fun q hq => hg q (by simp [hq])
    let m1 := m.upd (key p) (fun o => step o p)
    have hn1 : (AMap.keys m1).Nodup := AMap.keys_upd_nodup m _ _ hn
    have hstep : ok (step (m.get? (key p)) p) ∧
        μ (step (m.get? (key p)) p) = muAt μ m (key p) + w p := by
      cases h : m.get? (key p) with
      | none =>
        have := hs.none p hp
        simp only [muAt, h, Option.map_none, Option.getD_none]
        exact ⟨this.1, by rw [this.2]; grind⟩
      | some v =>
        have := hs.some v p (hok _ _ h) hp
        simp only [muAt, h, Option.map_some, Option.getD_some]
        exact this
    have hok1 : AllOK ok m1 := by
      intro k v hkv
      by_cases hk : k = key p
      · subst hk
        rw [AMap.get?_upd_same] at hkv
        cases hkv; exact hstep.1
      · rw [AMap.get?_upd_other m (key p) k _ hk] at hkv
        exact hok k v hkv
    have hmu1 : ∀ k, muAt μ m1 k = muAt μ m k + (if key p = k then w p else 0) := by
      intro k
      by_cases hk : k = key p
      · subst hk
        simp only [muAt, m1, AMap.get?_upd_same, Option.map_some, Option.getD_some, if_true]
        exact hstep.2
      · have hk' : ¬ key p = k := fun e => hk e.symm
        simp only [muAt, m1, AMap.get?_upd_other m (key p) k _ hk, hk', if_false]
        grind
    have hsum1 : AMap.sumBy μ m1 = AMap.sumBy μ m + w p := by
      cases h : m.get? (key p) with
      | none =>
        have h2 := hs.none p hp
        simp only [m1]
        rw [AMap.upd_none m _ _ h, AMap.sumBy_insertSorted, h2.2]
      | some v =>
        have h2 := hs.some v p (hok _ _ h) hp
        simp only [m1]
        rw [AMap.upd_some m _ _ v h, AMap.sumBy_setAt μ m _ v _ hn h, h2.2]
        grind
    obtain ⟨i1, i2, i3, i4, i5⟩ := ih hg' m1 hn1 hok1
    have hacc : accum key step m (p :: ps) = accum key step m1 ps := rfl
    rw [hacc]
    refine ⟨i1, i2, ?_, ?_, ?_⟩
    · intro k
      rw [i3 k, hmu1 k]
      simp only [List.filter_cons]
      by_cases hk : key p = k
      · simp only [hk, decide_true, if_true, wsum]; grind
      · simp only [hk, decide_false, if_false]; grind
    · intro k
      rw [i4 k, AMap.mem_keys_upd]
      constructor
      · rintro ((e | e) | ⟨q, hq, e⟩)
        · exact Or.inr ⟨p, by simp, e.symm⟩
        · exact Or.inl e
        · exact Or.inr ⟨q, by simp [hq], e⟩
      · rintro (e | ⟨q, hq, e⟩)
        · exact Or.inl (Or.inr e)
        · rcases List.mem_cons.mp hq with rfl | hq
          · exact Or.inl (Or.inl e.symm)
          · exact Or.inr ⟨q, hq, e⟩
    · rw [i5, hsum1]; simp only [wsum]; grind

end Regroup
end Ledger
