/-
Helper lemmas behind Props/C05: a generalised denotation `denOn P` (the sum of
the quantities of all components whose commodity satisfies `P`; `Value.den · c`
is the instance `P = (· = c)`), its additivity through `Value.add`, sums over
lists, and the partition lemmas over the posting list.
-/
import LedgerModel.Lemmas.Value
import LedgerModel.Model.Reports

namespace Ledger
namespace Reports

/-! ### sums of rationals over lists -/

def rsum : List Rat → Rat
  | [] => 0
  | x :: xs => x + rsum xs

@[simp] theorem rsum_nil : rsum [] = 0 := rfl
@[simp] theorem rsum_cons (x : Rat) (xs : List Rat) : rsum (x :: xs) = x + rsum xs := rfl

theorem rsum_append (a b : List Rat) : rsum (a ++ b) = rsum a + rsum b := by
  induction a with
  | nil => simp only [List.nil_append, rsum_nil]; grind
  | cons x xs ih => simp only [List.cons_append, rsum_cons, ih]; grind

theorem rsum_map_zero {α : Type} (l : List α) : rsum (l.map (fun _ => (0 : Rat))) = 0 := by
  induction l with
  | nil => rfl
  | cons x xs ih => simp only [List.map_cons, rsum_cons, ih]; grind

theorem rsum_map_add {α : Type} (l : List α) (g h : α → Rat) :
    rsum (l.map (fun a => g a + h a)) = rsum (l.map g) + rsum (l.map h) := by
  induction l with
  | nil => simp only [List.map_nil, rsum_nil]; grind
  | cons x xs ih => simp only [List.map_cons, rsum_cons, ih]; grind

theorem rsum_map_congr {α : Type} (l : List α) (g h : α → Rat) (hgh : ∀ a ∈ l, g a = h a) :
    rsum (l.map g) = rsum (l.map h) := by
  induction l with
  | nil => rfl
  | cons x xs ih =>
    simp only [List.map_cons, rsum_cons]
    rw [hgh x (by simp), ih (fun a ha => hgh a (by simp [ha]))]

theorem rsum_perm {a b : List Rat} (h : a.Perm b) : rsum a = rsum b := by
  induction h with
  | nil => rfl
  | cons x _ ih => simp only [rsum_cons, ih]
  | swap x y l => simp only [rsum_cons]; grind
  | trans _ _ ih1 ih2 => rw [ih1, ih2]

/-- a sum over a filtered list is the sum of the guarded terms. -/
theorem rsum_filter {α : Type} (l : List α) (p : α → Bool) (g : α → Rat) :
    rsum ((l.filter p).map g) = rsum (l.map (fun a => if p a then g a else 0)) := by
  induction l with
  | nil => rfl
  | cons x xs ih =>
    simp only [List.filter_cons]
    split
    · rename_i h; simp only [List.map_cons, rsum_cons, ih, h, if_true]
    · rename_i h; simp only [List.map_cons, rsum_cons, ih, h]; grind

/-- in a duplicate-free list the indicator of one of its members sums to the member's weight. -/
theorem rsum_indicator {α : Type} [DecidableEq α] (l : List α) (hl : l.Nodup) (k : α) (hk : k ∈ l) (x : Rat) :
    rsum (l.map (fun a => if a = k then x else 0)) = x := by
  induction l with
  | nil => cases hk
  | cons y ys ih =>
    simp only [List.map_cons, rsum_cons]
    have hnd := List.nodup_cons.mp hl
    by_cases hy : y = k
    · subst hy
      have : rsum (ys.map (fun a => if a = y then x else 0)) = 0 := by
        rw [rsum_map_congr ys _ (fun _ => 0) (fun a ha => by
          have : a ≠ y := fun h => hnd.1 (h ▸ ha)
          simp [this])]
        exact rsum_map_zero ys
      simp only [if_true, this]; grind
    · have hk' : k ∈ ys := by
        cases hk with
        | head => exact absurd rfl hy
        | tail _ h => exact h
      simp only [hy, if_false, ih hnd.2 hk']; grind

theorem rsum_indicator_absent {α : Type} [DecidableEq α] (l : List α) (k : α) (hk : k ∉ l) (x : Rat) :
    rsum (l.map (fun a => if a = k then x else 0)) = 0 := by
  rw [rsum_map_congr l _ (fun _ => 0) (fun a ha => by
    have : a ≠ k := fun h => hk (h ▸ ha)
    simp [this])]
  exact rsum_map_zero l

/-! ### generalised denotation -/

def denOnA (P : Comm → Bool) (a : Amount) : Rat := if P a.comm then a.q else 0

def denOnB (P : Comm → Bool) : Balance → Rat
  | [] => 0
  | x :: xs => denOnA P x + denOnB P xs

def denOnV (P : Comm → Bool) : Value → Rat
  | .void => 0
  | .bool _ => 0
  | .int n => if P "" then (n : Rat) else 0
  | .amt a => denOnA P a
  | .bal b => denOnB P b

theorem den_eq_denOnA (a : Amount) (c : Comm) : a.den c = denOnA (fun x => decide (x = c)) a := by
  simp [Amount.den, denOnA]

theorem den_eq_denOnB (b : Balance) (c : Comm) : b.den c = denOnB (fun x => decide (x = c)) b := by
  induction b with
  | nil => rfl
  | cons x xs ih => simp only [Balance.den_cons, denOnB, ih, den_eq_denOnA]

theorem den_eq_denOnV (v : Value) (c : Comm) : v.den c = denOnV (fun x => decide (x = c)) v := by
  cases v with
  | void => rfl
  | bool b => rfl
  | int n => simp [Value.den, denOnV]
  | amt a => simp only [Value.den, denOnV, den_eq_denOnA]
  | bal b => simp only [Value.den, denOnV, den_eq_denOnB]

@[simp] theorem denOnB_nil (P : Comm → Bool) : denOnB P [] = 0 := rfl
@[simp] theorem denOnB_cons (P : Comm → Bool) (x : Amount) (xs : Balance) :
    denOnB P (x :: xs) = denOnA P x + denOnB P xs := rfl

theorem denOnA_ofInt (P : Comm → Bool) (n : Int) :
    denOnA P (Amount.ofInt n) = if P "" then (n : Rat) else 0 := rfl

theorem denOnB_ofAmt (P : Comm → Bool) (a : Amount) : denOnB P (Balance.ofAmt a) = denOnA P a := by
  unfold Balance.ofAmt
  split
  · rename_i h; simp [denOnA, h]
  · simp only [denOnB_cons, denOnB_nil]; grind

theorem denOnB_addGo (P : Comm → Bool) (b : Balance) (a : Amount) :
    denOnB P (Balance.addGo b a) = denOnB P b + denOnA P a := by
  induction b with
  | nil => simp only [Balance.addGo, denOnB_cons, denOnB_nil]; grind
  | cons x xs ih =>
    unfold Balance.addGo
    split
    · rename_i h
      simp only [denOnB_cons, denOnA, h]
      split <;> grind
    · simp only [denOnB_cons, ih]; grind

theorem denOnB_addAmt (P : Comm → Bool) (b : Balance) (a : Amount) :
    denOnB P (Balance.addAmt b a) = denOnB P b + denOnA P a := by
  unfold Balance.addAmt
  split
  · rename_i h; simp only [denOnA, h]; split <;> grind
  · exact denOnB_addGo P b a

theorem denOnB_add (P : Comm → Bool) (a b : Balance) :
    denOnB P (Balance.add a b) = denOnB P a + denOnB P b := by
  unfold Balance.add
  induction b generalizing a with
  | nil => simp only [List.foldl_nil, denOnB_nil]; grind
  | cons x xs ih => simp only [List.foldl_cons, ih, denOnB_addAmt, denOnB_cons]; grind

theorem denOnA_add (P : Comm → Bool) {a b r : Amount} (h : Amount.add a b = .ok r) (hc : a.comm = b.comm) :
    denOnA P r = denOnA P a + denOnA P b := by
  unfold Amount.add at h
  split at h
  · cases h
  · cases h
    simp only [denOnA, ← hc]; split <;> grind

/-- `value_t::operator+=` preserves the generalised denotation on every cell where it is defined. -/
theorem add_denOn (P : Comm → Bool) (a b r : Value) (h : Value.add a b = .ok r) :
    denOnV P r = denOnV P a + denOnV P b := by
  unfold Value.add at h
  split at h
  · cases h; simp only [denOnV]; grind
  · cases h; simp only [denOnV]; split <;> grind
  · rename_i x y
    split at h
    · cases h
      simp only [denOnV, denOnB_addAmt, denOnB_ofAmt, denOnA_ofInt]
    · rename_i hy
      obtain ⟨r', hr, rfl⟩ := Except.map_eq_ok h
      have hc : (Amount.ofInt x).comm = y.comm := by
        simp [Amount.hasComm] at hy; simp [Amount.ofInt, hy]
      simpa [denOnV, denOnA_ofInt] using denOnA_add P hr hc
  · cases h
    simp only [denOnV, denOnB_add, denOnB_ofAmt, denOnA_ofInt]
  · rename_i x y
    split at h
    · cases h
      simp only [denOnV, denOnB_addAmt, denOnB_ofAmt, denOnA_ofInt]
    · rename_i hx
      obtain ⟨r', hr, rfl⟩ := Except.map_eq_ok h
      have hc : x.comm = (Amount.ofInt y).comm := by
        simp [Amount.hasComm] at hx; simp [Amount.ofInt, hx]
      simpa [denOnV, denOnA_ofInt] using denOnA_add P hr hc
  · rename_i x y
    split at h
    · cases h
      simp only [denOnV, denOnB_addAmt, denOnB_ofAmt]
    · rename_i hxy
      obtain ⟨r', hr, rfl⟩ := Except.map_eq_ok h
      have hc : x.comm = y.comm := by simpa using hxy
      simpa [denOnV] using denOnA_add P hr hc
  · cases h; simp only [denOnV, denOnB_add, denOnB_ofAmt]
  · cases h; simp only [denOnV, denOnB_addAmt, denOnA_ofInt]
  · cases h; simp only [denOnV, denOnB_addAmt]
  · cases h; simp only [denOnV, denOnB_add]
  · cases h

theorem addV_denOn (P : Comm → Bool) (a b r : Value) (h : addV a b = .ok r) :
    denOnV P r = denOnV P a + denOnV P b := by
  unfold addV at h
  split at h
  · cases h; simp only [denOnV]; grind
  · exact add_denOn P a _ r h

theorem sumFrom_denOn (P : Comm → Bool) (vs : List Value) (acc r : Value) (h : sumFrom acc vs = .ok r) :
    denOnV P r = denOnV P acc + rsum (vs.map (denOnV P)) := by
  induction vs generalizing acc with
  | nil => simp only [sumFrom] at h; cases h; simp only [List.map_nil, rsum_nil]; grind
  | cons v vs ih =>
    simp only [sumFrom] at h
    split at h
    · rename_i a ha
      rw [ih a h, addV_denOn P acc v a ha]
      simp only [List.map_cons, rsum_cons]; grind
    · cases h

theorem sumV_denOn (P : Comm → Bool) (vs : List Value) (r : Value) (h : sumV vs = .ok r) :
    denOnV P r = rsum (vs.map (denOnV P)) := by
  have := sumFrom_denOn P vs .void r h
  have h0 : denOnV P .void = 0 := rfl
  rw [this, h0]; grind

/-- the `den` instance used by the property theorems. -/
theorem sumV_den (vs : List Value) (r : Value) (h : sumV vs = .ok r) (c : Comm) :
    r.den c = rsum (vs.map (fun v => v.den c)) := by
  rw [den_eq_denOnV, sumV_denOn _ vs r h]
  exact rsum_map_congr vs _ _ (fun v _ => (den_eq_denOnV v c).symm)

theorem addV_den (a b r : Value) (h : addV a b = .ok r) (c : Comm) : r.den c = a.den c + b.den c := by
  rw [den_eq_denOnV, addV_denOn _ a b r h, ← den_eq_denOnV, ← den_eq_denOnV]

end Reports
end Ledger
