/-
Helper lemmas behind Props/C05, part 4: the reports are DEFINED (no `Err`) whenever
the valuation yields numeric values – this is what makes the `= .ok …` hypotheses of
the property theorems satisfiable for every journal (non-vacuity for all inputs).
-/
import LedgerModel.Lemmas.ReportsRows

namespace Ledger
namespace Reports

/-- VOID / INTEGER / AMOUNT / BALANCE. -/
def isNum : Value → Bool
  | .bool _ => false
  | _ => true

theorem amountAdd_ok (x y : Amount) (h : ¬ (x.hasComm = true ∧ y.hasComm = true ∧ x.comm ≠ y.comm)) :
    ∃ r, Amount.add x y = .ok r := by
  unfold Amount.add
  rw [if_neg h]
  exact ⟨_, rfl⟩

theorem add_isNum (a b : Value) (ha : isNum a = true) (hb : isNum b = true) (hv : b ≠ .void) :
    ∃ r, Value.add a b = .ok r ∧ isNum r = true := by
  cases a with
  | bool _ => cases ha
  | void => exact ⟨b, by simp [Value.add], hb⟩
  | int x =>
    cases b with
    | bool _ => cases hb
    | void => exact absurd rfl hv
    | int y => exact ⟨_, rfl, rfl⟩
    | amt y =>
      simp only [Value.add]
      split
      · exact ⟨_, rfl, rfl⟩
      · obtain ⟨r, hr⟩ := amountAdd_ok (Amount.ofInt x) y (by simp [Amount.ofInt, Amount.hasComm])
        exact ⟨.amt r, by simp [hr, Except.map], rfl⟩
    | bal y => exact ⟨_, rfl, rfl⟩
  | amt x =>
    cases b with
    | bool _ => cases hb
    | void => exact absurd rfl hv
    | int y =>
      simp only [Value.add]
      split
      · exact ⟨_, rfl, rfl⟩
      · obtain ⟨r, hr⟩ := amountAdd_ok x (Amount.ofInt y) (by simp [Amount.ofInt, Amount.hasComm])
        exact ⟨.amt r, by simp [hr, Except.map], rfl⟩
    | amt y =>
      simp only [Value.add]
      split
      · exact ⟨_, rfl, rfl⟩
      · rename_i hxy
        obtain ⟨r, hr⟩ := amountAdd_ok x y (by intro h; exact h.2.2 (by simpa using hxy))
        exact ⟨.amt r, by simp [hr, Except.map], rfl⟩
    | bal y => exact ⟨_, rfl, rfl⟩
  | bal x =>
    cases b with
    | bool _ => cases hb
    | void => exact absurd rfl hv
    | int y => exact ⟨_, rfl, rfl⟩
    | amt y => exact ⟨_, rfl, rfl⟩
    | bal y => exact ⟨_, rfl, rfl⟩

theorem addV_isNum (a b : Value) (ha : isNum a = true) (hb : isNum b = true) :
    ∃ r, addV a b = .ok r ∧ isNum r = true := by
  cases b with
  | void => exact ⟨a, rfl, ha⟩
  | bool _ => cases hb
  | int y => exact add_isNum a (.int y) ha rfl (by intro h; cases h)
  | amt y => exact add_isNum a (.amt y) ha rfl (by intro h; cases h)
  | bal y => exact add_isNum a (.bal y) ha rfl (by intro h; cases h)

theorem sumFrom_isNum (vs : List Value) (acc : Value) (ha : isNum acc = true) (hv : ∀ v ∈ vs, isNum v = true) :
    ∃ r, sumFrom acc vs = .ok r ∧ isNum r = true := by
  induction vs generalizing acc with
  | nil => exact ⟨acc, rfl, ha⟩
  | cons v vs ih =>
    obtain ⟨a, h1, h2⟩ := addV_isNum acc v ha (hv v (by simp))
    obtain ⟨r, h3, h4⟩ := ih a h2 (fun w hw => hv w (by simp [hw]))
    exact ⟨r, by simp only [sumFrom, h1, h3], h4⟩

theorem sumV_map_isNum {α : Type} (f : α → Value) (hf : ∀ p, isNum (f p) = true) (l : List α) :
    ∃ r, sumV (l.map f) = .ok r ∧ isNum r = true :=
  sumFrom_isNum _ .void rfl (by intro v hv; obtain ⟨p, _, rfl⟩ := List.mem_map.mp hv; exact hf p)

theorem regGo_defined (f : RPost → Value) (hf : ∀ p, isNum (f p) = true) (l : List RPost) (acc : Value)
    (ha : isNum acc = true) : ∃ rows, regGo f acc l = .ok rows := by
  induction l generalizing acc with
  | nil => exact ⟨[], rfl⟩
  | cons p ps ih =>
    obtain ⟨t, h1, h2⟩ := addV_isNum acc (f p) ha (hf p)
    obtain ⟨rest, h3⟩ := ih t h2
    exact ⟨{ post := p, amount := f p, total := t } :: rest, by simp only [regGo, h1, h3]⟩

theorem sumMapM_isNum (g : Path → Res Value) (L : List Path) (acc : Value) (ha : isNum acc = true)
    (hg : ∀ k ∈ L, ∃ v, g k = .ok v ∧ isNum v = true) : ∃ r, sumMapM g L acc = .ok r ∧ isNum r = true := by
  induction L generalizing acc with
  | nil => exact ⟨acc, rfl, ha⟩
  | cons k ks ih =>
    obtain ⟨v, h1, h2⟩ := hg k (by simp)
    obtain ⟨a, h3, h4⟩ := addV_isNum acc v ha h2
    obtain ⟨r, h5, h6⟩ := ih a h4 (fun k' hk' => hg k' (by simp [hk']))
    exact ⟨r, by simp only [sumMapM, h1, h3, h5], h6⟩

theorem acctTotalRec_isNum (f : RPost → Value) (hf : ∀ p, isNum (f p) = true) (keep : RPost → Bool) (ps : List RPost) :
    ∀ (n : Nat) (a : Path), ∃ r, acctTotalRec f keep ps n a = .ok r ∧ isNum r = true := by
  intro n
  induction n with
  | zero => intro a; exact sumV_map_isNum f hf _
  | succ n ih =>
    intro a
    obtain ⟨kids, h1, h2⟩ := sumMapM_isNum (acctTotalRec f keep ps n) (children ps a) .void rfl (fun k _ => ih k)
    obtain ⟨own, h3, h4⟩ := sumV_map_isNum f hf (ps.filter (fun p => keep p && decide (p.path = a)))
    obtain ⟨r, h5, h6⟩ := addV_isNum kids own h2 h4
    refine ⟨r, ?_, h6⟩
    simp only [acctTotalRec, h1, acctAmount, h3, h5]

theorem balRowsOf_defined (f : RPost → Value) (hf : ∀ p, isNum (f p) = true) (keep : RPost → Bool) (ps : List RPost)
    (as : List Path) : ∃ rows, balRowsOf f keep ps as = .ok rows := by
  induction as with
  | nil => exact ⟨[], rfl⟩
  | cons a as ih =>
    obtain ⟨am, h1, _⟩ := sumV_map_isNum f hf (ps.filter (fun p => keep p && decide (p.path = a)))
    obtain ⟨tot, h2, _⟩ := acctTotalRec_isNum f hf keep ps (maxLen ps) a
    obtain ⟨rest, h3⟩ := ih
    exact ⟨{ acct := a, amount := am, total := tot } :: rest, by simp only [balRowsOf, acctAmount, h1, h2, h3]⟩

theorem valAmount_isNum (p : RPost) : isNum (valAmount p) = true := by
  unfold valAmount; split <;> rfl

theorem valCost_isNum (p : RPost) : isNum (valCost p) = true := by
  unfold valCost; split
  · rfl
  · exact valAmount_isNum p

/-- membership form of `balRowsOf`: every row carries the account's own amount and recursive total. -/
theorem balRowsOf_mem (f : RPost → Value) (keep : RPost → Bool) (ps : List RPost) (as : List Path) (rows : List BalRow)
    (h : balRowsOf f keep ps as = .ok rows) (r : BalRow) (hr : r ∈ rows) :
    r.acct ∈ as ∧ acctAmount f keep ps r.acct = .ok r.amount ∧ acctTotalRec f keep ps (maxLen ps) r.acct = .ok r.total := by
  induction as generalizing rows with
  | nil => simp only [balRowsOf] at h; cases h; cases hr
  | cons a as ih =>
    simp only [balRowsOf] at h
    split at h
    · rename_i am ham
      split at h
      · rename_i tot htot
        split at h
        · rename_i rest hrest
          cases h
          cases hr with
          | head => exact ⟨by simp, ham, htot⟩
          | tail _ hr' =>
            have := ih rest hrest hr'
            exact ⟨by simp [this.1], this.2⟩
        · cases h
      · cases h
    · cases h

end Reports
end Ledger
