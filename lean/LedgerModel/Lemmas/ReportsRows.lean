/-
Helper lemmas behind Props/C05, part 3: the accounts of the journal, the rows of
the balance report under --flat / --depth, and strip_annotations.
-/
import LedgerModel.Lemmas.ReportsTree

namespace Ledger
namespace Reports

/-! ### the account universe -/

theorem mem_prefixes (p a : Path) : a ∈ prefixes p ↔ ∃ n, n < p.length ∧ p.take (n + 1) = a := by
  simp [prefixes, List.mem_map, List.mem_range]

theorem mem_accounts (ps : List RPost) (a : Path) :
    a ∈ accounts ps ↔ ∃ p ∈ ps, ∃ n, n < p.path.length ∧ p.path.take (n + 1) = a := by
  unfold accounts
  rw [mem_dedup, List.mem_flatMap]
  constructor
  · rintro ⟨p, hp, h⟩; exact ⟨p, hp, (mem_prefixes _ _).mp h⟩
  · rintro ⟨p, hp, h⟩; exact ⟨p, hp, (mem_prefixes _ _).mpr h⟩

theorem nodup_accounts (ps : List RPost) : (accounts ps).Nodup := nodup_dedup _

theorem take_mem_accounts {ps : List RPost} {p : RPost} (hp : p ∈ ps) (n : Nat) (hn : 1 ≤ n) :
    p.path.take n ∈ accounts ps := by
  rw [mem_accounts]
  have hpos := path_length_pos p
  refine ⟨p, hp, min n p.path.length - 1, by omega, ?_⟩
  have : min n p.path.length - 1 + 1 = min n p.path.length := by omega
  rw [this]
  by_cases h : n ≤ p.path.length
  · have : min n p.path.length = n := by omega
    rw [this]
  · have h1 : min n p.path.length = p.path.length := by omega
    rw [h1, List.take_length, List.take_of_length_le (by omega)]

theorem path_mem_accounts {ps : List RPost} {p : RPost} (hp : p ∈ ps) : p.path ∈ accounts ps := by
  have := take_mem_accounts hp p.path.length (path_length_pos p)
  rwa [List.take_length] at this

/-! ### rows of the balance report -/

theorem balRowsOf_sum (f : RPost → Value) (keep : RPost → Bool) (ps : List RPost)
    (G : BalRow → Rat) (G' : Path → Rat)
    (hG : ∀ a am tot, acctAmount f keep ps a = .ok am → acctTotalRec f keep ps (maxLen ps) a = .ok tot →
      G { acct := a, amount := am, total := tot } = G' a)
    (as : List Path) (rows : List BalRow) (h : balRowsOf f keep ps as = .ok rows) :
    rsum (rows.map G) = rsum (as.map G') ∧ rows.map (·.acct) = as := by
  induction as generalizing rows with
  | nil => simp only [balRowsOf] at h; cases h; exact ⟨rfl, rfl⟩
  | cons a as ih =>
    simp only [balRowsOf] at h
    split at h
    · rename_i am ham
      split at h
      · rename_i tot htot
        split at h
        · rename_i rest hrest
          cases h
          have := ih rest hrest
          simp only [List.map_cons, rsum_cons, this.1, this.2, hG a am tot ham htot, and_self]
        · cases h
      · cases h
    · cases h

/-- a sum over the displayed accounts (sorted, filtered) as a guarded sum over the account universe. -/
theorem rsum_shown (ps : List RPost) (sh : Path → Bool) (G' : Path → Rat) :
    rsum (((sortedAccounts ps).filter sh).map G') = rsum ((accounts ps).map (fun a => if sh a then G' a else 0)) := by
  rw [← rsum_filter]
  apply rsum_perm
  apply List.Perm.map
  apply List.Perm.filter
  exact List.mergeSort_perm _ _

theorem gsum_all_eq (f : RPost → Value) (keep : RPost → Bool) (c : Comm) (ps : List RPost) :
    gsum f keep c ps (under []) = gsum f keep c ps (fun _ => true) :=
  gsum_congr f keep c ps _ _ (fun p _ => under_nil p.path)

theorem grandTotal_den (f : RPost → Value) (keep : RPost → Bool) (c : Comm) (ps : List RPost) (g : Value)
    (h : grandTotal f keep ps = .ok g) : g.den c = gsum f keep c ps (fun _ => true) := by
  rw [← gsum_all_eq]
  exact acctTotalRec_den f keep c ps (maxLen ps) [] g (by simp) h

theorem visited_false_gsum (f : RPost → Value) (keep : RPost → Bool) (c : Comm) (ps : List RPost) (a : Path)
    (h : visited keep ps a = false) : gsum f keep c ps (fun q => decide (q = a)) = 0 := by
  apply gsum_false
  intro p hp hk
  unfold visited at h
  rw [List.any_eq_false] at h
  have := h p hp
  simpa [hk] using this

theorem subVisited_false_gsum (f : RPost → Value) (keep : RPost → Bool) (c : Comm) (ps : List RPost) (a : Path)
    (h : subVisited keep ps a = false) : gsum f keep c ps (under a) = 0 := by
  apply gsum_false
  intro p hp hk
  unfold subVisited at h
  rw [List.any_eq_false] at h
  have := h p hp
  simpa [hk] using this

/-- Σ over all accounts of their own postings = Σ of all kept postings. -/
theorem gsum_by_account (f : RPost → Value) (keep : RPost → Bool) (c : Comm) (ps : List RPost) :
    rsum ((accounts ps).map (fun a => gsum f keep c ps (fun q => decide (q = a)))) =
      gsum f keep c ps (fun _ => true) := by
  have := gsum_partition f keep c ps (fun q => some q) (accounts ps) (nodup_accounts ps)
    (by intro p hp k hk; cases hk; exact path_mem_accounts hp)
  simp only [Option.isSome_some] at this
  rw [← this]
  apply rsum_map_congr
  intro a _
  apply gsum_congr
  intro p _
  simp

/-! ### --flat -/

def flatOpts : BalOpts := { flat := true, depth := none }

theorem shown_flat (keep : RPost → Bool) (ps : List RPost) (fuel : Nat) (a : Path) :
    shown flatOpts keep ps fuel a = visited keep ps a := by
  simp [shown, considered, showCond, dispPred, flatOpts]

/-! ### --depth N in tree mode -/

def depthOpts (N : Nat) : BalOpts := { flat := false, depth := some N }

theorem natSum_zero {α : Type} (l : List α) (g : α → Nat) (h : ∀ x ∈ l, g x = 0) : natSum (l.map g) = 0 := by
  induction l with
  | nil => rfl
  | cons x xs ih =>
    simp only [List.map_cons, natSum, h x (by simp), ih (fun y hy => h y (by simp [hy]))]

theorem showCond_deep (N : Nat) (keep : RPost → Bool) (ps : List RPost) (a : Path) (h : N < a.length) :
    showCond (depthOpts N) keep ps 0 a = false := by
  have : ¬ a.length ≤ N := by omega
  simp [showCond, dispPred, depthOpts, this]

/-- below the depth limit nothing is displayed and nothing is reported upwards. -/
theorem markRet_deep (N : Nat) (keep : RPost → Bool) (ps : List RPost) :
    ∀ (n : Nat) (a : Path), N < a.length → markRet (depthOpts N) keep ps n a = 0 := by
  intro n
  induction n with
  | zero => intro a _; rfl
  | succ n ih =>
    intro a h
    have ht : natSum ((children ps a).map (markRet (depthOpts N) keep ps n)) = 0 :=
      natSum_zero _ _ (fun ch hch => ih ch (by rw [children_length hch]; omega))
    simp only [markRet, ht, showCond_deep N keep ps a h, Bool.and_false]
    rfl

theorem kids_zero (N : Nat) (keep : RPost → Bool) (ps : List RPost) (fuel : Nat) (a : Path) (h : N ≤ a.length) :
    natSum ((children ps a).map (markRet (depthOpts N) keep ps fuel)) = 0 :=
  natSum_zero _ _ (fun ch hch => markRet_deep N keep ps fuel ch (by rw [children_length hch]; omega))

theorem shown_deep (N : Nat) (keep : RPost → Bool) (ps : List RPost) (fuel : Nat) (a : Path) (h : N < a.length) :
    shown (depthOpts N) keep ps fuel a = false := by
  simp only [shown, kids_zero N keep ps fuel a (by omega), showCond_deep N keep ps a h, Bool.and_false]

theorem shown_at (N : Nat) (keep : RPost → Bool) (ps : List RPost) (fuel : Nat) (a : Path) (h : a.length = N) :
    shown (depthOpts N) keep ps fuel a = subVisited keep ps a := by
  simp only [shown, kids_zero N keep ps fuel a (by omega)]
  simp [considered, showCond, dispPred, depthOpts, h]

theorem visited_subVisited {keep : RPost → Bool} {ps : List RPost} {a : Path} (h : visited keep ps a = true) :
    subVisited keep ps a = true := by
  unfold visited at h
  unfold subVisited
  rw [List.any_eq_true] at h ⊢
  obtain ⟨p, hp, hk⟩ := h
  refine ⟨p, hp, ?_⟩
  simp only [Bool.and_eq_true, decide_eq_true_eq] at hk
  simp [hk.1, hk.2, under_self]

theorem shown_above (N : Nat) (keep : RPost → Bool) (ps : List RPost) (fuel : Nat) (a : Path) (h : a.length < N)
    (hv : visited keep ps a = true) : shown (depthOpts N) keep ps fuel a = true := by
  have hle : a.length ≤ N := by omega
  simp [shown, considered, showCond, dispPred, depthOpts, hv, visited_subVisited hv, hle]

/-- the key of the depth-N cut: a posting above the cut counts for its own account, a posting at or
    below it for its depth-N ancestor. -/
def cutKey (N : Nat) (q : Path) : Option Path := if q.length < N then some q else some (q.take N)

def cutTerm (f : RPost → Value) (keep : RPost → Bool) (c : Comm) (ps : List RPost) (N : Nat) (a : Path) : Rat :=
  if a.length < N then gsum f keep c ps (fun q => decide (q = a)) else gsum f keep c ps (under a)

theorem cut_shown_term (f : RPost → Value) (keep : RPost → Bool) (c : Comm) (ps : List RPost) (N fuel : Nat) (a : Path) :
    (if shown (depthOpts N) keep ps fuel a then cutTerm f keep c ps N a else 0) =
      gsum f keep c ps (fun q => decide (cutKey N q = some a)) := by
  have hkey : ∀ q : Path, decide (cutKey N q = some a) =
      if a.length < N then decide (q = a) else if a.length = N then under a q else false := by
    intro q
    unfold cutKey
    by_cases hq : q.length < N
    · by_cases ha : a.length < N
      · simp [hq, ha]
      · by_cases ha' : a.length = N
        · have hne : q ≠ a := by intro h; rw [h] at hq; omega
          have hu : under a q = false := by
            cases hu : under a q
            · rfl
            · have := under_length hu; omega
          simp [hq, ha, ha', hne, hu]
        · have hne : q ≠ a := by intro h; rw [h] at hq; omega
          simp [hq, ha, ha', hne]
    · have hlen : (q.take N).length = N := by simp only [List.length_take]; omega
      by_cases ha : a.length < N
      · have h1 : q.take N ≠ a := by intro h; rw [← h] at ha; omega
        have h2 : q ≠ a := by intro h; rw [h] at hq; omega
        simp [hq, ha, h1, h2]
      · by_cases ha' : a.length = N
        · subst ha'
          simp [hq, under]
        · have h1 : q.take N ≠ a := by intro h; rw [← h] at ha'; omega
          simp [hq, ha, ha', h1]
  rw [gsum_congr f keep c ps _
    (fun q => if a.length < N then decide (q = a) else if a.length = N then under a q else false)
    (fun p _ => hkey p.path)]
  unfold cutTerm
  by_cases ha : a.length < N
  · simp only [ha, if_true]
    cases hs : shown (depthOpts N) keep ps fuel a
    · have hv : visited keep ps a = false := by
        cases hv : visited keep ps a
        · rfl
        · rw [shown_above N keep ps fuel a ha hv] at hs; cases hs
      simp only [Bool.false_eq_true, if_false]
      exact (visited_false_gsum f keep c ps a hv).symm
    · simp
  · by_cases ha' : a.length = N
    · subst ha'
      simp only [Nat.lt_irrefl, ↓reduceIte]
      rw [shown_at _ keep ps fuel a rfl]
      cases hs : subVisited keep ps a
      · simp only [Bool.false_eq_true, ↓reduceIte]
        exact (subVisited_false_gsum f keep c ps a hs).symm
      · simp
    · have hdeep : N < a.length := by omega
      simp only [ha, ha', if_false, shown_deep N keep ps fuel a hdeep, Bool.false_eq_true]
      symm
      apply gsum_false
      intro p _ _
      rfl

theorem gsum_cut (f : RPost → Value) (keep : RPost → Bool) (c : Comm) (ps : List RPost) (N : Nat) (hN : 1 ≤ N) :
    rsum ((accounts ps).map (fun a => gsum f keep c ps (fun q => decide (cutKey N q = some a)))) =
      gsum f keep c ps (fun _ => true) := by
  have := gsum_partition f keep c ps (cutKey N) (accounts ps) (nodup_accounts ps)
    (by
      intro p hp k hk
      unfold cutKey at hk
      split at hk
      · cases hk; exact path_mem_accounts hp
      · cases hk; exact take_mem_accounts hp N hN)
  rw [this]
  apply gsum_congr
  intro p _
  unfold cutKey
  split <;> rfl

/-! ### collapse_posts (register under --depth N) -/

theorem collapseGo_sum (f : RPost → Value) (n : Nat) (c : Comm) (g : List RPost) (keys : List Path)
    (rows : List (Path × Value)) (h : collapseXact.go f n g keys = .ok rows) :
    rsum (rows.map (fun r => r.2.den c)) =
      rsum (keys.map (fun k => gsum f (fun _ => true) c g (fun q => decide (truncPath n q = k)))) ∧
    rows.map (·.1) = keys := by
  induction keys generalizing rows with
  | nil => simp only [collapseXact.go] at h; cases h; exact ⟨rfl, rfl⟩
  | cons k ks ih =>
    simp only [collapseXact.go] at h
    split at h
    · rename_i v hv
      split at h
      · rename_i rest hrest
        cases h
        have hden := sumV_filter_den f (fun _ => true) c g (fun q => decide (truncPath n q = k)) v (by
          simpa only [Bool.true_and] using hv)
        have := ih rest hrest
        simp only [List.map_cons, rsum_cons, hden, this.1, this.2, and_self]
      · cases h
    · cases h

/-- collapsing one transaction's postings per depth-N account keeps their sum. -/
theorem collapseXact_sum (f : RPost → Value) (n : Nat) (c : Comm) (g : List RPost) (rows : List (Path × Value))
    (h : collapseXact f n g = .ok rows) :
    rsum (rows.map (fun r => r.2.den c)) = rsum (g.map (fun p => (f p).den c)) := by
  unfold collapseXact at h
  rw [(collapseGo_sum f n c g _ rows h).1]
  have := gsum_partition f (fun _ => true) c g (fun q => some (truncPath n q)) (dedup (g.map (fun p => truncPath n p.path)))
    (nodup_dedup _) (by
      intro p hp k hk
      cases hk
      rw [mem_dedup]
      exact List.mem_map.mpr ⟨p, hp, rfl⟩)
  have h2 : rsum ((dedup (g.map (fun p => truncPath n p.path))).map
        (fun k => gsum f (fun _ => true) c g (fun q => decide (truncPath n q = k)))) =
      rsum ((dedup (g.map (fun p => truncPath n p.path))).map
        (fun k => gsum f (fun _ => true) c g (fun q => decide (some (truncPath n q) = some k)))) := by
    apply rsum_map_congr
    intro k _
    apply gsum_congr
    intro p _
    simp
  rw [h2, this]
  unfold gsum wt
  apply rsum_map_congr
  intro p _
  simp

/-! ### strip_annotations -/

theorem denOnA_strip (P : Comm → Bool) (s : Comm → Comm) (a : Amount) :
    denOnA P (stripAmt s a) = denOnA (fun c => P (s c)) a := rfl

theorem denOnB_map_strip (P : Comm → Bool) (s : Comm → Comm) (b : Balance) :
    denOnB P (b.map (stripAmt s)) = denOnB (fun c => P (s c)) b := by
  induction b with
  | nil => rfl
  | cons x xs ih => simp only [List.map_cons, denOnB_cons, ih, denOnA_strip]

theorem denOnB_strip (P : Comm → Bool) (s : Comm → Comm) (b : Balance) :
    denOnB P (stripBal s b) = denOnB (fun c => P (s c)) b := by
  have := denOnB_add P [] (b.map (stripAmt s))
  unfold Balance.add at this
  unfold stripBal
  rw [this, denOnB_map_strip]
  simp only [denOnB_nil]; grind

/-- stripping sends the quantity held in commodity `x` to commodity `s x`, and does nothing else. -/
theorem denOnV_strip (P : Comm → Bool) (s : Comm → Comm) (hs : s "" = "") (v : Value) :
    denOnV P (stripV s v) = denOnV (fun c => P (s c)) v := by
  cases v with
  | void => rfl
  | bool b => rfl
  | int n => simp only [stripV, denOnV, hs]
  | amt a => simp only [stripV, denOnV, denOnA_strip]
  | bal b => simp only [stripV, denOnV, denOnB_strip]

theorem stripComm_empty (k : Keep) : stripComm k "" = "" := by
  simp [stripComm]

end Reports
end Ledger
