/-
Helper lemmas behind Props/C05, part 2: the register fold, the partition of the
posting list by account / by child subtree / by the depth-N cut, and the display
marking of the balance report.
-/
import LedgerModel.Lemmas.Reports

namespace Ledger
namespace Reports

/-! ### paths -/

theorem path_ne_nil (p : RPost) : p.path ≠ [] := by
  unfold RPost.path
  split
  · simp
  · assumption

theorem path_length_pos (p : RPost) : 0 < p.path.length := by
  have := path_ne_nil p
  cases h : p.path with
  | nil => exact absurd h this
  | cons x xs => simp

theorem under_iff (a b : Path) : under a b = true ↔ b.take a.length = a := by
  simp [under]

theorem under_nil (b : Path) : under [] b = true := by simp [under]

theorem under_self (a : Path) : under a a = true := by simp [under]

theorem under_length {a b : Path} (h : under a b = true) : a.length ≤ b.length := by
  have h' := (under_iff a b).mp h
  have := congrArg List.length h'
  simp only [List.length_take] at this
  omega

/-! ### dedup -/

theorem mem_foldl_insertNew (l acc : List Path) (a : Path) :
    a ∈ l.foldl insertNew acc ↔ a ∈ acc ∨ a ∈ l := by
  induction l generalizing acc with
  | nil => simp
  | cons x xs ih =>
    simp only [List.foldl_cons, ih, insertNew]
    split <;> rename_i hx
    · simp only [List.mem_cons]
      constructor
      · rintro (h | h)
        · exact Or.inl h
        · exact Or.inr (Or.inr h)
      · rintro (h | h | h)
        · exact Or.inl h
        · exact Or.inl (h ▸ hx)
        · exact Or.inr h
    · simp only [List.mem_append, List.mem_cons, List.not_mem_nil, or_false]
      constructor
      · rintro ((h | h) | h)
        · exact Or.inl h
        · exact Or.inr (Or.inl h)
        · exact Or.inr (Or.inr h)
      · rintro (h | h | h)
        · exact Or.inl (Or.inl h)
        · exact Or.inl (Or.inr h)
        · exact Or.inr h

theorem nodup_foldl_insertNew (l acc : List Path) (h : acc.Nodup) : (l.foldl insertNew acc).Nodup := by
  induction l generalizing acc with
  | nil => simpa
  | cons x xs ih =>
    simp only [List.foldl_cons]
    apply ih
    unfold insertNew
    split
    · exact h
    · rename_i hx
      rw [List.nodup_append]
      refine ⟨h, by simp, ?_⟩
      intro a ha b hb
      simp only [List.mem_singleton] at hb
      subst hb
      intro hab; subst hab; exact hx ha

theorem mem_dedup (l : List Path) (a : Path) : a ∈ dedup l ↔ a ∈ l := by
  simp [dedup, mem_foldl_insertNew]

theorem nodup_dedup (l : List Path) : (dedup l).Nodup := nodup_foldl_insertNew l [] (by simp)

/-! ### the register fold -/

theorem regGo_posts (f : RPost → Value) (l : List RPost) (acc : Value) (rows : List RegRow)
    (h : regGo f acc l = .ok rows) :
    rows.map (fun r => (r.post, r.amount)) = l.map (fun p => (p, f p)) := by
  induction l generalizing acc rows with
  | nil => simp only [regGo] at h; cases h; rfl
  | cons p ps ih =>
    simp only [regGo] at h
    split at h
    · rename_i t ht
      split at h
      · rename_i rest hrest
        cases h
        simp only [List.map_cons, ih t rest hrest]
      · cases h
    · cases h

/-- row k's running total is the starting value plus the amounts of rows 0..k. -/
theorem regGo_running (f : RPost → Value) (c : Comm) (l : List RPost) (acc : Value) (rows : List RegRow)
    (h : regGo f acc l = .ok rows) (k : Nat) (hk : k < rows.length) :
    rows[k].total.den c = acc.den c + rsum ((rows.take (k + 1)).map (fun r => r.amount.den c)) := by
  induction l generalizing acc rows k with
  | nil => simp only [regGo] at h; cases h; simp at hk
  | cons p ps ih =>
    simp only [regGo] at h
    split at h
    · rename_i t ht
      split at h
      · rename_i rest hrest
        cases h
        have hadd := addV_den acc (f p) t ht c
        cases k with
        | zero =>
          simp only [List.getElem_cons_zero, List.take_succ_cons, List.take_zero, List.map_cons, List.map_nil,
            rsum_cons, rsum_nil, hadd]
          grind
        | succ k =>
          have hk' : k < rest.length := by simpa using hk
          have := ih t rest hrest k hk'
          simp only [List.getElem_cons_succ, List.take_succ_cons, List.map_cons, rsum_cons, this, hadd]
          grind
      · cases h
    · cases h

/-- the last running total is the starting value plus every amount. -/
theorem regGo_last (f : RPost → Value) (c : Comm) (l : List RPost) (acc : Value) (rows : List RegRow)
    (h : regGo f acc l = .ok rows) :
    ((rows.getLast?.map (·.total)).getD acc).den c = acc.den c + rsum (l.map (fun p => (f p).den c)) := by
  induction l generalizing acc rows with
  | nil => simp only [regGo] at h; cases h; simp only [List.getLast?_nil, Option.map_none, Option.getD_none,
      List.map_nil, rsum_nil]; grind
  | cons p ps ih =>
    simp only [regGo] at h
    split at h
    · rename_i t ht
      split at h
      · rename_i rest hrest
        cases h
        have hadd := addV_den acc (f p) t ht c
        have := ih t rest hrest
        simp only [List.getLast?_cons, Option.map_some, Option.getD_some, List.map_cons, rsum_cons]
        cases hl : rest.getLast? with
        | none =>
          simp only [hl, Option.map_none, Option.getD_none] at this ⊢
          grind
        | some r =>
          simp only [hl, Option.map_some, Option.getD_some] at this ⊢
          grind
      · cases h
    · cases h

/-! ### guarded sums over the posting list -/

/-- weight of a posting: its denotation at `c` when it passes the filter. -/
def wt (f : RPost → Value) (keep : RPost → Bool) (c : Comm) (p : RPost) : Rat :=
  if keep p then (f p).den c else 0

/-- Σ of the kept postings whose path satisfies `sel`. -/
def gsum (f : RPost → Value) (keep : RPost → Bool) (c : Comm) (ps : List RPost) (sel : Path → Bool) : Rat :=
  rsum (ps.map (fun p => if sel p.path then wt f keep c p else 0))

theorem sumV_filter_den (f : RPost → Value) (keep : RPost → Bool) (c : Comm) (ps : List RPost)
    (sel : Path → Bool) (r : Value)
    (h : sumV ((ps.filter (fun p => keep p && sel p.path)).map f) = .ok r) :
    r.den c = gsum f keep c ps sel := by
  rw [sumV_den _ r h c, List.map_map, rsum_filter]
  unfold gsum wt
  apply rsum_map_congr
  intro p _
  cases keep p <;> cases sel p.path <;> simp

theorem acctAmount_den (f : RPost → Value) (keep : RPost → Bool) (c : Comm) (ps : List RPost) (a : Path) (r : Value)
    (h : acctAmount f keep ps a = .ok r) : r.den c = gsum f keep c ps (fun q => decide (q = a)) :=
  sumV_filter_den f keep c ps (fun q => decide (q = a)) r h

theorem acctTotal_den (f : RPost → Value) (keep : RPost → Bool) (c : Comm) (ps : List RPost) (a : Path) (r : Value)
    (h : acctTotal f keep ps a = .ok r) : r.den c = gsum f keep c ps (under a) :=
  sumV_filter_den f keep c ps (under a) r h

theorem gsum_congr (f : RPost → Value) (keep : RPost → Bool) (c : Comm) (ps : List RPost) (s1 s2 : Path → Bool)
    (h : ∀ p ∈ ps, s1 p.path = s2 p.path) : gsum f keep c ps s1 = gsum f keep c ps s2 := by
  unfold gsum
  apply rsum_map_congr
  intro p hp
  rw [h p hp]

theorem gsum_false (f : RPost → Value) (keep : RPost → Bool) (c : Comm) (ps : List RPost) (s : Path → Bool)
    (h : ∀ p ∈ ps, keep p = true → s p.path = false) : gsum f keep c ps s = 0 := by
  unfold gsum
  rw [rsum_map_congr ps _ (fun _ => 0)]
  · exact rsum_map_zero ps
  · intro p hp
    unfold wt
    cases hk : keep p
    · simp
    · simp [h p hp hk]

theorem rsum_indicator_opt (L : List Path) (hL : L.Nodup) (x : Option Path) (hx : ∀ k, x = some k → k ∈ L) (w : Rat) :
    rsum (L.map (fun k => if decide (x = some k) = true then w else 0)) = if x.isSome = true then w else 0 := by
  cases x with
  | none =>
    simp only [Option.isSome_none]
    rw [rsum_map_congr L _ (fun _ => 0) (fun k _ => by simp)]
    simpa using rsum_map_zero L
  | some k0 =>
    simp only [Option.isSome_some, if_true]
    rw [rsum_map_congr L _ (fun k => if k = k0 then w else 0) (fun k _ => by
      by_cases h : k = k0
      · simp [h]
      · have : ¬ (k0 = k) := fun h' => h h'.symm
        simp [h, this])]
    exact rsum_indicator L hL k0 (hx k0 rfl) _

/-- Partition of the kept postings by a key: summing, over a duplicate-free list `L` of keys that
    contains every key that occurs, the postings with that key gives the sum over all postings
    that have a key. -/
theorem gsum_partition (f : RPost → Value) (keep : RPost → Bool) (c : Comm) (ps : List RPost)
    (key : Path → Option Path) (L : List Path) (hL : L.Nodup)
    (hmem : ∀ p ∈ ps, ∀ k, key p.path = some k → k ∈ L) :
    rsum (L.map (fun k => gsum f keep c ps (fun q => decide (key q = some k)))) =
      gsum f keep c ps (fun q => (key q).isSome) := by
  unfold gsum
  induction ps with
  | nil =>
    simp only [List.map_nil, rsum_nil]
    exact rsum_map_zero L
  | cons p ps ih =>
    simp only [List.map_cons, rsum_cons]
    rw [rsum_map_add, ih (fun q hq k hk => hmem q (by simp [hq]) k hk)]
    congr 1
    exact rsum_indicator_opt L hL (key p.path) (fun k hk => hmem p (by simp) k hk) _

/-! ### children -/

theorem mem_children (ps : List RPost) (a ch : Path) :
    ch ∈ children ps a ↔ ∃ p ∈ ps, under a p.path = true ∧ a.length < p.path.length ∧ p.path.take (a.length + 1) = ch := by
  unfold children
  rw [mem_dedup]
  simp only [List.mem_map, List.mem_filter, Bool.and_eq_true, decide_eq_true_eq]
  constructor
  · rintro ⟨p, ⟨hp, hu, hl⟩, rfl⟩; exact ⟨p, hp, hu, hl, rfl⟩
  · rintro ⟨p, hp, hu, hl, rfl⟩; exact ⟨p, ⟨hp, hu, hl⟩, rfl⟩

theorem children_length {ps : List RPost} {a ch : Path} (h : ch ∈ children ps a) : ch.length = a.length + 1 := by
  obtain ⟨p, _, _, hl, rfl⟩ := (mem_children ps a ch).mp h
  simp only [List.length_take]; omega

theorem children_prefix {ps : List RPost} {a ch : Path} (h : ch ∈ children ps a) : ch.take a.length = a := by
  obtain ⟨p, _, hu, hl, rfl⟩ := (mem_children ps a ch).mp h
  rw [List.take_take]
  have : min a.length (a.length + 1) = a.length := by omega
  rw [this]
  exact (under_iff a p.path).mp hu

/-- the key that sends a posting strictly below `a` to the child subtree it lies in. -/
def childKey (a : Path) (q : Path) : Option Path :=
  if under a q && decide (a.length < q.length) then some (q.take (a.length + 1)) else none

theorem under_child_iff {ps : List RPost} {a ch : Path} (h : ch ∈ children ps a) (q : Path) :
    under ch q = decide (childKey a q = some ch) := by
  have hlen := children_length h
  have hpre := children_prefix h
  unfold childKey
  by_cases hu : under ch q = true
  · have h1 := (under_iff ch q).mp hu
    rw [hlen] at h1
    have hq : a.length + 1 ≤ q.length := by
      have := under_length hu; omega
    have hua : under a q = true := by
      rw [under_iff]
      have : List.take a.length q = List.take a.length (List.take (a.length + 1) q) := by
        rw [List.take_take]; congr 1; omega
      rw [this, h1, hpre]
    have hlt : a.length < q.length := by omega
    simp [hu, hua, hlt, h1]
  · have hu' : under ch q = false := by simpa using hu
    rw [hu']
    symm
    rw [decide_eq_false_iff_not]
    intro hk
    split at hk
    · have : List.take (a.length + 1) q = ch := by simpa using hk
      apply hu
      rw [under_iff, hlen, this]
    · cases hk

/-- Σ over the subtree of `a` = Σ of `a`'s own postings + Σ over the children of their subtrees. -/
theorem gsum_children (f : RPost → Value) (keep : RPost → Bool) (c : Comm) (ps : List RPost) (a : Path) :
    gsum f keep c ps (under a) =
      gsum f keep c ps (fun q => decide (q = a)) + rsum ((children ps a).map (fun ch => gsum f keep c ps (under ch))) := by
  have hpart := gsum_partition f keep c ps (childKey a) (children ps a) (by unfold children; exact nodup_dedup _)
    (by
      intro p hp k hk
      unfold childKey at hk
      split at hk
      · rename_i hc
        simp only [Bool.and_eq_true, decide_eq_true_eq] at hc
        rw [mem_children]
        exact ⟨p, hp, hc.1, hc.2, by simpa using hk⟩
      · cases hk)
  have hkids : rsum ((children ps a).map (fun ch => gsum f keep c ps (under ch))) =
      rsum ((children ps a).map (fun k => gsum f keep c ps (fun q => decide (childKey a q = some k)))) := by
    apply rsum_map_congr
    intro ch hch
    apply gsum_congr
    intro p _
    exact under_child_iff hch p.path
  rw [hkids, hpart]
  unfold gsum
  rw [← rsum_map_add]
  apply rsum_map_congr
  intro p _
  unfold childKey
  by_cases hu : under a p.path = true
  · by_cases hl : a.length < p.path.length
    · have hne : p.path ≠ a := by intro h; rw [h] at hl; omega
      simp [hu, hl, hne] <;> grind
    · have heq : p.path = a := by
        have h1 := (under_iff a p.path).mp hu
        have h2 := under_length hu
        have : p.path.length = a.length := by omega
        rw [← h1, ← this, List.take_length]
      simp [heq, under_self] <;> grind
  · have hu' : under a p.path = false := by simpa using hu
    have hne : p.path ≠ a := by intro h; rw [h, under_self] at hu'; cases hu'
    simp [hu', hne] <;> grind

/-! ### the recursive total computes the specification -/

theorem sumMapM_den (g : Path → Res Value) (D : Path → Rat) (c : Comm) (L : List Path) (acc r : Value)
    (h : sumMapM g L acc = .ok r) (hD : ∀ k ∈ L, ∀ v, g k = .ok v → v.den c = D k) :
    r.den c = acc.den c + rsum (L.map D) := by
  induction L generalizing acc with
  | nil => simp only [sumMapM] at h; cases h; simp only [List.map_nil, rsum_nil]; grind
  | cons k ks ih =>
    simp only [sumMapM] at h
    split at h
    · rename_i v hv
      split at h
      · rename_i a ha
        rw [ih a h (fun k' hk' => hD k' (by simp [hk'])), addV_den acc v a ha c, hD k (by simp) v hv]
        simp only [List.map_cons, rsum_cons]; grind
      · cases h
    · cases h

theorem le_maxLen_foldl (ps : List RPost) (m : Nat) :
    m ≤ ps.foldl (fun m p => max m p.path.length) m ∧
    ∀ p ∈ ps, p.path.length ≤ ps.foldl (fun m p => max m p.path.length) m := by
  induction ps generalizing m with
  | nil => simp
  | cons x xs ih =>
    simp only [List.foldl_cons]
    have := ih (max m x.path.length)
    refine ⟨by omega, ?_⟩
    intro p hp
    cases hp with
    | head => have := this.1; omega
    | tail _ h => exact this.2 p h

theorem length_le_maxLen {ps : List RPost} {p : RPost} (h : p ∈ ps) : p.path.length ≤ maxLen ps :=
  (le_maxLen_foldl ps 0).2 p h

theorem acctTotalRec_den (f : RPost → Value) (keep : RPost → Bool) (c : Comm) (ps : List RPost) :
    ∀ (n : Nat) (a : Path) (r : Value), maxLen ps ≤ a.length + n → acctTotalRec f keep ps n a = .ok r →
      r.den c = gsum f keep c ps (under a) := by
  intro n
  induction n with
  | zero =>
    intro a r hlen h
    simp only [acctTotalRec] at h
    rw [acctAmount_den f keep c ps a r h]
    apply gsum_congr
    intro p hp
    have hpl := length_le_maxLen hp
    by_cases hu : under a p.path = true
    · have h1 := (under_iff a p.path).mp hu
      have h2 := under_length hu
      have : p.path.length = a.length := by omega
      have heq : p.path = a := by rw [← h1, ← this, List.take_length]
      simp [heq, under_self]
    · have hu' : under a p.path = false := by simpa using hu
      have hne : p.path ≠ a := by intro h; rw [h, under_self] at hu'; cases hu'
      simp [hu', hne]
  | succ n ih =>
    intro a r hlen h
    simp only [acctTotalRec] at h
    split at h
    · rename_i kids hkids
      split at h
      · rename_i own hown
        have hk := sumMapM_den (acctTotalRec f keep ps n) (fun ch => gsum f keep c ps (under ch)) c
          (children ps a) .void kids hkids (by
            intro ch hch v hv
            exact ih ch v (by rw [children_length hch]; omega) hv)
        rw [addV_den kids own r h c, hk, acctAmount_den f keep c ps a own hown, gsum_children f keep c ps a]
        simp only [Value.den]; grind
      · cases h
    · cases h

end Reports
end Ledger
