/- Helper lemmas for Props/C20.lean (time-clock model). Core Lean only. -/
import LedgerModel.Model.Timelog

namespace Ledger.Timelog

/-! ### day arithmetic -/

theorem daysEnd_gt (b : Int) : b < daysEnd b := by
  simp only [daysEnd]; omega

theorem daysEnd_le (b : Int) : daysEnd b ≤ b + 86400 := by
  simp only [daysEnd]; omega

theorem dayOf_daysEnd (b : Int) : dayOf (daysEnd b) = dayOf b + 1 := by
  simp only [daysEnd, dayOf]; omega

theorem daysEnd_eq (b : Int) : daysEnd b = (dayOf b + 1) * 86400 := rfl

theorem dayOf_lo (b : Int) : dayOf b * 86400 ≤ b := by
  simp only [dayOf]; omega

/-- a timestamp strictly inside `(b, daysEnd b]`, minus one second, is on the day of `b` -/
theorem dayOf_pred_of_le_daysEnd {b t : Int} (h1 : b < t) (h2 : t ≤ daysEnd b) :
    dayOf (t - 1) = dayOf b := by
  simp only [daysEnd, dayOf] at *; omega

/-! ### sums -/

@[simp] theorem sumSecs_nil : sumSecs [] = 0 := rfl
@[simp] theorem sumSecs_cons (p : Posting) (ps : List Posting) : sumSecs (p :: ps) = p.secs + sumSecs ps := rfl

theorem sumSecs_append (a b : List Posting) : sumSecs (a ++ b) = sumSecs a + sumSecs b := by
  induction a with
  | nil => simp
  | cons p ps ih => simp [ih]; omega

theorem acctTotal_eq (a : String) (ps : List Posting) :
    acctTotal a ps = sumSecs (ps.filter (fun p => p.acct = a)) := rfl

theorem acctTotal_append (a : String) (x y : List Posting) :
    acctTotal a (x ++ y) = acctTotal a x + acctTotal a y := by
  simp only [acctTotal_eq, List.filter_append, sumSecs_append]

@[simp] theorem sumSess_nil : sumSess [] = 0 := rfl
@[simp] theorem sumSess_cons (s : Session) (ss : List Session) :
    sumSess (s :: ss) = (s.tout - s.tin) + sumSess ss := rfl

theorem sumSess_append (a b : List Session) : sumSess (a ++ b) = sumSess a + sumSess b := by
  induction a with
  | nil => simp
  | cons p ps ih => simp [ih]; omega

theorem sessTotal_eq (a : String) (ss : List Session) :
    sessTotal a ss = sumSess (ss.filter (fun s => s.acct = a)) := rfl

theorem sessTotal_append (a : String) (x y : List Session) :
    sessTotal a (x ++ y) = sessTotal a x + sessTotal a y := by
  simp only [sessTotal_eq, List.filter_append, sumSess_append]

/-! ### the day-break loop -/

theorem dayBreak_unfold (mk : Int → Int → Posting) (b out : Int) :
    dayBreak mk b out =
      if b < out then
        if out ≤ daysEnd b then [mk b out]
        else mk b (daysEnd b) :: dayBreak mk (daysEnd b) out
      else [] := by
  rw [dayBreak]

/-- Strong induction principle following the loop: the measure `out − b`. -/
theorem dayBreak_induct (out : Int) (P : Int → Prop)
    (hdone : ∀ b, ¬ b < out → P b)
    (hlast : ∀ b, b < out → out ≤ daysEnd b → P b)
    (hstep : ∀ b, b < out → ¬ out ≤ daysEnd b → P (daysEnd b) → P b) :
    ∀ b, P b := by
  intro b
  generalize hn : (out - b).toNat = n
  induction n using Nat.strongRecOn generalizing b with
  | _ n ih =>
    by_cases h1 : b < out
    · by_cases h2 : out ≤ daysEnd b
      · exact hlast b h1 h2
      · apply hstep b h1 h2
        have := daysEnd_gt b
        exact ih (out - daysEnd b).toNat (by omega) (daysEnd b) rfl
    · exact hdone b h1

theorem dayBreak_sum (mk : Int → Int → Posting) (hmk : ∀ b t, (mk b t).secs = t - b) (out : Int) :
    ∀ b, b ≤ out → sumSecs (dayBreak mk b out) = out - b := by
  apply dayBreak_induct out
  · intro b h _; rw [dayBreak_unfold]; simp [h]; omega
  · intro b h1 h2 _; rw [dayBreak_unfold]; simp [h1, h2, hmk]
  · intro b h1 h2 ih _
    rw [dayBreak_unfold]; simp only [h1, h2, if_true, if_false, sumSecs_cons, hmk]
    have := ih (by omega)
    omega

/-- every piece `[p.tin, p.tout]` produced by the loop, as a predicate -/
theorem dayBreak_forall (mk : Int → Int → Posting) (out : Int) :
    ∀ b, (∀ p ∈ dayBreak mk b out, ∃ s t, p = mk s t ∧ b ≤ s ∧ s < t ∧ t ≤ daysEnd s ∧ t ≤ out) := by
  apply dayBreak_induct out
  · intro b h; rw [dayBreak_unfold]; simp [h]
  · intro b h1 h2; rw [dayBreak_unfold]; simp only [h1, h2, if_true, List.mem_singleton]
    intro p hp; exact ⟨b, out, hp, Int.le_refl _, h1, h2, Int.le_refl _⟩
  · intro b h1 h2 ih
    rw [dayBreak_unfold]; simp only [h1, h2, if_true, if_false, List.mem_cons]
    intro p hp
    rcases hp with hp | hp
    · exact ⟨b, daysEnd b, hp, Int.le_refl _, daysEnd_gt b, Int.le_refl _, by omega⟩
    · obtain ⟨s, t, e, hs, hst, ht, hto⟩ := ih p hp
      have := daysEnd_gt b
      exact ⟨s, t, e, by omega, hst, ht, hto⟩

theorem dayBreak_days (mk : Int → Int → Posting) (hmk : ∀ b t, (mk b t).day = dayOf b) (out : Int) :
    ∀ b, b < out →
      (dayBreak mk b out).map (·.day) = daysFrom (dayOf b) ((dayOf (out - 1) - dayOf b).toNat + 1) := by
  apply dayBreak_induct out
  · intro b h h'; exact absurd h' h
  · intro b h1 h2 _
    rw [dayBreak_unfold]; simp only [h1, h2, if_true, List.map_cons, List.map_nil, hmk]
    have := dayOf_pred_of_le_daysEnd h1 h2
    simp [this, daysFrom]
  · intro b h1 h2 ih _
    rw [dayBreak_unfold]; simp only [h1, h2, if_true, if_false, List.map_cons, hmk]
    have h3 : daysEnd b < out := by omega
    rw [ih h3, dayOf_daysEnd]
    have : (dayOf (out - 1) - dayOf b).toNat = (dayOf (out - 1) - (dayOf b + 1)).toNat + 1 := by
      simp only [daysEnd, dayOf] at *; omega
    rw [this]; rfl

theorem dayBreak_nil_of_not_lt (mk : Int → Int → Posting) {b out : Int} (h : ¬ b < out) :
    dayBreak mk b out = [] := by
  rw [dayBreak_unfold]; simp [h]

/-! ### postings of one matched pair -/

theorem mkPosts_acct (db : Bool) (o : Open) (e : Event) : ∀ p ∈ mkPosts db o e, p.acct = o.acct := by
  intro p hp
  unfold mkPosts at hp
  split at hp
  · obtain ⟨s, t, rfl, _⟩ := dayBreak_forall (mkPost o e) e.ts o.ts p hp
    rfl
  · simp only [List.mem_singleton] at hp; subst hp; rfl

theorem mkPosts_sum (db : Bool) (o : Open) (e : Event) (h : o.ts ≤ e.ts) :
    sumSecs (mkPosts db o e) = e.ts - o.ts := by
  unfold mkPosts
  split
  · exact dayBreak_sum (mkPost o e) (fun _ _ => rfl) e.ts o.ts h
  · simp [mkPost]

theorem filter_acct_all {x a : String} {ps : List Posting} (h : ∀ p ∈ ps, p.acct = x) (hx : x = a) :
    ps.filter (fun p => p.acct = a) = ps := by
  apply List.filter_eq_self.mpr
  intro p hp; simp [h p hp, hx]

theorem filter_acct_none {x a : String} {ps : List Posting} (h : ∀ p ∈ ps, p.acct = x) (hx : x ≠ a) :
    ps.filter (fun p => p.acct = a) = [] := by
  apply List.filter_eq_nil_iff.mpr
  intro p hp; simp [h p hp, hx]

theorem acctTotal_mkPosts (db : Bool) (o : Open) (e : Event) (h : o.ts ≤ e.ts) (a : String) :
    acctTotal a (mkPosts db o e) = if o.acct = a then e.ts - o.ts else 0 := by
  rw [acctTotal_eq]
  split
  · rename_i hx; rw [filter_acct_all (mkPosts_acct db o e) hx, mkPosts_sum db o e h]
  · rename_i hx; rw [filter_acct_none (mkPosts_acct db o e) hx]; rfl

theorem sessTotal_single (s : Session) (a : String) :
    sessTotal a [s] = if s.acct = a then s.tout - s.tin else 0 := by
  rw [sessTotal_eq]
  by_cases h : s.acct = a <;> simp [h]

theorem clockOut_total (db : Bool) (st : State) (e : Event) (a : String) :
    acctTotal a (outPosts (clockOut db st e).2) = sessTotal a (outSess (clockOut db st e).2) := by
  unfold clockOut
  split
  · rfl
  · split
    · rfl
    · rename_i o rest _ hlt
      simp only [outPosts, outSess]
      rw [acctTotal_mkPosts db o e (by omega) a, sessTotal_single]

theorem clockIn_total (st : State) (e : Event) (a : String) :
    acctTotal a (outPosts (clockIn st e).2) = sessTotal a (outSess (clockIn st e).2) := by
  unfold clockIn
  split
  · rfl
  · split <;> rfl

theorem step_total (db : Bool) (st : State) (e : Event) (a : String) :
    acctTotal a (outPosts (step db st e).2) = sessTotal a (outSess (step db st e).2) := by
  unfold step
  split
  · exact clockIn_total st e a
  · exact clockOut_total db st e a

/-! ### folds -/

theorem foldl_inv {α β : Type} (f : β → α → β) (P : β → Prop) (h : ∀ b x, P b → P (f b x)) :
    ∀ (l : List α) (b : β), P b → P (l.foldl f b) := by
  intro l
  induction l with
  | nil => intro b hb; exact hb
  | cons x xs ih => intro b hb; exact ih (f b x) (h b x hb)

theorem accStep_total (db : Bool) (acc : Acc) (e : Event) (a : String)
    (h : acctTotal a acc.posts = sessTotal a acc.sess) :
    acctTotal a (accStep db acc e).posts = sessTotal a (accStep db acc e).sess := by
  simp only [accStep, acctTotal_append, sessTotal_append, h, step_total]

theorem readAll_total (db : Bool) (evs : List Event) (a : String) :
    acctTotal a (readAll db evs).posts = sessTotal a (readAll db evs).sess := by
  unfold readAll
  exact foldl_inv (accStep db) (fun acc => acctTotal a acc.posts = sessTotal a acc.sess)
    (fun b x hb => accStep_total db b x a hb) evs {} rfl

theorem closeLoop_total (db : Bool) (now : Int) (a : String) :
    ∀ (as : List String) (st : State) (ps : List Posting) (ss : List Session),
      acctTotal a ps = sessTotal a ss →
      acctTotal a (closeLoop db now as st ps ss).2.1 = sessTotal a (closeLoop db now as st ps ss).2.2.1 := by
  intro as
  induction as with
  | nil => intro st ps ss h; exact h
  | cons x xs ih =>
    intro st ps ss h
    unfold closeLoop
    have hc := clockOut_total db st (closeEvent now x) a
    split
    · rename_i st' r heq
      apply ih
      rw [heq] at hc
      simp only [outPosts] at hc
      rw [acctTotal_append, sessTotal_append, h, hc]
    · exact h

/-! ### line numbers and the error list -/

theorem foldl_line (db : Bool) : ∀ (evs : List Event) (acc : Acc),
    (evs.foldl (accStep db) acc).line = acc.line + evs.length := by
  intro evs
  induction evs with
  | nil => intro acc; rfl
  | cons x xs ih => intro acc; rw [List.foldl_cons, ih]; simp only [accStep, List.length_cons]; omega

theorem readAll_line (db : Bool) (evs : List Event) : (readAll db evs).line = evs.length := by
  unfold readAll; rw [foldl_line]; simp

theorem foldl_errs_mono (db : Bool) (x : Nat × Err) : ∀ (evs : List Event) (acc : Acc),
    x ∈ acc.errs → x ∈ (evs.foldl (accStep db) acc).errs := by
  intro evs
  induction evs with
  | nil => intro acc h; exact h
  | cons y ys ih =>
    intro acc h; rw [List.foldl_cons]; apply ih
    simp only [accStep, List.mem_append]; exact Or.inl h

theorem readAll_append (db : Bool) (pre post : List Event) :
    readAll db (pre ++ post) = post.foldl (accStep db) (readAll db pre) := by
  unfold readAll; rw [List.foldl_append]

/-! ### matching -/

theorem takeAcct_of_nodup (a : String) : ∀ (st : List Open) (o : Open),
    (st.map (·.acct)).Nodup → o ∈ st → o.acct = a →
    takeAcct a st = some (o, st.filter (fun x => x.acct ≠ a)) := by
  intro st
  induction st with
  | nil => intro o _ h; cases h
  | cons x xs ih =>
    intro o hnd ho ha
    simp only [List.map_cons, List.nodup_cons] at hnd
    unfold takeAcct
    by_cases hx : x.acct = a
    · have hox : o = x := by
        rcases List.mem_cons.mp ho with h | h
        · exact h
        · exfalso; apply hnd.1
          rw [hx, ← ha]; exact List.mem_map.mpr ⟨o, h, rfl⟩
      subst hox
      have hxs : xs.filter (fun y => !decide (y.acct = a)) = xs := by
        apply List.filter_eq_self.mpr
        intro y hy
        have : y.acct ≠ a := by
          intro hya; apply hnd.1; rw [hx, ← hya]; exact List.mem_map.mpr ⟨y, hy, rfl⟩
        simp [this]
      simp [hx]
      exact hxs.symm
    · have hoxs : o ∈ xs := by
        rcases List.mem_cons.mp ho with h | h
        · subst h; exact absurd ha hx
        · exact h
      rw [ih o hnd.2 hoxs ha]
      simp [hx]

theorem takeAcct_mem (a : String) : ∀ (st : List Open) (o : Open) (rest : List Open),
    takeAcct a st = some (o, rest) →
    o.acct = a ∧ ∃ l1 l2, st = l1 ++ o :: l2 ∧ rest = l1 ++ l2 ∧ ∀ x ∈ l1, x.acct ≠ a := by
  intro st
  induction st with
  | nil => intro o rest h; simp [takeAcct] at h
  | cons x xs ih =>
    intro o rest h
    unfold takeAcct at h
    by_cases hx : x.acct = a
    · simp only [hx, if_true, Option.some.injEq, Prod.mk.injEq] at h
      obtain ⟨rfl, rfl⟩ := h
      exact ⟨hx, [], xs, rfl, rfl, by simp⟩
    · simp only [hx, if_false] at h
      split at h
      · rename_i r hr
        simp only [Option.some.injEq, Prod.mk.injEq] at h
        obtain ⟨rfl, rfl⟩ := h
        obtain ⟨ha, l1, l2, h1, h2, h3⟩ := ih r.1 r.2 (by rw [hr])
        refine ⟨ha, x :: l1, l2, by simp [h1], by simp [h2], ?_⟩
        intro y hy
        rcases List.mem_cons.mp hy with rfl | hy
        · exact hx
        · exact h3 y hy
      · cases h

theorem takeAcct_none (a : String) : ∀ (st : List Open),
    (∀ x ∈ st, x.acct ≠ a) → takeAcct a st = none := by
  intro st
  induction st with
  | nil => intro _; rfl
  | cons x xs ih =>
    intro h
    unfold takeAcct
    have hx : x.acct ≠ a := h x (List.mem_cons_self ..)
    rw [ih (fun y hy => h y (List.mem_cons_of_mem _ hy))]
    simp [hx]

/-- a successful match removes exactly one element of the open list -/
theorem matchOut_split (st : List Open) (acct : Option String) (o : Open) (rest : List Open)
    (h : matchOut st acct = .ok (o, rest)) :
    ∃ l1 l2, st = l1 ++ o :: l2 ∧ rest = l1 ++ l2 := by
  match st, acct, h with
  | [], _, h => simp [matchOut] at h
  | [x], _, h =>
    simp only [matchOut, Except.ok.injEq, Prod.mk.injEq] at h
    obtain ⟨rfl, rfl⟩ := h
    exact ⟨[], [], rfl, rfl⟩
  | x1 :: x2 :: xs, none, h => simp [matchOut] at h
  | x1 :: x2 :: xs, some a, h =>
    simp only [matchOut] at h
    cases hr : takeAcct a (x1 :: x2 :: xs) with
    | none => rw [hr] at h; cases h
    | some r =>
      rw [hr] at h
      simp only [Except.ok.injEq] at h
      subst h
      obtain ⟨_, l1, l2, h1, h2, _⟩ := takeAcct_mem a _ o rest hr
      exact ⟨l1, l2, h1, h2⟩

theorem nodup_split {l1 l2 : List Open} {o : Open}
    (h : ((l1 ++ o :: l2).map (·.acct)).Nodup) : ((l1 ++ l2).map (·.acct)).Nodup := by
  simp only [List.map_append, List.map_cons] at *
  exact (List.nodup_append.mp h).1 |> fun h1 =>
    List.nodup_append.mpr ⟨h1, (List.nodup_cons.mp (List.nodup_append.mp h).2.1).2,
      fun x hx y hy => (List.nodup_append.mp h).2.2 x hx y (List.mem_cons_of_mem _ hy)⟩

theorem clockOut_nodup (db : Bool) (st : State) (e : Event) (h : (st.map (·.acct)).Nodup) :
    ((clockOut db st e).1.map (·.acct)).Nodup := by
  unfold clockOut
  split
  · exact h
  · rename_i o rest hm
    obtain ⟨l1, l2, h1, h2⟩ := matchOut_split st e.acct o rest hm
    subst h1 h2
    split <;> exact nodup_split h

theorem clockIn_nodup (st : State) (e : Event) (h : (st.map (·.acct)).Nodup) :
    ((clockIn st e).1.map (·.acct)).Nodup := by
  unfold clockIn
  split
  · exact h
  · rename_i a _
    split
    · exact h
    · rename_i hany
      simp only [List.map_append, List.map_cons, List.map_nil]
      apply List.nodup_append.mpr
      refine ⟨h, by simp, ?_⟩
      intro x hx y hy
      simp only [List.mem_singleton] at hy
      subst hy
      intro hxy
      apply hany
      obtain ⟨o, ho, rfl⟩ := List.mem_map.mp hx
      exact List.any_eq_true.mpr ⟨o, ho, by simp [hxy]⟩

theorem step_nodup (db : Bool) (st : State) (e : Event) (h : (st.map (·.acct)).Nodup) :
    ((step db st e).1.map (·.acct)).Nodup := by
  unfold step
  split
  · exact clockIn_nodup st e h
  · exact clockOut_nodup db st e h

/-! ### where open check-ins and sessions come from -/

theorem clockOut_state_sub (db : Bool) (st : State) (e : Event) :
    ∀ x ∈ (clockOut db st e).1, x ∈ st := by
  unfold clockOut
  split
  · intro x hx; exact hx
  · rename_i o rest hm
    obtain ⟨l1, l2, h1, h2⟩ := matchOut_split st e.acct o rest hm
    subst h1 h2
    have : ∀ x ∈ l1 ++ l2, x ∈ l1 ++ o :: l2 := by
      intro x hx
      rcases List.mem_append.mp hx with h | h
      · exact List.mem_append.mpr (Or.inl h)
      · exact List.mem_append.mpr (Or.inr (List.mem_cons_of_mem _ h))
    split <;> exact this

theorem clockOut_sess (db : Bool) (st : State) (e : Event) :
    ∀ s ∈ outSess (clockOut db st e).2,
      s.tout = e.ts ∧ s.tin ≤ s.tout ∧ ∃ o ∈ st, o.acct = s.acct ∧ o.ts = s.tin := by
  unfold clockOut
  split
  · intro s hs; cases hs
  · rename_i o rest hm
    obtain ⟨l1, l2, h1, h2⟩ := matchOut_split st e.acct o rest hm
    split
    · intro s hs; cases hs
    · rename_i hlt
      intro s hs
      simp only [outSess, List.mem_singleton] at hs
      subst hs
      refine ⟨rfl, by simp only; omega, o, ?_, rfl, rfl⟩
      rw [h1]; exact List.mem_append.mpr (Or.inr (List.mem_cons_self ..))

theorem step_state_sub (db : Bool) (st : State) (e : Event) :
    ∀ x ∈ (step db st e).1, x ∈ st ∨ (e.kind = .cin ∧ e.acct = some x.acct ∧ e.ts = x.ts) := by
  unfold step
  split
  · rename_i hk
    unfold clockIn
    split
    · intro x hx; exact Or.inl hx
    · rename_i a ha
      split
      · intro x hx; exact Or.inl hx
      · intro x hx
        rcases List.mem_append.mp hx with h | h
        · exact Or.inl h
        · simp only [List.mem_singleton] at h
          subst h
          exact Or.inr ⟨hk, ha, rfl⟩
  · intro x hx; exact Or.inl (clockOut_state_sub db st e x hx)

theorem step_sess (db : Bool) (st : State) (e : Event) :
    ∀ s ∈ outSess (step db st e).2,
      e.kind = .cout ∧ s.tout = e.ts ∧ s.tin ≤ s.tout ∧ ∃ o ∈ st, o.acct = s.acct ∧ o.ts = s.tin := by
  unfold step
  split
  · unfold clockIn
    split
    · intro s hs; cases hs
    · split <;> (intro s hs; cases hs)
  · rename_i hk
    intro s hs
    exact ⟨hk, clockOut_sess db st e s hs⟩

/-- open check-ins and sessions are backed by events already read -/
def Backed (seen : List Event) (now : Option Int) (st : State) (ss : List Session) : Prop :=
  (∀ o ∈ st, ∃ e ∈ seen, e.kind = .cin ∧ e.acct = some o.acct ∧ e.ts = o.ts) ∧
  (∀ s ∈ ss, s.tin ≤ s.tout ∧ (∃ e ∈ seen, e.kind = .cin ∧ e.acct = some s.acct ∧ e.ts = s.tin) ∧
    ((∃ e ∈ seen, e.kind = .cout ∧ e.ts = s.tout) ∨ now = some s.tout))

theorem accStep_backed (db : Bool) (seen : List Event) (acc : Acc) (e : Event)
    (h : Backed seen none acc.st acc.sess) :
    Backed (seen ++ [e]) none (accStep db acc e).st (accStep db acc e).sess := by
  obtain ⟨h1, h2⟩ := h
  have up : ∀ {P : Event → Prop}, (∃ x ∈ seen, P x) → ∃ x ∈ seen ++ [e], P x := by
    intro P ⟨x, hx, hp⟩; exact ⟨x, List.mem_append.mpr (Or.inl hx), hp⟩
  have here : e ∈ seen ++ [e] := List.mem_append.mpr (Or.inr (List.mem_singleton.mpr rfl))
  refine ⟨?_, ?_⟩
  · intro o ho
    rcases step_state_sub db acc.st e o ho with h | ⟨hk, ha, ht⟩
    · exact up (h1 o h)
    · exact ⟨e, here, hk, ha, ht⟩
  · intro s hs
    simp only [accStep, List.mem_append] at hs
    rcases hs with hs | hs
    · obtain ⟨a, b, c⟩ := h2 s hs
      refine ⟨a, up b, ?_⟩
      rcases c with c | c
      · exact Or.inl (up c)
      · cases c
    · obtain ⟨hk, hto, hle, o, ho, hoa, hot⟩ := step_sess db acc.st e s hs
      obtain ⟨x, hx, xk, xa, xt⟩ := h1 o ho
      refine ⟨hle, ⟨x, List.mem_append.mpr (Or.inl hx), xk, by rw [xa, hoa], by rw [xt, hot]⟩, ?_⟩
      exact Or.inl ⟨e, here, hk, hto.symm⟩

theorem foldl_backed (db : Bool) : ∀ (evs seen : List Event) (acc : Acc),
    Backed seen none acc.st acc.sess →
    Backed (seen ++ evs) none (evs.foldl (accStep db) acc).st (evs.foldl (accStep db) acc).sess := by
  intro evs
  induction evs with
  | nil => intro seen acc h; simpa using h
  | cons x xs ih =>
    intro seen acc h
    have := ih (seen ++ [x]) (accStep db acc x) (accStep_backed db seen acc x h)
    simpa using this

theorem readAll_backed (db : Bool) (evs : List Event) :
    Backed evs none (readAll db evs).st (readAll db evs).sess := by
  have := foldl_backed db evs [] {} ⟨(by intro o ho; cases ho), (by intro s hs; cases hs)⟩
  simpa [readAll] using this

theorem closeLoop_backed (db : Bool) (now : Int) (seen : List Event) :
    ∀ (as : List String) (st : State) (ps : List Posting) (ss : List Session),
      Backed seen (some now) st ss →
      Backed seen (some now) (closeLoop db now as st ps ss).1 (closeLoop db now as st ps ss).2.2.1 := by
  intro as
  induction as with
  | nil => intro st ps ss h; exact h
  | cons x xs ih =>
    intro st ps ss h
    unfold closeLoop
    have hsub := clockOut_state_sub db st (closeEvent now x)
    have hsess := clockOut_sess db st (closeEvent now x)
    split
    · rename_i st' r heq
      apply ih
      rw [heq] at hsub hsess
      refine ⟨fun o ho => h.1 o (hsub o ho), ?_⟩
      intro s hs
      rcases List.mem_append.mp hs with hs | hs
      · exact h.2 s hs
      · obtain ⟨hto, hle, o, ho, hoa, hot⟩ := hsess s hs
        obtain ⟨y, hy, yk, ya, yt⟩ := h.1 o ho
        exact ⟨hle, ⟨y, hy, yk, by rw [ya, hoa], by rw [yt, hot]⟩, Or.inr (by rw [hto]; rfl)⟩
    · rename_i st' k heq
      rw [heq] at hsub
      exact ⟨fun o ho => h.1 o (hsub o ho), h.2⟩

theorem backed_now (seen : List Event) (now : Int) (st : State) (ss : List Session)
    (h : Backed seen none st ss) : Backed seen (some now) st ss := by
  refine ⟨h.1, ?_⟩
  intro s hs
  obtain ⟨a, b, c⟩ := h.2 s hs
  refine ⟨a, b, ?_⟩
  rcases c with c | c
  · exact Or.inl c
  · cases c

/-! ### `--day-break` changes the postings only -/

theorem clockOut_db (st : State) (e : Event) :
    (clockOut true st e).1 = (clockOut false st e).1 ∧
    (clockOut true st e).2.map Prod.snd = (clockOut false st e).2.map Prod.snd := by
  unfold clockOut
  split
  · exact ⟨rfl, rfl⟩
  · split <;> exact ⟨rfl, rfl⟩

theorem outSess_eq_of_map_snd {o1 o2 : Out} (h : o1.map Prod.snd = o2.map Prod.snd) :
    outSess o1 = outSess o2 ∧ ∀ l, outErrs l o1 = outErrs l o2 := by
  cases o1 with
  | error e1 =>
    cases o2 with
    | error e2 => simp only [Except.map, Except.error.injEq] at h; subst h; exact ⟨rfl, fun _ => rfl⟩
    | ok r2 => simp [Except.map] at h
  | ok r1 =>
    cases o2 with
    | error e2 => simp [Except.map] at h
    | ok r2 =>
      simp only [Except.map, Except.ok.injEq] at h
      obtain ⟨p1, s1⟩ := r1
      obtain ⟨p2, s2⟩ := r2
      simp only at h
      subst h
      exact ⟨by cases s1 <;> rfl, fun _ => rfl⟩

theorem step_db (st : State) (e : Event) :
    (step true st e).1 = (step false st e).1 ∧
    outSess (step true st e).2 = outSess (step false st e).2 ∧
    ∀ l, outErrs l (step true st e).2 = outErrs l (step false st e).2 := by
  unfold step
  split
  · exact ⟨rfl, rfl, fun _ => rfl⟩
  · obtain ⟨h1, h2⟩ := clockOut_db st e
    exact ⟨h1, outSess_eq_of_map_snd h2⟩

/-- the parts of the accumulator that do not depend on `--day-break` -/
def Acc.core (a : Acc) : State × List Session × List (Nat × Err) × Nat := (a.st, a.sess, a.errs, a.line)

theorem foldl_core : ∀ (evs : List Event) (a1 a2 : Acc), a1.core = a2.core →
    (evs.foldl (accStep true) a1).core = (evs.foldl (accStep false) a2).core := by
  intro evs
  induction evs with
  | nil => intro a1 a2 h; exact h
  | cons x xs ih =>
    intro a1 a2 h
    apply ih
    simp only [Acc.core, Prod.mk.injEq] at h
    obtain ⟨hst, hss, her, hl⟩ := h
    obtain ⟨s1, s2, s3⟩ := step_db a2.st x
    simp only [Acc.core, accStep, hst, hss, her, hl, s1, s2, s3]

theorem closeLoop_core (now : Int) : ∀ (as : List String) (st : State) (p1 p2 : List Posting) (ss : List Session),
    (closeLoop true now as st p1 ss).1 = (closeLoop false now as st p2 ss).1 ∧
    (closeLoop true now as st p1 ss).2.2 = (closeLoop false now as st p2 ss).2.2 := by
  intro as
  induction as with
  | nil => intro st p1 p2 ss; exact ⟨rfl, rfl⟩
  | cons x xs ih =>
    intro st p1 p2 ss
    obtain ⟨h1, h2⟩ := clockOut_db st (closeEvent now x)
    unfold closeLoop
    cases hc1 : clockOut true st (closeEvent now x) with
    | mk st1 o1 =>
      cases hc2 : clockOut false st (closeEvent now x) with
      | mk st2 o2 =>
        rw [hc1, hc2] at h1 h2
        simp only at h1 h2
        subst h1
        obtain ⟨hs, _⟩ := outSess_eq_of_map_snd h2
        cases o1 with
        | error e1 =>
          cases o2 with
          | error e2 =>
            simp only [Except.map, Except.error.injEq] at h2
            subst h2
            exact ⟨rfl, rfl⟩
          | ok r2 => simp [Except.map] at h2
        | ok r1 =>
          cases o2 with
          | error e2 => simp [Except.map] at h2
          | ok r2 =>
            simp only
            rw [hs]
            exact ih st1 _ _ _

/-! ### the fixed-column read -/

theorem takeWhile_append_stop {α : Type} (q : α → Bool) (x : α) (r : List α) (hx : q x = false) :
    ∀ l : List α, (l ++ x :: r).takeWhile q = l.takeWhile q := by
  intro l
  induction l with
  | nil => simp [List.takeWhile, hx]
  | cons y ys ih =>
    simp only [List.cons_append, List.takeWhile_cons]
    split
    · rw [ih]
    · rfl

theorem dropWhile_append_stop {α : Type} (p : α → Bool) (x : α) (r : List α) (hx : p x = false) :
    ∀ l : List α, (l ++ x :: r).dropWhile p = l.dropWhile p ++ x :: r := by
  intro l
  induction l with
  | nil => simp [List.dropWhile, hx]
  | cons y ys ih =>
    simp only [List.cons_append, List.dropWhile_cons]
    split
    · exact ih
    · rfl

/-- When the offset lies within the line (or on its terminator), what is read does not
    depend on the bytes that follow the terminator. -/
theorem readFrom_indep (k : Nat) (line s1 s2 : List Char) (hk : k ≤ line.length) :
    firstElement (cstr (skipWs ((lineBuf line s1).drop k))) =
    firstElement (cstr (skipWs ((lineBuf line s2).drop k))) := by
  have key : ∀ s, cstr (skipWs ((lineBuf line s).drop k)) = cstr (skipWs (line.drop k)) := by
    intro s
    unfold lineBuf cstr skipWs
    rw [List.drop_append_of_le_length hk]
    rw [dropWhile_append_stop _ NUL s (by decide)]
    rw [takeWhile_append_stop _ NUL s (by decide)]
  rw [key s1, key s2]

end Ledger.Timelog
