/-
Denotation of numeric values as finitely supported functions Comm → Rat and
the helper lemmas behind Props/C03 (kept apart from the property theorems).
-/
import LedgerModel.Model.Value

namespace Ledger

def Amount.den (a : Amount) (c : Comm) : Rat := if a.comm = c then a.q else 0

def Balance.den : Balance → Comm → Rat
  | [], _ => 0
  | x :: xs, c => x.den c + Balance.den xs c

def Value.den : Value → Comm → Rat
  | .void, _ => 0
  | .bool _, _ => 0
  | .int n, c => if "" = c then (n : Rat) else 0
  | .amt a, c => a.den c
  | .bal b, c => b.den c

/-- The single quantity carried by an integer, an amount or a one-entry balance. -/
def Value.qty : Value → Option Rat
  | .int n => some (n : Rat)
  | .amt a => some a.q
  | .bal [a] => some a.q
  | _ => none

@[simp] theorem Amount.den_ofInt (n : Int) (c : Comm) :
    (Amount.ofInt n).den c = if "" = c then (n : Rat) else 0 := by
  simp [Amount.den, Amount.ofInt]

@[simp] theorem Balance.den_nil (c : Comm) : Balance.den [] c = 0 := rfl
@[simp] theorem Balance.den_cons (x : Amount) (xs : Balance) (c : Comm) :
    Balance.den (x :: xs) c = x.den c + Balance.den xs c := rfl

theorem Balance.den_ofAmt (a : Amount) (c : Comm) : (Balance.ofAmt a).den c = a.den c := by
  unfold Balance.ofAmt
  split
  · rename_i h; simp [Amount.den, h]
  · simp only [Balance.den_cons, Balance.den_nil]; grind

theorem Balance.addAmt_go_den (b : Balance) (a : Amount) (c : Comm) :
    (Balance.addGo b a).den c = b.den c + a.den c := by
  induction b with
  | nil => simp only [Balance.addGo, Balance.den_cons, Balance.den_nil]; grind
  | cons x xs ih =>
    unfold Balance.addGo
    split
    · rename_i h
      simp only [Balance.den_cons, Amount.den, h]
      split <;> grind
    · simp only [Balance.den_cons, ih]; grind

theorem Balance.addAmt_den (b : Balance) (a : Amount) (c : Comm) :
    (Balance.addAmt b a).den c = b.den c + a.den c := by
  unfold Balance.addAmt
  split
  · rename_i h; simp only [Amount.den, h]; split <;> grind
  · exact Balance.addAmt_go_den b a c

theorem Balance.add_den (a b : Balance) (c : Comm) :
    (Balance.add a b).den c = a.den c + b.den c := by
  unfold Balance.add
  induction b generalizing a with
  | nil => simp only [List.foldl_nil, Balance.den_nil]; grind
  | cons x xs ih =>
    simp only [List.foldl_cons, ih, Balance.addAmt_den, Balance.den_cons]; grind

theorem Amount.den_neg (a : Amount) (c : Comm) : a.neg.den c = - a.den c := by
  unfold Amount.den Amount.neg
  split <;> grind

theorem Balance.subAmt_go_den (b : Balance) (a : Amount) (c : Comm) :
    (Balance.subGo b a).den c = b.den c - a.den c := by
  induction b with
  | nil => simp only [Balance.subGo, Balance.den_cons, Balance.den_nil, Amount.den_neg]; grind
  | cons x xs ih =>
    unfold Balance.subGo
    split
    · rename_i h
      split
      · rename_i hz
        simp only [Balance.den_cons, Amount.den, h]
        split <;> grind
      · simp only [Balance.den_cons, Amount.den, h]
        split <;> grind
    · simp only [Balance.den_cons, ih]; grind

theorem Balance.subAmt_den (b : Balance) (a : Amount) (c : Comm) :
    (Balance.subAmt b a).den c = b.den c - a.den c := by
  unfold Balance.subAmt
  split
  · rename_i h; simp only [Amount.den, h]; split <;> grind
  · exact Balance.subAmt_go_den b a c

theorem Balance.sub_den (a b : Balance) (c : Comm) :
    (Balance.sub a b).den c = a.den c - b.den c := by
  unfold Balance.sub
  induction b generalizing a with
  | nil => simp only [List.foldl_nil, Balance.den_nil]; grind
  | cons x xs ih =>
    simp only [List.foldl_cons, ih, Balance.subAmt_den, Balance.den_cons]; grind

theorem Balance.den_neg (b : Balance) (c : Comm) : (Balance.neg b).den c = - b.den c := by
  unfold Balance.neg
  induction b with
  | nil => simp only [List.map_nil, Balance.den_nil]; grind
  | cons x xs ih => simp only [List.map_cons, Balance.den_cons, ih, Amount.den_neg]; grind

theorem Balance.den_of_isRealZero (b : Balance) (h : b.isRealZero = true) (c : Comm) :
    b.den c = 0 := by
  induction b with
  | nil => rfl
  | cons x xs ih =>
    simp only [Balance.isRealZero, List.all_cons, Bool.and_eq_true] at h
    have hx : x.q = 0 := by simpa [Amount.isRealZero] using h.1
    have := ih (by simpa [Balance.isRealZero] using h.2)
    simp only [Balance.den_cons, Amount.den, hx, this]; split <;> grind

theorem Value.den_of_isRealZero (v : Value) (h : v.isRealZero = true) (c : Comm) :
    v.den c = 0 := by
  cases v with
  | void => rfl
  | bool b => rfl
  | int n =>
    have : n = 0 := by simpa [Value.isRealZero] using h
    simp [Value.den, this]
  | amt a =>
    have : a.q = 0 := by simpa [Value.isRealZero, Amount.isRealZero] using h
    simp [Value.den, Amount.den, this]
  | bal b => exact Balance.den_of_isRealZero b (by simpa [Value.isRealZero] using h) c

theorem Value.simplify_den (v : Value) (c : Comm) : v.simplify.den c = v.den c := by
  unfold Value.simplify
  split
  · rename_i h
    rw [Value.den_of_isRealZero v h c]; simp [Value.den]
  · split
    · simp only [Value.den, Balance.den_cons, Balance.den_nil]; grind
    · rfl

theorem Amount.add_den {a b r : Amount} (h : Amount.add a b = .ok r)
    (hc : a.comm = b.comm) (c : Comm) : r.den c = a.den c + b.den c := by
  unfold Amount.add at h
  split at h
  · cases h
  · cases h
    simp only [Amount.den, ← hc]; split <;> grind

theorem Amount.sub_den {a b r : Amount} (h : Amount.sub a b = .ok r)
    (hc : a.comm = b.comm) (c : Comm) : r.den c = a.den c - b.den c := by
  unfold Amount.sub at h
  split at h
  · cases h
  · cases h
    simp only [Amount.den, ← hc]; split <;> grind

theorem Amount.clampPrec_q (env : PrecEnv) (a : Amount) : (a.clampPrec env).q = a.q := by
  unfold Amount.clampPrec; split <;> rfl

theorem Amount.clampPrec_comm (env : PrecEnv) (a : Amount) : (a.clampPrec env).comm = a.comm := by
  unfold Amount.clampPrec; split <;> rfl

@[simp] theorem Amount.mul_q (env : PrecEnv) (a b : Amount) : (Amount.mul env a b).q = a.q * b.q := by
  simp [Amount.mul, Amount.clampPrec_q]

theorem Amount.mul_comm_of_hasComm (env : PrecEnv) (a b : Amount) (h : a.hasComm = true) :
    (Amount.mul env a b).comm = a.comm := by
  simp [Amount.mul, Amount.clampPrec_comm, h]

theorem Amount.div_q {env : PrecEnv} {a b r : Amount} (h : Amount.div env a b = .ok r) :
    r.q = a.q / b.q := by
  unfold Amount.div at h
  split at h
  · cases h
  · cases h; simp [Amount.clampPrec_q]

theorem Amount.isZero_false_ne {env : PrecEnv} {a : Amount} (h : a.isZero env = false) : a.q ≠ 0 := by
  intro hq
  unfold Amount.isZero at h
  simp [hq] at h

theorem Amount.div_ok_ne {env : PrecEnv} {a b r : Amount} (h : Amount.div env a b = .ok r) :
    b.q ≠ 0 := by
  unfold Amount.div at h
  split at h
  · cases h
  · rename_i hz
    exact Amount.isZero_false_ne (by simpa using hz)

/-- Sum of all component quantities, whatever their commodity. -/
def Balance.tot : Balance → Rat
  | [] => 0
  | x :: xs => x.q + Balance.tot xs

def Value.tot : Value → Rat
  | .void => 0
  | .bool _ => 0
  | .int n => (n : Rat)
  | .amt a => a.q
  | .bal b => b.tot

/-- An integer or a single amount, with its commodity. -/
def Value.scalar? : Value → Option (Rat × Comm)
  | .int n => some ((n : Rat), "")
  | .amt a => some (a.q, a.comm)
  | _ => none

theorem Except.map_eq_ok {ε α β : Type} {x : Except ε α} {f : α → β} {r : β}
    (h : x.map f = .ok r) : ∃ y, x = .ok y ∧ f y = r := by
  cases x with
  | error e => simp [Except.map] at h
  | ok y => exact ⟨y, rfl, by simpa [Except.map] using h⟩

theorem Balance.tot_of_isRealZero (b : Balance) (h : b.isRealZero = true) : b.tot = 0 := by
  induction b with
  | nil => rfl
  | cons x xs ih =>
    simp only [Balance.isRealZero, List.all_cons, Bool.and_eq_true] at h
    have hx : x.q = 0 := by simpa [Amount.isRealZero] using h.1
    have := ih (by simpa [Balance.isRealZero] using h.2)
    simp only [Balance.tot, hx, this]; grind

theorem Balance.tot_ofAmt (a : Amount) : (Balance.ofAmt a).tot = a.q := by
  unfold Balance.ofAmt
  split
  · rename_i h; simp [Balance.tot, h]
  · simp only [Balance.tot]; grind

theorem Balance.tot_map_mul (env : PrecEnv) (b : Balance) (a : Amount) :
    Balance.tot (b.map (fun x => Amount.mul env x a)) = b.tot * a.q := by
  induction b with
  | nil => simp only [List.map_nil, Balance.tot]; grind
  | cons x xs ih => simp only [List.map_cons, Balance.tot, ih, Amount.mul_q]; grind

theorem Balance.den_map_mul (env : PrecEnv) (b : Balance) (a : Amount) (ha : a.hasComm = false)
    (c : Comm) : Balance.den (b.map (fun x => Amount.mul env x a)) c = b.den c * a.q := by
  have hac : a.comm = "" := by simpa [Amount.hasComm] using ha
  induction b with
  | nil => simp only [List.map_nil, Balance.den_nil]; grind
  | cons x xs ih =>
    simp only [List.map_cons, Balance.den_cons, ih]
    have : (Amount.mul env x a).den c = x.den c * a.q := by
      unfold Amount.den
      have hcomm : (Amount.mul env x a).comm = x.comm := by
        simp only [Amount.mul, Amount.clampPrec_comm]
        split
        · rfl
        · rename_i hx; simp [Amount.hasComm] at hx; simp [hx, hac]
      rw [hcomm, Amount.mul_q]; split <;> grind
    rw [this]; grind

theorem Balance.mapM'_div_tot {env : PrecEnv} {b r : Balance} {a : Amount}
    (h : Balance.mapM' (fun x => Amount.div env x a) b = .ok r) : r.tot * a.q = b.tot := by
  induction b generalizing r with
  | nil => simp [Balance.mapM'] at h; cases h; simp only [Balance.tot]; grind
  | cons x xs ih =>
    simp only [Balance.mapM'] at h
    cases hx : Amount.div env x a with
    | error e => simp [hx, bind, Except.bind] at h
    | ok y =>
      cases hxs : Balance.mapM' (fun x => Amount.div env x a) xs with
      | error e => simp [hx, hxs, bind, Except.bind] at h
      | ok ys =>
        simp [hx, hxs, bind, Except.bind, pure, Except.pure] at h
        cases h
        have h1 := Amount.div_q hx
        have h2 := Amount.div_ok_ne hx
        have h3 := ih hxs
        simp only [Balance.tot, h1]; grind

end Ledger
