/-
Model of how ledger writes and reads amounts as text (property C04).

Mirrors, step by step:
* `stream_out_mpq`            amount.cc 101-225  (rational → MPFR → "%.*RNf", zero trimming,
                                                  thousands grouping, decimal comma)
* `amount_t::display_precision` amount.cc 577-589
* `amount_t::print`           amount.cc 1267-1303
* `parse_quantity`            amount.cc 976-999
* `amount_t::parse`           amount.cc 1001-1246 (sign, symbol side, separator, comma/period
                                                  inference, precision/style learning)
* `commodity_t::parse_symbol` commodity.cc 295-331, `symbol_needs_quotes` 286-293,
  `commodity_pool_t::create`  pool.cc 55-83 (qualified = quoted symbol)
* `READ_INTO`, `peek_next_nonws` utils.h 514-549

Conventions
* text is a list of BYTES, each byte represented as the `Char` with that code
  (the C++ works on `char`; `invalid_chars` is indexed by byte).  The driver
  converts UTF-8 strings to and from this representation;
* `Gen.invalidChars`, `Gen.reservedTokens`, `Gen.quantityBufMax`,
  `Gen.symbolBufMax` are regenerated from the source on every run;
* MPFR's `%.*RNf` is specified as round-to-nearest of the exact rational
  (the intermediate binary value carries ≥ 768 bits more than the operands, so
  it differs from the rational only exactly at decimal ties, where the
  direction is unspecified); the model uses half-even (`Amount.roundUnits`);
* outside the model: annotations (`{price}`, `[date]`, `(tag)`), the time-colon
  style of the built-in `h`/`m`/`s` commodities, `in_place_reduce` (journal
  postings are read with PARSE_NO_REDUCE).
Core Lean only.
-/
import LedgerModel.Model.Value
import LedgerModel.Gen.InvalidChars
import LedgerModel.Gen.AmountText

namespace Ledger.AmountText

abbrev Text := List Char

/-! ## characters -/

/-- commodity.cc `invalid_chars[(unsigned char) c]`. -/
def invalidChar (c : Char) : Bool := Gen.invalidChars.getD c.toNat false

/-- `std::isdigit` in the C locale. -/
def isDigit (c : Char) : Bool := 48 ≤ c.toNat ∧ c.toNat ≤ 57

/-- `std::isspace` in the C locale: space, \t \n \v \f \r. -/
def isSpace (c : Char) : Bool := c.toNat = 32 ∨ (9 ≤ c.toNat ∧ c.toNat ≤ 13)

def isSep (c : Char) : Bool := c = ',' ∨ c = '.'

/-- the character class of `parse_quantity`'s READ_INTO (amount.cc 987-988). -/
def isQuantChar (c : Char) : Bool := isDigit c ∨ isSep c

def digitChar (d : Nat) : Char :=
  match d % 10 with
  | 0 => '0' | 1 => '1' | 2 => '2' | 3 => '3' | 4 => '4'
  | 5 => '5' | 6 => '6' | 7 => '7' | 8 => '8' | _ => '9'

def digitVal (c : Char) : Nat := c.toNat - 48

/-- positional value of a string of decimal digits. -/
def decVal (s : Text) : Nat := s.foldl (fun a c => 10 * a + digitVal c) 0

/-! ## commodity style -/

/-- COMMODITY_STYLE_SUFFIXED / SEPARATED / THOUSANDS / DECIMAL_COMMA (commodity.h 83-87). -/
structure Style where
  suffixed     : Bool := false
  separated    : Bool := false
  thousands    : Bool := false
  decimalComma : Bool := false
deriving DecidableEq, Repr

/-- `add_flags`: bitwise or. -/
def Style.union (a b : Style) : Style :=
  { suffixed := a.suffixed || b.suffixed, separated := a.separated || b.separated,
    thousands := a.thousands || b.thousands, decimalComma := a.decimalComma || b.decimalComma }

/-- what the pool knows about one commodity. -/
structure CommInfo where
  style     : Style := {}
  prec      : Nat := 0
  noMigrate : Bool := false      -- COMMODITY_STYLE_NO_MIGRATE (set by the `format` sub-directive)
deriving DecidableEq, Repr

/-! ## printing -/

/-- the `p` low-order decimal digits of `n`, most significant first. -/
def fracDigits : Nat → Nat → Text
  | _, 0 => []
  | n, p + 1 => fracDigits (n / 10) p ++ [digitChar n]

/-- decimal digits of `n`, at least one. -/
def intDigits (n : Nat) : Text :=
  if n < 10 then [digitChar n] else intDigits (n / 10) ++ [digitChar n]
decreasing_by omega

def dropTrailingZeros (s : Text) : Text := (s.reverse.dropWhile (· = '0')).reverse

/-- amount.cc 152-169: trailing zeros go, but at least `z` decimals stay. -/
def trimFrac (frac : Text) (z : Nat) : Text := frac.take z ++ dropTrailingZeros (frac.drop z)

/-- the buffer `mpfr_asprintf("%.*RNf")` returns, after the zero trimming, kept in parts:
    sign, integer digits, fractional digits (no `.` when there are none). -/
structure Num where
  neg  : Bool
  int  : Text
  frac : Text
deriving DecidableEq, Repr

/-- amount.cc 118-169.  `zeros = none` stands for `zeros_prec = -1`. -/
def fmtNum (q : Rat) (p : Nat) (zeros : Option Nat) : Num :=
  let m := (Amount.roundUnits q p).natAbs
  let frac := fracDigits (m % 10 ^ p) p
  { neg := decide (q < 0)
    int := intDigits (m / 10 ^ p)
    frac := match zeros with
            | none => frac
            | some z => trimFrac frac z }

/-- the buffer as plain text (the `else out << buf` branch, amount.cc 213-215). -/
def Num.plain (n : Num) : Text :=
  (if n.neg then ['-'] else []) ++ n.int ++ (if n.frac = [] then [] else '.' :: n.frac)

/-- amount.cc 172-211, integer digits: after each digit, `integer_digits > 3 &&
    --integer_digits % 3 == 0` emits a mark; `rest.length + 1` is `integer_digits`
    before the digit `c`. -/
def groupInt (sep : Char) : Text → Text
  | [] => []
  | c :: rest =>
    if rest.length ≥ 3 ∧ rest.length % 3 = 0 then c :: sep :: groupInt sep rest
    else c :: groupInt sep rest

/-- amount.cc 171-215 with a commodity: thousands marks and the decimal mark. -/
def Num.render (n : Num) (thousands dc : Bool) : Text :=
  (if n.neg then ['-'] else [])
  ++ (if thousands then groupInt (if dc then '.' else ',') n.int else n.int)
  ++ (if n.frac = [] then [] else (if dc then ',' else '.') :: n.frac)

/-- commodity.cc 262-283. -/
def isReserved (b : Text) : Bool := Gen.reservedTokens.any (fun t => t.toList = b)

/-- commodity_t::symbol_needs_quotes (commodity.cc 286-293).  The pinned source looks at
    `invalid_chars` only; the repaired source (`Gen.symbolQuotesBackslashQuote`,
    `Gen.symbolQuotesReserved`, read from the working tree) also quotes a symbol containing a
    backslash or a double quote, and a reserved word. -/
def needsQuotes (sym : Text) : Bool :=
  sym.any invalidChar
  || (Gen.symbolQuotesBackslashQuote && sym.any (fun c => c = '\\' || c = '"'))
  || (Gen.symbolQuotesReserved && isReserved sym)

/-- the repaired pool.cc create(): `"` and `\` get a backslash in front. -/
def escapeSym : Text → Text
  | [] => []
  | c :: t => if c = '"' ∨ c = '\\' then '\\' :: c :: escapeSym t else c :: escapeSym t

/-- pool.cc 63-68: the qualified symbol is what commodity_t::print writes
    (`Gen.symbolEscapesBackslashQuote`: with the escapes of the repaired source). -/
def qualified (sym : Text) : Text :=
  if needsQuotes sym then
    '"' :: ((if Gen.symbolEscapesBackslashQuote then escapeSym sym else sym) ++ ['"'])
  else sym

/-- amount.cc 577-589. -/
def displayPrec (hasComm : Bool) (commPrec amtPrec : Nat) (keep : Bool) : Nat :=
  if hasComm ∧ ¬ keep then commPrec
  else if hasComm then max amtPrec commPrec else amtPrec

/-- amount_t::print (amount.cc 1267-1303) for an unannotated commodity `sym`
    (`[]` = the null commodity, which has no flags and precision 0).
    `dcDefault` = commodity_t::decimal_comma_by_default (`--decimal-comma`). -/
def printAmount (dcDefault : Bool) (sym : Text) (ci : CommInfo) (q : Rat) (amtPrec : Nat)
    (keep : Bool) : Text :=
  let hasComm := sym ≠ []
  let st : Style := if hasComm then ci.style else {}
  let cp := if hasComm then ci.prec else 0
  let n := fmtNum q (displayPrec hasComm cp amtPrec keep) (some cp)
  let num := n.render st.thousands (dcDefault || st.decimalComma)
  if st.suffixed then num ++ (if st.separated then [' '] else []) ++ qualified sym
  else qualified sym ++ (if st.separated then [' '] else []) ++ num

/-- `c == '"'` on the first character. -/
def startsQuote : Text → Bool
  | '"' :: _ => true
  | _ => false

/-- commodity_t::print with `elide_quotes` (commodity.cc 353-366; report_t::fn_justify, hence every
    default report column, passes AMOUNT_PRINT_ELIDE_COMMODITY_QUOTES): a quoted symbol of a SEPARATED
    commodity is shown without its quotes unless it contains a space or consists of digits only. -/
def elidedSymbol (separated : Bool) (sym : Text) : Text :=
  let qs := qualified sym
  if separated ∧ startsQuote qs ∧ ¬ qs.contains ' ' then
    let sub := (qs.drop 1).dropLast
    if sub.all isDigit then qs else sub
  else qs

/-- amount_t::print with AMOUNT_PRINT_ELIDE_COMMODITY_QUOTES: as `printAmount`, the symbol spelled by
    `elidedSymbol`. -/
def printAmountElided (dcDefault : Bool) (sym : Text) (ci : CommInfo) (q : Rat) (amtPrec : Nat)
    (keep : Bool) : Text :=
  let hasComm := sym ≠ []
  let st : Style := if hasComm then ci.style else {}
  let cp := if hasComm then ci.prec else 0
  let n := fmtNum q (displayPrec hasComm cp amtPrec keep) (some cp)
  let num := n.render st.thousands (dcDefault || st.decimalComma)
  if st.suffixed then num ++ (if st.separated then [' '] else []) ++ elidedSymbol st.separated sym
  else elidedSymbol st.separated sym ++ (if st.separated then [' '] else []) ++ num

/-- amount_t::is_zero (amount.cc 832-865): exact when the amount keeps its precision or has no
    more decimals than its commodity displays; otherwise "does it print as zero": a value above 1
    does not, anything else is printed at the commodity's precision (`stream_out_mpq` without
    trimming) and searched for a character other than `0`, `.`, `-`. -/
def isZeroAmt (hasComm : Bool) (commPrec : Nat) (q : Rat) (amtPrec : Nat) (keep : Bool) : Bool :=
  if hasComm then
    if keep ∨ amtPrec ≤ commPrec then decide (q = 0)
    else if q = 0 then true
    else if q.num > (q.den : Int) then false
    else (fmtNum q commPrec none).plain.all (fun c => c = '0' || c = '.' || c = '-')
  else decide (q = 0)

/-- value_t::print, AMOUNT case (value.cc 2032-2041) as called by `justify(...)`, hence by the
    default register and balance reports: a bare `0` for an amount that is_zero, amount_t::print
    (with quote elision) otherwise. -/
def showAmount (dcDefault : Bool) (sym : Text) (ci : CommInfo) (q : Rat) (amtPrec : Nat)
    (keep : Bool) : Text :=
  if isZeroAmt (sym ≠ []) ci.prec q amtPrec keep then ['0']
  else printAmountElided dcDefault sym ci q amtPrec keep

/-! ## reading -/

inductive PErr
  | noQuantity           -- "No quantity specified for amount"
  | tooManyPeriods       -- "Too many periods in amount"
  | tooManyCommas        -- "Too many commas in amount"
  | badThousandPeriod    -- "Incorrect use of thousand-mark period"
  | badThousandComma     -- "Incorrect use of thousand-mark comma"
  | badDecimalComma      -- "Incorrect use of decimal comma"
  | noClosingQuote       -- "Quoted commodity symbol lacks closing quote"
  | backslashAtEnd       -- "Backslash at end of commodity name"
deriving DecidableEq, Repr

/-- peek_next_nonws (utils.h 514-521). -/
def skipWs (s : Text) : Text := s.dropWhile isSpace

/-- the escapes READ_INTO translates (utils.h 535-542). -/
def unescape (c : Char) : Char :=
  if c = 'b' then Char.ofNat 8 else if c = 'f' then Char.ofNat 12 else if c = 'n' then '\n'
  else if c = 'r' then '\r' else if c = 't' then '\t' else if c = 'v' then Char.ofNat 11 else c

/-- `READ_INTO(in, buf, 255, c, c != '"')` (commodity.cc 303): returns the buffer and
    the unread rest; `n` = remaining capacity. -/
def readQuoted : Nat → Text → Text × Text
  | 0, s => ([], s)
  | _ + 1, [] => ([], [])
  | n + 1, c :: s =>
    if c = '\n' ∨ c = '"' then ([], c :: s)
    else if c = '\\' then
      match s with
      | [] => ([], [])
      | e :: s' => let r := readQuoted n s'; (unescape e :: r.1, r.2)
    else let r := readQuoted n s; (c :: r.1, r.2)

/-- the unquoted loop of parse_symbol (commodity.cc 309-320). -/
def readBare : Nat → Text → Except PErr (Text × Text)
  | 0, s => .ok ([], s)
  | _ + 1, [] => .ok ([], [])
  | n + 1, c :: s =>
    if invalidChar c then .ok ([], c :: s)
    else if c = '\\' then
      match s with
      | [] => .error .backslashAtEnd
      | e :: s' =>
        match readBare n s' with
        | .ok r => .ok (e :: r.1, r.2)
        | .error e => .error e
    else
      match readBare n s with
      | .ok r => .ok (c :: r.1, r.2)
      | .error e => .error e

/-- commodity_t::parse_symbol(std::istream&, string&) (commodity.cc 295-331):
    symbol and unread rest; an empty symbol rewinds the stream. -/
def parseSymbol (s : Text) : Except PErr (Text × Text) :=
  let s' := skipWs s
  if startsQuote s' then
    let r := readQuoted Gen.symbolBufMax (s'.drop 1)
    if startsQuote r.2 then
      (if r.1 = [] then .ok ([], s) else .ok (r.1, r.2.drop 1))
    else .error .noClosingQuote
  else
    match readBare Gen.symbolBufMax s' with
    | .error e => .error e
    | .ok r =>
      if r.1 = [] ∨ isReserved r.1 then .ok ([], s) else .ok (r.1, r.2)

/-- at most `n` leading characters satisfying `p`. -/
def takeWhileN (p : Char → Bool) : Nat → Text → Text
  | 0, _ => []
  | _ + 1, [] => []
  | n + 1, c :: s => if p c then c :: takeWhileN p n s else []

/-- amount.cc 990-995: trailing non-digits are given back to the stream. -/
def stripTrailingNonDigits (buf : Text) : Text := (buf.reverse.dropWhile (fun c => !isDigit c)).reverse

/-- `c == '-'` on the peeked character. -/
def startsMinus : Text → Bool
  | '-' :: _ => true
  | _ => false

/-- `std::isdigit(c)` on the peeked character. -/
def startsDigit : Text → Bool
  | c :: _ => isDigit c
  | [] => false

/-- parse_quantity (amount.cc 976-999): the quantity text and the unread rest. -/
def parseQuantity (s : Text) : Text × Text :=
  let s0 := skipWs s
  let neg := startsMinus s0
  let s1 := if neg then s0.drop 1 else s0
  let body := takeWhileN isQuantChar (if neg then Gen.quantityBufMax - 1 else Gen.quantityBufMax) s1
  let buf := (if neg then ['-'] else []) ++ body
  let kept := stripTrailingNonDigits buf
  (kept, buf.drop kept.length ++ s1.drop body.length)

/-- the state of the punctuation scan (amount.cc 1098-1116). -/
structure Scan where
  off           : Nat  := 0        -- decimal_offset
  lastComma     : Bool := false    -- last_comma != npos
  lastPeriod    : Bool := false
  noMoreCommas  : Bool := false
  noMorePeriods : Bool := false
  dcs           : Bool             -- decimal_comma_style
  thousands     : Bool := false    -- COMMODITY_STYLE_THOUSANDS in comm_flags
  prec          : Nat  := 0        -- new_quantity->prec
deriving DecidableEq, Repr

/-- one iteration of BOOST_REVERSE_FOREACH (amount.cc 1118-1180). -/
def scanStep (st : Scan) (ch : Char) : Except PErr Scan :=
  if ch = '.' then
    if st.noMorePeriods then .error .tooManyPeriods
    else if st.dcs then
      if st.off % 3 ≠ 0 then .error .badThousandPeriod
      else .ok { st with thousands := true, noMoreCommas := true, lastPeriod := true }
    else if st.lastComma then
      if st.off % 3 ≠ 0 then .error .badThousandPeriod
      else .ok { st with dcs := true, lastPeriod := true }
    else .ok { st with noMorePeriods := true, prec := st.off, off := 0, lastPeriod := true }
  else if ch = ',' then
    if st.noMoreCommas then .error .tooManyCommas
    else if st.dcs then
      if st.lastPeriod then .error .badDecimalComma
      else .ok { st with noMoreCommas := true, prec := st.off, off := 0, lastComma := true }
    else if st.off % 3 ≠ 0 then
      if st.lastComma ∨ st.lastPeriod then .error .badThousandComma
      else .ok { st with dcs := true, noMoreCommas := true, prec := st.off, off := 0, lastComma := true }
    else .ok { st with thousands := true, noMorePeriods := true, lastComma := true }
  else .ok { st with off := st.off + 1 }

def scanGo : Scan → Text → Except PErr Scan
  | st, [] => .ok st
  | st, c :: cs =>
    match scanStep st c with
    | .ok st' => scanGo st' cs
    | .error e => .error e

/-- the whole scan: the quantity text is walked from its last character. -/
def scan (dc0 : Bool) (quant : Text) : Except PErr Scan := scanGo { dcs := dc0 } quant.reverse

/-- amount.cc 1205-1210: `if (*p == ',' || *p == '.') p++; *t++ = *p++;` -/
def stripSeps : Text → Text
  | [] => []
  | c :: t =>
    if isSep c then
      match t with
      | [] => []
      | d :: r => d :: stripSeps r
    else c :: stripSeps t

/-- `mpq_set_str(…, 10)` of an optional `-` and at least one digit. -/
def intOfText (s : Text) : Option Int :=
  match s with
  | '-' :: ds => if ds ≠ [] ∧ ds.all isDigit then some (-(decVal ds : Int)) else none
  | ds => if ds ≠ [] ∧ ds.all isDigit then some (decVal ds : Int) else none

structure Parsed where
  q     : Rat
  prec  : Nat
  sym   : Text          -- `[]` = no commodity
  flags : Style         -- comm_flags
  rest  : Text          -- unread input
deriving DecidableEq, Repr

/-- amount.cc 1098-1227 once symbol and quantity text are known.
    `mpq_set_str` failing (text such as `1,,0` leaves a `,` behind) keeps the
    freshly initialised 0. -/
def finish (dc0 negative : Bool) (quant sym : Text) (fl : Style) (rest : Text) : Except PErr Parsed :=
  if quant = [] then .error .noQuantity
  else
    match scan dc0 quant with
    | .error e => .error e
    | .ok sc =>
      let n : Int := (intOfText (stripSeps quant)).getD 0
      let q : Rat := (n : Rat) / ((10 : Rat) ^ sc.prec)
      .ok { q := if negative then -q else q, prec := sc.prec, sym := sym,
            flags := { fl with thousands := sc.thousands, decimalComma := sc.dcs }, rest := rest }

/-- amount_t::parse (amount.cc 1001-1246) without annotations.  `dcOf sym` says whether
    the commodity found for `sym` (the null commodity for `[]`) starts in decimal-comma
    style: `decimal_comma_by_default || commodity().has_flags(DECIMAL_COMMA)` (1107-1109). -/
def parseAmount (dcOf : Text → Bool) (s : Text) : Except PErr Parsed :=
  let s0 := skipWs s
  let negative := startsMinus s0
  let s1 := if negative then skipWs (s0.drop 1) else s0
  if startsDigit s1 then
    let qr := parseQuantity s1
    match qr.2 with
    | [] => finish (dcOf []) negative qr.1 [] {} []
    | n :: r =>
      if n = '\n' then finish (dcOf []) negative qr.1 [] {} (n :: r)
      else
        match parseSymbol (n :: r) with
        | .error e => .error e
        | .ok sr =>
          finish (dcOf sr.1) negative qr.1 sr.1
            { separated := isSpace n, suffixed := sr.1 ≠ [] } sr.2
  else
    match parseSymbol s1 with
    | .error e => .error e
    | .ok sr =>
      match sr.2 with
      | [] => finish (dcOf sr.1) negative [] sr.1 {} []
      | n :: r =>
        if n = '\n' then finish (dcOf sr.1) negative [] sr.1 {} (n :: r)
        else
          let qr := parseQuantity (n :: r)
          finish (dcOf sr.1) negative qr.1 sr.1 { separated := isSpace n } qr.2

/-! ## learning (amount.cc 1185-1195) -/

/-- `commodity().add_flags(comm_flags)`; precision becomes the larger one —
    unless the commodity is NO_MIGRATE (or the amount has no commodity). -/
def migrate (c : CommInfo) (p : Parsed) : CommInfo :=
  if c.noMigrate then c
  else { c with style := c.style.union p.flags, prec := max c.prec p.prec }

/-- the commodity after a sequence of its amounts has been read. -/
def learnAll (c : CommInfo) (ps : List Parsed) : CommInfo := ps.foldl migrate c

/-! ## value of a printed number -/

/-- the rational a buffer denotes: sign · (integer digits + fractional digits / 10^n). -/
def Num.val (n : Num) : Rat :=
  let m : Rat := (decVal n.int : Rat) + (decVal n.frac : Rat) / (10 : Rat) ^ n.frac.length
  if n.neg then -m else m

end Ledger.AmountText
