/- Driver ops for amount text (C04).  Text fields travel as lowercase hex of the
   UTF-8 bytes; inside the model one `Char` is one byte. -/
import LedgerModel.Model.AmountText

namespace Ledger.AmountText

def hexDigit (n : Nat) : Char := if n < 10 then Char.ofNat (48 + n) else Char.ofNat (87 + n)

def hexVal? (c : Char) : Option Nat :=
  if 48 ≤ c.toNat ∧ c.toNat ≤ 57 then some (c.toNat - 48)
  else if 97 ≤ c.toNat ∧ c.toNat ≤ 102 then some (c.toNat - 87)
  else none

def textToHex (t : Text) : String :=
  String.ofList (t.flatMap (fun c => [hexDigit (c.toNat / 16 % 16), hexDigit (c.toNat % 16)]))

def hexToText? : List Char → Option Text
  | [] => some []
  | [_] => none
  | a :: b :: rest => do
    let x ← hexVal? a
    let y ← hexVal? b
    let r ← hexToText? rest
    pure (Char.ofNat (16 * x + y) :: r)

def parseHex? (s : String) : Option Text := hexToText? s.toList

def Style.render (s : Style) : String :=
  boolStr s.suffixed ++ boolStr s.separated ++ boolStr s.thousands ++ boolStr s.decimalComma

def parseStyle? (s : String) : Option Style :=
  match s.toList with
  | [a, b, c, d] => do
    let a ← parseBool? (String.singleton a)
    let b ← parseBool? (String.singleton b)
    let c ← parseBool? (String.singleton c)
    let d ← parseBool? (String.singleton d)
    pure { suffixed := a, separated := b, thousands := c, decimalComma := d }
  | _ => none

def PErr.render : PErr → String
  | .noQuantity => "no-quantity"
  | .tooManyPeriods => "too-many-periods"
  | .tooManyCommas => "too-many-commas"
  | .badThousandPeriod => "bad-thousand-period"
  | .badThousandComma => "bad-thousand-comma"
  | .badDecimalComma => "bad-decimal-comma"
  | .noClosingQuote => "no-closing-quote"
  | .backslashAtEnd => "backslash-at-end"

/-- `amt.roundto <num/den> <places>` -/
def opRoundTo (args : List String) : String :=
  match args with
  | [q, p] =>
    match parseRat? q, p.toNat? with
    | some q, some p => "ok\t" ++ ratStr (Amount.roundTo q p)
    | _, _ => "err\tbad-op"
  | _ => "err\tbad-op"

/-- `amt.fmt <num/den> <precision> <zeros_prec | -1>`: the plain buffer. -/
def opFmt (args : List String) : String :=
  match args with
  | [q, p, z] =>
    match parseRat? q, p.toNat?, z.toInt? with
    | some q, some p, some z =>
      let zeros := if z < 0 then none else some z.toNat
      "ok\t" ++ textToHex (fmtNum q p zeros).plain
    | _, _, _ => "err\tbad-op"
  | _ => "err\tbad-op"

/-- `amt.print <dcDefault> <symbol hex> <style> <commodity precision> <num/den> <amount prec> <keep>` -/
def opPrint (args : List String) : String :=
  match args with
  | [dcd, sym, st, cp, q, ap, keep] =>
    match parseBool? dcd, parseHex? sym, parseStyle? st, cp.toNat?, parseRat? q, ap.toNat?, parseBool? keep with
    | some dcd, some sym, some st, some cp, some q, some ap, some keep =>
      "ok\t" ++ textToHex (printAmount dcd sym { style := st, prec := cp } q ap keep)
    | _, _, _, _, _, _, _ => "err\tbad-op"
  | _ => "err\tbad-op"

/-- `amt.show <dcDefault> <symbol hex> <style> <commodity precision> <num/den> <amount prec> <keep>`:
    value_t::print of the amount, and whether amount_t::is_zero holds (the row filter of reg/bal). -/
def opShow (args : List String) : String :=
  match args with
  | [dcd, sym, st, cp, q, ap, keep] =>
    match parseBool? dcd, parseHex? sym, parseStyle? st, cp.toNat?, parseRat? q, ap.toNat?, parseBool? keep with
    | some dcd, some sym, some st, some cp, some q, some ap, some keep =>
      "ok\t" ++ textToHex (showAmount dcd sym { style := st, prec := cp } q ap keep) ++ "\t" ++
        boolStr (isZeroAmt (sym ≠ []) cp q ap keep)
    | _, _, _, _, _, _, _ => "err\tbad-op"
  | _ => "err\tbad-op"

def Parsed.render (p : Parsed) : String :=
  ratStr p.q ++ "\t" ++ toString p.prec ++ "\t" ++ textToHex p.sym ++ "\t" ++ p.flags.render
    ++ "\t" ++ textToHex p.rest

/-- `amt.parse <text hex> <dc0>`: dc0 = the commodity (whichever is read) starts in decimal-comma style. -/
def opParse (args : List String) : String :=
  match args with
  | [t, dc] =>
    match parseHex? t, parseBool? dc with
    | some t, some dc =>
      match parseAmount (fun _ => dc) t with
      | .ok p => "ok\t" ++ p.render
      | .error e => "err\t" ++ e.render
    | _, _ => "err\tbad-op"
  | _ => "err\tbad-op"

abbrev Pool := List (Text × CommInfo)

def Pool.find (pool : Pool) (sym : Text) : CommInfo :=
  match List.find? (fun kv => kv.1 = sym) pool with
  | some kv => kv.2
  | none => {}

def Pool.set (pool : Pool) (sym : Text) (ci : CommInfo) : Pool :=
  if pool.any (fun kv => kv.1 = sym) then pool.map (fun kv => if kv.1 = sym then (sym, ci) else kv)
  else pool ++ [(sym, ci)]

/-- read one amount in a pool: look the commodity up, read, migrate (amount.cc 1086-1195).
    A commodity created under `--decimal-comma` starts with the flag (commodity.h 117-121). -/
def Pool.read (dcDefault : Bool) (pool : Pool) (t : Text) : Except PErr (Pool × Parsed) :=
  match parseAmount (fun sym => dcDefault || (pool.find sym).style.decimalComma) t with
  | .error e => .error e
  | .ok p =>
    if p.sym = [] then .ok (pool, p)
    else
      let c0 := pool.find p.sym
      let c0 := if pool.any (fun kv => kv.1 = p.sym) then c0
                else { c0 with style := { c0.style with decimalComma := dcDefault } }
      .ok (pool.set p.sym (migrate c0 p), p)

def lexLt : Text → Text → Bool
  | [], [] => false
  | [], _ => true
  | _, [] => false
  | a :: as, b :: bs => a.toNat < b.toNat || (a.toNat = b.toNat && lexLt as bs)

def insertSorted (x : Text × CommInfo) : Pool → Pool
  | [] => [x]
  | y :: ys => if lexLt x.1 y.1 then x :: y :: ys else y :: insertSorted x ys

/-- `amt.learn <dcDefault> <item> …`: read the texts in order in one pool; an item is the hex
    of an amount text, prefixed by `!` when it is the argument of a `format` sub-directive
    (textual.cc 1147-1161: read like any amount, then the commodity becomes NO_MIGRATE).
    Answer: the commodities (sorted by symbol bytes) as `sym:style:precision` joined by `;`.
    A text that fails to parse is skipped (ledger reports the error and goes on). -/
def opLearn (args : List String) : String :=
  match args with
  | dcd :: items =>
    let parsed := items.map (fun (it : String) =>
      if it.startsWith "!" then (true, parseHex? (it.drop 1).toString) else (false, parseHex? it))
    match parseBool? dcd, parsed.all (fun x => x.2.isSome) with
    | some dcd, true =>
      let pool := parsed.foldl (fun pool x =>
        match x.2 with
        | none => pool
        | some t =>
          match Pool.read dcd pool t with
          | .ok r =>
            if x.1 ∧ r.2.sym ≠ [] then
              r.1.set r.2.sym { r.1.find r.2.sym with noMigrate := true }
            else r.1
          | .error _ => pool) ([] : Pool)
      let sorted := pool.foldl (fun acc x => insertSorted x acc) []
      "ok\t" ++ ";".intercalate (sorted.map (fun kv =>
        textToHex kv.1 ++ ":" ++ kv.2.style.render ++ ":" ++ toString kv.2.prec))
    | _, _ => "err\tbad-op"
  | _ => "err\tbad-op"

end Ledger.AmountText

namespace Ledger

def AmountTextProto.ops : List (String × (List String → String)) :=
  [("amt.roundto", AmountText.opRoundTo), ("amt.fmt", AmountText.opFmt),
   ("amt.print", AmountText.opPrint), ("amt.show", AmountText.opShow), ("amt.parse", AmountText.opParse),
   ("amt.learn", AmountText.opLearn)]

end Ledger
