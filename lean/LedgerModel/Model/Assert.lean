/-
Model of ledger's balance assertions and balance assignments (C09).

Mirrors, statement by statement,
* textual.cc 1645-1769  instance_t::parse_post, the `= AMOUNT` block (`checkPost`);
* account.cc 613-665    account_t::amount(real_only): the sum of the postings
                        that reached *this* account (never its children), the
                        ordinary ones only (`real_total`) or all (`total`);
* balance.cc 233-260    balance_t::commodity_amount (`restrict`);
* xact.cc 158-423       xact_base_t::finalize as far as C09 needs it: the
                        balance check (with the implied price of a two-commodity
                        transaction), the elided posting, and the loop that
                        appends every posting to its account *after* the check
                        (xact.cc 392-411) — so a posting log in FILE order;
* textual.cc 243-301    one error per failed transaction, parsing goes on.

Two statements of the `=` block are read from the working tree on every run
(`Gen.Assert.virtualCountsSameXactReal`, `Gen.Assert.ownAmountBeforeRestriction`,
tools/extract_assert.py) and the model follows them; everything else of the
block is pinned (`C09.source_pinned`).

Not modelled (generators stay away, see tools/props/c09.py): annotations
(stripping them is the identity on quantity and base commodity), value
expressions after `=`, automated transactions, deferred `<A>` postings,
`apply account`/aliases, rounding of cost totals beyond the display precision.
Core Lean only.
-/
import LedgerModel.Model.Journal
import LedgerModel.Gen.Assert

namespace Ledger.Assert

/-- One posting that reached an account (`account_t::posts`), as
    xact_base_t::finalize appends it (xact.cc 406). -/
structure Entry where
  account : String
  virt    : Bool          -- POST_VIRTUAL: `(A)` and `[A]` alike (textual.cc 1497-1508)
  amt     : Amount
deriving DecidableEq, Repr

inductive AErr
  | assertOff        -- "Balance assertion off by …"
  | multiComm        -- diff.to_amount() on several commodities (assignment)
  | nullEarlier      -- an earlier posting of the transaction to the same account has no amount yet
  | unbalanced       -- "Transaction does not balance"
  | twoNulls         -- "Only one posting with null amount allowed per transaction"
  | nullAfter        -- "There cannot be null amounts after balancing a transaction" / all-null transaction
deriving DecidableEq, Repr

def AErr.render : AErr → String
  | .assertOff => "assert-off"
  | .multiComm => "multiComm"
  | .nullEarlier => "other"
  | .unbalanced => "unbalanced"
  | .twoNulls => "two-nulls"
  | .nullAfter => "other"

/-- POST_VIRTUAL. -/
def virt (p : Posting) : Bool := !p.isReal

/-- `add_or_set_value(total, amount)` (post.cc 663 → value.h): VOID → the amount,
    AMOUNT + AMOUNT → AMOUNT or BALANCE, BALANCE + AMOUNT → BALANCE. -/
def accAdd (v : Value) (a : Amount) : Value :=
  match Value.add v (.amt a) with
  | .ok r => r
  | .error _ => v

/-- Does an entry of the log count for `account->amount(real_only)` of `acct`?
    Exact account only; `real_total` leaves POST_VIRTUAL postings out (account.cc 627-631). -/
def counted (acct : String) (realOnly : Bool) (e : Entry) : Bool :=
  e.account = acct && (!realOnly || !e.virt)

/-- account_t::amount(real_only): `self_details.real_total` / `.total`, accumulated
    over `posts` in the order they were appended. -/
def accTotal (log : List Entry) (acct : String) (realOnly : Bool) : Value :=
  ((log.filter (counted acct realOnly)).map Entry.amt).foldl accAdd .void

/-- textual.cc 1686-1705: `diff -= amt` / `diff -= bal` by the type of the total. -/
def subTotal (d : Balance) : Value → Balance
  | .amt a => Balance.subAmt d a
  | .bal b => Balance.sub d b
  | _ => d

/-- textual.cc 1714, the filter on the earlier postings of the same transaction,
    second conjunct (the first is `p->account == post->account`). `f1` is
    `Gen.Assert.virtualCountsSameXactReal` (read from the source); `asserting`/`p`
    are the POST_VIRTUAL flags. Pinned source: same virtual-ness only. -/
def sameXactCounts (f1 : Bool) (asserting p : Bool) : Bool :=
  if f1 then (asserting || !p) else (p == asserting)

/-- textual.cc 1712-1720: subtract the earlier postings of this transaction. -/
def subEarlier (f1 : Bool) (d : Balance) (acct : String) (v : Bool) : List Posting → Except AErr Balance
  | [] => .ok d
  | p :: ps =>
    if p.account = acct ∧ sameXactCounts f1 v (virt p) = true then
      match p.amount with
      | none => .error .nullEarlier     -- strip_annotations of an uninitialized amount
      | some a => subEarlier f1 (Balance.subAmt d a) acct v ps
    else subEarlier f1 d acct v ps

/-- textual.cc 1722-1735: restriction to the asserted commodity
    (`diff = *wanted_commodity` / `diff = amt - amt`). -/
def restrict (d : Balance) (amt : Amount) : Balance :=
  if amt.hasComm then
    match d.find? amt.comm with
    | none => []
    | some w => Balance.ofAmt w
  else d

/-- balance_t::is_zero: every component `amount_t::is_zero` (display precision). -/
def balIsZero (env : PrecEnv) (b : Balance) : Bool := b.all (Amount.isZero env)

/-- `amt - amt`: zero with the commodity (and precision counter) of `amt`. -/
def zeroLike (amt : Amount) : Amount := { amt with q := 0 }

structure Ctx where
  env        : PrecEnv
  permissive : Bool       -- `no_assertions`

/-- `diff` after the total and the earlier postings of the transaction have been
    subtracted (textual.cc 1677-1720). -/
def codeDiff (f1 : Bool) (log : List Entry) (earlier : List Posting) (acct : String) (v : Bool) (amt : Amount) :
    Except AErr Balance :=
  subEarlier f1 (subTotal (Balance.ofAmt amt) (accTotal log acct (!v))) acct v earlier

/-- balance assignment (textual.cc 1737-1749). -/
def assignFrom (env : PrecEnv) (d3 : Balance) (amt : Amount) : Except AErr Amount :=
  if balIsZero env d3 then .ok (zeroLike amt)
  else match d3 with
    | [x] => .ok x
    | _ => .error .multiComm

/-- `diff` of a balance assertion just before `is_zero` is asked (textual.cc 1722-1752).
    `f2` is `Gen.Assert.ownAmountBeforeRestriction`; pinned source: the own amount is
    subtracted after the restriction. -/
def assertDiff (f2 : Bool) (d2 : Balance) (amt a : Amount) : Balance :=
  if f2 then restrict (Balance.subAmt d2 a) amt
  else Balance.subAmt (restrict d2 amt) a

/-- The `= AMOUNT` block of parse_post for one posting, for given readings `f1 f2`
    of the two interpreted statements; `earlier` are the postings of the same
    transaction already in `xact->posts` (amounts filled in). Returns the posting
    as it is added to the transaction. -/
def checkPostF (f1 f2 : Bool) (cx : Ctx) (log : List Entry) (earlier : List Posting) (p : Posting) :
    Except AErr Posting :=
  match p.assert with
  | none => .ok p
  | some amt =>
    match codeDiff f1 log earlier p.account (virt p) amt with
    | .error e => .error e
    | .ok d2 =>
      match p.amount with
      | none =>
        match assignFrom cx.env (restrict d2 amt) amt with
        | .ok x => .ok { p with amount := some x }
        | .error e => .error e
      | some a =>
        if !cx.permissive && !balIsZero cx.env (assertDiff f2 d2 amt a) then .error .assertOff
        else .ok p

/-- The block as the working tree has it. -/
def checkPost (cx : Ctx) (log : List Entry) (earlier : List Posting) (p : Posting) : Except AErr Posting :=
  checkPostF Gen.Assert.virtualCountsSameXactReal Gen.Assert.ownAmountBeforeRestriction cx log earlier p

/-- parse_xact's loop over the posting lines (textual.cc 1937-2004): the first
    failing posting aborts the transaction; its line is reported. -/
def parsePosts (cx : Ctx) (log : List Entry) : List Posting → List Posting → Except (Nat × AErr) (List Posting)
  | done, [] => .ok done
  | done, p :: ps =>
    match checkPost cx log done p with
    | .error e => .error (p.line, e)
    | .ok p' => parsePosts cx log (done ++ [p']) ps

/-- Total cost of a posting (textual.cc 1612-1622): `@` multiplies by the amount,
    `@@` takes the sign of the amount. -/
def costTotal (a : Amount) (c : Cost) : Amount :=
  if c.perUnit then { c.amt with q := c.amt.q * a.q, prec := c.amt.prec + a.prec }
  else if a.q < 0 then c.amt.neg else c.amt

/-- What a posting contributes to the balance of its transaction (xact.cc 171). -/
def balancing (p : Posting) : Option Amount :=
  match p.amount, p.cost with
  | some a, some c => some (costTotal a c)
  | some a, none => some a
  | none, _ => none

/-- xact.cc 164-200: sum of the must-balance postings; the elided one, if any. -/
def residual : List Posting → Value → Option Posting → Except AErr (Value × Option Posting)
  | [], v, np => .ok (v, np)
  | p :: ps, v, np =>
    if !p.mustBalance then residual ps v np
    else match balancing p with
      | some a => residual ps (accAdd v a) np
      | none => match np with
        | some _ => .error .twoNulls
        | none => residual ps v (some p)

def valueIsZero (env : PrecEnv) : Value → Bool
  | .amt a => a.isZero env
  | .bal b => balIsZero env b
  | _ => true

/-- commodity_t::compare_by_commodity on unannotated commodities: by symbol. -/
def insertByComm (a : Amount) : List Amount → List Amount
  | [] => [a]
  | b :: bs => if a.comm ≤ b.comm then a :: b :: bs else b :: insertByComm a bs

def sortByComm (l : List Amount) : List Amount := l.foldr insertByComm []

/-- The amounts the elided posting receives (xact.cc 355-374, `add_balancing_post`). -/
def balancingAmounts : Value → List Amount
  | .amt a => [a.neg]
  | .bal [a] => [a.neg]
  | .bal b => (sortByComm b).map Amount.neg
  | _ => []

/-- xact.cc 220-283: no elided posting, no cost anywhere and exactly two commodities,
    both non-zero: the price is implied (`per_unit_cost = |y / x|`), which balances
    the transaction exactly when the two sums have opposite signs. `none`: the rule
    does not apply. -/
def impliedPrice (env : PrecEnv) (posts : List Posting) : Value → Option Bool
  | .bal [x, y] =>
    if posts.any (fun p => p.cost.isSome) then none
    else if !x.isZero env && !y.isZero env then some (decide (x.q < 0) != decide (y.q < 0))
    else none
  | _ => none

def entryOf (p : Posting) (a : Amount) : Entry := ⟨p.account, virt p, a⟩

/-- entries of the postings that carry an amount -/
def entriesOf : List Posting → List Entry
  | [] => []
  | p :: ps => match p.amount with
    | some a => entryOf p a :: entriesOf ps
    | none => entriesOf ps

/-- xact_base_t::finalize restricted to what C09 needs. The entries are appended
    in posting order, the generated balancing postings last (they are pushed to
    the end of `posts`, xact.cc 152). -/
def finalize (cx : Ctx) (posts : List Posting) : Except AErr (List Entry) :=
  match residual posts .void none with
  | .error e => .error e
  | .ok (bal, none) =>
    if !(match impliedPrice cx.env posts bal with
         | some b => b
         | none => valueIsZero cx.env bal) then .error .unbalanced
    else if posts.any (fun p => p.amount.isNone) then .error .nullAfter
    else .ok (entriesOf posts)
  | .ok (bal, some np) =>
    match balancingAmounts bal with
    | [] => .error .nullAfter
    | extra =>
      if posts.any (fun p => p.amount.isNone && !p.mustBalance) then .error .nullAfter
      else .ok (entriesOf posts ++ extra.map (entryOf np))

/-- One transaction: parse its postings against the log, then finalize. An
    assertion error is reported at the posting's line, a balancing error at the
    last line of the transaction. -/
def runXact (cx : Ctx) (log : List Entry) (x : Xact) : Except (Nat × AErr) (List Entry) :=
  match parsePosts cx log [] x.posts with
  | .error e => .error e
  | .ok posts =>
    match finalize cx posts with
    | .error e => .error (x.endLine, e)
    | .ok es => .ok es

structure State where
  log    : List Entry
  errors : List (Nat × AErr)

/-- instance_t::parse: a failed transaction leaves no trace in the accounts, the
    error is counted and parsing continues with the next transaction. -/
def step (cx : Ctx) (s : State) (x : Xact) : State :=
  match runXact cx s.log x with
  | .ok es => { s with log := s.log ++ es }
  | .error e => { s with errors := s.errors ++ [e] }

def run (cx : Ctx) (xs : List Xact) : State := xs.foldl (step cx) ⟨[], []⟩

/-! ## The specification (what C09 says the running balance is)

`specRunning c log earlier acct v`: the sum, in commodity `c`, of every earlier
posting to that very account in file order — `log` holds the postings of the
transactions accepted so far (file order), `earlier` the postings of the
transaction being read that precede the asserting one — counting ordinary
postings only when the asserting posting is ordinary (`v = false`) and ordinary
and virtual ones when it is virtual. No date, no sub-account, no other account
enters. -/

/-- quantity of an amount in commodity `c` -/
def qtyIn (c : Comm) (a : Amount) : Rat := if a.comm = c then a.q else 0

/-- does an earlier posting with POST_VIRTUAL flag `ev` count for an assertion on a
    posting with flag `v`? -/
def specCounts (v ev : Bool) : Bool := v || !ev

def sumQty (c : Comm) : List Amount → Rat
  | [] => 0
  | a :: l => qtyIn c a + sumQty c l

def specLogAmounts (log : List Entry) (acct : String) (v : Bool) : List Amount :=
  (log.filter (fun e => e.account = acct && specCounts v e.virt)).map Entry.amt

def specEarlierAmounts (earlier : List Posting) (acct : String) (v : Bool) : List Amount :=
  (earlier.filter (fun p => p.account = acct && specCounts v (virt p))).filterMap (·.amount)

def specRunning (c : Comm) (log : List Entry) (earlier : List Posting) (acct : String) (v : Bool) : Rat :=
  sumQty c (specLogAmounts log acct v) + sumQty c (specEarlierAmounts earlier acct v)

end Ledger.Assert
