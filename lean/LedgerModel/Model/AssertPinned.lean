/- Pinned copy of Gen/Assert.lean: the source text this model was written against (hand-maintained; refresh with tools/repin.py together with the model). -/
namespace Ledger.Pinned.Assert

/-- textual.cc instance_t::parse_post, the `= AMOUNT` block: statements with comments and DEBUG() removed; the same-transaction filter and the own-amount subtraction are interpreted into the two flags below. -/
def block : List String := [
  "beg = static_cast<std::streamsize>(++next - line);",
  "p = skip_ws(next);",
  "if (*p) {",
  "post->assigned_amount = amount_t();",
  "beg = static_cast<std::streamsize>(p - line);",
  "ptristream stream(p, static_cast<std::size_t>(len - beg));",
  "if (*p != '(') post->assigned_amount->parse(stream);",
  "else parse_amount_expr(stream, *context.scope, *post.get(), *post->assigned_amount, PARSE_SINGLE | PARSE_NO_MIGRATE);",
  "if (post->assigned_amount->is_null()) {",
  "if (post->amount.is_null()) throw parse_error(_(\"Balance assignment must evaluate to a constant\"));",
  "else throw parse_error(_(\"Balance assertion must evaluate to a constant\"));",
  "}",
  "const amount_t& amt(*post->assigned_amount);",
  "value_t account_total (post->account->amount(!post->has_flags(POST_VIRTUAL)).strip_annotations(keep_details_t()));",
  "balance_t diff = amt;",
  "switch (account_total.type()) {",
  "case value_t::AMOUNT: {",
  "amount_t amt(account_total.as_amount().strip_annotations(keep_details_t()));",
  "diff -= amt;",
  "break;",
  "}",
  "case value_t::BALANCE: {",
  "balance_t bal(account_total.as_balance().strip_annotations(keep_details_t()));",
  "diff -= bal;",
  "break;",
  "}",
  "default: break;",
  "}",
  "for (post_t* p : xact->posts) {",
  "if (<same-xact-filter>) {",
  "amount_t amt(p->amount.strip_annotations(keep_details_t()));",
  "diff -= amt;",
  "}",
  "}",
  "if (amt.has_commodity()) {",
  "optional<amount_t> wanted_commodity = diff.commodity_amount(amt.commodity());",
  "if (!wanted_commodity) {",
  "diff = amt - amt;",
  "}",
  "else {",
  "diff = *wanted_commodity;",
  "}",
  "}",
  "if (post->amount.is_null()) {",
  "if (! diff.is_zero()) {",
  "post->amount = diff.to_amount();",
  "}",
  "else {",
  "post->amount = amt - amt;",
  "}",
  "}",
  "else {",
  "if (! no_assertions && ! diff.is_zero()) {",
  "balance_t tot = (-diff + amt).strip_annotations(keep_details_t());",
  "throw_(parse_error, _f(\"Balance assertion off by %1% (expected to see %2%)\") % diff.to_string() % tot.to_string());",
  "}",
  "}",
  "if (stream.eof()) next = NULL;",
  "else next = skip_ws(p + static_cast<std::ptrdiff_t>(stream.tellg()));",
  "}",
  "else {",
  "throw parse_error(_(\"Expected an balance assignment/assertion amount\"));",
  "}"
]

/-- textual.cc, filter of the loop over the earlier postings of the same transaction: does an assertion on a
    virtual posting also subtract earlier ORDINARY postings of that transaction to the same account? -/
def virtualCountsSameXactReal : Bool := false

/-- textual.cc: is the posting's own amount subtracted before the restriction to the asserted commodity
    (so that an own amount of another commodity does not enter the comparison)? -/
def ownAmountBeforeRestriction : Bool := false

/-- session.cc / textual.cc: --permissive -> CHECK_PERMISSIVE -> no_assertions. -/
def permissiveWiring : List String := [
  "if (HANDLED(permissive)) journal->checking_style = journal_t::CHECK_PERMISSIVE;",
  "no_assertions := checking_style == journal_t::CHECK_PERMISSIVE"
]

end Ledger.Pinned.Assert
