/- Driver ops for balance assertions / assignments (C09).

   assert.run <permissive 0|1> <env c=n,...> <journal json>
     -> ok <TAB> E <TAB> line:kind,line:kind,...        when any transaction failed
        ok <TAB> R <TAB> line|account|num/den|comm;...   otherwise: every posting that reached an
                                                        account (rows sorted), as `reg --empty` lists them
-/
import LedgerModel.Model.Assert
import LedgerModel.Model.ValueProto

namespace Ledger

open Assert in
def assertRows (x : Xact) (es : List Entry) (posts : List Posting) : List String :=
  -- entries of the written postings come first, in posting order; the generated balancing
  -- postings (all on the elided posting's line) follow
  let written := posts.filter (fun p => p.amount.isSome)
  let lines := written.map (·.line)
  let npLine := match x.posts.find? (fun p => p.amount.isNone ∧ p.assert.isNone) with
    | some p => p.line
    | none => 0
  let rec go : List Entry → List Nat → List String
    | [], _ => []
    | e :: es, l :: ls => s!"{l}|{e.account}|{ratStr e.amt.q}|{e.amt.comm}" :: go es ls
    | e :: es, [] => s!"{npLine}|{e.account}|{ratStr e.amt.q}|{e.amt.comm}" :: go es []
  go es lines

open Assert in
/-- `run` that also collects the register rows. -/
def assertRunRows (cx : Ctx) (xs : List Xact) : State × List String :=
  xs.foldl (fun (acc : State × List String) x =>
    let s := acc.1
    match parsePosts cx s.log [] x.posts with
    | .error e => ({ s with errors := s.errors ++ [e] }, acc.2)
    | .ok posts =>
      match finalize cx posts with
      | .error e => ({ s with errors := s.errors ++ [(x.endLine, e)] }, acc.2)
      | .ok es => ({ s with log := s.log ++ es }, acc.2 ++ assertRows x es posts)) (⟨[], []⟩, [])

open Assert in
def opAssertRun (args : List String) : String :=
  match args with
  | [perm, env, js] =>
    match parseBool? perm, (J.parse? js).bind J.journal? with
    | some pm, some j =>
      let cx : Ctx := { env := parseEnv env, permissive := pm }
      let (s, rows) := assertRunRows cx j.xacts
      if s.errors.isEmpty then "ok\tR\t" ++ ";".intercalate (sortStrings rows)
      else "ok\tE\t" ++ ",".intercalate (s.errors.map (fun e => s!"{e.1}:{e.2.render}"))
    | _, _ => "err\tbad-json"
  | _ => "err\tbad-op"

def AssertProto.ops : List (String × (List String → String)) :=
  [("assert.run", opAssertRun)]

end Ledger
