/-
Model of automated transactions (C16).

Mirrors
* `auto_xact_t::extend_xact` (xact.cc 694-888): iteration over a SNAPSHOT of the
  transaction's postings (`posts_list initial_posts(xact.posts.begin(), …)`),
  `if (initial_post->has_flags(ITEM_GENERATED)) continue;`, the predicate with
  the quick account-only path and its memo (`try_quick_match`,
  `memoized_results`, xact.cc 709-739; `post_pred`, xact.cc 638-680), for a
  matching posting: the rule-level deferred notes appended to the MATCHED posting
  (xact.cc 742-749), the `check` / `assert` / `expr` lines (xact.cc 751-764: a
  failing `assert` throws, a failing `check` warns), then per rule line: the amount
  (xact.cc 766-790: a null amount means an amount expression, evaluated in the
  matched posting's scope, must yield an integer or an amount; `if (!
  post_amount.commodity()) amt = initial_post->amount * post_amount; else amt =
  post_amount;`), the account (`$account` / `%(…)`, xact.cc 815-833),
  `copy_details` (flags = kind, state, note, position of the rule line; item.h
  118-128), `new_post->cost = post->cost` (xact.cc 839-840), a CLEARED transaction
  clears the new posting (xact.cc 844-847), `add_flags(ITEM_GENERATED)`, the
  deferred notes of the rule / of that line (xact.cc 854-862), `xact.add_post`
  (append), and the re-verification `if (needs_further_verification)
  xact.verify()` (xact.cc 873-880, 425-472: running balance of `cost ? cost :
  amount`, "cost must be of a different commodity", zero test);
* `any()` / `all()` (post.cc 377-423) walk the LIVE `post.xact->posts`, i.e. they
  see the postings this pass has already appended;
* `journal_t::add_xact` / `journal_t::extend_xact` (journal.cc 365-380, 445-449):
  `finalize()` first, then every rule seen SO FAR, in file order;
* the part of `xact_base_t::finalize` (xact.cc 158-423) the journals of the
  fragment reach: total costs (`FinX.parseCost`, textual.cc 1607-1622), the
  running balance, `exchange()` annotating a posting that has a cost with the lot
  {per-unit price} [transaction date] (xact.cc 287-345, pool.cc 240-320; the
  quantity is unchanged), one elided amount filled with the negated balance
  (`add_balancing_post`, xact.cc 125-155), the zero test;
* the display precision a commodity has learned from the amounts parsed so far
  (amount.cc `parse`; costs and lot prices are parsed PARSE_NO_MIGRATE and do not
  count).

Commodities are strings; a lot-annotated commodity is the string
`BASE{num/den:PRICECOMM}[day]` (`lotComm`), so that distinct lots are distinct
balance keys exactly as distinct `annotated_commodity_t` objects are; the
display precision of a lot is its base commodity's (`baseComm`).

Expressions (amount expressions of rule lines, check/assert lines) are C15's
`Expr` evaluated by `evalWith` with `amount` bound to the matched posting's
amount.

Outside the model (the driver answers `unsupported`): balance assertions, a cost
on a posting that already carries a lot price (gain/loss path), the implied-price
path of finalize (two commodities, nothing elided, no cost), `any(e, false)`,
tags/metadata parsed out of notes.  Core Lean only.
-/
import LedgerModel.Model.Journal
import LedgerModel.Model.Expr
import LedgerModel.Model.Finalize

namespace Ledger
namespace AutoXact

/-- `mask_t::match` (boost::regex search, icase): pattern → text → matched.
    A parameter of the model; the driver instantiates it with `icontains`. -/
abbrev Matcher := String → String → Bool

/-- A posting of a finalized transaction. -/
structure FPost where
  account    : String
  kind       : PostKind
  state      : ItemState
  amount     : Amount
  cost       : Option Amount     -- `post->cost`: TOTAL cost, signed
  note       : Option String
  line       : Nat
  generated  : Bool      -- ITEM_GENERATED
  calculated : Bool      -- POST_CALCULATED
deriving DecidableEq, Repr

/-- `post_t::must_balance()`. -/
def FPost.mustBalance (p : FPost) : Bool := p.kind ≠ .virtual

/-- `item_t::append_note` (item.cc 225-237), the text part. -/
def FPost.appendNote (p : FPost) (t : String) : FPost :=
  { p with note := some (match p.note with
                         | some n => n ++ "\n" ++ t
                         | none => t) }

structure FXact where
  payee : String
  line  : Nat
  state : ItemState
  posts : List FPost
deriving DecidableEq, Repr

/-- Predicates of the fragment (op.h kinds VALUE, O_MATCH, O_NOT, O_AND, O_OR,
    O_QUERY, O_GT, O_LT, O_GTE, O_LTE, O_CALL of `any` / `all`). -/
inductive Pred
  | const (b : Bool)
  | acct (pat : String)
  | payee (pat : String)
  | amtGt (n : Int)
  | amtLt (n : Int)
  | amtGe (n : Int)
  | amtLe (n : Int)
  | not (a : Pred)
  | and (a b : Pred)
  | or (a b : Pred)
  | ite (c a b : Pred)
  | any (a : Pred)
  | all (a : Pred)
deriving DecidableEq, Repr

/-- The general evaluator (`predicate(bound_scope)`) on the fragment.  `ctx` is
    the transaction's CURRENT posting list (what `post.xact->posts` holds when the
    predicate runs), read by `any` / `all` only. -/
def Pred.eval (m : Matcher) (ctx : List FPost) (payee : String) (p : FPost) : Pred → Bool
  | .const b => b
  | .acct pat => m pat p.account
  | .payee pat => m pat payee
  | .amtGt n => decide ((n : Rat) < p.amount.q)
  | .amtLt n => decide (p.amount.q < (n : Rat))
  | .amtGe n => decide ((n : Rat) ≤ p.amount.q)
  | .amtLe n => decide (p.amount.q ≤ (n : Rat))
  | .not a => !(a.eval m ctx payee p)
  | .and a b => a.eval m ctx payee p && b.eval m ctx payee p
  | .or a b => a.eval m ctx payee p || b.eval m ctx payee p
  | .ite c a b => if c.eval m ctx payee p then a.eval m ctx payee p else b.eval m ctx payee p
  | .any a => ctx.any (fun q => a.eval m ctx payee q)
  | .all a => ctx.all (fun q => a.eval m ctx payee q)

/-- no `any` / `all` inside: the predicate reads the posting and the payee only. -/
def Pred.anyFree : Pred → Bool
  | .not a => a.anyFree
  | .and a b => a.anyFree && b.anyFree
  | .or a b => a.anyFree && b.anyFree
  | .ite c a b => c.anyFree && a.anyFree && b.anyFree
  | .any _ => false
  | .all _ => false
  | _ => true

/-- `post_pred` (xact.cc 638-680): the quick evaluator.  It reads nothing but
    the posting's account name; `none` = `throw_(calc_error, "Unhandled
    operator")`.  `&&`, `||` and `?:` short-circuit exactly as the C++ does. -/
def Pred.quick (m : Matcher) (account : String) : Pred → Option Bool
  | .const b => some b
  | .acct pat => some (m pat account)
  | .payee _ => none
  | .amtGt _ => none
  | .amtLt _ => none
  | .amtGe _ => none
  | .amtLe _ => none
  | .any _ => none
  | .all _ => none
  | .not a => (a.quick m account).map (!·)
  | .and a b =>
    match a.quick m account with
    | none => none
    | some false => some false
    | some true => b.quick m account
  | .or a b =>
    match a.quick m account with
    | none => none
    | some true => some true
    | some false => b.quick m account
  | .ite c a b =>
    match c.quick m account with
    | none => none
    | some true => a.quick m account
    | some false => b.quick m account

/-- Mutable matching state of one `auto_xact_t` (xact.h: `try_quick_match`,
    `memoized_results`); it lives as long as the rule, across transactions. -/
structure RState where
  tryQuick : Bool
  memo     : List (String × Bool)
deriving DecidableEq, Repr

def RState.init : RState := { tryQuick := true, memo := [] }

/-- xact.cc 708-739: decide whether one initial posting matches, updating the
    rule's matching state. -/
def matchPost (m : Matcher) (pr : Pred) (ctx : List FPost) (payee : String) (st : RState) (p : FPost) :
    Bool × RState :=
  if st.tryQuick then
    match st.memo.lookup p.account with
    | some b => (b, st)
    | none =>
      match pr.quick m p.account with
      | some b => (b, { st with memo := (p.account, b) :: st.memo })
      | none => (pr.eval m ctx payee p, { st with tryQuick := false })
  else (pr.eval m ctx payee p, st)

/-- the amount column of a rule line: a literal (`amount.comm = ""` ⇒ a
    multiplier) or a deferred amount expression `( … )`. -/
inductive RAmt
  | lit (a : Amount)
  | expr (e : Expr)
deriving DecidableEq, Repr

/-- One posting line of a rule.  `cost` is the TOTAL cost computed when the rule
    was parsed (textual.cc 1607-1622). The account may contain `$account`,
    `%(account)`, `%(payee)`. -/
structure RuleLine where
  account : String
  kind    : PostKind
  state   : ItemState
  amt     : RAmt
  cost    : Option Amount
  note    : Option String
  line    : Nat
deriving DecidableEq, Repr

inductive CheckKind
  | assert     -- `assert EXPR`   EXPR_ASSERTION
  | check      -- `check EXPR`    EXPR_CHECK
  | general    -- `expr EXPR` / `eval EXPR`   EXPR_GENERAL
deriving DecidableEq, Repr

structure Check where
  kind : CheckKind
  expr : Expr
deriving DecidableEq, Repr

/-- a `; note` line of the rule: `applyTo = none` when it precedes every posting
    line (`active_post == NULL`), else the index of the posting line it follows. -/
structure RNote where
  text    : String
  applyTo : Option Nat
deriving DecidableEq, Repr

structure Rule where
  pred   : Pred
  lines  : List RuleLine
  notes  : List RNote
  checks : List Check
  line   : Nat
deriving DecidableEq, Repr

inductive LErr
  | unbalanced      -- "Transaction does not balance"
  | sameCommCost    -- "A posting's cost must be of a different commodity than its amount"
  | assertFailed    -- "Transaction assertion failed: …"
  | exprError       -- an amount / check expression raises, or "Amount expressions must result in a simple amount"
  | twoNulls        -- "Only one posting with null amount allowed per transaction"
  | nullAmount      -- a null amount that finalize cannot fill
  | unsupported     -- outside the modelled fragment
deriving DecidableEq, Repr

/-! ### commodities with lots -/

/-- the base symbol of a (possibly lot-annotated) commodity string. -/
def baseComm (c : Comm) : Comm := String.ofList (c.toList.takeWhile (· ≠ '{'))

def hasLot (c : Comm) : Bool := c.toList.contains '{'

/-- the commodity `exchange()` creates: BASE {price} [date]. -/
def lotComm (base : Comm) (price : Amount) (date : Int) : Comm :=
  base ++ "{" ++ ratStr price.q ++ ":" ++ price.comm ++ "}[" ++ toString date ++ "]"

/-- an annotated commodity has its base commodity's display precision. -/
def lotEnv (env : PrecEnv) : PrecEnv := fun c => env (baseComm c)

/-! ### one matched posting -/

def substAll (s pat rep : String) : String := s.replace pat rep

/-- xact.cc 815-833: `regex_replace(fullname, regex("\\$account\\>"), matched)`,
    else a `%(…)` format evaluated in the matched posting's scope (modelled for
    the two fields `%(account)` and `%(payee)`).  (The `\>` word-boundary is not
    modelled: generators never follow `$account` by a word character.) -/
def substAccount (tmpl matched payee : String) : String :=
  if (tmpl.splitOn "$account").length > 1 then substAll tmpl "$account" matched
  else if (tmpl.splitOn "%(").length > 1 then substAll (substAll tmpl "%(account)" matched) "%(payee)" payee
  else tmpl

def exprFuel : Nat := 400

/-- `expr.calc(bound_scope)` in the scope of posting `p`: `amount` is the
    posting's amount (post.cc `get_amount`). -/
def evalPostExpr (env : PrecEnv) (p : FPost) (e : Expr) : Res RVal :=
  evalWith env true exprFuel [("amount", .val (.amt p.amount))] e

/-- xact.cc 766-790: the amount of a generated posting. -/
def genAmount (env : PrecEnv) (a : RAmt) (matched : FPost) : Except LErr Amount :=
  match a with
  | .lit x => .ok (if x.hasComm then x else Amount.mul env matched.amount x)
  | .expr e =>
    match evalPostExpr env matched e with
    | .ok (.v (.int n)) => .ok (Amount.mul env matched.amount (Amount.ofInt n))
    | .ok (.v (.amt x)) => .ok (if x.hasComm then x else Amount.mul env matched.amount x)
    | _ => .error .exprError

/-- the deferred notes that reach the posting generated for rule line `i`
    (xact.cc 856: `! data.apply_to_post || data.apply_to_post == post`). -/
def notesFor (r : Rule) (i : Nat) : List String :=
  (r.notes.filter (fun n => n.applyTo.isNone || n.applyTo == some i)).map (·.text)

/-- the deferred notes appended to the MATCHED posting (xact.cc 744). -/
def ruleLevelNotes (r : Rule) : List String :=
  (r.notes.filter (fun n => n.applyTo.isNone)).map (·.text)

def annotate (r : Rule) (ip : FPost) : FPost := (ruleLevelNotes r).foldl FPost.appendNote ip

/-- xact.cc 766-875: the posting generated for rule line `l` (index `i`) and
    matched posting `ip` of transaction `x`. -/
def genPost (env : PrecEnv) (r : Rule) (x : FXact) (ip : FPost) (i : Nat) (l : RuleLine) : Except LErr FPost :=
  match genAmount env l.amt ip with
  | .error e => .error e
  | .ok a =>
    .ok ((notesFor r i).foldl FPost.appendNote
      { account := substAccount l.account ip.account x.payee, kind := l.kind,
        state := if x.state = 1 then 1 else l.state,
        amount := a, cost := l.cost, note := l.note, line := l.line,
        generated := true, calculated := false })

/-- all lines of the rule for one matched posting, in order (`foreach (post_t *
    post, posts)`); `i` is the index of the head of `ls`. -/
def genLines (env : PrecEnv) (r : Rule) (x : FXact) (ip : FPost) : Nat → List RuleLine → Except LErr (List FPost)
  | _, [] => .ok []
  | i, l :: ls =>
    match genPost env r x ip i l with
    | .error e => .error e
    | .ok g =>
      match genLines env r x ip (i + 1) ls with
      | .error e => .error e
      | .ok gs => .ok (g :: gs)

/-- xact.cc 751-764: the `check` / `assert` / `expr` lines for one matched
    posting; the result counts the warnings. -/
def runChecks (env : PrecEnv) (ip : FPost) : List Check → Except LErr Nat
  | [] => .ok 0
  | c :: cs =>
    match evalPostExpr env ip c.expr with
    | .error _ => .error .exprError
    | .ok v =>
      match c.kind with
      | .general => runChecks env ip cs
      | .assert => if v.truth env then runChecks env ip cs else .error .assertFailed
      | .check =>
        match runChecks env ip cs with
        | .error e => .error e
        | .ok k => .ok (if v.truth env then k else k + 1)

/-! ### the loop of extend_xact -/

structure LoopOut where
  /-- the original postings, in place (matched ones carry the rule-level notes) -/
  origs : List FPost
  /-- the postings appended, in order -/
  added : List FPost
  /-- number of `check` warnings -/
  warns : Nat
deriving DecidableEq, Repr

/-- The loop of xact.cc 702-877 over the snapshot, generic in how a posting is
    decided to match (`dec state ctx posting`): `done` are the snapshot postings
    already visited, `rest` those to come, `added` what has been appended; the
    live list `post.xact->posts` is `done ++ rest ++ added`. -/
def loop {σ : Type} (dec : σ → List FPost → FPost → Bool × σ) (env : PrecEnv) (r : Rule) (x : FXact) :
    σ → List FPost → List FPost → List FPost → Nat → σ × Except LErr LoopOut
  | st, done, [], added, w => (st, .ok { origs := done, added := added, warns := w })
  | st, done, ip :: rest, added, w =>
    if ip.generated then loop dec env r x st (done ++ [ip]) rest added w
    else
      let d := dec st (done ++ ip :: rest ++ added) ip
      if d.1 then
        match runChecks env (annotate r ip) r.checks with
        | .error e => (d.2, .error e)
        | .ok k =>
          match genLines env r x (annotate r ip) 0 r.lines with
          | .error e => (d.2, .error e)
          | .ok gens => loop dec env r x d.2 (done ++ [annotate r ip]) rest (added ++ gens) (w + k)
      else loop dec env r x d.2 (done ++ [ip]) rest added w

/-- the code: memo + quick path + fallback. -/
def extendGo (m : Matcher) (env : PrecEnv) (r : Rule) (x : FXact) (st : RState) :
    RState × Except LErr LoopOut :=
  loop (fun s ctx ip => matchPost m r.pred ctx x.payee s ip) env r x st [] x.posts [] 0

/-- the specification: the general evaluator, no state. -/
def specGo (m : Matcher) (env : PrecEnv) (r : Rule) (x : FXact) : Except LErr LoopOut :=
  (loop (fun (u : Unit) ctx ip => (r.pred.eval m ctx x.payee ip, u)) env r x () [] x.posts [] 0).2

/-- xact.cc 435-443: `cost ? cost : amount`, keep-precision flag cleared. -/
def balAmount (p : FPost) : Amount :=
  match p.cost with
  | some c => { c with keep := false }
  | none => { p.amount with keep := false }

/-- The running balance of xact.cc 429-444 (`add_or_set_value`) over the
    must-balance postings, in order. -/
def residualFrom : Value → List FPost → Res Value
  | v, [] => .ok v
  | v, p :: ps =>
    if p.mustBalance then
      match Value.add v (.amt (balAmount p)) with
      | .ok v' => residualFrom v' ps
      | .error e => .error e
    else residualFrom v ps

/-- `value_t::is_zero` at display precision; `is_null` counts as balanced
    (xact.cc 460: `! balance.is_null() && ! balance.is_zero()`). -/
def valueIsZero (env : PrecEnv) : Value → Bool
  | .void => true
  | .bool b => !b
  | .int n => n = 0
  | .amt a => a.isZero env
  | .bal b => b.all (Amount.isZero env)

def balanced (env : PrecEnv) (ps : List FPost) : Bool :=
  match residualFrom .void ps with
  | .ok v => valueIsZero env v
  | .error _ => false

/-- xact.cc 451-458: a posting whose cost has the commodity of its amount. -/
def sameCommCost (ps : List FPost) : Bool :=
  ps.any (fun p => match p.cost with
                   | some c => c.comm == p.amount.comm
                   | none => false)

/-- `xact_base_t::verify`. -/
def verify (env : PrecEnv) (ps : List FPost) : Except LErr Unit :=
  if sameCommCost ps then .error .sameCommCost
  else if balanced env ps then .ok ()
  else .error .unbalanced

/-- what one rule did to a transaction -/
structure Ext where
  xact  : FXact
  added : List FPost
  warns : Nat
deriving DecidableEq, Repr

/-- turn the loop's result into the extended transaction and run xact.cc
    873-880: verify only when this rule added a posting that must balance. -/
def finish (env : PrecEnv) (x : FXact) (o : Except LErr LoopOut) : Except LErr Ext :=
  match o with
  | .error e => .error e
  | .ok o =>
    let ps := o.origs ++ o.added
    if o.added.any FPost.mustBalance then
      match verify env ps with
      | .error e => .error e
      | .ok () => .ok { xact := { x with posts := ps }, added := o.added, warns := o.warns }
    else .ok { xact := { x with posts := ps }, added := o.added, warns := o.warns }

/-- `auto_xact_t::extend_xact`. -/
def extend (m : Matcher) (env : PrecEnv) (r : Rule) (st : RState) (x : FXact) : RState × Except LErr Ext :=
  ((extendGo m env r x st).1, finish env x (extendGo m env r x st).2)

/-- its specification. -/
def extendSpec (m : Matcher) (env : PrecEnv) (r : Rule) (x : FXact) : Except LErr Ext :=
  finish env x (specGo m env r x)

/-- `journal_t::extend_xact` (journal.cc 445-449): every rule registered so far,
    in order; an exception leaves the later rules untouched.  The error carries
    the line of the rule that was being applied; the Nat counts warnings. -/
def applyRules (m : Matcher) (env : PrecEnv) :
    List (Rule × RState) → FXact → Nat → List (Rule × RState) × Except (LErr × Nat) (FXact × Nat)
  | [], x, w => ([], .ok (x, w))
  | (r, st) :: rs, x, w =>
    match extend m env r st x with
    | (st', .ok e) =>
      let g := applyRules m env rs e.xact (w + e.warns)
      ((r, st') :: g.1, g.2)
    | (st', .error e) => ((r, st') :: rs, .error (e, r.line))

def applyRulesSpec (m : Matcher) (env : PrecEnv) : List Rule → FXact → Nat → Except (LErr × Nat) (FXact × Nat)
  | [], x, w => .ok (x, w)
  | r :: rs, x, w =>
    match extendSpec m env r x with
    | .ok e => applyRulesSpec m env rs e.xact (w + e.warns)
    | .error e => .error (e, r.line)

/-! ### finalize (fragment) -/

def noteOf (s : String) : Option String := if s.isEmpty then none else some (" " ++ s)

/-- a parsed posting before finalize: amount (none = elided) and total cost. -/
structure PPost where
  src    : Posting
  amount : Option Amount
  cost   : Option Amount

def toPPost (env : PrecEnv) (p : Posting) : PPost :=
  { src := p, amount := p.amount,
    cost := match p.amount, p.cost with
            | some a, some c => some (FinX.parseCost env a c)
            | _, _ => none }

/-- textual.cc 1480-1483: a posting without its own state takes the transaction's. -/
def postState (xs ps : ItemState) : ItemState := if xs ≠ 0 ∧ ps = 0 then xs else ps

def mkFPost (xs : ItemState) (p : Posting) (a : Amount) (c : Option Amount) (isCalc gen : Bool) : FPost :=
  { account := p.account, kind := p.kind, state := postState xs p.state, amount := a, cost := c,
    note := noteOf p.note, line := p.line, generated := gen, calculated := isCalc }

/-- running balance of xact.cc 167-181 over the must-balance postings that carry an amount. -/
def balanceOf : Value → List PPost → Res Value
  | v, [] => .ok v
  | v, p :: ps =>
    match p.src.mustBalance, p.amount with
    | true, some a =>
      let b : Amount := match p.cost with
        | some c => { c with keep := false }
        | none => { a with keep := false }
      match Value.add v (.amt b) with
      | .ok v' => balanceOf v' ps
      | .error e => .error e
    | _, _ => balanceOf v ps

def insertByComm (a : Amount) : List Amount → List Amount
  | [] => [a]
  | b :: bs =>
    if baseComm a.comm < baseComm b.comm ∨ (baseComm a.comm = baseComm b.comm ∧ a.comm ≤ b.comm)
    then a :: b :: bs else b :: insertByComm a bs

/-- `balance_t::sorted_amounts` (balance.cc 273-283): by base symbol, an
    unannotated commodity before its lots. -/
def sortByComm (l : List Amount) : List Amount := l.foldr insertByComm []

/-- amounts handed to `add_balancing_post`, in order (xact.cc 363-370). -/
def fillAmounts : Value → Option (List Amount)
  | .amt a => some [a.neg]
  | .bal b => some ((sortByComm b).map Amount.neg)
  | .int n => some [(Amount.ofInt n).neg]
  | _ => none

/-- Is the implied-price path of xact.cc 220-283 entered with two non-zero
    amounts?  (outside the model) -/
def impliedPrice (env : PrecEnv) (v : Value) : Bool :=
  match v with
  | .bal [x, y] => !(x.isZero env) && !(y.isZero env)
  | _ => false

def ratAbs (q : Rat) : Rat := if q < 0 then -q else q

/-- xact.cc 287-345 for one posting: a cost annotates the amount with the lot
    {|total cost / amount|} [transaction date]. -/
def annotateCost (env : PrecEnv) (date : Int) (p : PPost) : Except LErr PPost :=
  match p.amount, p.cost with
  | some a, some c =>
    if hasLot a.comm then .error .unsupported
    else if a.comm = c.comm then .error .sameCommCost
    else if a.isZero env then .error .unsupported
    else
      let price : Amount := { q := ratAbs (c.q / a.q), prec := c.prec, keep := true, comm := c.comm }
      .ok { p with amount := some { a with comm := lotComm a.comm price date } }
  | _, _ => .ok p

def mapExcept {α β ε} (f : α → Except ε β) : List α → Except ε (List β)
  | [] => .ok []
  | a :: as =>
    match f a with
    | .error e => .error e
    | .ok b =>
      match mapExcept f as with
      | .error e => .error e
      | .ok bs => .ok (b :: bs)

/-- `xact_base_t::finalize` on the fragment. -/
def finalize (env : PrecEnv) (x : Xact) : Except LErr FXact :=
  if x.posts.any (fun p => p.assert.isSome) then .error .unsupported
  else
    let ps := x.posts.map (toPPost env)
    let nulls := ps.filter (fun p => p.amount.isNone)
    let mk (posts : List FPost) : FXact := { payee := x.payee, line := x.line, state := x.state, posts := posts }
    match nulls with
    | [] =>
      match balanceOf .void ps with
      | .error _ => .error .unsupported
      | .ok v =>
        if impliedPrice env v ∧ ps.all (fun p => p.cost.isNone) then .error .unsupported
        else
          match mapExcept (annotateCost env x.date) ps with
          | .error e => .error e
          | .ok ps' =>
            if valueIsZero env v then
              .ok (mk (ps'.filterMap (fun p => p.amount.map (fun a => mkFPost x.state p.src a p.cost false false))))
            else .error .unbalanced
    | [np] =>
      if ¬ np.src.mustBalance then .error .nullAmount
      else
        match balanceOf .void ps with
        | .error _ => .error .unsupported
        | .ok v =>
          match mapExcept (annotateCost env x.date) ps with
          | .error e => .error e
          | .ok ps' =>
            match fillAmounts v with
            | some (a :: more) =>
              .ok (mk (ps'.map (fun p => match p.amount with
                                         | some b => mkFPost x.state p.src b p.cost false false
                                         | none => mkFPost x.state p.src a none true false)
                       ++ more.map (fun b => mkFPost x.state np.src b none true true)))
            | _ => .error .nullAmount
    | _ => if nulls.all (fun p => p.src.mustBalance) then .error .twoNulls else .error .nullAmount

/-! ### the journal -/

inductive Item
  | rule (r : Rule)
  | xact (x : Xact)

/-- display precision learned so far, per (base) commodity. -/
abbrev PrecTable := List (Comm × Nat)

def PrecTable.get (t : PrecTable) : PrecEnv := fun c => (t.lookup (baseComm c)).getD 0

def PrecTable.bump (t : PrecTable) (a : Amount) : PrecTable :=
  if a.hasComm then (baseComm a.comm, max a.prec (PrecTable.get t a.comm)) :: t else t

def PrecTable.bumpAll (t : PrecTable) (l : List Amount) : PrecTable := l.foldl PrecTable.bump t

/-- the amount literals inside an expression (they are parsed, and raise their
    commodity's precision, when the rule is read). -/
def exprLits : Expr → List Amount
  | .val (.amt a) => [a]
  | .ident _ d => exprLits d
  | .scope b => exprLits b
  | .un _ e => exprLits e
  | .bin _ l r => exprLits l ++ exprLits r
  | .query c a b => exprLits c ++ exprLits a ++ exprLits b
  | .cons l r => exprLits l ++ exprLits r
  | .seq l r => exprLits l ++ exprLits r
  | .define l r => exprLits l ++ exprLits r
  | .lambda p b => exprLits p ++ exprLits b
  | .call f a => exprLits f ++ exprLits a
  | _ => []

/-- the amounts a rule's text makes ledger parse, in file order is immaterial (max). -/
def ruleAmounts (r : Rule) : List Amount :=
  r.lines.flatMap (fun l => match l.amt with
                            | .lit a => [a]
                            | .expr e => exprLits e)
  ++ r.checks.flatMap (fun c => exprLits c.expr)

structure LState where
  rules : List (Rule × RState)
  prec  : PrecTable
  xacts : List FXact
  /-- (first line of the transaction, line of the rule being applied or 0, error) -/
  errs  : List (Nat × Nat × LErr)
  /-- (first line of the transaction, number of `check` warnings) for accepted transactions -/
  warns : List (Nat × Nat)

def LState.init : LState := { rules := [], prec := [], xacts := [], errs := [], warns := [] }

/-- textual.cc: a rule is registered (`auto_xacts.push_back`, 582-680) with a
    fresh matching state; a transaction is parsed (its amounts raise the
    commodities' precision), then `journal_t::add_xact`: finalize, extend by all
    rules seen so far, append.  An exception drops the transaction and is
    counted; parsing goes on. -/
def step (m : Matcher) (s : LState) : Item → LState
  | .rule r =>
    { s with rules := s.rules ++ [(r, RState.init)],
             prec := s.prec.bumpAll (ruleAmounts r) }
  | .xact x =>
    let prec := s.prec.bumpAll (x.posts.filterMap (·.amount))
    match finalize prec.get x with
    | .error e => { s with prec := prec, errs := s.errs ++ [(x.line, 0, e)] }
    | .ok fx =>
      let g := applyRules m prec.get s.rules fx 0
      match g.2 with
      | .ok (fx', w) => { s with prec := prec, rules := g.1, xacts := s.xacts ++ [fx'],
                                 warns := s.warns ++ [(x.line, w)] }
      | .error (e, rl) => { s with prec := prec, rules := g.1, errs := s.errs ++ [(x.line, rl, e)] }

def loadFrom (m : Matcher) (s : LState) (items : List Item) : LState := items.foldl (step m) s

def load (m : Matcher) (items : List Item) : LState := loadFrom m LState.init items

/-- the rules of a file prefix, in order. -/
def rulesOf : List Item → List Rule
  | [] => []
  | .rule r :: is => r :: rulesOf is
  | .xact _ :: is => rulesOf is

/-! ### the instance of the matcher used against the binary -/

def isInfix (p : List Char) : List Char → Bool
  | [] => p.isEmpty
  | c :: cs => p.isPrefixOf (c :: cs) || isInfix p cs

/-- case-insensitive substring: what boost::regex (perl, icase) search does for a
    pattern without metacharacters. -/
def icontains : Matcher := fun pat text => isInfix pat.toLower.toList text.toLower.toList

end AutoXact
end Ledger
