/-
Model of automated transactions (C16).

Mirrors
* `auto_xact_t::extend_xact` (xact.cc 694-888): iteration over a SNAPSHOT of the
  transaction's postings (`posts_list initial_posts(xact.posts.begin(), …)`),
  `if (initial_post->has_flags(ITEM_GENERATED)) continue;`, the predicate with
  the quick account-only path and its memo (`try_quick_match`,
  `memoized_results`, xact.cc 709-739; `post_pred`, xact.cc 638-680), the amount
  rule (xact.cc 786-790: `if (! post_amount.commodity()) amt =
  initial_post->amount * post_amount; else amt = post_amount;`), the account
  (`$account` substitution, xact.cc 815-825), `copy_details` (kind and position
  of the rule line), `add_flags(ITEM_GENERATED)`, `xact.add_post` (append), and
  the re-verification `if (needs_further_verification) xact.verify()`
  (xact.cc 873-880, 425-472);
* `journal_t::add_xact` / `journal_t::extend_xact` (journal.cc 365-380, 445-449):
  `finalize()` first, then every rule seen SO FAR, in file order;
* the part of `xact_base_t::finalize` (xact.cc 158-423) the journals of the
  fragment reach: the running balance of the must-balance postings, one elided
  amount filled with the negated balance (`add_balancing_post`, xact.cc 125-155:
  the first commodity goes to the elided posting, every further commodity is a
  new posting flagged `ITEM_GENERATED | POST_CALCULATED`), the zero test;
* the display precision a commodity has learned from the amounts parsed so far
  (amount.cc `parse`: `if (quantity->prec > commodity().precision())
  commodity().set_precision(…)`), which `is_zero` and the precision clamp of
  `*` read.

Outside the model (the driver answers `unsupported`): posting costs, lot
annotations, balance assertions, amount expressions in rule lines, `%(…)`
account formats, rule notes / `check` / `assert` lines, the implied-price path of
finalize (two commodities, nothing elided).  Core Lean only.
-/
import LedgerModel.Model.Journal

namespace Ledger
namespace AutoXact

/-- `mask_t::match` (boost::regex search, icase): pattern → text → matched.
    A parameter of the model; the driver instantiates it with `icontains`. -/
abbrev Matcher := String → String → Bool

/-- A posting of a finalized transaction. -/
structure FPost where
  account    : String
  kind       : PostKind
  amount     : Amount
  line       : Nat
  generated  : Bool      -- ITEM_GENERATED
  calculated : Bool      -- POST_CALCULATED
deriving DecidableEq, Repr

/-- `post_t::must_balance()`. -/
def FPost.mustBalance (p : FPost) : Bool := p.kind ≠ .virtual

structure FXact where
  payee : String
  line  : Nat
  posts : List FPost
deriving DecidableEq, Repr

/-- Predicates of the fragment: what `= …` parses to for account terms
    (`account =~ /pat/`), `payee` terms and `expr` over `amount <cmp> N`,
    combined with `! & | ?:` (op.h kinds VALUE, O_MATCH, O_NOT, O_AND, O_OR,
    O_QUERY, O_GT, O_LT, O_GTE, O_LTE). -/
inductive Pred
  | const (b : Bool)
  | acct (pat : String)
  | payee (pat : String)
  | amtGt (n : Int)
  | amtLt (n : Int)
  | amtGe (n : Int)
  | amtLe (n : Int)
  | not (a : Pred)
  | and (a b : Pred)
  | or (a b : Pred)
  | ite (c a b : Pred)
deriving DecidableEq, Repr

/-- The general evaluator (`predicate(bound_scope)`, expr_t::calc) on the
    fragment.  `payee` is the transaction's payee (post.cc `get_payee`); the
    amount comparisons are `value_t::is_less_than`/`is_greater_than` AMOUNT vs
    INTEGER cells, i.e. the order of the exact quantities (`Value.gt`/`Value.lt`,
    see `Lemmas/AutoXact.lean` `eval_amtGt_value`). -/
def Pred.eval (m : Matcher) (payee : String) (p : FPost) : Pred → Bool
  | .const b => b
  | .acct pat => m pat p.account
  | .payee pat => m pat payee
  | .amtGt n => decide ((n : Rat) < p.amount.q)
  | .amtLt n => decide (p.amount.q < (n : Rat))
  | .amtGe n => decide ((n : Rat) ≤ p.amount.q)
  | .amtLe n => decide (p.amount.q ≤ (n : Rat))
  | .not a => !(a.eval m payee p)
  | .and a b => a.eval m payee p && b.eval m payee p
  | .or a b => a.eval m payee p || b.eval m payee p
  | .ite c a b => if c.eval m payee p then a.eval m payee p else b.eval m payee p

/-- `post_pred` (xact.cc 638-680): the quick evaluator.  It reads nothing but
    the posting's account name; `none` = `throw_(calc_error, "Unhandled
    operator")`.  `&&`, `||` and `?:` short-circuit exactly as the C++ does. -/
def Pred.quick (m : Matcher) (account : String) : Pred → Option Bool
  | .const b => some b
  | .acct pat => some (m pat account)
  | .payee _ => none
  | .amtGt _ => none
  | .amtLt _ => none
  | .amtGe _ => none
  | .amtLe _ => none
  | .not a => (a.quick m account).map (!·)
  | .and a b =>
    match a.quick m account with
    | none => none
    | some false => some false
    | some true => b.quick m account
  | .or a b =>
    match a.quick m account with
    | none => none
    | some true => some true
    | some false => b.quick m account
  | .ite c a b =>
    match c.quick m account with
    | none => none
    | some true => a.quick m account
    | some false => b.quick m account

/-- Mutable matching state of one `auto_xact_t` (xact.h: `try_quick_match`,
    `memoized_results`); it lives as long as the rule, across transactions. -/
structure RState where
  tryQuick : Bool
  memo     : List (String × Bool)
deriving DecidableEq, Repr

def RState.init : RState := { tryQuick := true, memo := [] }

/-- xact.cc 708-739: decide whether one initial posting matches, updating the
    rule's matching state. -/
def matchPost (m : Matcher) (pr : Pred) (payee : String) (st : RState) (p : FPost) : Bool × RState :=
  if st.tryQuick then
    match st.memo.lookup p.account with
    | some b => (b, st)
    | none =>
      match pr.quick m p.account with
      | some b => (b, { st with memo := (p.account, b) :: st.memo })
      | none => (pr.eval m payee p, { st with tryQuick := false })
  else (pr.eval m payee p, st)

/-- One posting line of a rule. `amount.comm = ""` ⇒ a multiplier. The account
    may contain `$account`. -/
structure RuleLine where
  account : String
  kind    : PostKind
  amount  : Amount
  line    : Nat
deriving DecidableEq, Repr

structure Rule where
  pred  : Pred
  lines : List RuleLine
  line  : Nat
deriving DecidableEq, Repr

/-- xact.cc 819-825: `regex_replace(fullname, regex("\\$account\\>"), matched)`.
    (The `\>` word-boundary is not modelled: generators never follow
    `$account` by a word character.) -/
def substAccount (tmpl matched : String) : String := tmpl.replace "$account" matched

/-- xact.cc 786-790: the amount of a generated posting. -/
def genAmount (env : PrecEnv) (l : RuleLine) (matched : Amount) : Amount :=
  if l.amount.hasComm then l.amount else Amount.mul env matched l.amount

/-- xact.cc 766-875: the posting generated for rule line `l` and matched
    posting `ip`. -/
def genPost (env : PrecEnv) (ip : FPost) (l : RuleLine) : FPost :=
  { account := substAccount l.account ip.account, kind := l.kind,
    amount := genAmount env l ip.amount, line := l.line,
    generated := true, calculated := false }

/-- The loop of xact.cc 702-877 over the snapshot `initial_posts`; returns the
    rule's new matching state and the postings appended, in order. -/
def extendGo (m : Matcher) (env : PrecEnv) (r : Rule) (payee : String) :
    RState → List FPost → RState × List FPost
  | st, [] => (st, [])
  | st, ip :: rest =>
    if ip.generated then extendGo m env r payee st rest
    else
      let mr := matchPost m r.pred payee st ip
      let g := extendGo m env r payee mr.2 rest
      (g.1, (if mr.1 then r.lines.map (genPost env ip) else []) ++ g.2)

/-- `auto_xact_t::extend_xact` without the final `verify()`. -/
def extend (m : Matcher) (env : PrecEnv) (r : Rule) (st : RState) (x : FXact) : RState × FXact :=
  let g := extendGo m env r x.payee st x.posts
  (g.1, { x with posts := x.posts ++ g.2 })

/-- The running balance of xact.cc 429-444 / 164-181 (`add_or_set_value`) over
    the must-balance postings, in order. -/
def residualFrom : Value → List FPost → Res Value
  | v, [] => .ok v
  | v, p :: ps =>
    if p.mustBalance then
      match Value.add v (.amt p.amount) with
      | .ok v' => residualFrom v' ps
      | .error e => .error e
    else residualFrom v ps

/-- `value_t::is_zero` at display precision; `is_null` counts as balanced
    (xact.cc 460: `! balance.is_null() && ! balance.is_zero()`). -/
def valueIsZero (env : PrecEnv) : Value → Bool
  | .void => true
  | .bool b => !b
  | .int n => n = 0
  | .amt a => a.isZero env
  | .bal b => b.all (Amount.isZero env)

/-- `xact_base_t::verify` succeeds. -/
def balanced (env : PrecEnv) (ps : List FPost) : Bool :=
  match residualFrom .void ps with
  | .ok v => valueIsZero env v
  | .error _ => false

inductive LErr
  | unbalanced      -- "Transaction does not balance"
  | twoNulls        -- "Only one posting with null amount allowed per transaction"
  | nullAmount      -- a null amount that finalize cannot fill
  | unsupported     -- outside the modelled fragment
deriving DecidableEq, Repr

/-- `extend_xact` including xact.cc 873-880: verify only when this rule added a
    posting that must balance. -/
def extendChecked (m : Matcher) (env : PrecEnv) (r : Rule) (st : RState) (x : FXact) :
    RState × Except LErr FXact :=
  let e := extend m env r st x
  let added := (extendGo m env r x.payee st x.posts).2
  if added.any FPost.mustBalance ∧ ¬ balanced env e.2.posts then (e.1, .error .unbalanced)
  else (e.1, .ok e.2)

/-- `journal_t::extend_xact` (journal.cc 445-449): every rule registered so far,
    in order; an exception leaves the later rules untouched.  The error carries
    the line of the rule that was being applied. -/
def applyRules (m : Matcher) (env : PrecEnv) :
    List (Rule × RState) → FXact → List (Rule × RState) × Except (LErr × Nat) FXact
  | [], x => ([], .ok x)
  | (r, st) :: rs, x =>
    match extendChecked m env r st x with
    | (st', .ok x') =>
      let g := applyRules m env rs x'
      ((r, st') :: g.1, g.2)
    | (st', .error e) => ((r, st') :: rs, .error (e, r.line))

/-! ### finalize (fragment) -/

def toFPost (p : Posting) (a : Amount) (isCalc : Bool) : FPost :=
  { account := p.account, kind := p.kind, amount := a, line := p.line,
    generated := false, calculated := isCalc }

/-- running balance over the must-balance postings that carry an amount. -/
def balanceOf : Value → List Posting → Res Value
  | v, [] => .ok v
  | v, p :: ps =>
    match p.mustBalance, p.amount with
    | true, some a =>
      match Value.add v (.amt a) with
      | .ok v' => balanceOf v' ps
      | .error e => .error e
    | _, _ => balanceOf v ps

def insertByComm (a : Amount) : List Amount → List Amount
  | [] => [a]
  | b :: bs => if a.comm ≤ b.comm then a :: b :: bs else b :: insertByComm a bs

/-- `balance_t::sorted_amounts` (balance.cc 273-283) on unannotated
    commodities: by symbol. -/
def sortByComm (l : List Amount) : List Amount := l.foldr insertByComm []

/-- amounts handed to `add_balancing_post`, in order (xact.cc 363-370). -/
def fillAmounts : Value → Option (List Amount)
  | .amt a => some [a.neg]
  | .bal b => some ((sortByComm b).map Amount.neg)
  | .int n => some [(Amount.ofInt n).neg]
  | _ => none

/-- Is the implied-price path of xact.cc 220-283 entered with two non-zero
    amounts?  (outside the model) -/
def impliedPrice (env : PrecEnv) (v : Value) : Bool :=
  match v with
  | .bal [x, y] => !(x.isZero env) && !(y.isZero env)
  | _ => false

def hasCostOrAssert (x : Xact) : Bool := x.posts.any (fun p => p.cost.isSome || p.assert.isSome)

/-- `xact_base_t::finalize` on the fragment. -/
def finalize (env : PrecEnv) (x : Xact) : Except LErr FXact :=
  if hasCostOrAssert x then .error .unsupported
  else
    let nulls := x.posts.filter (fun p => p.amount.isNone)
    match nulls with
    | [] =>
      match balanceOf .void x.posts with
      | .error _ => .error .unsupported
      | .ok v =>
        if impliedPrice env v then .error .unsupported
        else if valueIsZero env v then
          .ok { payee := x.payee, line := x.line,
                posts := x.posts.filterMap (fun p => p.amount.map (fun a => toFPost p a false)) }
        else .error .unbalanced
    | [np] =>
      if ¬ np.mustBalance then .error .nullAmount
      else
        match balanceOf .void x.posts with
        | .error _ => .error .unsupported
        | .ok v =>
          match fillAmounts v with
          | some (a :: more) =>
            .ok { payee := x.payee, line := x.line,
                  posts := x.posts.map (fun p => match p.amount with
                                                 | some b => toFPost p b false
                                                 | none => toFPost p a true)
                           ++ more.map (fun b => { toFPost np b true with generated := true }) }
          | _ => .error .nullAmount
    | _ => if nulls.all Posting.mustBalance then .error .twoNulls else .error .nullAmount

/-! ### the journal -/

inductive Item
  | rule (r : Rule)
  | xact (x : Xact)

/-- display precision learned so far, per commodity. -/
abbrev PrecTable := List (Comm × Nat)

def PrecTable.get (t : PrecTable) : PrecEnv := fun c => (t.lookup c).getD 0

def PrecTable.bump (t : PrecTable) (a : Amount) : PrecTable :=
  if a.hasComm then (a.comm, max a.prec (PrecTable.get t a.comm)) :: t else t

def PrecTable.bumpAll (t : PrecTable) (l : List Amount) : PrecTable := l.foldl PrecTable.bump t

structure LState where
  rules : List (Rule × RState)
  prec  : PrecTable
  xacts : List FXact
  /-- (first line of the transaction, line of the rule being applied or 0, error) -/
  errs  : List (Nat × Nat × LErr)

def LState.init : LState := { rules := [], prec := [], xacts := [], errs := [] }

/-- textual.cc: a rule is registered (`auto_xacts.push_back`, 582-680) with a
    fresh matching state; a transaction is parsed (its amounts raise the
    commodities' precision), then `journal_t::add_xact`: finalize, extend by all
    rules seen so far, append.  An exception drops the transaction and is
    counted; parsing goes on. -/
def step (m : Matcher) (s : LState) : Item → LState
  | .rule r =>
    { s with rules := s.rules ++ [(r, RState.init)],
             prec := s.prec.bumpAll (r.lines.map (·.amount)) }
  | .xact x =>
    let prec := s.prec.bumpAll (x.posts.filterMap (·.amount))
    match finalize prec.get x with
    | .error e => { s with prec := prec, errs := s.errs ++ [(x.line, 0, e)] }
    | .ok fx =>
      let g := applyRules m prec.get s.rules fx
      match g.2 with
      | .ok fx' => { s with prec := prec, rules := g.1, xacts := s.xacts ++ [fx'] }
      | .error (e, rl) => { s with prec := prec, rules := g.1, errs := s.errs ++ [(x.line, rl, e)] }

def loadFrom (m : Matcher) (s : LState) (items : List Item) : LState := items.foldl (step m) s

def load (m : Matcher) (items : List Item) : LState := loadFrom m LState.init items

/-! ### the stateless specification (no memo, no matching state)

`Props/C16.lean` proves that the code-shaped definitions above compute exactly
these. -/

/-- posting `p` is an original (not generated) posting that satisfies the rule's predicate. -/
def Rule.matches (m : Matcher) (r : Rule) (payee : String) (p : FPost) : Bool :=
  !p.generated && r.pred.eval m payee p

/-- what rule `r` adds for the posting list `ps`: for each matching posting in
    order, one posting per rule line in order. -/
def additions (m : Matcher) (env : PrecEnv) (r : Rule) (payee : String) (ps : List FPost) : List FPost :=
  (ps.filter (r.matches m payee)).flatMap (fun ip => r.lines.map (genPost env ip))

def extendSpec (m : Matcher) (env : PrecEnv) (r : Rule) (x : FXact) : FXact :=
  { x with posts := x.posts ++ additions m env r x.payee x.posts }

/-- all rules in order, each followed by its conditional re-verification. -/
def applyRulesSpec (m : Matcher) (env : PrecEnv) : List Rule → FXact → Except (LErr × Nat) FXact
  | [], x => .ok x
  | r :: rs, x =>
    if (additions m env r x.payee x.posts).any FPost.mustBalance ∧
        ¬ balanced env (extendSpec m env r x).posts then .error (.unbalanced, r.line)
    else applyRulesSpec m env rs (extendSpec m env r x)

/-- the rules of a file prefix, in order. -/
def rulesOf : List Item → List Rule
  | [] => []
  | .rule r :: is => r :: rulesOf is
  | .xact _ :: is => rulesOf is

/-! ### the instance of the matcher used against the binary -/

def isInfix (p : List Char) : List Char → Bool
  | [] => p.isEmpty
  | c :: cs => p.isPrefixOf (c :: cs) || isInfix p cs

/-- case-insensitive substring: what boost::regex (perl, icase) search does for a
    pattern without metacharacters. -/
def icontains : Matcher := fun pat text => isInfix pat.toLower.toList text.toLower.toList

end AutoXact
end Ledger
