/- Driver op for automated transactions (C16):

   autoxact.load <journal AST as JSON>
     journal AST of tools/jgen.py extended with
       "rules": [{"pred": pred, "line": n, "body": [entry, …]}, …]
       "items": [{"k":"r"|"x","i": index into rules / xacts}, …]   (file order)
       entry = {"t":"post","account","kind","state","amount": amount|null,"expr": text|null,
                "cost": cost|null,"note": text,"line": n}
             | {"t":"note","text": text}                      (a `; text` line of the rule)
             | {"t":"check","kind":"assert"|"check"|"expr","expr": text}
       pred = {"t":"const","b":bool} | {"t":"acct"|"payee","pat":s}
            | {"t":"gt"|"lt"|"ge"|"le","n":int} | {"t":"not"|"any"|"all","a":pred}
            | {"t":"and"|"or","a":pred,"b":pred} | {"t":"ite","c":pred,"a":pred,"b":pred}
       a lot-annotated commodity is written BASE{num/den:PRICECOMM}[day or empty]
     answers
       ok <TAB> rows joined by ';' <TAB> warnings joined by ';'
            row: xact line|posting line|account|kind|state|q:prec:keep:comm|cost q:prec:keep:comm or -|note|generated|calculated
            warning: xact line:count   (only transactions with count > 0)
       err <TAB> errors joined by ';':  xact line:rule line (0 = not inside a rule):kind
       err <TAB> unsupported        (the journal leaves the modelled fragment)
-/
import LedgerModel.Model.AutoXact
import LedgerModel.Model.ValueProto

namespace Ledger
namespace AutoXact

open Lean (Json)

partial def pred? (j : Json) : Option Pred := do
  let t ← J.str? j "t"
  match t with
  | "const" => (J.bool? j "b").map Pred.const
  | "acct" => (J.str? j "pat").map Pred.acct
  | "payee" => (J.str? j "pat").map Pred.payee
  | "gt" => (J.int? j "n").map Pred.amtGt
  | "lt" => (J.int? j "n").map Pred.amtLt
  | "ge" => (J.int? j "n").map Pred.amtGe
  | "le" => (J.int? j "n").map Pred.amtLe
  | "not" => do
    let a ← pred? (← J.obj? j "a")
    pure (Pred.not a)
  | "any" => do
    let a ← pred? (← J.obj? j "a")
    pure (Pred.any a)
  | "all" => do
    let a ← pred? (← J.obj? j "a")
    pure (Pred.all a)
  | "and" => do
    let a ← pred? (← J.obj? j "a")
    let b ← pred? (← J.obj? j "b")
    pure (Pred.and a b)
  | "or" => do
    let a ← pred? (← J.obj? j "a")
    let b ← pred? (← J.obj? j "b")
    pure (Pred.or a b)
  | "ite" => do
    let c ← pred? (← J.obj? j "c")
    let a ← pred? (← J.obj? j "a")
    let b ← pred? (← J.obj? j "b")
    pure (Pred.ite c a b)
  | _ => none

def expr? (s : String) : Option Expr :=
  match parseText s with
  | .ok e => some e
  | .error _ => none

def ruleLine? (j : Json) : Option RuleLine := do
  let acct ← J.str? j "account"
  let kind ← J.kind? (← J.str? j "kind")
  let line ← J.nat? j "line"
  let st := (J.nat? j "state").getD 0
  let note := noteOf ((J.str? j "note").getD "")
  let cost ← J.optField j "cost" J.cost?
  match J.obj? j "amount", J.str? j "expr" with
  | some a, none =>
    let amt ← J.amount? a
    let c := cost.map (fun c => FinX.parseCost (fun _ => 0) amt c)
    pure { account := acct, kind := kind, state := st, amt := .lit amt, cost := c, note := note, line := line }
  | none, some s =>
    let e ← expr? s
    match cost with
    | some _ => none
    | none => pure { account := acct, kind := kind, state := st, amt := .expr e, cost := none, note := note, line := line }
  | _, _ => none

def checkKind? (s : String) : Option CheckKind :=
  match s with
  | "assert" => some .assert
  | "check" => some .check
  | "expr" => some .general
  | _ => none

/-- the body of a rule in file order: posting lines, `; note` lines (attached to
    the posting line they follow), check / assert / expr lines. -/
def body? : List Json → List RuleLine → List RNote → List Check → Option (List RuleLine × List RNote × List Check)
  | [], ls, ns, cs => some (ls, ns, cs)
  | j :: js, ls, ns, cs =>
    match J.str? j "t" with
    | some "post" => do
      let l ← ruleLine? j
      body? js (ls ++ [l]) ns cs
    | some "note" => do
      let t ← J.str? j "text"
      body? js ls (ns ++ [{ text := " " ++ t, applyTo := if ls.isEmpty then none else some (ls.length - 1) }]) cs
    | some "check" => do
      let k ← checkKind? (← J.str? j "kind")
      let e ← expr? (← J.str? j "expr")
      body? js ls ns (cs ++ [{ kind := k, expr := e }])
    | _ => none

def rule? (j : Json) : Option Rule := do
  let p ← pred? (← J.obj? j "pred")
  let (ls, ns, cs) ← body? (← J.arr? j "body") [] [] []
  let line ← J.nat? j "line"
  pure { pred := p, lines := ls, notes := ns, checks := cs, line := line }

def items? (j : Json) : Option (List Item) := do
  let xs ← optAll J.xact? (← J.arr? j "xacts")
  let rs ← optAll rule? (← J.arr? j "rules")
  let its ← J.arr? j "items"
  optAll (fun it => do
    let k ← J.str? it "k"
    let i ← J.nat? it "i"
    match k with
    | "r" => (rs[i]?).map Item.rule
    | "x" => (xs[i]?).map Item.xact
    | _ => none) its

def kindStr : PostKind → String
  | .real => "real" | .virtual => "virtual" | .bvirtual => "bvirtual"

def errStr : LErr → String
  | .unbalanced => "unbalanced" | .sameCommCost => "same-comm-cost" | .assertFailed => "assert-failed"
  | .exprError => "expr-error" | .twoNulls => "two-nulls"
  | .nullAmount => "null-amount" | .unsupported => "unsupported"

def noteStr : Option String → String
  | none => ""
  | some n => n.replace "\n" "\\n"

def rowStr (x : FXact) (p : FPost) : String :=
  let c := match p.cost with
    | some c => c.render
    | none => "-"
  s!"{x.line}|{p.line}|{p.account}|{kindStr p.kind}|{p.state}|{p.amount.render}|{c}|{noteStr p.note}|{boolStr p.generated}|{boolStr p.calculated}"

def opLoad (args : List String) : String :=
  match args with
  | [s] =>
    match (J.parse? s).bind items? with
    | none => "err\tbad-json"
    | some items =>
      let st := load icontains items
      if st.errs.any (fun e => e.2.2 = LErr.unsupported) then "err\tunsupported"
      else if st.errs.isEmpty then
        "ok\t" ++ ";".intercalate (st.xacts.flatMap (fun x => x.posts.map (rowStr x))) ++ "\t" ++
          ";".intercalate ((st.warns.filter (fun w => w.2 > 0)).map (fun w => s!"{w.1}:{w.2}"))
      else
        "err\t" ++ ";".intercalate (st.errs.map (fun e => s!"{e.1}:{e.2.1}:{errStr e.2.2}"))
  | _ => "err\tbad-op"

end AutoXact

def AutoXactProto.ops : List (String × (List String → String)) :=
  [("autoxact.load", AutoXact.opLoad)]

end Ledger
