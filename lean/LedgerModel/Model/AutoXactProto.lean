/- Driver op for automated transactions (C16):

   autoxact.load <journal AST as JSON>
     journal AST of tools/jgen.py extended with
       "rules": [{"pred": pred, "lines": [{"account","kind","amount","line"}], "line": n}, …]
       "items": [{"k":"r"|"x","i": index into rules / xacts}, …]   (file order)
       pred = {"t":"const","b":bool} | {"t":"acct"|"payee","pat":s}
            | {"t":"gt"|"lt"|"ge"|"le","n":int} | {"t":"not","a":pred}
            | {"t":"and"|"or","a":pred,"b":pred} | {"t":"ite","c":pred,"a":pred,"b":pred}
     answers
       ok <TAB> rows joined by ';', one per posting of every accepted transaction in order:
            xact line|posting line|account|kind|q:prec:keep:comm|generated|calculated
       err <TAB> errors joined by ';':  xact line:rule line (0 = not inside a rule):kind
       err <TAB> unsupported        (the journal leaves the modelled fragment)
-/
import LedgerModel.Model.AutoXact
import LedgerModel.Model.ValueProto

namespace Ledger
namespace AutoXact

open Lean (Json)

partial def pred? (j : Json) : Option Pred := do
  let t ← J.str? j "t"
  match t with
  | "const" => (J.bool? j "b").map Pred.const
  | "acct" => (J.str? j "pat").map Pred.acct
  | "payee" => (J.str? j "pat").map Pred.payee
  | "gt" => (J.int? j "n").map Pred.amtGt
  | "lt" => (J.int? j "n").map Pred.amtLt
  | "ge" => (J.int? j "n").map Pred.amtGe
  | "le" => (J.int? j "n").map Pred.amtLe
  | "not" => do
    let a ← pred? (← J.obj? j "a")
    pure (Pred.not a)
  | "and" => do
    let a ← pred? (← J.obj? j "a")
    let b ← pred? (← J.obj? j "b")
    pure (Pred.and a b)
  | "or" => do
    let a ← pred? (← J.obj? j "a")
    let b ← pred? (← J.obj? j "b")
    pure (Pred.or a b)
  | "ite" => do
    let c ← pred? (← J.obj? j "c")
    let a ← pred? (← J.obj? j "a")
    let b ← pred? (← J.obj? j "b")
    pure (Pred.ite c a b)
  | _ => none

def ruleLine? (j : Json) : Option RuleLine := do
  let acct ← J.str? j "account"
  let kind ← J.kind? (← J.str? j "kind")
  let amt ← J.amount? (← J.obj? j "amount")
  let line ← J.nat? j "line"
  pure { account := acct, kind := kind, amount := amt, line := line }

def rule? (j : Json) : Option Rule := do
  let p ← pred? (← J.obj? j "pred")
  let ls ← optAll ruleLine? (← J.arr? j "lines")
  let line ← J.nat? j "line"
  pure { pred := p, lines := ls, line := line }

def items? (j : Json) : Option (List Item) := do
  let xs ← optAll J.xact? (← J.arr? j "xacts")
  let rs ← optAll rule? (← J.arr? j "rules")
  let its ← J.arr? j "items"
  optAll (fun it => do
    let k ← J.str? it "k"
    let i ← J.nat? it "i"
    match k with
    | "r" => (rs[i]?).map Item.rule
    | "x" => (xs[i]?).map Item.xact
    | _ => none) its

def kindStr : PostKind → String
  | .real => "real" | .virtual => "virtual" | .bvirtual => "bvirtual"

def errStr : LErr → String
  | .unbalanced => "unbalanced" | .twoNulls => "two-nulls"
  | .nullAmount => "null-amount" | .unsupported => "unsupported"

def rowStr (x : FXact) (p : FPost) : String :=
  s!"{x.line}|{p.line}|{p.account}|{kindStr p.kind}|{p.amount.render}|{boolStr p.generated}|{boolStr p.calculated}"

def opLoad (args : List String) : String :=
  match args with
  | [s] =>
    match (J.parse? s).bind items? with
    | none => "err\tbad-json"
    | some items =>
      let st := load icontains items
      if st.errs.any (fun e => e.2.2 = LErr.unsupported) then "err\tunsupported"
      else if st.errs.isEmpty then
        "ok\t" ++ ";".intercalate (st.xacts.flatMap (fun x => x.posts.map (rowStr x)))
      else
        "err\t" ++ ";".intercalate (st.errs.map (fun e => s!"{e.1}:{e.2.1}:{errStr e.2.2}"))
  | _ => "err\tbad-op"

end AutoXact

def AutoXactProto.ops : List (String × (List String → String)) :=
  [("autoxact.load", AutoXact.opLoad)]

end Ledger
