/- Pinned copy of Gen/BeginEnd.lean: the source text this model was written against (hand-maintained; refresh with tools/repin.py together with the model). -/
namespace Ledger.Pinned

/-- option begin_ (-b): text before and after the ISO date, and the interval accessor used. -/
def beginPredicate : String × String × String := ("date>=[", "]", "begin")

/-- option end_ (-e). -/
def endPredicate : String × String × String := ("date<[", "]", "begin")

/-- normalize_period (report.cc): the same two templates built from the period option. -/
def periodBeginPredicate : String × String := ("date>=[", "]")
def periodEndPredicate : String × String := ("date<[", "]")

/-- options that add a fixed predicate to the limit option (option, predicate text). -/
def limitOptions : List (String × String) := [("actual", "actual"), ("cleared", "cleared"), ("current", "date<=today"), ("pending", "pending"), ("real", "real"), ("uncleared", "uncleared|pending")]

/-- the limit option given twice: value = a ++ old ++ b ++ new ++ c. -/
def limitCombine : String × String × String := ("(", ")&(", ")")

/-- chain.cc: predicates wrapped in filter_posts, in source order. -/
def filterStages : List String := ["limit_", "limit_", "limit_", "forecast_while_", "display_predicate", "only_predicate"]

/-- filters.h filter_posts::operator() has the shape `if (pred(post)) (*handler)(post);`. -/
def filterPostsPassesUnchanged : Bool := true

end Ledger.Pinned
