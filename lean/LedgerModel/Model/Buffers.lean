/-
Bounded-copy routines of ledger over `List Char` with explicit capacities (C11).

Every routine returns the list of bytes it stores into its fixed-size buffer
(without the terminating NUL), so that "the write stays inside the buffer" is a
statement about the length of that list:

    offset + written.length + terminator ≤ capacity.

Mirrors (file:line of /repo/src):
  * READ_INTO / READ_INTO_            utils.h 523-577
  * commodity_t::parse_symbol loop    commodity.cc 311-321
  * parse_quantity                    amount.cc 976-999
  * guarded strcpy of a date string   times.cc 129-134, 240-245
  * find_option name mangling         option.cc 41-57
  * item_t::parse_tags tag/date copy  item.cc 156-176   (strncpy, no bound)
  * format_t::parse_elements literal  format.cc 132-139 (static buf, no bound)
  * split_arguments                   utils.cc 480-527  (no bound)
  * getline / fgets / snprintf / strftime / memcpy / counted loops: the
    library call or loop guard bounds the count by a constant.
The capacities, offsets and limits themselves are NOT written here: they are
re-extracted from the sources into `Gen.bufferSites` on every run.

Also here (termination side of C11): alias expansion with `already_seen`
(journal.cc 162-213), a scan that steps by a period length (times.cc
1255-1266, 1371-1384) and a tiny recursive-descent parser that records its
recursion depth (parser.cc 38-72, 520-549).
Core Lean only.
-/
namespace Ledger.Buffers

/-! ### READ_INTO -/

/-- The escape switch of READ_INTO (utils.h 534-542). -/
def unescape (c : Char) : Char :=
  if c = 'b' then '\x08' else if c = 'f' then '\x0c' else if c = 'n' then '\n'
  else if c = 'r' then '\x0d' else if c = 't' then '\t' else if c = 'v' then '\x0b' else c

/-- store one more byte in front of what the rest of the loop stores -/
def consFst (c : Char) (r : List Char × List Char) : List Char × List Char := (c :: r.1, r.2)

@[simp] theorem consFst_fst (c : Char) (r : List Char × List Char) : (consFst c r).1 = c :: r.1 := rfl
@[simp] theorem consFst_snd (c : Char) (r : List Char × List Char) : (consFst c r).2 = r.2 := rfl

/-- READ_INTO(str, targ, size, var, cond) (utils.h 523-548; READ_INTO_ 550-577 is the same
    loop with a character counter).  `w` is `_p - targ`, the number of bytes already stored.
    Returns (bytes stored by the loop, unread rest of the stream).
    Loop guard: stream not at EOF, `var != '\n'`, `cond`, `_p - targ < size`.
    A backslash consumes the next character too (and stores its translation); a backslash
    at end of input breaks out without storing. -/
def readInto (limit : Nat) (cond : Char → Bool) : Nat → List Char → List Char × List Char
  | _, [] => ([], [])
  | w, c :: rest =>
    if c = '\n' || !cond c || !(decide (w < limit)) then ([], c :: rest)
    else if c = '\\' then
      match rest with
      | [] => ([], [])
      | d :: rest' => consFst (unescape d) (readInto limit cond (w + 1) rest')
    else consFst c (readInto limit cond (w + 1) rest)

/-- commodity_t::parse_symbol, unquoted branch (commodity.cc 311-321):
    `while (_p - buf < 255 && in.good() && !in.eof() && !invalid_chars[c])`; a backslash
    takes the next character verbatim (EOF after a backslash throws: nothing more stored).
    `valid c` is `!invalid_chars[c]`. -/
def symbolLoop (limit : Nat) (valid : Char → Bool) : Nat → List Char → List Char × List Char
  | _, [] => ([], [])
  | w, c :: rest =>
    if !(decide (w < limit)) || !valid c then ([], c :: rest)
    else if c = '\\' then
      match rest with
      | [] => ([], [])
      | d :: rest' => consFst d (symbolLoop limit valid (w + 1) rest')
    else consFst c (symbolLoop limit valid (w + 1) rest)

/-! ### conditions used at the call sites (closed list; the extractor maps the C text to these) -/

inductive Cond where
  | notChar (c : Char)      -- `c != ']'` …
  | alpha                   -- std::isalpha(c)
  | alphaUnderscore         -- std::isalpha(c) || c == '_'
  | digitDotComma           -- std::isdigit(c) || c == '.' || c == ','
  | symbolChar              -- !invalid_chars[c]  (table in Gen.InvalidChars; any predicate will do for the bounds)
  | any
  deriving Repr, DecidableEq

def isAlphaC (c : Char) : Bool := ('a' ≤ c && c ≤ 'z') || ('A' ≤ c && c ≤ 'Z')
def isDigitC (c : Char) : Bool := '0' ≤ c && c ≤ '9'

/-- A conservative stand-in for `!invalid_chars[c]` used only by the executable driver
    (letters and bytes ≥ 128 are valid symbol characters); the bounds hold for any predicate. -/
def isSymbolC (c : Char) : Bool := isAlphaC c || c.toNat ≥ 128 || c = '\\'

def Cond.test : Cond → Char → Bool
  | .notChar x, c => c != x
  | .alpha, c => isAlphaC c
  | .alphaUnderscore, c => isAlphaC c || c = '_'
  | .digitDotComma, c => isDigitC c || c = '.' || c = ','
  | .symbolChar, c => isSymbolC c
  | .any, _ => true

/-! ### sites -/

inductive Kind where
  /-- READ_INTO / READ_INTO_ with the given condition -/
  | readInto (cond : Cond)
  /-- commodity.cc unquoted symbol loop -/
  | symbolLoop
  /-- a length guard (throw / assert when the source is longer than `limit`) followed by
      strcpy / strncpy / a per-character loop, then `extra` more bytes -/
  | guardedCopy
  /-- at most `limit` bytes are stored whatever the source is: getline(buf, limit+1),
      fgets, snprintf, strftime, read, memcpy of a constant count, a counted loop,
      strcpy of constants, strcpy of a line that was itself read by the bounded getline -/
  | boundedCopy
  /-- the whole source is stored, no check (strncpy with a length computed from the input,
      `*q++ = *p` loops) -/
  | unboundedCopy
  deriving Repr, DecidableEq

structure Site where
  /-- `file:function:buffer[:variant]` -/
  name : String
  kind : Kind
  /-- size of the array in bytes -/
  capacity : Nat
  /-- index of the first byte this routine stores -/
  offset : Nat
  /-- bound on the payload (macro `size` argument, guard constant, library count); unused for `unboundedCopy` -/
  limit : Nat
  /-- bytes appended after the payload before the terminator -/
  extra : Nat
  /-- 1 when a NUL is stored after the payload -/
  terminator : Nat
  /-- where the extractor found it -/
  src : String
  deriving Repr, DecidableEq

def Site.bounded (s : Site) : Bool :=
  match s.kind with
  | .unboundedCopy => false
  | _ => true

/-- Largest number of bytes stored after `offset`, before the terminator (bounded sites). -/
def Site.maxWritten (s : Site) : Nat := s.limit + s.extra

/-- The bytes the routine at site `s` stores into its buffer for source `inp`
    (starting at `s.offset`, terminator not included). -/
def Site.run (s : Site) (inp : List Char) : List Char :=
  match s.kind with
  | .readInto cond => (readInto s.limit cond.test 0 inp).1 ++ List.replicate s.extra '_'
  | .symbolLoop => (symbolLoop s.limit Cond.symbolChar.test 0 inp).1 ++ List.replicate s.extra '_'
  | .guardedCopy => if inp.length > s.limit then [] else inp ++ List.replicate s.extra '_'
  | .boundedCopy => inp.take s.limit ++ List.replicate s.extra '_'
  | .unboundedCopy => inp ++ List.replicate s.extra '_'

/-- Every store of the routine (payload, extra bytes, terminator) has an index below the capacity. -/
def Site.inBounds (s : Site) (inp : List Char) : Prop :=
  s.offset + (s.run inp).length + s.terminator ≤ s.capacity

instance (s : Site) (inp : List Char) : Decidable (s.inBounds inp) := by
  unfold Site.inBounds; exact inferInstance

/-- The arithmetic the proof needs from the extracted numbers. -/
def Site.fits (s : Site) : Bool :=
  s.bounded && decide (s.offset + s.maxWritten + s.terminator ≤ s.capacity)

/-- Length of the shortest payload that overflows an unbounded site. -/
def Site.overflowLen (s : Site) : Nat := s.capacity + 1 - s.offset - s.terminator - s.extra

/-! ### parse_quantity (amount.cc 976-999) -/

/-- `peek_next_nonws` (utils.h 514-521). -/
def skipWs : List Char → List Char
  | [] => []
  | c :: rest => if c = ' ' || c = '\t' || c = '\n' || c = '\x0d' || c = '\x0b' || c = '\x0c' then skipWs rest else c :: rest

/-- The trailing loop `while (len > 0 && !isdigit(buf[len-1])) buf[--len] = '\0'`. -/
def trimNonDigits (l : List Char) : List Char :=
  (l.reverse.dropWhile (fun c => !isDigitC c)).reverse

/-- parse_quantity: `char buf[256]; int max = 255; if (c == '-') { *p++ = c; max--; }`
    then READ_INTO(in, p, max, …) and the trailing trim.  `limit` is the extracted `max`.
    Returns (bytes stored at the high-water mark: sign and digits, final token). -/
def parseQuantity (limit : Nat) (inp : List Char) : List Char × List Char :=
  match skipWs inp with
  | '-' :: rest =>
    let w := (readInto (limit - 1) Cond.digitDotComma.test 0 rest).1
    ('-' :: w, trimNonDigits ('-' :: w))
  | l =>
    let w := (readInto limit Cond.digitDotComma.test 0 l).1
    (w, trimNonDigits w)

/-! ### format_t::parse_elements scanning (format.cc 135-174): reads of the format string -/

/-- Index of the last byte of the format string the scanner dereferences, following the
    `for (p = fmt; *p; p++)` loop: a literal is one step; a backslash takes the next byte
    *without checking that it is not the terminator* and then the loop increment steps
    once more.  `'%'` elements are cut short here (they check `*p`).  `i` is the index of
    `p`, `n` the length; index `n` is the NUL and may be read, `n + 1` is past the end. -/
def formatScanMaxRead : (fuel : Nat) → (i : Nat) → List Char → Nat
  | 0, i, _ => i
  | _, i, [] => i                                 -- `*p` is the NUL: loop ends having read index i
  | fuel + 1, i, c :: rest =>
    if c = '\\' then
      match rest with
      | [] => i + 2                               -- p++ reads the NUL (i+1); `continue; p++` then reads i+2
      | _ :: rest' => formatScanMaxRead fuel (i + 2) rest'
    else formatScanMaxRead fuel (i + 1) rest

/-- The literal bytes stored into `static char buf[65535]` before the first `%` or `\\`
    (format.cc 136-139: `*q++ = *p` with no check). -/
def formatLiteral (inp : List Char) : List Char :=
  inp.takeWhile (fun c => c != '%' && c != '\\')

/-! ### termination: alias expansion (journal.cc 162-213) -/

/-- One round of `expand_aliases`: `aliases` maps a full name or a first segment to its
    expansion; `seen` is `already_seen`.  Result of the whole loop. -/
inductive AliasResult where
  | done (name : String)
  | infiniteRecursion (name : String)      -- the `throw_` at journal.cc 177/194
  | outOfFuel
  deriving Repr, DecidableEq

def firstSegment (name : String) : Option (String × String) :=
  match name.splitOn ":" with
  | [] => none
  | [_] => none
  | f :: rest => some (f, ":" ++ ":".intercalate rest)

def lookupAlias (aliases : List (String × String)) (k : String) : Option String :=
  (aliases.find? (fun kv => kv.1 = k)).map (·.2)

/-- The `do … while (keep_expanding && recursive_aliases)` loop with explicit fuel. -/
def expandAliases (aliases : List (String × String)) (recursive : Bool) :
    Nat → List String → String → AliasResult
  | 0, _, _ => .outOfFuel
  | fuel + 1, seen, name =>
    match lookupAlias aliases name with
    | some target =>
      if seen.contains name then .infiniteRecursion name
      else if recursive then expandAliases aliases recursive fuel (name :: seen) target
      else .done target
    | none =>
      match firstSegment name with
      | some (f, tail) =>
        match lookupAlias aliases f with
        | some target =>
          if seen.contains f then .infiniteRecursion f
          else if recursive then expandAliases aliases recursive fuel (f :: seen) (target ++ tail)
          else .done (target ++ tail)
        | none => .done name
      | none => .done name

/-! ### termination: stepping by a period (times.cc 1255-1266 `while (*start < *date)`,
    1371-1384 `while (date >= scan …)`) on day numbers -/

/-- `while (start < date) { next = start + len; if (next <= date) start = next else break }`;
    `none` = fuel exhausted. -/
def stepTo (len : Nat) : Nat → Nat → Nat → Option Nat
  | 0, _, _ => none
  | fuel + 1, start, date =>
    if start < date then
      if start + len ≤ date then stepTo len fuel (start + len) date else some start
    else some start

/-! ### recursion depth of the recursive-descent parser (parser.cc) on a tiny grammar -/

inductive Tok where
  | lp | rp | num | plus
  deriving Repr, DecidableEq

inductive Ast where
  | num
  | add (l r : Ast)
  deriving Repr, DecidableEq

def Ast.depth : Ast → Nat
  | .num => 1
  | .add l r => 1 + max l.depth r.depth

/-- Result: tree, unread tokens, deepest nesting of `parseExpr` activations reached
    (each costs the 14 C++ frames parse_value_expr … parse_value_term). -/
abbrev PRes := Option (Ast × List Tok × Nat)

mutual
/-- parse_value_term (parser.cc 38-72): VALUE, or LPAREN → parse_value_expr → RPAREN. -/
def parseTerm : Nat → List Tok → PRes
  | 0, _ => none
  | fuel + 1, toks =>
    match toks with
    | .num :: rest => some (.num, rest, 0)
    | .lp :: rest =>
      match parseExpr fuel rest with
      | some (a, .rp :: rest', d) => some (a, rest', d)
      | _ => none
    | _ => none
/-- parse_add_expr (parser.cc 209-237) standing for the whole ladder: a term, then
    `+ term` repeatedly, building a left-nested tree. -/
def parseExpr : Nat → List Tok → PRes
  | 0, _ => none
  | fuel + 1, toks =>
    match parseTerm fuel toks with
    | some (a, rest, d) => parseRest fuel a rest (d + 1)
    | none => none
def parseRest : Nat → Ast → List Tok → Nat → PRes
  | 0, _, _, _ => none
  | fuel + 1, acc, toks, d =>
    match toks with
    | .plus :: rest =>
      match parseTerm fuel rest with
      | some (b, rest', d') => parseRest fuel (.add acc b) rest' (max d (d' + 1))
      | none => none
    | _ => some (acc, toks, d)
end

/-- `n` opening parentheses, a number, `n` closing parentheses. -/
def nested (n : Nat) : List Tok := List.replicate n .lp ++ [.num] ++ List.replicate n .rp

/-- `+ 1` repeated `n` times. -/
def plusNums : Nat → List Tok
  | 0 => []
  | n + 1 => .plus :: .num :: plusNums n

/-- `1 + 1 + … + 1` with `n` additions. -/
def chain (n : Nat) : List Tok := .num :: plusNums n

/-- The left-nested tree `((1 + 1) + 1) + …` with `n` additions on top of `acc`. -/
def leftTree (acc : Ast) : Nat → Ast
  | 0 => acc
  | n + 1 => leftTree (.add acc .num) n

end Ledger.Buffers
