/- Driver ops for C11: the bounded-copy routines run on the extracted site table,
   alias expansion, period stepping, parser depth.  Byte strings travel as hex
   (two digits per byte) so that any byte can be sent. -/
import LedgerModel.Model.Proto
import LedgerModel.Model.Buffers
import LedgerModel.Gen.BufferSites

namespace Ledger
open Buffers

namespace BuffersProto

def hexDigit (n : Nat) : Char := if n < 10 then Char.ofNat (48 + n) else Char.ofNat (87 + n)

def hexOf (l : List Char) : String :=
  String.ofList (l.flatMap (fun c => [hexDigit ((c.toNat / 16) % 16), hexDigit (c.toNat % 16)]))

def hexVal (c : Char) : Option Nat :=
  if '0' ≤ c && c ≤ '9' then some (c.toNat - 48)
  else if 'a' ≤ c && c ≤ 'f' then some (c.toNat - 87) else none

def unhexL : List Char → Option (List Char)
  | [] => some []
  | [_] => none
  | a :: b :: rest => do
    let x ← hexVal a
    let y ← hexVal b
    let r ← unhexL rest
    pure (Char.ofNat (x * 16 + y) :: r)

def unhex (s : String) : Option (List Char) := unhexL s.toList

def kindStr : Kind → String
  | .readInto _ => "readInto"
  | .symbolLoop => "symbolLoop"
  | .guardedCopy => "guardedCopy"
  | .boundedCopy => "boundedCopy"
  | .unboundedCopy => "unboundedCopy"

def siteRow (s : Site) : String :=
  "|".intercalate [s.name, kindStr s.kind, toString s.capacity, toString s.offset, toString s.limit,
    toString s.extra, toString s.terminator, boolStr s.bounded, boolStr s.fits, toString s.overflowLen, s.src]

def findSite (n : String) : Option Site := Gen.bufferSites.find? (fun s => s.name = n)

def opSites (_ : List String) : String :=
  "ok\t" ++ ";".intercalate (Gen.bufferSites.map siteRow) ++ "\t" ++ toString Gen.maxLine ++ "\t" ++
    boolStr Gen.formatBackslashChecked ++ "\t" ++ boolStr Gen.periodZeroRejected

/-- buf.run SITE HEX -> bytes stored (hex), first unread byte (hex or `eof`, READ_INTO sites only), inBounds -/
def opRun : List String → String
  | [name, hx] =>
    match findSite name, unhex hx with
    | some s, some inp =>
      let w := s.run inp
      let stop := match s.kind with
        | .readInto cond => match (readInto s.limit cond.test 0 inp).2 with
          | [] => "eof"
          | c :: _ => hexOf [c]
        | .symbolLoop => match (symbolLoop s.limit Cond.symbolChar.test 0 inp).2 with
          | [] => "eof"
          | c :: _ => hexOf [c]
        | _ => "-"
      s!"ok\t{w.length}\t{hexOf w}\t{stop}\t{boolStr (decide (s.inBounds inp))}"
    | none, _ => "err\tno-site"
    | _, none => "err\tbad-hex"
  | _ => "err\tbad-op"

/-- buf.quantity LIMIT HEX -> stored bytes, final token -/
def opQuantity : List String → String
  | [lim, hx] =>
    match lim.toNat?, unhex hx with
    | some l, some inp =>
      let r := parseQuantity l inp
      s!"ok\t{r.1.length}\t{hexOf r.1}\t{hexOf r.2}"
    | _, _ => "err\tbad-arg"
  | _ => "err\tbad-op"

/-- buf.fmtscan HEX -> highest index read, length, literal bytes stored before the first element -/
def opFmtScan : List String → String
  | [hx] =>
    match unhex hx with
    | some inp => s!"ok\t{formatScanMaxRead (inp.length + 1) 0 inp}\t{inp.length}\t{(formatLiteral inp).length}"
    | none => "err\tbad-hex"
  | _ => "err\tbad-op"

/-- alias.expand REC K=V;K=V NAME -/
def opAlias : List String → String
  | [r, tbl, name] =>
    match parseBool? r with
    | some rec =>
      let pairs := (splitList tbl ";").filterMap (fun kv =>
        match kv.splitOn "=" with
        | [k, v] => some (k, v)
        | _ => none)
      match expandAliases pairs rec (pairs.length + 1) [] name with
      | .done n => "ok\tdone\t" ++ n
      | .infiniteRecursion n => "ok\tinfinite\t" ++ n
      | .outOfFuel => "err\tout-of-fuel"
    | none => "err\tbad-arg"
  | _ => "err\tbad-op"

/-- step.to LEN START DATE FUEL -/
def opStep : List String → String
  | [l, s, d, f] =>
    match l.toNat?, s.toNat?, d.toNat?, f.toNat? with
    | some l, some s, some d, some f =>
      match stepTo l f s d with
      | some r => s!"ok\t{r}"
      | none => "ok\tno-termination"
    | _, _, _, _ => "err\tbad-arg"
  | _ => "err\tbad-op"

def tokOf : Char → Option Tok
  | '(' => some .lp
  | ')' => some .rp
  | '1' => some .num
  | '+' => some .plus
  | _ => none

/-- parse.depth TOKENS -> recursion depth reached, depth of the tree, unread tokens -/
def opParseDepth : List String → String
  | [t] =>
    match optAll tokOf t.toList with
    | some toks =>
      match parseExpr (2 * toks.length + 2) toks with
      | some (a, rest, d) => s!"ok\t{d}\t{a.depth}\t{rest.length}"
      | none => "err\tparse"
    | none => "err\tbad-arg"
  | _ => "err\tbad-op"

def ops : List (String × (List String → String)) :=
  [("buf.sites", opSites), ("buf.run", opRun), ("buf.quantity", opQuantity), ("buf.fmtscan", opFmtScan),
   ("alias.expand", opAlias), ("step.to", opStep), ("parse.depth", opParseDepth)]

end BuffersProto
end Ledger
