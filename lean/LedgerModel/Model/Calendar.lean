/-
Proleptic Gregorian calendar on day numbers (days since 1970-01-01), shared by
the date (C14), period (C13) and timelog (C20) models.  `ofYMD`/`toYMD` are
Hinnant's days-from-civil / civil-from-days written with `Int` floor division
so that `omega` can reason about them.  boost::gregorian month arithmetic
(end-of-month snap) is `addMonths`.  Core Lean only.
-/
namespace Ledger.Cal

def isLeap (y : Int) : Bool := (y % 4 = 0 ∧ y % 100 ≠ 0) ∨ y % 400 = 0

def daysInMonth (y : Int) (m : Int) : Int :=
  if m = 2 then (if isLeap y then 29 else 28)
  else if m = 4 ∨ m = 6 ∨ m = 9 ∨ m = 11 then 30 else 31

/-- A real calendar date. -/
def validYMD (y m d : Int) : Bool := 1 ≤ m ∧ m ≤ 12 ∧ 1 ≤ d ∧ d ≤ daysInMonth y m

/-- days since 1970-01-01 of the civil date y-m-d (any integers; meaningful when `validYMD`). -/
def ofYMD (y m d : Int) : Int :=
  let y' := if m ≤ 2 then y - 1 else y
  let era := y' / 400                       -- Int `/` is floor division for positive divisor
  let yoe := y' - era * 400                 -- [0, 399]
  let mp := if m > 2 then m - 3 else m + 9  -- March = 0
  let doy := (153 * mp + 2) / 5 + d - 1     -- [0, 365]
  let doe := yoe * 365 + yoe / 4 - yoe / 100 + doy
  era * 146097 + doe - 719468

/-- civil date of a day number. -/
def toYMD (n : Int) : Int × Int × Int :=
  let z := n + 719468
  let era := z / 146097
  let doe := z - era * 146097                                  -- [0, 146096]
  let yoe := (doe - doe / 1460 + doe / 36524 - doe / 146096) / 365   -- [0, 399]
  let y := yoe + era * 400
  let doy := doe - (365 * yoe + yoe / 4 - yoe / 100)           -- [0, 365]
  let mp := (5 * doy + 2) / 153                                -- [0, 11]
  let d := doy - (153 * mp + 2) / 5 + 1
  let m := if mp < 10 then mp + 3 else mp - 9
  (if m ≤ 2 then y + 1 else y, m, d)

/-- 0 = Sunday … 6 = Saturday (1970-01-01 was a Thursday). -/
def weekday (n : Int) : Int := (n + 4) % 7

def yearOf (n : Int) : Int := (toYMD n).1
def monthOf (n : Int) : Int := (toYMD n).2.1
def dayOf (n : Int) : Int := (toYMD n).2.2

/-- boost::gregorian `date + months(k)`: same day of month, except that a date on
    the last day of its month stays on the last day (end-of-month snap), and a day
    that does not exist in the target month is clipped to its last day. -/
def addMonths (n : Int) (k : Int) : Int :=
  let (y, m, d) := toYMD n
  let t := (y * 12 + (m - 1)) + k
  let y' := t / 12
  let m' := t % 12 + 1
  let last := daysInMonth y m
  let last' := daysInMonth y' m'
  let d' := if d = last then last' else if d > last' then last' else d
  ofYMD y' m' d'

def addYears (n : Int) (k : Int) : Int := addMonths n (12 * k)

end Ledger.Cal
