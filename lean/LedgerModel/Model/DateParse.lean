/-
Model of ledger's date reader and date printer (C14).

Mirrors, step by step:
  * src/times.cc 95-108   `date_io_t::parse`: `strptime(str, fmt, &tm)` on a `tm` preset to
                          (current year, January, 1), then `gregorian::date_from_tm`;
  * src/times.cc 74-79    `temporal_io_t::format`: `strftime` with the same format;
  * src/times.cc 126-172  `parse_date_mask_routine`: length limit 127, `.`/`-` → `/`
                          normalisation (unless --input-date-format was given), parse, re-format
                          and compare (a `0` of the re-formatted text may be missing from the
                          input), year inference for formats without a year;
  * src/times.cc 174-184  `parse_date_mask`: first reader whose `strptime` succeeds decides;
  * src/times.cc 1720-1724, 1738-1742  the reader list and `--input-date-format`;
  * src/times.cc 1678-1702 `format_date`.

External and trusted (modelled here from their documentation / source, exercised by the
correspondence check): glibc `strptime` / `strftime` for the directives %Y %y %m %d (and %a %A
%b %B %% on output) in the C locale, boost::gregorian's `date(y,m,d)` range checks
(year 1400..9999, day ≤ length of month), `date - years(1)` (end-of-month snap) and
`day_of_week`.  Text is `List Char`; ledger works on bytes (identical for ASCII).
Core Lean only.
-/
import LedgerModel.Model.Calendar
import LedgerModel.Gen.DateReaders

namespace Ledger.DateParse
open Ledger.Cal

/-! ### Characters -/

def digitVal? : Char → Option Nat
  | '0' => some 0 | '1' => some 1 | '2' => some 2 | '3' => some 3 | '4' => some 4
  | '5' => some 5 | '6' => some 6 | '7' => some 7 | '8' => some 8 | '9' => some 9
  | _ => none

def isDigit (c : Char) : Bool := (digitVal? c).isSome

def digitVal (c : Char) : Nat := (digitVal? c).getD 0

/-- The digit character of `k` (`k < 10`). -/
def digitChar : Nat → Char
  | 0 => '0' | 1 => '1' | 2 => '2' | 3 => '3' | 4 => '4'
  | 5 => '5' | 6 => '6' | 7 => '7' | 8 => '8' | _ => '9'

/-- C `isspace` in the C locale. -/
def isSpace (c : Char) : Bool :=
  c = ' ' || c = '\t' || c = '\n' || c = '\x0b' || c = '\x0c' || c = '\r'

def dropSpaces : List Char → List Char
  | [] => []
  | c :: s => if isSpace c then dropSpaces s else c :: s

/-- Two digits, zero padded (`%02d`, for `0 ≤ k < 100`). -/
def pad2 (k : Nat) : List Char := [digitChar (k / 10), digitChar (k % 10)]

/-- Four digits (`1000 ≤ y ≤ 9999`: what `%Y` prints for every year boost accepts). -/
def digits4 (y : Nat) : List Char :=
  [digitChar (y / 1000), digitChar (y / 100 % 10), digitChar (y / 10 % 10), digitChar (y % 10)]

/-- `%Y` of strftime: at least four digits (glibc pads years below 1000 with zeros;
    boost never lets such a year reach the formatter). -/
def yearText (y : Int) : List Char :=
  if 0 ≤ y ∧ y ≤ 9999 then digits4 y.toNat else (toString y).toList

/-! ### Format strings -/

inductive FItem where
  | lit (c : Char)      -- any other character, including white space
  | year4               -- %Y
  | year2               -- %y
  | month               -- %m
  | day                 -- %d
  | wdayAbbr            -- %a
  | wdayFull            -- %A
  | monAbbr             -- %b
  | monFull             -- %B
  | percent             -- %%
  deriving DecidableEq, Repr

/-- The directives this model knows; any other directive (or a flag such as `%-d`) makes the
    model decline (`none`) rather than guess. -/
def parseFmt : List Char → Option (List FItem)
  | [] => some []
  | '%' :: c :: rest =>
    let item : Option FItem :=
      match c with
      | 'Y' => some .year4 | 'y' => some .year2 | 'm' => some .month | 'd' => some .day
      | 'a' => some .wdayAbbr | 'A' => some .wdayFull | 'b' => some .monAbbr | 'B' => some .monFull
      | '%' => some .percent
      | _ => none
    match item, parseFmt rest with
    | some i, some is => some (i :: is)
    | _, _ => none
  | ['%'] => none
  | c :: rest => (parseFmt rest).map (FItem.lit c :: ·)

/-- times.cc 58: `has_year = icontains(fmt, "%F") || icontains(fmt, "%y")` on the raw text
    (case-insensitive, so `%Y` counts). -/
def hasYearRaw : List Char → Bool
  | '%' :: c :: rest => c = 'y' || c = 'Y' || c = 'f' || c = 'F' || hasYearRaw (c :: rest)
  | _ :: rest => hasYearRaw rest
  | [] => false

/-! ### strptime -/

/-- The digit loop of glibc's `get_number(from, to, n)` after the first digit:
    `while (--n > 0 && val * 10 <= to && isdigit(*rp))`. -/
def getNumLoop (hi : Nat) : Nat → Nat → List Char → Nat × List Char
  | 0, val, s => (val, s)
  | _ + 1, val, [] => (val, [])
  | n + 1, val, c :: s =>
    if val * 10 ≤ hi ∧ isDigit c then getNumLoop hi n (val * 10 + digitVal c) s else (val, c :: s)

/-- glibc `get_number(lo, hi, n)`: skip white space, need one digit, read at most `n` digits
    (stopping early when another digit would exceed `hi`), range check. -/
def getNumber (lo hi n : Nat) (s : List Char) : Option (Nat × List Char) :=
  match dropSpaces s with
  | [] => none
  | c :: rest =>
    if isDigit c then
      let r := getNumLoop hi (n - 1) (digitVal c) rest
      if lo ≤ r.1 ∧ r.1 ≤ hi then some r else none
    else none

/-- The fields of `struct tm` that matter: full year (`tm_year + 1900`), month 1..12, day. -/
structure Tm where
  year : Int
  mon : Nat
  mday : Nat
  deriving DecidableEq, Repr

/-- glibc `strptime` for the modelled directives.  Returns the filled `tm` and the unread
    rest of the input (strptime succeeds as soon as the *format* is exhausted). -/
def strptime : List FItem → List Char → Tm → Option (Tm × List Char)
  | [], s, tm => some (tm, s)
  | .lit c :: fs, s, tm =>
    if isSpace c then strptime fs (dropSpaces s) tm
    else match s with
      | c' :: s' => if c = c' then strptime fs s' tm else none
      | [] => none
  | .percent :: fs, s, tm =>
    match s with
    | c' :: s' => if c' = '%' then strptime fs s' tm else none
    | [] => none
  | .year4 :: fs, s, tm =>
    match getNumber 0 9999 4 s with
    | some (v, r) => strptime fs r { tm with year := v }
    | none => none
  | .year2 :: fs, s, tm =>
    match getNumber 0 99 2 s with
    | some (v, r) => strptime fs r { tm with year := if v ≥ 69 then 1900 + v else 2000 + v }
    | none => none
  | .month :: fs, s, tm =>
    match getNumber 1 12 2 s with
    | some (v, r) => strptime fs r { tm with mon := v }
    | none => none
  | .day :: fs, s, tm =>
    match getNumber 1 31 2 s with
    | some (v, r) => strptime fs r { tm with mday := v }
    | none => none
  | _ :: _, _, _ => none     -- %a %A %b %B are not modelled on input

/-! ### strftime -/

def wdayNames : List String :=
  ["Sunday", "Monday", "Tuesday", "Wednesday", "Thursday", "Friday", "Saturday"]

def monNames : List String :=
  ["January", "February", "March", "April", "May", "June", "July", "August", "September",
   "October", "November", "December"]

def fmtItem (y : Int) (m d : Nat) (wd : Nat) : FItem → List Char
  | .lit c => [c]
  | .percent => ['%']
  | .year4 => yearText y
  | .year2 => pad2 (y % 100).toNat
  | .month => pad2 m
  | .day => pad2 d
  | .wdayFull => (wdayNames.getD wd "?").toList
  | .wdayAbbr => ((wdayNames.getD wd "?").toList).take 3
  | .monFull => (monNames.getD (m - 1) "?").toList
  | .monAbbr => ((monNames.getD (m - 1) "?").toList).take 3

def strftime (fs : List FItem) (y : Int) (m d : Nat) (wd : Nat) : List Char :=
  fs.flatMap (fmtItem y m d wd)

/-! ### parse_date_mask_routine -/

inductive DErr where
  | invalid      -- ledger's date_error "Invalid date: …"
  | badYear      -- boost bad_year "Year is out of valid range: 1400..9999"
  | badDay       -- boost bad_day_of_month "Day of month is not valid for year"
  | unsupported  -- the model does not know a directive of the format (not a ledger error)
  deriving DecidableEq, Repr

/-- `gregorian::date_from_tm`: boost's constructor checks. -/
def dateFromTm (tm : Tm) : Except DErr Int :=
  if tm.year < 1400 ∨ tm.year > 9999 then .error .badYear
  else if validYMD tm.year tm.mon tm.mday then .ok (ofYMD tm.year tm.mon tm.mday)
  else .error .badDay

/-- The comparison loop of times.cc 152-159: `p` is the re-formatted date, `q` the input;
    where they differ and `p` has a `0`, that `0` is skipped once.  True iff both are
    exhausted together. -/
def cmpLoop : List Char → List Char → Bool
  | [], q => q.isEmpty
  | _ :: _, [] => false
  | pc :: ps, qc :: qs =>
    if pc ≠ qc ∧ pc = '0' then
      match ps with
      | [] => false
      | pc2 :: ps2 => if pc2 ≠ qc then false else cmpLoop ps2 qs
    else if pc ≠ qc then false
    else cmpLoop ps qs

/-- times.cc 136-140: `.` and `-` become `/` (the characters are re-extracted: `Gen`). -/
def normChar (c : Char) : Char :=
  if Gen.normalisedSeparators.contains c then Gen.separatorTarget else c

def normSeps (s : List Char) : List Char := s.map normChar

/-- times.cc 168 `when -= gregorian::years(1)`.  With boost's `years` this snaps a last
    day of month to the last day of the target month (`Gen.yearInferenceSnaps`); the
    repaired form constructs `date(year - 1, month, day)` and lets boost reject an
    impossible day. -/
def minusYear (n : Int) : Except DErr Int :=
  if Gen.yearInferenceSnaps then .ok (addYears n (-1))
  else
    let (y, m, d) := toYMD n
    if validYMD (y - 1) m d then .ok (ofYMD (y - 1) m d) else .error .badDay

/-- times.cc 142-171: parse the (normalised) buffer with one reader, re-format, compare, infer
    the year.  `.ok none` = strptime failed (try the next reader), `.ok (some n)` = accepted,
    `.error` = exception (ends the whole parse).  `cur` = (year, month) of `CURRENT_DATE()`. -/
def routineCore (cur : Int × Int) (raw : List Char) (fmt : List FItem) (buf : List Char) :
    Except DErr (Option Int) :=
  match strptime fmt buf { year := cur.1, mon := 1, mday := 1 } with
  | none => .ok none
  | some (tm, _) =>
    match dateFromTm tm with
    | .error e => .error e
    | .ok n =>
      if cmpLoop (strftime fmt tm.year tm.mon tm.mday (weekday n).toNat) buf then
        if hasYearRaw raw then .ok (some n)
        else if (tm.mon : Int) > cur.2 then (minusYear n).map some
        else .ok (some n)
      else .error .invalid

/-- One reader applied to one string (times.cc 126-172 `parse_date_mask_routine`): length
    limit, separator normalisation, then `routineCore`. -/
def routine (conv : Bool) (cur : Int × Int) (raw : List Char) (s : List Char) :
    Except DErr (Option Int) :=
  if s.length > Gen.maxDateLen then .error .invalid
  else
    match parseFmt raw with
    | none => .error .unsupported
    | some fmt => routineCore cur raw fmt (if conv then normSeps s else s)

/-- times.cc 174-184 `parse_date_mask`. -/
def readLoop (conv : Bool) (cur : Int × Int) : List (List Char) → List Char → Except DErr Int
  | [], _ => .error .invalid
  | r :: rs, s =>
    match routine conv cur r s with
    | .error e => .error e
    | .ok (some n) => .ok n
    | .ok none => readLoop conv cur rs s

/-- The reader list in force: `--input-date-format F` pushes `F` in front and switches the
    separator normalisation off (times.cc 1720-1724). -/
def readersFor (inputFmt : Option (List Char)) : List (List Char) :=
  match inputFmt with
  | none => Gen.dateReaders.map String.toList
  | some f => f :: Gen.dateReaders.map String.toList

/-- `parse_date(str)`: day number (days since 1970-01-01) or the error. -/
def parseDate (inputFmt : Option (List Char)) (cur : Int × Int) (s : List Char) : Except DErr Int :=
  readLoop (inputFmt.isNone && Gen.convertSeparatorsDefault) cur (readersFor inputFmt) s

/-- `format_date(when, FMT_CUSTOM, fmt)`; `none` when the model does not know a directive. -/
def formatDate (raw : List Char) (n : Int) : Option (List Char) :=
  match parseFmt raw with
  | none => none
  | some fmt =>
    let (y, m, d) := toYMD n
    some (strftime fmt y m.toNat d.toNat (weekday n).toNat)

end Ledger.DateParse
