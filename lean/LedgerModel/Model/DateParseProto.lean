/-
Driver ops for the date model (C14).  Fields are TAB-separated; text fields are
percent-encoded (`%XX` for bytes outside 0x21..0x7e and for `%`).

  date.parse   TEXT  CURYEAR  CURMONTH  INFMT     ->  ok Y-M-D | err invalid|badYear|badDay|unsupported
               (INFMT: `-` = no --input-date-format, otherwise `=` followed by the encoded format)
  date.format  DAYNUMBER  FMT                     ->  ok TEXT | err unsupported
  date.weekday DAYNUMBER                          ->  ok 0..6   (0 = Sunday)
  cal.ofymd    Y M D                              ->  ok DAYNUMBER VALID(0|1)
  cal.toymd    DAYNUMBER                          ->  ok Y M D
-/
import LedgerModel.Model.Proto
import LedgerModel.Model.DateParse

namespace Ledger.DateParseProto
open Ledger.Cal Ledger.DateParse

def hexVal? (c : Char) : Option Nat :=
  if '0' ≤ c ∧ c ≤ '9' then some (c.toNat - '0'.toNat)
  else if 'a' ≤ c ∧ c ≤ 'f' then some (c.toNat - 'a'.toNat + 10)
  else if 'A' ≤ c ∧ c ≤ 'F' then some (c.toNat - 'A'.toNat + 10)
  else none

def decode : List Char → Option (List Char)
  | [] => some []
  | '%' :: a :: b :: rest =>
    match hexVal? a, hexVal? b, decode rest with
    | some x, some y, some r => some (Char.ofNat (x * 16 + y) :: r)
    | _, _, _ => none
  | '%' :: _ => none
  | c :: rest => (decode rest).map (c :: ·)

def hexDigit (n : Nat) : Char :=
  if n < 10 then Char.ofNat ('0'.toNat + n) else Char.ofNat ('A'.toNat + n - 10)

def encode : List Char → List Char
  | [] => []
  | c :: rest =>
    if c.toNat < 0x21 ∨ c.toNat > 0x7e ∨ c = '%' then
      '%' :: hexDigit (c.toNat / 16 % 16) :: hexDigit (c.toNat % 16) :: encode rest
    else c :: encode rest

def errName : DErr → String
  | .invalid => "invalid" | .badYear => "badYear" | .badDay => "badDay" | .unsupported => "unsupported"

def ymdStr (n : Int) : String :=
  let (y, m, d) := toYMD n
  s!"{y}-{m}-{d}"

def opParse (args : List String) : String :=
  match args with
  | [text, cy, cm, infmt] =>
    match decode text.toList, cy.toInt?, cm.toInt? with
    | some t, some y, some m =>
      let inf : Option (Option (List Char)) :=
        if infmt = "-" then some none
        else match infmt.toList with
          | '=' :: f => (decode f).map some
          | _ => none
      match inf with
      | none => "err\tbad-op"
      | some inf =>
        match parseDate inf (y, m) t with
        | .ok n => "ok\t" ++ ymdStr n
        | .error e => "err\t" ++ errName e
    | _, _, _ => "err\tbad-op"
  | _ => "err\tbad-op"

def opFormat (args : List String) : String :=
  match args with
  | [n, fmt] =>
    match n.toInt?, decode fmt.toList with
    | some n, some f =>
      match formatDate f n with
      | some t => "ok\t" ++ String.ofList (encode t)
      | none => "err\tunsupported"
    | _, _ => "err\tbad-op"
  | _ => "err\tbad-op"

def opWeekday (args : List String) : String :=
  match args with
  | [n] => match n.toInt? with
    | some n => s!"ok\t{weekday n}"
    | none => "err\tbad-op"
  | _ => "err\tbad-op"

def opOfYMD (args : List String) : String :=
  match args with
  | [y, m, d] =>
    match y.toInt?, m.toInt?, d.toInt? with
    | some y, some m, some d => s!"ok\t{ofYMD y m d}\t{boolStr (validYMD y m d)}"
    | _, _, _ => "err\tbad-op"
  | _ => "err\tbad-op"

def opToYMD (args : List String) : String :=
  match args with
  | [n] => match n.toInt? with
    | some n => let (y, m, d) := toYMD n; s!"ok\t{y}\t{m}\t{d}"
    | none => "err\tbad-op"
  | _ => "err\tbad-op"

def ops : List (String × (List String → String)) :=
  [("date.parse", opParse), ("date.format", opFormat), ("date.weekday", opWeekday),
   ("cal.ofymd", opOfYMD), ("cal.toymd", opToYMD)]

end Ledger.DateParseProto
