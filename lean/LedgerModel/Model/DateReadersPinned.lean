/- Pinned copy of Gen/DateReaders.lean: the source text this model was written against (hand-maintained; refresh with tools/repin.py together with the model). -/
namespace Ledger.Pinned

/-- times.cc `times_initialize`: the date readers, in the order they are tried. -/
def dateReaders : List String := ["%m/%d", "%Y/%m/%d", "%Y/%m", "%y/%m/%d", "%Y-%m-%d"]

/-- times.cc `times_initialize`: format used when ledger writes a date (`print`, `format_date(d)`). -/
def writtenDateFormat : String := "%Y/%m/%d"

/-- times.cc `times_initialize`: format of `FMT_PRINTED` dates (register column). -/
def printedDateFormat : String := "%y-%b-%d"

def writtenDatetimeFormat : String := "%Y/%m/%d %H:%M:%S"
def printedDatetimeFormat : String := "%y-%b-%d %H:%M:%S"
def inputDatetimeFormat : String := "%Y/%m/%d %H:%M:%S"
def timelogDatetimeFormat : String := "%m/%d/%Y %H:%M:%S"

/-- times.cc: initial value of `convert_separators_to_slashes`. -/
def convertSeparatorsDefault : Bool := true

/-- times.cc `parse_date_mask_routine`: the characters rewritten, and what they become. -/
def normalisedSeparators : List Char := ['.', '-']
def separatorTarget : Char := '/'

/-- times.cc `parse_date_mask_routine`: longest accepted date text (bytes). -/
def maxDateLen : Nat := 127

/-- times.cc 164-169: is the year of a format without a year moved back with boost's
    `years(1)` subtraction (which snaps a last day of month to the last day of the target
    month), as opposed to constructing `date(year - 1, month, day)`? -/
def yearInferenceSnaps : Bool := false

/-- textual.cc `apply_year_directive`: (month, day) the clock is set to in the given year. -/
def yearDirectiveMonthDay : Nat × Nat := (12, 31)

/-- Normalised bodies of the functions Model/DateParse.lean mirrors (the interpreted
    year-inference statement is masked). -/
def dateFns : List (String × String) := [
  ("times.cc:date_io_t::parse", "std::tm data; std::memset(&data, 0, sizeof(std::tm)); data.tm_year = CURRENT_DATE().year() - 1900; data.tm_mday = 1; if (strptime(str, fmt_str.c_str(), &data)) return gregorian::date_from_tm(data); else return date_t();"),
  ("times.cc:temporal_io_t::format", "std::tm data(to_tm(when)); char buf[128]; std::size_t len = std::strftime(buf, 127, fmt_str.c_str(), &data); return std::string(buf, len);"),
  ("times.cc:temporal_io_t::traits", "fmt_str(_fmt_str), traits(icontains(fmt_str, \"%F\") || icontains(fmt_str, \"%y\"), icontains(fmt_str, \"%F\") || icontains(fmt_str, \"%m\") || icontains(fmt_str, \"%b\"), icontains(fmt_str, \"%F\") || icontains(fmt_str, \"%d\")), input(_input)"),
  ("times.cc:parse_date_mask_routine", "if (std::strlen(date_str) > 127) { throw_(date_error, _f(\"Invalid date: %1%\") % date_str); } char buf[128]; std::strcpy(buf, date_str); if (convert_separators_to_slashes) { for (char * p = buf; *p; p++) if (*p == '.' || *p == '-') *p = '/'; } date_t when = io.parse(buf); if (! when.is_not_a_date()) { DEBUG(\"times.parse\", \"Passed date string: \" << date_str); DEBUG(\"times.parse\", \"Parsed date string: \" << buf); DEBUG(\"times.parse\", \"Parsed result is: \" << when); DEBUG(\"times.parse\", \"Formatted result is: \" << io.format(when)); string when_str = io.format(when); const char * p = when_str.c_str(); const char * q = buf; for (; *p && *q; p++, q++) { if (*p != *q && *p == '0') p++; if (! *p || *p != *q) break; } if (*p != '\\0' || *q != '\\0') throw_(date_error, _f(\"Invalid date: %1%\") % date_str); if (traits) *traits = io.traits; if (! io.traits.has_year) { when = date_t(CURRENT_DATE().year(), when.month(), when.day()); if (when.month() > CURRENT_DATE().month()) <YEAR-INFERENCE> } } return when;"),
  ("times.cc:parse_date_mask", "foreach (shared_ptr<date_io_t>& reader, readers) { date_t when = parse_date_mask_routine(date_str, *reader.get(), traits); if (! when.is_not_a_date()) return when; } throw_(date_error, _f(\"Invalid date: %1%\") % date_str); return date_t();"),
  ("times.cc:parse_date", "return parse_date_mask(str);"),
  ("times.cc:format_date", "if (format_type == FMT_WRITTEN) { return written_date_io->format(when); } else if (format_type == FMT_CUSTOM && format) { date_io_map::iterator i = temp_date_io.find(*format); if (i != temp_date_io.end()) { return (*i).second->format(when); } else { date_io_t * formatter = new date_io_t(*format, false); temp_date_io.insert(date_io_map::value_type(*format, formatter)); return formatter->format(when); } } else if (format_type == FMT_PRINTED) { return printed_date_io->format(when); } else { assert(false); return empty_string; }"),
  ("times.cc:set_input_date_format", "readers.push_front(shared_ptr<date_io_t>(new date_io_t(format, true))); convert_separators_to_slashes = false;"),
  ("textual.cc:apply_year_directive", "try { unsigned short year(lexical_cast<unsigned short>(skip_ws(line))); apply_stack.push_front(application_t(\"year\", epoch)); DEBUG(\"times.epoch\", \"Setting current year to \" << year); epoch = datetime_t(date_t(year, 12, 31)); } catch(bad_lexical_cast &) { throw_(parse_error, _f(\"Argument '%1%' not a valid year\") % skip_ws(line)); }")
]

end Ledger.Pinned
