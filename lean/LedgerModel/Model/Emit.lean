/-
Emit — the escaping layer of ledger's machine-readable reports (csv, xml,
emacs) and the conventional readers of those formats (C18).

Everything is over `List Char` (`Str`).  The escape tables are NOT written
here: they are `Ledger.Gen.*` (regenerated from report.cc / emacs.cc / the
boost header on every run, tools/extract_emit.py), so every theorem about
`csvQuote`, `emacsEscape`, `xmlEscape` is re-proved against what the source
says now.

  report.cc 798-813  fn_quoted       -> `csvQuote`      (loop body = `escChar Gen.quotedPairs`)
  report.cc 815-830  fn_quoted_rfc   -> `csvQuoteRfc`
  report.h  527-538  csv_format_     -> `csvRow` (comma-joined quoted columns, newline)
  emacs.cc  114-118  escape_string   -> `emacsEscape`   (the replace_all calls, in program order)
  emacs.cc  42-112   write_xact/()   -> `emacsHeader`, `emacsPost`, `emacsDoc`
  ptree.cc  84       write_xml       -> external (boost); its `encode_char_entities`
                                        is specified as `xmlEscape` from the table read
                                        out of the header, and checked by correspondence
-/
import LedgerModel.Gen.Emit

namespace Ledger.Emit

abbrev Str := List Char

/-! ## the per-character escape loop -/

/-- One iteration of `foreach (const char ch, arg) { if (ch == K) out << V; … else out << ch; }`. -/
def escChar (ps : List (Char × Str)) (c : Char) : Str :=
  match ps.lookup c with
  | some r => r
  | none => [c]

/-- The whole loop. -/
def escape (ps : List (Char × Str)) : Str → Str
  | [] => []
  | c :: s => escChar ps c ++ escape ps s

/-! ## CSV -/

/-- report.cc `fn_quoted` (`quoted(x)` in format strings). -/
def csvQuote (s : Str) : Str := Gen.quotedOpen ++ escape Gen.quotedPairs s ++ Gen.quotedClose

/-- report.cc `fn_quoted_rfc`. -/
def csvQuoteRfc (s : Str) : Str := Gen.quotedRfcOpen ++ escape Gen.quotedRfcPairs s ++ Gen.quotedRfcClose

def joinSep (sep : Str) : List Str → Str
  | [] => []
  | [x] => x
  | x :: y :: r => x ++ sep ++ joinSep sep (y :: r)

/-- One record: the columns, each through the quoting function `q`, joined by
    commas, ended by a newline (the shape of report.h's default `csv_format_`,
    see `C18.csv_format_shape`). -/
def csvRowWith (q : Str → Str) (fields : List Str) : Str := joinSep [','] (fields.map q) ++ ['\n']

def csvDocWith (q : Str → Str) : List (List Str) → Str
  | [] => []
  | row :: rows => csvRowWith q row ++ csvDocWith q rows

/-- ledger's `csv` report as shipped: columns through `quoted()`. -/
def csvRow (fields : List Str) : Str := csvRowWith csvQuote fields
def csvDoc (rows : List (List Str)) : Str := csvDocWith csvQuote rows
/-- the same rows through `quoted_rfc()` -/
def csvRowRfc (fields : List Str) : Str := csvRowWith csvQuoteRfc fields
def csvDocRfc (rows : List (List Str)) : Str := csvDocWith csvQuoteRfc rows

/-- The two conventional ways a CSV reader undoes quoting inside a quoted field:
    RFC 4180 (`""` is a quote) and the backslash dialect (`\c` is `c`; Python's
    `csv.reader(escapechar='\\', doublequote=False)`, MySQL, PostgreSQL `COPY`). -/
inductive Dialect | rfc | backslash
deriving DecidableEq, Repr

inductive CsvSt | row | field | quoted | escaped | closing
deriving DecidableEq, Repr

/-- add a character in front of the first field of the first record -/
def pushChar (c : Char) : List (List Str) → List (List Str)
  | (f :: row) :: rows => ((c :: f) :: row) :: rows
  | [] :: rows => [[c]] :: rows
  | [] => [[[c]]]

def pushStr : Str → List (List Str) → List (List Str)
  | [], d => d
  | c :: s, d => pushChar c (pushStr s d)

/-- open a new (empty) first field in the first record -/
def pushField : List (List Str) → List (List Str)
  | row :: rows => ([] :: row) :: rows
  | [] => [[[]]]

/-- open a new first record holding one empty field -/
def pushRow (d : List (List Str)) : List (List Str) := [[]] :: d

/-- A CSV reader for documents whose fields are all quoted (which is what
    ledger writes): records end with a newline, fields are separated by
    commas, and inside a field the dialect's escape is undone.  Quoted fields may
    hold commas and newlines.  `none` = malformed.  One character per step;
    states: at the start of a record / of a field, inside a quoted field, after
    the backslash of an escape, after a quote seen inside a quoted field.
    It is a restriction of the conventional readers (they also accept bare
    fields); wherever it answers `some d` they answer `d` (checked against
    Python's `csv` on ledger's output). -/
def csvGo (dl : Dialect) : CsvSt → Str → Option (List (List Str))
  | .row, [] => some []
  | .row, c :: r => if c = '"' then csvGo dl .quoted r else none
  | .field, [] => none
  | .field, c :: r => if c = '"' then csvGo dl .quoted r else none
  | .quoted, [] => none
  | .quoted, c :: r =>
    if c = '\\' ∧ dl = .backslash then csvGo dl .escaped r
    else if c = '"' then csvGo dl .closing r
    else (csvGo dl .quoted r).map (pushChar c)
  | .escaped, [] => none
  | .escaped, c :: r => (csvGo dl .quoted r).map (pushChar c)
  | .closing, [] => none
  | .closing, c :: r =>
    if c = '"' ∧ dl = .rfc then (csvGo dl .quoted r).map (pushChar '"')
    else if c = ',' then (csvGo dl .field r).map pushField
    else if c = '\n' then (csvGo dl .row r).map pushRow
    else none

def csvReadRfc (s : Str) : Option (List (List Str)) := csvGo .rfc .row s
def csvReadBackslash (s : Str) : Option (List (List Str)) := csvGo .backslash .row s

/-- Does the source's `quoted()` escape the backslash as well (as `\\`)?  Read
    from `Gen.quotedPairs`; false on the pinned tree. -/
def quotedEscapesBackslash : Bool := Gen.quotedPairs.lookup '\\' == some ['\\', '\\']

def noBackslash (s : Str) : Bool := s.all (· != '\\')

/-- the text of a csv format made of the columns `cols`, each through `quoter` -/
def csvFormatOf (quoter : String) (cols : List String) : String :=
  ",".intercalate (cols.map (fun e => "%(" ++ quoter ++ "(" ++ e ++ "))")) ++ "\n"

/-- Does the shipped csv format go through `quoted_rfc` (else `quoted`)? -/
def shipsRfc : Bool := Gen.csvQuoter == "quoted_rfc"

/-- the quoting function of the shipped `csv` report and the dialect that reads it -/
def ledgerQuote (s : Str) : Str := if shipsRfc then csvQuoteRfc s else csvQuote s
def ledgerDialect : Dialect := if shipsRfc then .rfc else .backslash
def ledgerCsvRow (fields : List Str) : Str := csvRowWith ledgerQuote fields
def ledgerCsvDoc (rows : List (List Str)) : Str := csvDocWith ledgerQuote rows
def ledgerCsvRead (s : Str) : Option (List (List Str)) := csvGo ledgerDialect .row s

/-- report.cc `fn_join` (`join(x)` in format strings): the note column of the
    csv report goes through it before it is quoted; a newline becomes the two
    characters `\\n`, every other character (any byte, any script) is copied. -/
def joinLines (s : Str) : Str := escape Gen.joinPairs s

/-- undo `joinLines` (a reader of the note column): `\\n` is a newline -/
def unjoinLines : Bool → Str → Str
  | false, [] => []
  | true, [] => ['\\']
  | false, c :: r => if c = '\\' then unjoinLines true r else c :: unjoinLines false r
  | true, c :: r => if c = 'n' then '\n' :: unjoinLines false r
                    else if c = '\\' then '\\' :: unjoinLines true r
                    else '\\' :: c :: unjoinLines false r

/-- which columns of the shipped format apply `join(...)` to their value -/
def columnJoins : List Bool := Gen.csvColumns.map (fun e => e.startsWith "join(")

def applyJoins : List Bool → List Str → List Str
  | j :: js, f :: fs => (if j then joinLines f else f) :: applyJoins js fs
  | _, fs => fs

/-- One record of the shipped `csv` report from the raw values of its columns
    (the note column as the journal holds it, newlines included). -/
def ledgerCsvRecord (raw : List Str) : Str := ledgerCsvRow (applyJoins columnJoins raw)

/-- Is the shipped `csv` report readable by its dialect for every field?  Read
    from the source: it is when the format uses `quoted_rfc`, or when `quoted`
    escapes the backslash too.  False on the pinned tree. -/
def csvFaithful : Bool := shipsRfc || quotedEscapesBackslash

/-! ## XML character data -/

def allBlank (s : Str) : Bool := s.all (· == ' ')

/-- boost `encode_char_entities` (xml_parser_utils.hpp): a non-empty text made
    of blanks only gets its first blank written as a character reference; any
    other text goes through the entity table character by character. -/
def xmlEscape (s : Str) : Str :=
  match s with
  | [] => []
  | _ :: t => if allBlank s then Gen.xmlBlankRef ++ t else escape Gen.xmlEntityPairs s

def digitsVal : Str → Nat → Nat
  | [], acc => acc
  | c :: r, acc => digitsVal r (acc * 10 + (c.toNat - '0'.toNat))

/-- XML 1.0 §2.2 `Char`: the code points a character reference may denote. -/
def xmlCharOk (n : Nat) : Bool :=
  n == 9 || n == 10 || n == 13 || (32 ≤ n && n < 0xD800) || (0xE000 ≤ n && n ≤ 0xFFFD) || (0x10000 ≤ n && n < 0x110000)

/-- What a reference `&nm;` stands for: one of the entities of the writer's own
    table (the five predefined entities of XML 1.0 §4.6) or a decimal character
    reference. -/
def refChar (nm : Str) : Option Char :=
  match Gen.xmlEntityPairs.find? (fun p => p.2 = '&' :: nm ++ [';']) with
  | some p => some p.1
  | none =>
    match nm with
    | '#' :: ds =>
      let n := digitsVal ds 0
      if ds ≠ [] ∧ ds.all Char.isDigit ∧ xmlCharOk n then some (Char.ofNat n) else none
    | _ => none

/-- Reader of XML character data (content of an element without child
    elements): `&name;` references are resolved, a bare `<` or an unterminated /
    unknown reference is malformed.  First argument: the reference name being
    collected (reversed), if any. -/
def xmlGo : Option Str → Str → Option Str
  | none, [] => some []
  | some _, [] => none
  | none, c :: r =>
    if c = '&' then xmlGo (some []) r
    else if c = '<' then none
    else (xmlGo none r).map (c :: ·)
  | some nm, c :: r =>
    if c = ';' then
      match refChar nm.reverse with
      | some ch => (xmlGo none r).map (ch :: ·)
      | none => none
    else xmlGo (some (c :: nm)) r

def xmlUnescape (s : Str) : Option Str := xmlGo none s

/-! ## Emacs s-expressions -/

/-- boost `replace_all(raw, K, V)` for a one-character pattern. -/
def replaceAll (k : Char) (v : Str) : Str → Str
  | [] => []
  | c :: s => (if c = k then v else [c]) ++ replaceAll k v s

/-- emacs.cc `escape_string`: the `replace_all` calls applied one after the other. -/
def emacsEscape (s : Str) : Str :=
  Gen.emacsEscapePairs.foldl (fun acc p => replaceAll p.1 p.2 acc) s

def emacsStr (s : Str) : Str := '"' :: emacsEscape s ++ ['"']

/-- Body of a Lisp string literal (after the opening quote): value and the text
    after the closing quote.  `\\` and `\"` are the only escapes accepted.  The
    Boolean says whether the previous character was the escaping backslash. -/
def sexpStrBody : Bool → Str → Option (Str × Str)
  | _, [] => none
  | false, c :: r =>
    if c = '"' then some ([], r)
    else if c = '\\' then sexpStrBody true r
    else (sexpStrBody false r).map (fun p => (c :: p.1, p.2))
  | true, c :: r =>
    if c = '\\' ∨ c = '"' then (sexpStrBody false r).map (fun p => (c :: p.1, p.2)) else none

def sexpReadString : Str → Option (Str × Str)
  | [] => none
  | c :: r => if c = '"' then sexpStrBody false r else none

inductive ScanSt | code | str | esc
deriving DecidableEq, Repr

/-- Parenthesis depth at the end of the text, as a Lisp reader counts it:
    parentheses inside string literals do not count.  `none` = a `)` with
    nothing to close, or the text ends inside a string. -/
def sexpScan : Nat → ScanSt → Str → Option Nat
  | d, .code, [] => some d
  | _, .str, [] => none
  | _, .esc, [] => none
  | d, .code, c :: r =>
    if c = '"' then sexpScan d .str r
    else if c = '(' then sexpScan (d + 1) .code r
    else if c = ')' then (if d = 0 then none else sexpScan (d - 1) .code r)
    else sexpScan d .code r
  | d, .str, c :: r =>
    if c = '\\' then sexpScan d .esc r
    else if c = '"' then sexpScan d .code r
    else sexpScan d .str r
  | d, .esc, _ :: r => sexpScan d .str r

def natStr (n : Nat) : Str := Nat.toDigits 10 n

def intStr : Int → Str
  | .ofNat n => natStr n
  | .negSucc n => '-' :: natStr (n + 1)

inductive PState | uncleared | cleared | pending
deriving DecidableEq, Repr

structure EPost where
  line : Int
  account : Str
  amount : Str
  state : PState
  cost : Option Str
  note : Option Str

structure EXact where
  file : Str
  line : Int
  dateHi : Int
  dateLo : Int
  code : Option Str
  payee : Str
  posts : List EPost

def paren (s : Str) : Str := '(' :: s ++ [')']

/-- emacs.cc 42-67 `write_xact`:
    `"FILE" LINE (HI LO 0) "CODE"|nil "PAYEE"|nil\n`. -/
def emacsHeader (x : EXact) : Str :=
  emacsStr x.file ++ [' '] ++ intStr x.line ++ [' ']
  ++ paren (intStr x.dateHi ++ [' '] ++ intStr x.dateLo ++ [' ', '0']) ++ [' ']
  ++ (match x.code with | some c => emacsStr c ++ [' '] | none => ['n', 'i', 'l', ' '])
  ++ (if x.payee = [] then ['n', 'i', 'l'] else emacsStr x.payee)
  ++ ['\n']

def emacsState : PState → Str
  | .uncleared => [' ', 'n', 'i', 'l']
  | .cleared => [' ', 't']
  | .pending => [' ', 'p', 'e', 'n', 'd', 'i', 'n', 'g']

def emacsOpt : Option Str → Str
  | some c => ' ' :: emacsStr c
  | none => []

/-- emacs.cc 85-106: one posting,
    `  (LINE "ACCOUNT" "AMOUNT" nil|t|pending ["COST"] ["NOTE"])`. -/
def emacsPost (p : EPost) : Str :=
  [' ', ' '] ++ paren (intStr p.line ++ [' '] ++ emacsStr p.account ++ [' '] ++ emacsStr p.amount
    ++ emacsState p.state ++ emacsOpt p.cost ++ emacsOpt p.note)

def emacsPosts : List EPost → Str
  | [] => []
  | [p] => emacsPost p
  | p :: q :: r => emacsPost p ++ ['\n'] ++ emacsPosts (q :: r)

def emacsXact (x : EXact) : Str := emacsHeader x ++ emacsPosts x.posts

def emacsMore : List EXact → Str
  | [] => []
  | y :: ys => [')', '\n', ' ', '('] ++ emacsXact y ++ emacsMore ys

/-- emacs.cc 69-84 + emacs.h flush: `((` X `)\n (` X … `))\n`; nothing at all
    when there is no transaction. -/
def emacsDoc : List EXact → Str
  | [] => []
  | x :: xs => ['(', '('] ++ emacsXact x ++ emacsMore xs ++ [')', ')', '\n']

end Ledger.Emit
