/- Driver ops for the escaping layers of the csv / xml / emacs reports (C18).
   Strings travel as `.`-separated decimal code points (the empty string is the
   empty field), so that tabs, newlines and any script pass through the
   line protocol untouched.  Lists of strings: every element followed by `,`;
   lists of lists: every row followed by `;`. -/
import LedgerModel.Model.Emit
import LedgerModel.Model.Proto

namespace Ledger.EmitProto
open Ledger.Emit

def decStr? (s : String) : Option Str :=
  if s.isEmpty then some [] else
  optAll (fun (t : String) => t.toNat?.bind (fun n => if n < 0x110000 then some (Char.ofNat n) else none)) (s.splitOn ".")

def encStr (s : Str) : String := ".".intercalate (s.map (fun c => toString c.toNat))

/-- `a,b,` → [a, b] -/
def decList? (s : String) : Option (List Str) :=
  match (s.splitOn ",").reverse with
  | last :: rest => if last.isEmpty then optAll decStr? rest.reverse else none
  | [] => none

def encList (l : List Str) : String := String.join (l.map (fun s => encStr s ++ ","))

def encRows (d : List (List Str)) : String := String.join (d.map (fun r => encList r ++ ";"))

def decRows? (s : String) : Option (List (List Str)) :=
  match (s.splitOn ";").reverse with
  | last :: rest => if last.isEmpty then optAll decList? rest.reverse else none
  | [] => none

def decOpt? (s : String) : Option (Option Str) :=
  if s = "-" then some none else (decStr? s).map some

def okStr (s : Str) : String := "ok\t" ++ encStr s

def unary (f : Str → Str) : List String → String
  | [a] => match decStr? a with
    | some s => okStr (f s)
    | none => "err\tbad-op"
  | _ => "err\tbad-op"

def decState? (s : String) : Option PState :=
  if s = "n" then some .uncleared else if s = "c" then some .cleared else if s = "p" then some .pending else none

def decPost? (s : String) : Option EPost :=
  match s.splitOn "," with
  | [line, acct, amt, st, cost, note] => do
    let line ← line.toInt?
    let acct ← decStr? acct
    let amt ← decStr? amt
    let st ← decState? st
    let cost ← decOpt? cost
    let note ← decOpt? note
    pure { line := line, account := acct, amount := amt, state := st, cost := cost, note := note }
  | _ => none

def decXact? (s : String) : Option EXact :=
  match s.splitOn ";" with
  | hdr :: posts =>
    match hdr.splitOn "," with
    | [file, line, hi, lo, code, payee] => do
      let file ← decStr? file
      let line ← line.toInt?
      let hi ← hi.toInt?
      let lo ← lo.toInt?
      let code ← decOpt? code
      let payee ← decStr? payee
      let posts ← optAll decPost? posts
      pure { file := file, line := line, dateHi := hi, dateLo := lo, code := code, payee := payee, posts := posts }
    | _ => none
  | [] => none

def boolStr' (b : Bool) : String := if b then "1" else "0"

def ops : List (String × (List String → String)) := [
  ("emit.info", fun
    | [] => s!"ok\tquoter={Gen.csvQuoter}\tfaithful={boolStr' csvFaithful}\tbackslash={boolStr' quotedEscapesBackslash}\txmlsrc={Gen.xmlEntitySource}\tcols={encList (Gen.csvColumns.map String.toList)}"
    | _ => "err\tbad-op"),
  ("emit.csvquote", unary csvQuote),
  ("emit.csvquoterfc", unary csvQuoteRfc),
  ("emit.csvrow", fun
    | [a] => match decList? a with
      | some fs => okStr (ledgerCsvRow fs)
      | none => "err\tbad-op"
    | _ => "err\tbad-op"),
  ("emit.csvrecord", fun
    | [a] => match decList? a with
      | some fs => okStr (ledgerCsvRecord fs)
      | none => "err\tbad-op"
    | _ => "err\tbad-op"),
  ("emit.join", unary joinLines),
  ("emit.csvrowrfc", fun
    | [a] => match decList? a with
      | some fs => okStr (csvRowRfc fs)
      | none => "err\tbad-op"
    | _ => "err\tbad-op"),
  ("emit.csvread", fun
    | [dl, a] =>
      let dl? : Option Dialect :=
        if dl = "rfc" then some .rfc else if dl = "backslash" then some .backslash
        else if dl = "ledger" then some ledgerDialect else none
      match dl?, decStr? a with
      | some d, some s => match csvGo d .row s with
        | some rows => "ok\t" ++ encRows rows
        | none => "err\tmalformed"
      | _, _ => "err\tbad-op"
    | _ => "err\tbad-op"),
  ("emit.xmlesc", unary xmlEscape),
  ("emit.xmlunesc", fun
    | [a] => match decStr? a with
      | some s => match xmlUnescape s with
        | some r => okStr r
        | none => "err\tmalformed"
      | none => "err\tbad-op"
    | _ => "err\tbad-op"),
  ("emit.emacsesc", unary emacsEscape),
  ("emit.sexpstr", fun
    | [a] => match decStr? a with
      | some s => match sexpReadString s with
        | some (v, rest) => "ok\t" ++ encStr v ++ "\t" ++ encStr rest
        | none => "err\tmalformed"
      | none => "err\tbad-op"
    | _ => "err\tbad-op"),
  ("emit.sexpscan", fun
    | [a] => match decStr? a with
      | some s => match sexpScan 0 .code s with
        | some d => s!"ok\t{d}"
        | none => "err\tunbalanced"
      | none => "err\tbad-op"
    | _ => "err\tbad-op"),
  ("emit.emacsdoc", fun
    | [a] =>
      match (if a.isEmpty then some [] else optAll decXact? (a.splitOn "|")) with
      | some xs => okStr (emacsDoc xs)
      | none => "err\tbad-op"
    | _ => "err\tbad-op")
]

end Ledger.EmitProto
