/-
C12 — error accounting of the journal loader, report suppression and exit status.

What is mirrored (file:line of /repo/src at the pinned commit):

* textual.cc 242-302 `instance_t::parse`: the line loop calls
  `read_next_directive(error_flag, …)` inside `try`; the `catch (const
  std::exception&)` block sets `error_flag = true`, prints the include chain
  (`In file included from "F", line N:`, outermost first, 262-273), the file's own
  context (`While parsing file "F", line N:`, 274, `context.location()` =
  `file_context(pathname, linenum)`, context.h 103-105, error.cc 52-57), the
  pending context and `Error: <what>`, then `context.errors++` (294).
* textual.cc 368-380 `read_next_directive`: a non-indented line clears
  `error_flag`; an indented line is the error "Unexpected whitespace at beginning
  of line" *unless* `error_flag` is set — so the indented remainder of an item
  that already failed is swallowed and the item is counted once.
* textual.cc 753-843 `include_directive`: the included file is parsed by a
  child `instance_t` on a fresh context (errors = 0) and its count is added to the
  including context afterwards (`errors += context_stack.get_current().errors`,
  821 and 829); a missing file is one error of the including file.
* textual.cc 2096-2098 `journal_t::read_textual`: `if (errors > 0) throw
  error_count(errors, last)`.
* session.cc 190-214 `read_data`: one `journal->read` per `-f` file, in command
  line order; an exception leaves the loop (later files are not read).
* global.cc 227 / 236-257: `session().read_journal_files()` runs before the
  output stream is initialised and before `command(command_args)`; `error_count`
  is not a `std::exception` (error.h 95-100), so it passes through
  `execute_command_wrapper` (global.cc 276-296) to main.cc 204-208, whose handler
  computes the process status: `Gen.exitStatusExpr`.
* The operating system keeps the low 8 bits of main()'s return value
  (`osTruncate`, a stated assumption; exit(3), wait(2)).

Items are classified by the generator (kind of fault); which journal text is
unbalanced / a malformed date / … is the subject of C01, C09, C14 — here the
classification is an input and the binary's agreement with it is part of the
correspondence check.
-/
import LedgerModel.Model.Journal
import LedgerModel.Gen.ExitStatus

namespace Ledger
namespace Errors

/-- `journal_t::checking_style` as selected by session.cc 119-127: none of the
    options, `--strict` (CHECK_WARNING), `--pedantic` (CHECK_ERROR). -/
inductive Mode where
  | normal | strict | pedantic
deriving DecidableEq, Repr

structure Cfg where
  mode        : Mode
  /-- `--check-payees` (session.cc 116-117, journal.cc 240-243). -/
  checkPayees : Bool
deriving DecidableEq, Repr

/-- What is wrong with a top-level item, if anything. -/
inductive Kind where
  | valid
  | unbalanced        -- xact.cc finalize: "Transaction does not balance"
  | badDate           -- header date does not parse
  | badAmount         -- a posting amount does not parse
  | failedAssert      -- `= AMOUNT` balance assertion off (textual.cc 1714-…)
  | unknownAccount    -- journal.cc 141-155
  | unknownCommodity  -- journal.cc 263-279
  | unknownPayee      -- journal.cc 225-238
  | unknownTag        -- journal.cc 281-298 (register_metadata, called from add_xact's check_all_metadata)
  | badDirective      -- a one-line directive that throws (bad `P` date, include of a missing file)
deriving DecidableEq, Repr

inductive Sev where
  | none | warn | error
deriving DecidableEq, Repr

/-- Severity of a kind under the checking style. -/
def Kind.sev (cfg : Cfg) : Kind → Sev
  | .valid => .none
  | .unbalanced | .badDate | .badAmount | .failedAssert | .badDirective => .error
  | .unknownAccount | .unknownCommodity | .unknownTag =>
    match cfg.mode with
    | .normal => .none
    | .strict => .warn
    | .pedantic => .error
  | .unknownPayee =>
    if cfg.checkPayees then
      match cfg.mode with
      | .normal => .none
      | .strict => .warn
      | .pedantic => .error
    else .none

/-- A top-level item of a journal file: lines `first … last`; `bad` is the line
    of the offending posting for posting-level faults. -/
structure Item where
  kind  : Kind
  first : Nat
  last  : Nat
  bad   : Nat
  h₁    : first ≤ bad
  h₂    : bad ≤ last
deriving Repr

def mkItem? (k : Kind) (first last bad : Nat) : Option Item :=
  if h : first ≤ bad ∧ bad ≤ last then some ⟨k, first, last, bad, h.1, h.2⟩ else none

/-- `context.linenum` at the moment the exception is thrown: the header line for
    header-level faults, the posting's line for posting-level faults, the last
    line read for a balance error (finalize runs after the last posting was read,
    textual.cc xact_directive / parse_xact) and for an unknown metadata tag (checked by
    journal_t::add_xact, journal.cc 375-379, after finalize). -/
def Item.reportLine (i : Item) : Nat :=
  match i.kind with
  | .unbalanced | .unknownTag => i.last
  | .badDate | .unknownPayee | .badDirective | .valid => i.first
  | .badAmount | .failedAssert | .unknownAccount | .unknownCommodity => i.bad

structure Loc where
  file : String
  line : Nat
deriving DecidableEq, Repr

/-- One error record on stderr: the include chain (outermost first) and the
    file's own location. -/
structure Msg where
  chain : List Loc
  loc   : Loc
deriving DecidableEq, Repr

/-- What the loader has produced so far: `context.errors`, the records written to
    stderr, the `Warning:` lines written to stderr. -/
structure Out where
  errors   : Nat
  msgs     : List Msg
  warnings : List Loc
deriving DecidableEq, Repr

def Out.empty : Out := ⟨0, [], []⟩

/-- textual.cc 277-298: print the record, `context.errors++`. -/
def Out.addError (o : Out) (m : Msg) : Out :=
  { o with errors := o.errors + Gen.errorsPerCatch, msgs := o.msgs ++ [m] }

def Out.addWarning (o : Out) (l : Loc) : Out :=
  { o with warnings := o.warnings ++ [l] }

/-- textual.cc 821-829: the child context's count is added to the including
    context; stderr is one stream, so the child's output follows the parent's. -/
def Out.absorb (o c : Out) : Out :=
  ⟨o.errors + c.errors, o.msgs ++ c.msgs, o.warnings ++ c.warnings⟩

/-- The indented lines `l+1 … last` that remain unread when the item failed at
    line `l`. -/
def restLines (l last : Nat) : List Nat := (List.range (last - l)).map (· + (l + 1))

/-- textual.cc 368-380: each remaining indented line goes through
    `read_next_directive` on its own; with `error_flag` set it is skipped, without
    it each one is an "Unexpected whitespace" error. -/
def swallow (flag : Bool) (file : String) (chain : List Loc) : List Nat → Out → Out
  | [], o => o
  | l :: ls, o => swallow flag file chain ls (if flag then o else o.addError ⟨chain, ⟨file, l⟩⟩)

/-- Where a `Warning:` of `--strict` is located: `journal_t::current_context` is set once per
    `-f` file by `journal_t::read` (journal.cc 474-475) and is *not* updated by
    `include_directive`, so inside an included file the warning names the `-f` file and the
    line of its `include` directive (the outermost element of the chain), not the item's own
    file and line.  (Warnings are not error records; C12's location clause is about the
    latter.  Pinned by the correspondence check.) -/
def warnLoc (file : String) (chain : List Loc) (line : Nat) : Loc :=
  match chain with
  | [] => ⟨file, line⟩
  | c :: _ => c

/-- One top-level item through the loop of `instance_t::parse`. -/
def stepItem (cfg : Cfg) (file : String) (chain : List Loc) (i : Item) (o : Out) : Out :=
  match i.kind.sev cfg with
  | .none => o
  | .warn => o.addWarning (warnLoc file chain i.reportLine)
  | .error =>
    swallow Gen.errorFlagSetInCatch file chain (restLines i.reportLine i.last)
      (o.addError ⟨chain, ⟨file, i.reportLine⟩⟩)

/-- The body of a journal file: a sequence of top-level items and `include`
    directives (each holding the body of the included file). -/
inductive Body where
  | done
  | item (i : Item) (rest : Body)
  | incl (line : Nat) (path : String) (child : Body) (rest : Body)
deriving Repr

/-- `instance_t::parse` over a file body; `chain` is the stack of including
    locations (outermost first). -/
def load (cfg : Cfg) (file : String) (chain : List Loc) : Body → Out → Out
  | .done, o => o
  | .item i rest, o => load cfg file chain rest (stepItem cfg file chain i o)
  | .incl line p child rest, o =>
    load cfg file chain rest (o.absorb (load cfg p (chain ++ [⟨file, line⟩]) child Out.empty))

structure File where
  path : String
  body : Body
deriving Repr

/-- `journal_t::read_textual` on one `-f` file. -/
def loadFile (cfg : Cfg) (f : File) : Out := load cfg f.path [] f.body Out.empty

/-- session.cc 190-214: the `-f` files in order; the `error_count` thrown by
    read_textual for a file with errors leaves the loop. -/
def loadRoots (cfg : Cfg) : List File → Out → Out
  | [], o => o
  | f :: fs, o =>
    let r := loadFile cfg f
    if 0 < r.errors ∧ Gen.stopAfterFaultyFile = true then o.absorb r
    else loadRoots cfg fs (o.absorb r)

/-- The status expression of a given shape (the same `match` as the generated
    `Gen.exitStatusExpr`, see `exitStatusExpr_eq`). -/
def statusOf (s : Gen.StatusShape) (count : Nat) : Nat :=
  match s with
  | .raw => count
  | .clamp k => min count k
  | .sign => if count = 0 then 0 else 1

theorem exitStatusExpr_eq (count : Nat) : Gen.exitStatusExpr count = statusOf Gen.exitStatusShape count := rfl

/-- A shape that can never turn a positive count into status 0 after 8-bit truncation. -/
def shapeSafe : Gen.StatusShape → Bool
  | .raw => false
  | .clamp k => decide (1 ≤ k ∧ k ≤ 255)
  | .sign => true

/-- exit(3)/wait(2): the parent sees `status & 0377`. -/
def osTruncate (n : Nat) : Nat := n % 256

/-- The status the shell sees after `count` errors (main.cc 204-208). -/
def exitStatus (count : Nat) : Nat := osTruncate (Gen.exitStatusExpr count)

structure Result where
  status   : Nat
  stdout   : String
  stderr   : List Msg
  warnings : List Loc
deriving DecidableEq, Repr

/-- One invocation `ledger -f F₁ -f F₂ … CMD`; `report` is what CMD would write
    for the journal (any text: the command runs only after the journal was read
    without error, global.cc 227-257). -/
def run (cfg : Cfg) (roots : List File) (report : String) : Result :=
  let o := loadRoots cfg roots Out.empty
  if 0 < o.errors then ⟨exitStatus o.errors, "", o.msgs, o.warnings⟩
  else ⟨0, report, o.msgs, o.warnings⟩

/-! ### Specification side: the items of a file in reading order -/

structure Located where
  file  : String
  chain : List Loc
  item  : Item
deriving Repr

def Body.items (file : String) (chain : List Loc) : Body → List Located
  | .done => []
  | .item i rest => ⟨file, chain, i⟩ :: rest.items file chain
  | .incl line p child rest => child.items p (chain ++ [⟨file, line⟩]) ++ rest.items file chain

def File.items (f : File) : List Located := f.body.items f.path []

def Located.invalid (cfg : Cfg) (l : Located) : Bool := l.item.kind.sev cfg = .error
def Located.warned (cfg : Cfg) (l : Located) : Bool := l.item.kind.sev cfg = .warn

/-- The invalid items of a file (includes expanded) in reading order. -/
def invalidItems (cfg : Cfg) (f : File) : List Located := f.items.filter (Located.invalid cfg)

/-! ### Rendering of the located context lines (error.cc file_context) -/

def Loc.render (l : Loc) : String :=
  Gen.fileContextOpen ++ l.file ++ Gen.fileContextMid ++ toString l.line ++ Gen.fileContextEnd

/-- The context lines of one record, in the order they are printed. -/
def Msg.render (m : Msg) : List String :=
  m.chain.map (fun l => Gen.ctxIncludedFrom ++ l.render) ++ [Gen.ctxWhileParsing ++ m.loc.render]

end Errors
end Ledger
