/-
Driver ops for C12 (Model/Errors.lean).

  errors.run <mode> <checkPayees 0|1> <json>
      mode = normal | strict | pedantic
      json = {"roots": [file, …]}                       the `-f` files in command-line order
      file = {"path": "/abs/path", "nodes": [node, …]}
      node = {"xact": <jgen transaction AST (Model/Journal.lean) with "line"/"end_line" filled,
                        plus "fault": {"kind": K, "line": n} | null>}
           | {"dir": {"kind": "valid"|"badDirective", "line": n}}     a one-line directive
           | {"include": {"line": n, "file": file}}
      K    = unbalanced | badDate | badAmount | failedAssert | unknownAccount |
             unknownCommodity | unknownPayee | unknownTag
    answer: ok <status> <errors> <suppressed 0|1> <records> <warnings>
      records  = `;`-joined records, each the `|`-joined context lines
                 (`In file included from "F", line N:` … `While parsing file "F", line N:`)
      warnings = `;`-joined `"F", line N:`
  errors.shape
    answer: ok <raw | clamp:K | sign> <errorsPerCatch> <errorFlagSetInCatch> <stopAfterFaultyFile>
-/
import LedgerModel.Model.Errors

namespace Ledger
namespace Errors

open Lean (Json)

def modeOf? : String → Option Mode
  | "normal" => some .normal
  | "strict" => some .strict
  | "pedantic" => some .pedantic
  | _ => none

def kindOf? : String → Option Kind
  | "valid" => some .valid
  | "unbalanced" => some .unbalanced
  | "badDate" => some .badDate
  | "badAmount" => some .badAmount
  | "failedAssert" => some .failedAssert
  | "unknownAccount" => some .unknownAccount
  | "unknownCommodity" => some .unknownCommodity
  | "unknownPayee" => some .unknownPayee
  | "unknownTag" => some .unknownTag
  | "badDirective" => some .badDirective
  | _ => none

/-- A transaction of the shared journal AST with the C12 extension key `fault`. -/
def itemOfXact? (j : Json) : Option Item := do
  let x ← J.xact? j
  match J.obj? j "fault" with
  | none => mkItem? .valid x.line x.endLine x.line
  | some fj =>
    let k ← kindOf? (← J.str? fj "kind")
    let l ← J.nat? fj "line"
    mkItem? k x.line x.endLine l

def itemOfDir? (j : Json) : Option Item := do
  let k ← kindOf? (← J.str? j "kind")
  let l ← J.nat? j "line"
  if k = .valid ∨ k = .badDirective then mkItem? k l l l else none

/-- `fuel` bounds the number of nodes visited (callers pass the length of the JSON text). -/
def decodeNodes : Nat → List Json → Option Body
  | _, [] => some .done
  | 0, _ :: _ => none
  | fuel + 1, j :: js =>
    match J.obj? j "xact", J.obj? j "dir", J.obj? j "include" with
    | some xj, none, none => do
      let i ← itemOfXact? xj
      let r ← decodeNodes fuel js
      pure (.item i r)
    | none, some dj, none => do
      let i ← itemOfDir? dj
      let r ← decodeNodes fuel js
      pure (.item i r)
    | none, none, some ij => do
      let line ← J.nat? ij "line"
      let fj ← J.obj? ij "file"
      let p ← J.str? fj "path"
      let ns ← J.arr? fj "nodes"
      let child ← decodeNodes fuel ns
      let r ← decodeNodes fuel js
      pure (.incl line p child r)
    | _, _, _ => none

def decodeFile? (fuel : Nat) (j : Json) : Option File := do
  let p ← J.str? j "path"
  let ns ← J.arr? j "nodes"
  let b ← decodeNodes fuel ns
  pure ⟨p, b⟩

def opRun (args : List String) : String :=
  match args with
  | [m, cp, s] =>
    match modeOf? m, parseBool? cp, J.parse? s with
    | some mode, some cpb, some j =>
      match (J.arr? j "roots").bind (optAll (decodeFile? s.length)) with
      | some roots =>
        let cfg : Cfg := ⟨mode, cpb⟩
        let r := run cfg roots "R"
        let o := loadRoots cfg roots Out.empty
        let recs := ";".intercalate (r.stderr.map (fun m => "|".intercalate m.render))
        let warns := ";".intercalate (r.warnings.map Loc.render)
        s!"ok\t{r.status}\t{o.errors}\t{boolStr (r.stdout.isEmpty)}\t{recs}\t{warns}"
      | none => "err\tbad-json"
    | _, _, _ => "err\tbad-op"
  | _ => "err\tbad-op"

def shapeStr : Gen.StatusShape → String
  | .raw => "raw"
  | .clamp k => s!"clamp:{k}"
  | .sign => "sign"

def opShape (args : List String) : String :=
  match args with
  | [] | [""] =>
    s!"ok\t{shapeStr Gen.exitStatusShape}\t{Gen.errorsPerCatch}\t{boolStr Gen.errorFlagSetInCatch}\t{boolStr Gen.stopAfterFaultyFile}"
  | _ => "err\tbad-op"

end Errors

def ErrorsProto.ops : List (String × (List String → String)) :=
  [("errors.run", Errors.opRun), ("errors.shape", Errors.opShape)]

end Ledger
