/-
Model of ledger's value-expression language (C15):

* tokens and the tokeniser of token.cc (`token_t::next`, `parse_reserved_word`,
  `parse_ident`; spellings come from `Gen.TokenSpellings`);
* the recursive-descent parser of parser.cc 38-549, *driven by `Gen.ladder`*
  (which function parses the operands of which, which tokens a level accepts,
  loop or once) – the node-building actions are written here by hand;
* the AST `Expr` (op_t of op.h), `printToks`/`print` (op_t::print, op.cc 657-875),
  `compile` (op.cc 89-231: identifier resolution, definitions, lambda
  parameters, constant folding) and `calc` (op.cc 250-614).

What is not modelled (the model answers `unsupported`, generators avoid it):
strings, dates, regular-expression masks, `=~`, `.` member lookup, sequences as
values (an O_CONS outside a call's argument list), quoted / prefixed commodity
symbols, digit-group commas, built-in functions, and the private symbol table
of a SCOPE node (every definition made inside a SCOPE is also made in the
enclosing scope by `bind_scope_t::define`, scope.h 186-190, so the private
table is only observable for an identifier that is used before its definition
inside the same body and later redefined outside it).

`'/'` is an operator only in "operator context" (token.cc 300-317).  The parser
asks for operator context exactly when the previous token ended an operand
(parser.cc: every `next_token(in, tflags.plus_flags(PARSE_OP_CONTEXT))` follows
a completed operand; `parse_value_term`, `parse_unary_expr` and the look-ahead
after a comma read without it), so the tokeniser decides by the previous token.
A token the model cannot represent, or a tokeniser error, is emitted as
`Tok.bad` and ends the token list; the parser fails only when it *reads* it
(ledger tokenises lazily, so text after a complete expression is never looked
at).  `[.bad, .bad]` marks a construct the model does not cover (a literal the
model cannot represent), `[.bad]` a character no token starts with.

Core Lean only.
-/
import LedgerModel.Model.Value
import LedgerModel.Gen.Ladder
import LedgerModel.Gen.TokenSpellings
import LedgerModel.Gen.InvalidChars
import LedgerModel.Gen.ExprFlags

namespace Ledger

inductive UnOp
  | not | neg
deriving DecidableEq, Repr

inductive BinOp
  | eq | lt | lte | gt | gte | and | or | add | sub | mul | div
deriving DecidableEq, Repr

/-- op_t (op.h 55-125).  `nil` is the null pointer; `ident n d` carries the
    compiled definition in `left()` (`nil` when unresolved, `plug` for a lambda
    parameter); `query c a b` is O_QUERY(c, O_COLON(a, b)). -/
inductive Expr
  | nil
  | plug
  | val (v : Value)
  | ident (name : String) (defn : Expr)
  | scope (body : Expr)
  | un (op : UnOp) (e : Expr)
  | bin (op : BinOp) (l r : Expr)
  | query (c a b : Expr)
  | cons (l r : Expr)
  | seq (l r : Expr)
  | define (l r : Expr)
  | lambda (params body : Expr)
  | call (f args : Expr)
deriving DecidableEq, Repr

/-- token_t::kind_t (token.h 50-98) with the literal payloads; `bad` stands for
    a token the model cannot represent or a tokeniser error. -/
inductive Tok
  | value (v : Value) | ident (s : String)
  | lparen | rparen
  | equal | nequal | less | lesseq | greater | greatereq
  | assign | match_ | nmatch | minus | plus | star | slash | arrow | kwDiv
  | exclam | kwAnd | kwOr | kwIf | kwElse | query | colon | dot | comma | semi
  | bad
deriving DecidableEq, Repr

namespace Tok

/-- the enumerator name in token.h -/
def kind : Tok → String
  | value _ => "VALUE" | ident _ => "IDENT" | lparen => "LPAREN" | rparen => "RPAREN"
  | equal => "EQUAL" | nequal => "NEQUAL" | less => "LESS" | lesseq => "LESSEQ"
  | greater => "GREATER" | greatereq => "GREATEREQ" | assign => "ASSIGN" | match_ => "MATCH"
  | nmatch => "NMATCH" | minus => "MINUS" | plus => "PLUS" | star => "STAR" | slash => "SLASH"
  | arrow => "ARROW" | kwDiv => "KW_DIV" | exclam => "EXCLAM" | kwAnd => "KW_AND" | kwOr => "KW_OR"
  | kwIf => "KW_IF" | kwElse => "KW_ELSE" | query => "QUERY" | colon => "COLON" | dot => "DOT"
  | comma => "COMMA" | semi => "SEMI" | bad => "ERROR"

/-- payload-free tokens by enumerator name -/
def ofKind : String → Option Tok
  | "LPAREN" => some lparen | "RPAREN" => some rparen
  | "EQUAL" => some equal | "NEQUAL" => some nequal | "LESS" => some less | "LESSEQ" => some lesseq
  | "GREATER" => some greater | "GREATEREQ" => some greatereq | "ASSIGN" => some assign
  | "MATCH" => some match_ | "NMATCH" => some nmatch | "MINUS" => some minus | "PLUS" => some plus
  | "STAR" => some star | "SLASH" => some slash | "ARROW" => some arrow | "KW_DIV" => some kwDiv
  | "EXCLAM" => some exclam | "KW_AND" => some kwAnd | "KW_OR" => some kwOr | "KW_IF" => some kwIf
  | "KW_ELSE" => some kwElse | "QUERY" => some query | "COLON" => some colon | "DOT" => some dot
  | "COMMA" => some comma | "SEMI" => some semi
  | _ => none

/-- does this token end an operand (so that the parser reads the next one in
    operator context)? -/
def endsOperand : Tok → Bool
  | value _ => true | ident _ => true | rparen => true | _ => false

end Tok

def UnOp.kind : UnOp → String
  | .not => "O_NOT" | .neg => "O_NEG"

def UnOp.ofKind : String → Option UnOp
  | "O_NOT" => some .not | "O_NEG" => some .neg | _ => none

def BinOp.kind : BinOp → String
  | .eq => "O_EQ" | .lt => "O_LT" | .lte => "O_LTE" | .gt => "O_GT" | .gte => "O_GTE"
  | .and => "O_AND" | .or => "O_OR" | .add => "O_ADD" | .sub => "O_SUB" | .mul => "O_MUL" | .div => "O_DIV"

def BinOp.ofKind : String → Option BinOp
  | "O_EQ" => some .eq | "O_LT" => some .lt | "O_LTE" => some .lte | "O_GT" => some .gt | "O_GTE" => some .gte
  | "O_AND" => some .and | "O_OR" => some .or | "O_ADD" => some .add | "O_SUB" => some .sub
  | "O_MUL" => some .mul | "O_DIV" => some .div
  | _ => none

/-! ## Errors -/

def errParse : Err := .cannot "parse"
def errUnsup : Err := .cannot "unsupported"
def errFuel : Err := .cannot "fuel"
def errUnknownIdent : Err := .cannot "unknown-ident"
def errAssert : Err := .cannot "assert"
def errCall : Err := .cannot "call"
def errSyntax : Err := .cannot "syntax"
def errNot : Err := .cannot "not"

/-! ## Tokeniser (token.cc) -/

namespace Lex

def isSpace (c : Char) : Bool :=
  c = ' ' || c = '\t' || c = '\n' || c = '\r' || c = '\x0b' || c = '\x0c'

def isDigit (c : Char) : Bool := '0' ≤ c && c ≤ '9'

def isAlpha (c : Char) : Bool := ('a' ≤ c && c ≤ 'z') || ('A' ≤ c && c ≤ 'Z')

def dropWs : List Char → List Char
  | [] => []
  | c :: cs => if isSpace c then dropWs cs else c :: cs

/-- commodity.cc `invalid_chars` (Gen.invalidChars): may this byte appear in an
    unquoted commodity symbol? -/
def symChar (c : Char) : Bool :=
  c.toNat < 256 && !(Gen.invalidChars.getD c.toNat true)

def takeWhileN (p : Char → Bool) : Nat → List Char → List Char × List Char
  | 0, cs => ([], cs)
  | _, [] => ([], [])
  | n + 1, c :: cs =>
    if p c then
      let (a, b) := takeWhileN p n cs
      (c :: a, b)
    else ([], c :: cs)

def span (p : Char → Bool) (cs : List Char) : List Char × List Char := takeWhileN p cs.length cs

def digitsVal (ds : List Char) : Nat := ds.foldl (fun acc d => acc * 10 + (d.toNat - '0'.toNat)) 0

/-- the one- and two-character symbols of `token_t::next` (Gen.symbolSpellings):
    the longer spelling wins, as the code peeks at the following character. -/
def symbolAt (c : Char) (rest : List Char) : Option (Tok × List Char) :=
  let two : Option (Tok × List Char) :=
    match rest with
    | d :: rest' =>
      match Gen.symbolSpellings.lookup (String.ofList [c, d]) with
      | some k => (Tok.ofKind k).map (fun t => (t, rest'))
      | none => none
    | [] => none
  match two with
  | some r => some r
  | none =>
    match Gen.symbolSpellings.lookup (String.singleton c) with
    | some k => (Tok.ofKind k).map (fun t => (t, rest))
    | none => none

/-- amount_t::parse for the forms `NUM` and `NUM[ ]SYM` (amount.cc 1000-1050 with
    parse_quantity 975-998 and commodity_t::parse_symbol, commodity.cc 295-331):
    digits with at most one decimal point; an unquoted symbol that is not a
    reserved word (commodity.cc 262-284 = `Gen.reservedTokens`).  `none` for
    anything else (digit-group commas, quoted symbols ...). -/
def scanLiteral (neg : Bool) (cs : List Char) : Option (Amount × List Char) :=
  let (ip, r1) := span isDigit cs
  if ip.isEmpty then none else
  let (fp, r2) : List Char × List Char :=
    match r1 with
    | '.' :: r =>
      let (fp, r') := span isDigit r
      if fp.isEmpty then ([], r1) else (fp, r')
    | _ => ([], r1)
  let grouped : Bool :=
    match r2 with
    | '.' :: d :: _ => isDigit d
    | ',' :: d :: _ => isDigit d
    | _ => false
  if grouped then none else
    let n := digitsVal (ip ++ fp)
    let q : Rat := mkRat (if neg then -(n : Int) else (n : Int)) (10 ^ fp.length)
    let r3 := dropWs r2
    match r3 with
    | '"' :: _ => none
    | _ =>
      let (sym, r4) := span symChar r3
      let s := String.ofList sym
      if sym.isEmpty || Gen.reservedTokens.contains s then
        some ({ q := q, prec := fp.length, keep := false, comm := "" }, r2)
      else
        some ({ q := q, prec := fp.length, keep := false, comm := s }, r4)

/-- does the text start `SYM[ ][-]DIGIT`, i.e. would amount_t::parse read a
    prefix-commodity amount here (amount.cc 1051-1064)?  Not modelled. -/
def prefixAmount (cs : List Char) : Bool :=
  let (sym, r) := span symChar cs
  if sym.isEmpty || Gen.reservedTokens.contains (String.ofList sym) then false else
  match dropWs r with
  | '-' :: d :: _ => isDigit d
  | d :: _ => isDigit d
  | [] => false

def reservedFirst (c : Char) : Bool :=
  Gen.reservedWords.any (fun w => w.1.toList.head? = some c)

def tokGo : Nat → Bool → List Char → List Tok
  | 0, _, _ => [.bad]
  | f + 1, prevOperand, cs =>
    match dropWs cs with
    | [] => []
    | c :: rest =>
      if Gen.contextSymbols.contains (String.singleton c) && !prevOperand then [.bad, .bad]   -- a /regex/ literal
      else match symbolAt c rest with
      | some (t, rest') => t :: tokGo f t.endsOperand rest'
      | none =>
        if c = '{' then
          -- token.cc 233-244: `{` amount `}`
          let r := dropWs rest
          let (neg, r) := match r with
            | '-' :: r' => (true, dropWs r')
            | _ => (false, r)
          match scanLiteral neg r with
          | some (a, '}' :: r') => .value (.amt { a with keep := true }) :: tokGo f true r'   -- PARSE_NO_MIGRATE: amount.cc 1185-1187
          | _ => [.bad, .bad]
        else if isDigit c then
          match scanLiteral false (c :: rest) with
          | some (a, r') => .value (.amt a) :: tokGo f true r'
          | none => [.bad, .bad]
        else if isAlpha c || c = '_' then
          -- token.cc 39-127 parse_reserved_word: at most `reservedWordMax` letters are compared
          let (w, afterW) := takeWhileN isAlpha Gen.reservedWordMax (c :: rest)
          let rw := if reservedFirst c then
                      Gen.reservedWords.find? (fun x => x.1 = String.ofList w)
                    else none
          match rw with
          | some (_, k, b) =>
            if k = "VALUE" then
              .value (.bool (b = "true")) :: tokGo f true afterW
            else match Tok.ofKind k with
              | some t => t :: tokGo f t.endsOperand afterW
              | none => [.bad]
          | none =>
            if prefixAmount (c :: rest) then [.bad, .bad]
            else
              -- token.cc 129-139 parse_ident
              let (idc, r') := span (fun x => isAlpha x || x = '_') (c :: rest)
              .ident (String.ofList idc) :: tokGo f true r'
        else if c = '[' || c = '\'' || c = '"' || c = '$' || c = '%' || c = '#' || c = '@' then [.bad, .bad]   -- dates, strings, other symbols
        else [.bad]

def tokenize (cs : List Char) : List Tok := tokGo (cs.length + 1) false cs

end Lex

/-! ## Parser (parser.cc 38-549), driven by `Gen.ladder` -/

structure Row where
  name : String
  shape : String
  first : String
  loop : Bool
  ops : List (String × String × Bool)
  operand : String
deriving Repr, DecidableEq

def rows : List Row :=
  Gen.ladder.map (fun r => ⟨r.1, r.2.1, r.2.2.1, r.2.2.2.1, r.2.2.2.2.1, r.2.2.2.2.2⟩)

def findRow (n : String) : Option Row := rows.find? (fun r => r.name = n)

def Row.op? (row : Row) (t : Tok) : Option (String × Bool) := row.ops.lookup t.kind

abbrev PRes := Except Err (Expr × List Tok)

/-- value_t::in_place_not (value.cc 1445-1480) on the literals the tokeniser
    produces.  A literal amount never carries more decimals than its commodity
    displays (parsing migrates the precision), so `! amount` is the exact test. -/
def inPlaceNot : Value → Res Value
  | .bool b => .ok (.bool (!b))
  | .int n => .ok (.bool (n = 0))
  | .amt a => .ok (.bool (a.q = 0))
  | .bal b => .ok (.bool (b.all (fun a => a.q = 0)))
  | .void => .error errNot

/-- parser.cc 142-149 / 159-166: "a very quick optimization". -/
def mkUnary (opk : String) (term : Expr) : Res Expr :=
  match UnOp.ofKind opk with
  | none => .error errUnsup
  | some op =>
    match term with
    | .val v =>
      match op with
      | .not => (inPlaceNot v).map .val
      | .neg => (Value.neg v).map .val
    | t => .ok (.un op t)

def mkBin (opk : String) (neg : Bool) (l r : Expr) : Res Expr :=
  match BinOp.ofKind opk with
  | some op => .ok (if neg then .un .not (.bin op l r) else .bin op l r)
  | none => .error errUnsup

def mkOnce (opk : String) (l r : Expr) : Res Expr :=
  if opk = "O_LAMBDA" then .ok (.lambda l (.scope r))
  else if opk = "O_DEFINE" then .ok (.define l (.scope r))
  else .error errUnsup

/-! Each function of parser.cc is one `…Step` below, written against the
    functions it calls (`pl name single toks` = `parse_<name>(in, tflags)`, and
    the `while (true)` loops); `parseLevel` ties the knot with fuel.  A result
    node `Expr.nil` is the null pointer; `single` is PARSE_SINGLE. -/

def Expr.isNil : Expr → Bool
  | .nil => true
  | _ => false

abbrev PL := String → Bool → List Tok → PRes
abbrev Loop := Row → Expr → List Tok → PRes
abbrev Tail := Row → List Tok → PRes

/-- parse_value_term, parser.cc 38-72 -/
def termStep (pl : PL) (row : Row) (toks : List Tok) : PRes :=
  match toks with
  | .value v :: r => .ok (.val v, r)
  | .ident s :: r => .ok (.ident s .nil, r)
  | .lparen :: r =>
    match pl row.operand false r with
    | .error e => .error e
    | .ok (node, r') =>
      match r' with
      | .rparen :: r'' => .ok (node, r'')
      | _ => .error errParse
  | .bad :: _ => .error errParse
  | _ => .ok (.nil, toks)

/-- the common shape `node = parse_first(...); if (node && ! PARSE_SINGLE) …` -/
def afterFirst (pl : PL) (row : Row) (single : Bool) (toks : List Tok) (k : Expr → List Tok → PRes) : PRes :=
  match pl row.first single toks with
  | .error e => .error e
  | .ok (node, r) => if node.isNil || single then .ok (node, r) else k node r

/-- parse_call_expr, parser.cc 75-98 -/
def callStep (pl : PL) (cl : Loop) (row : Row) (single : Bool) (toks : List Tok) : PRes :=
  afterFirst pl row single toks (cl row)

/-- the `while (true)` of parse_call_expr -/
def callLoopStep (pl : PL) (cl : Loop) (row : Row) (node : Expr) (toks : List Tok) : PRes :=
  match toks with
  | .bad :: _ => .error errParse
  | .lparen :: _ =>
    match pl row.operand true toks with      -- push_token: parse_value_expr(PARSE_SINGLE) sees the '(' again
    | .error e => .error e
    | .ok (args, r') => cl row (.call node args) r'
  | _ => .ok (node, toks)

/-- parse_unary_expr, parser.cc 127-177 -/
def unaryStep (pl : PL) (row : Row) (single : Bool) (toks : List Tok) : PRes :=
  match toks with
  | [] => pl row.first single toks
  | t :: r =>
    match row.op? t with
    | none => pl row.first single toks
    | some (opk, _) =>
      match pl row.operand single r with
      | .error e => .error e
      | .ok (term, r') =>
        if term.isNil then .error errParse else
        match mkUnary opk term with
        | .error e => .error e
        | .ok n => .ok (n, r')

/-- parse_mul/add/logic/and/or_expr (and parse_dot_expr), parser.cc 100-125, 179-362 -/
def binStep (pl : PL) (bl : Loop) (row : Row) (single : Bool) (toks : List Tok) : PRes :=
  afterFirst pl row single toks (bl row)

/-- the `while (true)` of a left-associative binary level -/
def binLoopStep (pl : PL) (bl : Loop) (row : Row) (node : Expr) (toks : List Tok) : PRes :=
  match toks with
  | [] => .ok (node, [])
  | .bad :: _ => .error errParse
  | t :: r =>
    match row.op? t with
    | none => .ok (node, toks)
    | some (opk, neg) =>
      match pl row.operand false r with
      | .error e => .error e
      | .ok (rhs, r') =>
        if rhs.isNil then .error errParse else
        match mkBin opk neg node rhs with
        | .error e => .error e
        | .ok n => bl row n r'

/-- the part of parse_querycolon_expr after its first operand, parser.cc 370-429 -/
def ternaryRest (pl : PL) (row : Row) (node : Expr) (r : List Tok) : PRes :=
  match r with
  | .bad :: _ => .error errParse
  | .query :: r1 =>
    match pl row.operand false r1 with
    | .error e => .error e
    | .ok (a, r2) =>
      if a.isNil then .error errParse else
      match r2 with
      | .colon :: r3 =>
        match pl row.operand false r3 with
        | .error e => .error e
        | .ok (b, r4) => if b.isNil then .error errParse else .ok (.query node a b, r4)
      | _ => .error errParse
  | .kwIf :: r1 =>
    match pl row.operand false r1 with
    | .error e => .error e
    | .ok (c, r2) =>
      if c.isNil then .error errParse else
      match r2 with
      | .bad :: _ => .error errParse
      | .kwElse :: r3 =>
        match pl row.operand false r3 with
        | .error e => .error e
        | .ok (e, r4) => if e.isNil then .error errParse else .ok (.query c node e, r4)
      | _ => .ok (.query c node (.val .void), r2)
  | _ => .ok (node, r)

/-- parse_querycolon_expr, parser.cc 364-431 -/
def ternaryStep (pl : PL) (row : Row) (single : Bool) (toks : List Tok) : PRes :=
  afterFirst pl row single toks (ternaryRest pl row)

def listRest (ct : Tail) (row : Row) (node : Expr) (r : List Tok) : PRes :=
  match r with
  | .bad :: _ => .error errParse
  | .comma :: r1 =>
    match ct row r1 with
    | .error e => .error e
    | .ok (tail, r2) => .ok (.cons node tail, r2)
  | _ => .ok (node, r)

/-- parse_comma_expr, parser.cc 433-470 -/
def listStep (pl : PL) (ct : Tail) (row : Row) (single : Bool) (toks : List Tok) : PRes :=
  afterFirst pl row single toks (listRest ct row)

/-- after a COMMA: the rest of the O_CONS chain (`nil` when `)` follows) -/
def commaTailStep (pl : PL) (ct : Tail) (row : Row) (toks : List Tok) : PRes :=
  match toks with
  | .bad :: _ => .error errParse
  | .rparen :: _ => .ok (.nil, toks)
  | _ =>
    match pl row.operand false toks with
    | .error e => .error e
    | .ok (item, r) =>
      if item.isNil then .error errUnsup else
      match r with
      | .bad :: _ => .error errParse
      | .comma :: r1 =>
        match ct row r1 with
        | .error e => .error e
        | .ok (tail, r2) => .ok (.cons item tail, r2)
      | _ => .ok (.cons item .nil, r)

def onceRest (pl : PL) (row : Row) (node : Expr) (r : List Tok) : PRes :=
  match r with
  | .bad :: _ => .error errParse
  | t :: r1 =>
    match row.op? t with
    | none => .ok (node, r)
    | some (opk, _) =>
      match pl row.operand false r1 with
      | .error e => .error e
      | .ok (body, r2) =>
        if body.isNil then .error errUnsup else
        match mkOnce opk node body with
        | .error e => .error e
        | .ok n => .ok (n, r2)
  | [] => .ok (node, r)

/-- parse_lambda_expr / parse_assign_expr, parser.cc 472-518 -/
def onceStep (pl : PL) (row : Row) (single : Bool) (toks : List Tok) : PRes :=
  afterFirst pl row single toks (onceRest pl row)

def seqRest (st : Tail) (row : Row) (node : Expr) (r : List Tok) : PRes :=
  match r with
  | .bad :: _ => .error errParse
  | .semi :: r1 =>
    match st row r1 with
    | .error e => .error e
    | .ok (tail, r2) => .ok (.seq node tail, r2)
  | _ => .ok (node, r)

/-- parse_value_expr, parser.cc 520-549 -/
def seqStep (pl : PL) (st : Tail) (row : Row) (single : Bool) (toks : List Tok) : PRes :=
  afterFirst pl row single toks (seqRest st row)

/-- after a SEMI: the rest of the right-nested O_SEQ chain -/
def seqTailStep (pl : PL) (st : Tail) (row : Row) (toks : List Tok) : PRes :=
  match pl row.operand false toks with
  | .error e => .error e
  | .ok (item, r) =>
    if item.isNil then .error errUnsup else
    match r with
    | .bad :: _ => .error errParse
    | .semi :: r1 =>
      match st row r1 with
      | .error e => .error e
      | .ok (tail, r2) => .ok (.seq item tail, r2)
    | _ => .ok (item, r)

/-- dispatch on the shape the extractor found for the function -/
def levelStep (pl : PL) (cl bl : Loop) (ct st : Tail) (row : Row) (single : Bool) (toks : List Tok) : PRes :=
  if row.shape = "term" then termStep pl row toks
  else if row.shape = "call" then callStep pl cl row single toks
  else if row.shape = "prefix" then unaryStep pl row single toks
  else if row.shape = "binloop" || row.shape = "binloop-lookup" then binStep pl bl row single toks
  else if row.shape = "ternary" then ternaryStep pl row single toks
  else if row.shape = "list" then listStep pl ct row single toks
  else if row.shape = "once-scope" then onceStep pl row single toks
  else if row.shape = "seq" then seqStep pl st row single toks
  else .error errUnsup

mutual

def parseLevel : Nat → String → Bool → List Tok → PRes
  | 0, _, _, _ => .error errFuel
  | f + 1, name, single, toks =>
    match findRow name with
    | none => .error errUnsup
    | some row => levelStep (parseLevel f) (callLoop f) (binLoop f) (commaTail f) (seqTail f) row single toks

def callLoop : Nat → Row → Expr → List Tok → PRes
  | 0, _, _, _ => .error errFuel
  | f + 1, row, node, toks => callLoopStep (parseLevel f) (callLoop f) row node toks

def binLoop : Nat → Row → Expr → List Tok → PRes
  | 0, _, _, _ => .error errFuel
  | f + 1, row, node, toks => binLoopStep (parseLevel f) (binLoop f) row node toks

def commaTail : Nat → Row → List Tok → PRes
  | 0, _, _ => .error errFuel
  | f + 1, row, toks => commaTailStep (parseLevel f) (commaTail f) row toks

def seqTail : Nat → Row → List Tok → PRes
  | 0, _, _ => .error errFuel
  | f + 1, row, toks => seqTailStep (parseLevel f) (seqTail f) row toks

end

/-- parser_t::parse calls parse_value_expr (parser.cc 557). -/
def topLevel : String := "parse_value_expr"

def parseFuel (toks : List Tok) : Nat := 32 * (toks.length + 1)

/-- expr_t::parse on a token list: the tree, `nil` for an empty expression;
    tokens after a complete expression are ignored, as in the code. -/
def parseToks (toks : List Tok) : Res Expr :=
  match parseLevel (parseFuel toks) topLevel false toks with
  | .error e => .error e
  | .ok (node, _) => .ok node

def parseText (s : String) : Res Expr := parseToks (Lex.tokenize s.toList)

/-! ## Printing (op_t::print, op.cc 617-875) -/

def UnOp.tok : UnOp → Tok
  | .not => .exclam | .neg => .minus

/-- the token op_t::print writes for a binary operator (`&`, `|` for and/or) -/
def BinOp.tok : BinOp → Tok
  | .eq => .equal | .lt => .less | .lte => .lesseq | .gt => .greater | .gte => .greatereq
  | .and => .kwAnd | .or => .kwOr | .add => .plus | .sub => .minus | .mul => .star | .div => .slash

/-- where op_t::print is called from: print_cons / print_seq (op.cc 617-654)
    write a nested node of their own kind without its parentheses -/
inductive PCtx
  | none | inCons | inSeq
deriving DecidableEq, Repr

/-- The token sequence of the text op_t::print writes: every operator node
    except O_CALL and O_DEFINE is wrapped in parentheses (op.cc 669-670, 860-861).
    `pc` says whether the O_COLON child of an O_QUERY is such a node
    (`Gen.printParenthesisesColon`, read off those two tests). -/
def printToksAux (pc : Bool) : PCtx → Expr → List Tok
  | _, .nil => []
  | _, .plug => []
  | _, .val v => [.value v]
  | _, .ident n _ => [.ident n]
  | _, .scope b => printToksAux pc .none b
  | _, .un op e => [.lparen, op.tok] ++ printToksAux pc .none e ++ [.rparen]
  | _, .bin op l r => [.lparen] ++ printToksAux pc .none l ++ [op.tok] ++ printToksAux pc .none r ++ [.rparen]
  | _, .query c a b =>
    [.lparen] ++ printToksAux pc .none c ++ [.query] ++ (if pc then [.lparen] else []) ++ printToksAux pc .none a ++ [.colon] ++
      printToksAux pc .none b ++ (if pc then [.rparen] else []) ++ [.rparen]
  | ctx, .cons l r =>
    let inner := printToksAux pc .none l ++
      (match r with
       | .nil => []
       | r => [.comma] ++ printToksAux pc .inCons r)
    if ctx = .inCons then inner else [.lparen] ++ inner ++ [.rparen]
  | ctx, .seq l r =>
    let inner := printToksAux pc .none l ++
      (match r with
       | .nil => []
       | r => [.semi] ++ printToksAux pc .inSeq r)
    if ctx = .inSeq then inner else [.lparen] ++ inner ++ [.rparen]
  | _, .define l r => printToksAux pc .none l ++ [.assign] ++ printToksAux pc .none r
  | _, .lambda p b => [.lparen] ++ printToksAux pc .none p ++ [.arrow] ++ printToksAux pc .none b ++ [.rparen]
  | _, .call f .nil => printToksAux pc .none f ++ [.lparen, .rparen]
  | _, .call f (.cons l r) => printToksAux pc .none f ++ printToksAux pc .none (.cons l r)
  | _, .call f a => printToksAux pc .none f ++ [.lparen] ++ printToksAux pc .none a ++ [.rparen]

def printToks (e : Expr) : List Tok := printToksAux Gen.printParenthesisesColon .none e

def natDigits (n : Nat) : String := toString n

/-- decimal text of `q` with exactly `p` decimals (q is a multiple of 10^-p for
    every literal; other values are truncated toward zero) -/
def decimalText (q : Rat) (p : Nat) : String :=
  let n : Int := (q * (10 : Rat) ^ p).num / (q * (10 : Rat) ^ p).den
  let neg := n < 0
  let m := n.natAbs
  let s := natDigits m
  let s := if s.length ≤ p then String.ofList (List.replicate (p + 1 - s.length) '0') ++ s else s
  let body := if p = 0 then s
              else String.ofList (s.toList.take (s.length - p)) ++ "." ++ String.ofList (s.toList.drop (s.length - p))
  (if neg then "-" else "") ++ body

/-- value_t::dump(out, relaxed = false), value.cc 2088-2176, for the modelled types. -/
def Value.dumpText : Value → String
  | .void => "null"
  | .bool b => if b then "true" else "false"
  | .int n => toString n
  | .amt a => "{" ++ decimalText a.q a.prec ++ (if a.comm = "" then "" else " " ++ a.comm) ++ "}"
  | .bal b => "<balance:" ++ toString b.length ++ ">"

def UnOp.text : UnOp → String
  | .not => "! " | .neg => "- "

def BinOp.text : BinOp → String
  | .eq => " == " | .lt => " < " | .lte => " <= " | .gt => " > " | .gte => " >= "
  | .and => " & " | .or => " | " | .add => " + " | .sub => " - " | .mul => " * " | .div => " / "

/-- The text op_t::print writes (op.cc 657-875), literal amounts at their own
    precision. -/
def printAux (pc : Bool) : PCtx → Expr → String
  | _, .nil => ""
  | _, .plug => ""
  | _, .val v => v.dumpText
  | _, .ident n _ => n
  | _, .scope b => printAux pc .none b
  | _, .un op e => "(" ++ op.text ++ printAux pc .none e ++ ")"
  | _, .bin op l r => "(" ++ printAux pc .none l ++ op.text ++ printAux pc .none r ++ ")"
  | _, .query c a b =>
    "(" ++ printAux pc .none c ++ " ? " ++ (if pc then "(" else "") ++ printAux pc .none a ++ " : " ++ printAux pc .none b ++
      (if pc then ")" else "") ++ ")"
  | ctx, .cons l r =>
    let inner := printAux pc .none l ++
      (match r with
       | .nil => ""
       | r => ", " ++ printAux pc .inCons r)
    if ctx = .inCons then inner else "(" ++ inner ++ ")"
  | ctx, .seq l r =>
    let inner := printAux pc .none l ++
      (match r with
       | .nil => ""
       | r => "; " ++ printAux pc .inSeq r)
    if ctx = .inSeq then inner else "(" ++ inner ++ ")"
  | _, .define l r => printAux pc .none l ++ " = " ++ printAux pc .none r
  | _, .lambda p b => "(" ++ printAux pc .none p ++ " -> " ++ printAux pc .none b ++ ")"
  | _, .call f .nil => printAux pc .none f ++ "()"
  | _, .call f (.cons l r) => printAux pc .none f ++ printAux pc .none (.cons l r)
  | _, .call f a => printAux pc .none f ++ "(" ++ printAux pc .none a ++ ")"

def print (e : Expr) : String := printAux Gen.printParenthesisesColon .none e

/-! ## Evaluation (op_t::calc, op.cc 250-614) -/

/-- a value_t as calc returns it: a modelled value, or an expression (ANY
    holding an op pointer: what evaluating an O_LAMBDA yields, op.cc 324-326) -/
inductive RVal
  | v (x : Value)
  | fn (lam : Expr)
deriving DecidableEq, Repr

/-- symbol_scope_t: name ↦ definition; the newest definition is first -/
abbrev Frame := List (String × Expr)

/-- the chain of scopes calc runs in: call-argument frames (bind_scope_t looks
    in the grandchild first, scope.h 192-197), then the global frame -/
abbrev Scope := List Frame

def Scope.lookup : Scope → String → Option Expr
  | [], _ => none
  | fr :: rest, n =>
    match fr.lookup n with
    | some d => some d
    | none => Scope.lookup rest n

/-- value_t::operator bool (value.cc 83-129) -/
def Value.truth (env : PrecEnv) : Value → Bool
  | .void => false
  | .bool b => b
  | .int n => n ≠ 0
  | .amt a => !(a.isZero env)
  | .bal b => b.any (fun a => !(a.isZero env))

def RVal.truth (env : PrecEnv) : RVal → Bool
  | .v x => x.truth env
  | .fn _ => true

/-- wrap_value: an expression node holding a calc result -/
def RVal.toExpr : RVal → Expr
  | .v x => .val x
  | .fn lam => lam

def applyBin (env : PrecEnv) (op : BinOp) (a b : RVal) : Res RVal :=
  match a, b with
  | .v x, .v y =>
    match op with
    | .add => (Value.add x y).map .v
    | .sub => (Value.sub x y).map .v
    | .mul => (Value.mul env x y).map .v
    | .div => (Value.div env x y).map .v
    | .eq => (Value.eq x y).map (fun b => .v (.bool b))
    | .lt => (Value.lt x y).map (fun b => .v (.bool b))
    | .lte => (Value.le x y).map (fun b => .v (.bool b))
    | .gt => (Value.gt x y).map (fun b => .v (.bool b))
    | .gte => (Value.ge x y).map (fun b => .v (.bool b))
    | .and => .error errUnsup
    | .or => .error errUnsup
  | _, _ => .error (.cannot "expr-operand")

/-- split_cons_expr (op.cc 51-73): the argument expressions of a call -/
def splitCons : Expr → List Expr
  | .nil => []
  | .cons l r => l :: splitCons r
  | e => [e]

/-- the parameter names of a lambda (op.cc 175-191 and 483-503); `none` when a
    parameter is not an identifier -/
def paramNames : Expr → Option (List String)
  | .nil => some []
  | .ident n _ => some [n]
  | .cons (.ident n _) r => (paramNames r).map (n :: ·)
  | _ => none

/-- call_lambda's argument binding (op.cc 474-508): arguments are evaluated in
    the caller's scope, missing ones are null, surplus ones are an error. -/
def bindArgs (ev : Expr → Res RVal) : List String → List Expr → Res Frame
  | [], [] => .ok []
  | [], _ :: _ => .error (.cannot "too-many-args")
  | p :: ps, [] => (bindArgs ev ps []).map (fun fr => (p, .val .void) :: fr)
  | p :: ps, a :: as =>
    match ev a with
    | .error e => .error e
    | .ok v => (bindArgs ev ps as).map (fun fr => (p, v.toExpr) :: fr)

/-- O_NEG / O_NOT on an evaluated operand (op.cc 371-377) -/
def applyUn (env : PrecEnv) (op : UnOp) (x : RVal) : Res RVal :=
  match op with
  | .not => .ok (.v (.bool (!(x.truth env))))
  | .neg =>
    match x with
    | .v y => (Value.neg y).map .v
    | .fn _ => .error (.cannot "expr-operand")

/-- a binary node once its left operand is evaluated; `k` evaluates the right
    operand, and is not called when `and` / `or` are decided by the left one
    (op.cc 379-391) -/
def binRest (env : PrecEnv) (op : BinOp) (x : RVal) (k : Unit → Res RVal) : Res RVal :=
  match op with
  | .and => if x.truth env then k () else .ok (.v (.bool false))
  | .or => if x.truth env then .ok x else k ()
  | op =>
    match k () with
    | .error e => .error e
    | .ok y => applyBin env op x y

/-- calc_call after find_definition (op.cc 537-562, 474-518): bind the
    arguments, evaluate the body with the argument frame in front. -/
def callLambda (rec : Scope → Expr → Res RVal) (σ : Scope) (fv : RVal) (args : Expr) : Res RVal :=
  match fv with
  | .v _ => .error errCall
  | .fn (.lambda params body) =>
    match paramNames params with
    | none => .error errCall
    | some ps =>
      match bindArgs (rec σ) ps (splitCons args) with
      | .error e => .error e
      | .ok frame =>
        match body with
        | .scope b => rec (frame :: σ) b
        | b => rec [frame] b
  | .fn _ => .error errCall

/-- lookup_ident (op.cc 234-247): the compiled definition, else the scope's -/
def identDef (σ : Scope) (n : String) (d : Expr) : Option Expr :=
  match d with
  | .nil => σ.lookup n
  | .plug => σ.lookup n
  | d' => some d'

/-- One level of op_t::calc.  `rec` evaluates an expression that is not a
    sub-term (a looked-up definition, a lambda body, an argument); `calcF` ties
    the knot with fuel, so that operator nodes over sub-terms cost no fuel. -/
def calcStep (env : PrecEnv) (rec : Scope → Expr → Res RVal) : Scope → Expr → Res RVal
  | _, .nil => .error errSyntax
  | _, .plug => .error errSyntax
  | _, .val v => .ok (.v v)
  | _, .define _ _ => .ok (.v .void)                       -- op.cc 270-272
  | σ, .ident n d =>                                       -- op.cc 274-281
    match identDef σ n d with
    | some d' => rec σ d'
    | none => .error errUnknownIdent
  | σ, .scope b => calcStep env rec σ b                    -- op.cc 293-302
  | _, .lambda p b => .ok (.fn (.lambda p b))              -- op.cc 324-326
  | σ, .un op e =>                                         -- op.cc 371-377
    match calcStep env rec σ e with
    | .error e => .error e
    | .ok x => applyUn env op x
  | σ, .bin op l r =>                                      -- op.cc 333-369, 379-391
    match calcStep env rec σ l with
    | .error e => .error e
    | .ok x => binRest env op x (fun _ => calcStep env rec σ r)
  | σ, .query c a b =>                                     -- op.cc 393-400
    match calcStep env rec σ c with
    | .error e => .error e
    | .ok x => if x.truth env then calcStep env rec σ a else calcStep env rec σ b
  | σ, .seq l r =>                                         -- calc_seq, op.cc 589-614
    match calcStep env rec σ l with
    | .error e => .error e
    | .ok _ => calcStep env rec σ r
  | σ, .cons l .nil => calcStep env rec σ l                -- calc_cons, op.cc 564-587
  | _, .cons _ _ => .error errUnsup
  | σ, .call f args =>                                     -- calc_call, find_definition, call_lambda: op.cc 438-562
    match calcStep env rec σ f with
    | .error e => .error e
    | .ok fv => callLambda rec σ fv args

def calcF (env : PrecEnv) : Nat → Scope → Expr → Res RVal
  | 0 => fun _ _ => .error errFuel
  | f + 1 => calcStep env (calcF env f)

/-! ## Compilation (op_t::compile, op.cc 89-231) -/

def Expr.isVal : Expr → Bool
  | .val _ => true
  | _ => false

/-- "Reduce constants immediately if possible" (op.cc 214-218): the node is
    evaluated on the spot; its operands are literals, so nothing is looked up. -/
def foldCalc (env : PrecEnv) (e : Expr) : Res Expr :=
  match calcStep env (fun _ _ => .error errFuel) [] e with
  | .error err => .error err
  | .ok (.v x) => .ok (.val x)
  | .ok (.fn _) => .error errUnsup

/-- the generic tail of compile (op.cc 200-220) for a node rebuilt from its
    compiled operands: unchanged → the node itself (the rebuilt node is the same
    tree then); otherwise a copy, folded when `fold` is on and every operand is
    a literal. -/
def finish (env : PrecEnv) (fold : Bool) (new : Expr) (changed allVal : Bool) : Res (Expr × Bool) :=
  if !changed then .ok (new, false)
  else if fold && allVal then (foldCalc env new).map (fun e => (e, true))
  else .ok (new, true)

/-- what an O_DEFINE defines (op.cc 142-169): `x = …` a name, `f(params) = …` a function -/
def defTarget : Expr → Option (String × Option (Expr × List String))
  | .ident n _ => some (n, none)
  | .call (.ident fn _) params =>
    match paramNames params with
    | some ps => some (fn, some (params, ps))
    | none => none
  | _ => none

/-- `compile fold G π e = (e', changed, G')`: `G` is the symbol scope definitions
    go to (the session's, for `eval`), `π` the parameter names of the enclosing
    lambdas (op.cc 173-191, looked up first, 109-112), `changed` says whether
    the result is a new node (`result != this`).  A null left operand (never built
    by the parser) is not tested for here; evaluating it fails instead.  With `fold = false` the
    constant folding of op.cc 214-218 is left out – evaluation of that tree is
    "direct" evaluation. -/
def compile (env : PrecEnv) (fold : Bool) : Frame → List (List String) → Expr → Res (Expr × Bool × Frame)
  | G, _, .nil => .ok (.nil, false, G)
  | G, _, .plug => .ok (.plug, false, G)
  | G, _, .val v => .ok (.val v, false, G)
  | G, π, .ident n d =>                                    -- op.cc 106-131
    if π.any (fun ps => ps.contains n) then .ok (.ident n .plug, true, G)
    else match G.lookup n with
      | some d' => .ok (.ident n d', true, G)
      | none => .ok (.ident n d, !d.isNil, G)
  | G, π, .scope b =>                                      -- op.cc 132-137, then 200-220
    match compile env fold G π b with
    | .error e => .error e
    | .ok (b', ch, G') =>
      if !ch then .ok (.scope b', false, G')
      else if fold && b'.isVal then .ok (b', true, G')
      else .ok (.scope b', true, G')
  | G, π, .define l r =>                                   -- op.cc 141-171
    match defTarget l with
    | none => .error errCall
    | some (n, none) =>
      match compile env fold G π r with
      | .error e => .error e
      | .ok (r', _, G') => .ok (.val .void, true, (n, r') :: G')
    | some (n, some (params, ps)) =>
      match compile env fold G (ps :: π) r with
      | .error e => .error e
      | .ok (r', _, G') => .ok (.val .void, true, (n, .lambda params r') :: G')
  | G, π, .lambda p b =>                                   -- op.cc 172-198
    match paramNames p with
    | none => .error errCall
    | some ps =>
      match compile env fold G (ps :: π) b with
      | .error e => .error e
      | .ok (b', ch, G') => .ok (.lambda p b', ch, G')
  | G, π, .un op e =>
    match compile env fold G π e with
    | .error err => .error err
    | .ok (e', ch, G') =>
      match finish env fold (.un op e') ch e'.isVal with
      | .error err => .error err
      | .ok (n, c) => .ok (n, c, G')
  | G, π, .bin op l r =>
    match compile env fold G π l with
    | .error err => .error err
    | .ok (l', cl, G1) =>
      match compile env fold G1 π r with
      | .error err => .error err
      | .ok (r', cr, G2) =>
        match finish env fold (.bin op l' r') (cl || cr) (l'.isVal && r'.isVal) with
        | .error err => .error err
        | .ok (n, c) => .ok (n, c, G2)
  | G, π, .query c a b =>                                  -- O_QUERY(c, O_COLON(a, b)): the O_COLON node is compiled like any binary node
    match compile env fold G π c with
    | .error err => .error err
    | .ok (c', cc, G1) =>
      match compile env fold G1 π a with
      | .error err => .error err
      | .ok (a', ca, G2) =>
        match compile env fold G2 π b with
        | .error err => .error err
        | .ok (b', cb, G3) =>
          -- folding an O_COLON evaluates it: op.cc 402-404 asserts
          if fold && (ca || cb) && a'.isVal && b'.isVal then .error errAssert
          else .ok (.query c' a' b', cc || ca || cb, G3)
  | G, π, .seq l r =>
    match compile env fold G π l with
    | .error err => .error err
    | .ok (l', cl, G1) =>
      match compile env fold G1 π r with
      | .error err => .error err
      | .ok (r', cr, G2) =>
        match finish env fold (.seq l' r') (cl || cr) (l'.isVal && (r'.isVal || r'.isNil)) with
        | .error err => .error err
        | .ok (n, c) => .ok (n, c, G2)
  | G, π, .cons l r =>
    match compile env fold G π l with
    | .error err => .error err
    | .ok (l', cl, G1) =>
      match compile env fold G1 π r with
      | .error err => .error err
      | .ok (r', cr, G2) =>
        match finish env fold (.cons l' r') (cl || cr) (l'.isVal && (r'.isVal || r'.isNil)) with
        | .error err => .error err
        | .ok (n, c) => .ok (n, c, G2)
  | G, π, .call f a =>
    match compile env fold G π f with
    | .error err => .error err
    | .ok (f', cf, G1) =>
      match compile env fold G1 π a with
      | .error err => .error err
      | .ok (a', ca, G2) =>
        match finish env fold (.call f' a') (cf || ca) (f'.isVal && (a'.isVal || a'.isNil)) with
        | .error err => .error err
        | .ok (n, c) => .ok (n, c, G2)

def evalFuel : Nat := 2000

/-- expr_t::calc(scope): compile once (exprbase.h), then calc in the scope the
    definitions went to. -/
def evalWith (env : PrecEnv) (fold : Bool) (fuel : Nat) (G : Frame) (e : Expr) : Res RVal :=
  match compile env fold G [] e with
  | .error err => .error err
  | .ok (e', _, G') => calcF env fuel [G'] e'

def evalExpr (env : PrecEnv) (e : Expr) : Res RVal := evalWith env true evalFuel [] e

def evalText (env : PrecEnv) (s : String) : Res RVal :=
  match parseText s with
  | .error e => .error e
  | .ok .nil => .ok (.v .void)
  | .ok e => evalExpr env e

end Ledger
