/- Driver ops for the value-expression model (C15).

   expr.tokens  TEXT            -> ok  KIND KIND ...
   expr.parse   TEXT            -> ok  SEXPR  PRINTED-TEXT  SELF   (SELF = 1 when tokenising the printed text gives printToks)
   expr.eval    ENV TEXT        -> ok  VALUE | err KIND            (compile with folding, then calc)
   expr.evalnf  ENV TEXT        -> same, constant folding left out ("direct" evaluation)
   expr.reparse ENV TEXT        -> ok  R1 R2 V    R1: parse (printToks e) vs e, R2: parse (tokenize (print e)) vs e
                                                  (same | diff | err), V: value of the re-parsed text vs value of e (same | diff | err)
   ENV is `COMM=prec,...` as for val.rpn.  The S-expression mirrors op_t::dump
   (kinds as in op.h, an O_QUERY has an O_COLON child, definitions and lambdas a
   SCOPE child). -/
import LedgerModel.Model.Expr
import LedgerModel.Model.ValueProto

namespace Ledger

def Err.kindText : Err → String
  | .diffComm => "diffComm"
  | .divZero => "divZero"
  | .multiComm => "multiComm"
  | .cannot op =>
    if op = "parse" then "parse"
    else if op = "unsupported" then "unsupported"
    else if op = "fuel" then "fuel"
    else if op = "unknown-ident" then "unknownIdent"
    else if op = "assert" then "assert"
    else "cannot"

def Value.shortText : Value → String
  | .void => "N"
  | .bool b => "T:" ++ (if b then "true" else "false")
  | .int n => s!"I:{n}"
  | .amt a => s!"A:{ratStr a.q}:{a.comm}"
  | .bal b => "B:" ++ toString b.length

def Expr.sexpr : Expr → String
  | .nil => "NULL"
  | .plug => "PLUG"
  | .val v => "(VALUE " ++ v.shortText ++ ")"
  | .ident n .nil => "(IDENT " ++ n ++ ")"
  | .ident n d => "(IDENT " ++ n ++ " " ++ d.sexpr ++ ")"
  | .scope b => "(SCOPE " ++ b.sexpr ++ ")"
  | .un op e => "(" ++ op.kind ++ " " ++ e.sexpr ++ ")"
  | .bin op l r => "(" ++ op.kind ++ " " ++ l.sexpr ++ " " ++ r.sexpr ++ ")"
  | .query c a b => "(O_QUERY " ++ c.sexpr ++ " (O_COLON " ++ a.sexpr ++ " " ++ b.sexpr ++ "))"
  | .cons l .nil => "(O_CONS " ++ l.sexpr ++ ")"
  | .cons l r => "(O_CONS " ++ l.sexpr ++ " " ++ r.sexpr ++ ")"
  | .seq l r => "(O_SEQ " ++ l.sexpr ++ " " ++ r.sexpr ++ ")"
  | .define l r => "(O_DEFINE " ++ l.sexpr ++ " " ++ r.sexpr ++ ")"
  | .lambda p b => "(O_LAMBDA " ++ p.sexpr ++ " " ++ b.sexpr ++ ")"
  | .call f .nil => "(O_CALL " ++ f.sexpr ++ ")"
  | .call f a => "(O_CALL " ++ f.sexpr ++ " " ++ a.sexpr ++ ")"

/-- `{literal}` re-reads with the keep-precision flag set (amount.cc 1185-1187);
    the printed text is compared with the tree up to that flag. -/
def Value.eraseKeep : Value → Value
  | .amt a => .amt { a with keep := false }
  | .bal b => .bal (b.map (fun a => { a with keep := false }))
  | v => v

def Expr.eraseKeep : Expr → Expr
  | .nil => .nil
  | .plug => .plug
  | .val v => .val v.eraseKeep
  | .ident n d => .ident n d.eraseKeep
  | .scope b => .scope b.eraseKeep
  | .un op e => .un op e.eraseKeep
  | .bin op l r => .bin op l.eraseKeep r.eraseKeep
  | .query c a b => .query c.eraseKeep a.eraseKeep b.eraseKeep
  | .cons l r => .cons l.eraseKeep r.eraseKeep
  | .seq l r => .seq l.eraseKeep r.eraseKeep
  | .define l r => .define l.eraseKeep r.eraseKeep
  | .lambda p b => .lambda p.eraseKeep b.eraseKeep
  | .call f a => .call f.eraseKeep a.eraseKeep

def Tok.eraseKeep : Tok → Tok
  | .value v => .value v.eraseKeep
  | t => t

def RVal.eraseKeep : RVal → RVal
  | .v x => .v x.eraseKeep
  | .fn l => .fn l.eraseKeep

/-- the exact quantity per commodity (what "the same value" means for print / re-parse):
    precision counters and the keep flag are display bookkeeping -/
def Value.denText : Value → String
  | .void => "N"
  | .bool b => "T:" ++ (if b then "true" else "false")
  | .int n => if n = 0 then "Q:" else s!"Q:{n}/1:"
  | .amt a => if a.q = 0 then "Q:" else s!"Q:{ratStr a.q}:{a.comm}"
  | .bal b => "Q:" ++ ";".intercalate (sortStrings ((b.filter (fun a => a.q ≠ 0)).map (fun a => s!"{ratStr a.q}:{a.comm}")))

def RVal.denText : RVal → String
  | .v x => x.denText
  | .fn _ => "FN"

def Tok.text : Tok → String
  | .value v => "VALUE[" ++ v.shortText ++ "]"
  | .ident s => "IDENT[" ++ s ++ "]"
  | t => t.kind

def RVal.render : RVal → String
  | .v x => x.render
  | .fn _ => "FN"

def resText : Res RVal → String
  | .ok r => "ok\t" ++ r.render
  | .error e => "err\t" ++ e.kindText

/-- does the token list end in the marker of a construct the model does not cover? -/
def endsUnsupported : List Tok → Bool
  | [.bad, .bad] => true
  | _ :: ts => endsUnsupported ts
  | [] => false

/-- a parse error on text with an uncovered construct is reported as `unsupported` -/
def parseTextU (s : String) : Res Expr :=
  match parseText s with
  | .error e => if endsUnsupported (Lex.tokenize s.toList) then .error errUnsup else .error e
  | .ok e => .ok e

def opExprTokens (args : List String) : String :=
  match args with
  | [t] => "ok\t" ++ " ".intercalate ((Lex.tokenize t.toList).map Tok.text)
  | _ => "err\tbad-op"

def opExprParse (args : List String) : String :=
  match args with
  | [t] =>
    match parseTextU t with
    | .error e => "err\t" ++ e.kindText
    | .ok e =>
      let self := if (Lex.tokenize (print e).toList).map Tok.eraseKeep = (printToks e).map Tok.eraseKeep then "1" else "0"
      "ok\t" ++ e.sexpr ++ "\t" ++ print e ++ "\t" ++ self
  | _ => "err\tbad-op"

def evalTextWith (env : PrecEnv) (fold : Bool) (s : String) : Res RVal :=
  match parseTextU s with
  | .error e => .error e
  | .ok .nil => .ok (.v .void)
  | .ok e => evalWith env fold evalFuel [] e

def opExprEval (fold : Bool) (args : List String) : String :=
  match args with
  | [envs, t] => resText (evalTextWith (parseEnv envs) fold t)
  | _ => "err\tbad-op"

def cmpTree (e : Expr) (r : Res Expr) : String :=
  match r with
  | .error _ => "err"
  | .ok e' => if e'.eraseKeep = e.eraseKeep then "same" else "diff"

def opExprReparse (args : List String) : String :=
  match args with
  | [envs, t] =>
    let env := parseEnv envs
    match parseTextU t with
    | .error e => "err\t" ++ e.kindText
    | .ok e =>
      let r1 := parseToks (printToks e)
      let r2 := parseText (print e)
      let v0 := evalWith env true evalFuel [] e
      let v :=
        match r2 with
        | .error _ => "err"
        | .ok e2 =>
          match evalWith env true evalFuel [] e2, v0 with
          | .ok a, .ok b => if a.denText = b.denText then "same" else "diff"
          | .error _, .error _ => "same"
          | _, _ => "diff"
      "ok\t" ++ cmpTree e r1 ++ "\t" ++ cmpTree e r2 ++ "\t" ++ v
  | _ => "err\tbad-op"

def ExprProto.ops : List (String × (List String → String)) :=
  [("expr.tokens", opExprTokens), ("expr.parse", opExprParse),
   ("expr.eval", opExprEval true), ("expr.evalnf", opExprEval false),
   ("expr.reparse", opExprReparse)]

end Ledger
