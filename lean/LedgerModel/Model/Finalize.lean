/-
Model of `xact_base_t::finalize` (src/xact.cc 158-423) and of the journal step
that admits or drops a transaction (journal.cc 365-372 `journal_t::add_xact`,
textual.cc 258-300 per-item error accounting, textual.cc 535-539 `A`/bucket).
Shared by C01 (accepted iff balanced) and C02 (elided amount = exact negation).

What is mirrored, in the order of the C++:
 1. textual.cc 1607-1622: the total cost stored in `post->cost` at parse time
    (`@` multiplies by the signed amount, `@@` takes the sign of the amount; the
    cost keeps full precision: PARSE_NO_MIGRATE + `in_place_unround`);
 2. xact.cc 167-200: residual `balance` over `must_balance()` postings of
    `post->cost ? *post->cost : post->amount` with the keep-precision flag
    cleared (`rounded()` only drops the flag, amount.cc 612-621), detection of
    the null posting and the error on a second one;
 3. xact.cc 214-218: the bucket posting for one-posting transactions;
 4. xact.cc 220-283: the two-commodity implicit exchange;
 5. xact.cc 287-294: "cost must be of a different commodity";
 6. xact.cc 355-374 + 125-155: filling the null posting (`add_balancing_post`),
    in `balance_t::map_sorted_amounts` order (balance.cc 273-300: stable sort by
    `commodity_t::compare_by_commodity`, commodity.cc 389-402: by symbol);
 7. xact.cc 377-384: the zero test `balance.is_zero()` (display precision) and
    "Transaction does not balance";
 8. xact.cc 388-418: all-null transactions are ignored, a remaining null amount
    is an error.

 5b. xact.cc 296-352 + pool.cc 237-320 (`exchange`): for every posting with a
    cost, either the gain/loss adjustment (the amount's commodity carries a lot
    price: cost := cost + (price × quantity − cost), the same difference is
    added to the balance when the posting must balance) or the annotation of
    the amount with the per-unit cost and the transaction date (`lotStep`);
 Lot annotations: an annotated commodity is a commodity of its own, encoded in
 the `Comm` string as `BASE{exact price}[date](tag)` exactly as Model/Reports.lean
 (C05) does (`encodeLot` / `decodeLot`; price = `num/den SYMBOL`, date as
 printed `YYYY/MM/DD`).  The annotation's price AMOUNT (with its precision
 counter, needed for the basis cost) travels with the posting (`FPost.lotPrice`).
 `{{total}}` is divided by |quantity| at parse time (amount.cc 1235-1240);
 `{=fixed}` is a flag of the annotation, not part of the commodity's identity,
 and changes nothing in finalize.  Commodities are sorted as
 `commodity_t::compare_by_commodity` does (commodity.cc 389-520): base symbol,
 no-price < price, price commodity symbol, price value, no-date < date, date,
 no-tag < tag, tag (`commLe`).

Parameters / not modelled (kept out of the generators):
 * `enum : Balance → Balance` is the iteration order of the
   `unordered_map<commodity_t*, amount_t>` inside `balance_t`; it is used exactly
   where the C++ walks the map (`bal.amounts.begin()` at xact.cc 252-255 and
   `sorted_amounts` at balance.cc 275-277).  Theorems assume only that it
   enumerates the entries (`(enum b).Perm b`);
 * of `exchange()` only what reaches the transaction is modelled (the computed
   annotation and the basis cost), not the price-history entry it records;
   `((value expressions))` in annotations, `@ =cost` (POST_COST_FIXATED) and
   `(@) virtual costs` are not modelled; the commodity pool keeps the FIRST
   annotation object created for a (symbol, price, date, tag) key, so the
   precision counter / fixated flag of a lot price written twice in different
   forms is that of the first writer: generators write one lot one way;
 * `reduced()` is the identity (no scaling commodities such as s/m/h);
 * `PrecEnv` is the commodity display precision in force when `finalize` runs
   (every posting of the transaction has already been parsed, amount.cc
   1190-1195: amounts raise it, costs do not – PARSE_NO_MIGRATE).
Core Lean only.
-/
import LedgerModel.Model.Journal
import LedgerModel.Model.Calendar

namespace Ledger
namespace FinX

/-- A posting as `finalize` sees and leaves it. `cost` is `post->cost` (total,
    signed); the flags are POST_CALCULATED, POST_COST_CALCULATED, ITEM_GENERATED,
    ITEM_INFERRED. -/
structure FPost where
  account : String
  kind : PostKind
  state : ItemState
  amount : Option Amount
  cost : Option Amount
  calculated : Bool
  costCalculated : Bool
  generated : Bool
  inferred : Bool
  lotPrice : Option Amount      -- `amount.annotation().price` (per unit), when the commodity has one
deriving DecidableEq, Repr

structure FXact where
  posts : List FPost
deriving DecidableEq, Repr

inductive FinErr
  | twoNulls        -- "Only one posting with null amount allowed per transaction"
  | misspelled      -- "Posting with null amount's account may be misspelled"
  | unbalanced      -- "Transaction does not balance"
  | sameCommCost    -- "A posting's cost must be of a different commodity than its amount"
  | nullAfter       -- "There cannot be null amounts after balancing a transaction"
  | uninit          -- "Cannot reduce an uninitialized amount" (xact.cc 270 on a null amount)
  | ignored         -- finalize returned false: every amount is null; not an error
  | value (e : Err) -- an error of the value arithmetic
deriving DecidableEq, Repr

/-- post.h 146-148 `must_balance()`: `! POST_VIRTUAL || POST_MUST_BALANCE`. -/
def FPost.mustBalance (p : FPost) : Bool := p.kind ≠ .virtual

/-- textual.cc 1607-1622: the total cost kept in `post->cost`. -/
def parseCost (env : PrecEnv) (amt : Amount) (c : Cost) : Amount :=
  let c0 : Amount := { c.amt with keep := true }           -- PARSE_NO_MIGRATE, in_place_unround
  if c.perUnit then
    { Amount.mul env c0 amt with comm := c0.comm }          -- *cost *= amount; set_commodity(cost_commodity)
  else if amt.q < 0 then c0.neg else c0                     -- in_place_negate when the amount is negative

/-! ### Lot annotations -/

/-- the `{…} [date] (tag)` a posting amount is written with -/
structure LotSpec where
  price : Option Amount     -- as written inside `{…}` / `{{…}}`
  total : Bool              -- `{{…}}`: price of the whole quantity
  fixated : Bool            -- `{=…}`: a flag of the annotation, irrelevant to finalize
  date : Option String      -- `[YYYY/MM/DD]`
  tag : Option String
deriving DecidableEq, Repr

/-- a posting as written: `post.amount.comm` is the BASE symbol, `lot` its annotation -/
structure LPosting where
  post : Posting
  lot : Option LotSpec
deriving Repr

structure LXact where
  date : Int                -- days since 1970-01-01
  posts : List LPosting
deriving Repr

def LXact.ofXact (x : Xact) : LXact := { date := x.date, posts := x.posts.map (fun p => ⟨p, none⟩) }

/-- `BASE{price}[date](tag)`, the encoding of Model/Reports.lean (`Lot.encode`). -/
def encodeLot (base price date tag : String) : Comm :=
  if price.isEmpty && date.isEmpty && tag.isEmpty then base
  else base ++ "{" ++ price ++ "}[" ++ date ++ "](" ++ tag ++ ")"

def splitFirst (c : Char) : List Char → Option (List Char × List Char)
  | [] => none
  | x :: xs => if x = c then some ([], xs) else (splitFirst c xs).map (fun r => (x :: r.1, r.2))

def splitFirst2 (c1 c2 : Char) : List Char → Option (List Char × List Char)
  | [] => none
  | [_] => none
  | x :: y :: xs =>
    if x = c1 ∧ y = c2 then some ([], xs)
    else (splitFirst2 c1 c2 (y :: xs)).map (fun r => (x :: r.1, r.2))

/-- (base, price, date, tag) of an encoded commodity: the inverse of `encodeLot`
    (same reading as Model/Reports.lean `Lot.decode` on well-formed keys; written
    by structural recursion on the characters so that it evaluates in the kernel). -/
def decodeLot (c : Comm) : String × String × String × String :=
  match splitFirst '{' c.toList with
  | some (b, r) =>
    match splitFirst2 '}' '[' r with
    | some (p, r2) =>
      match splitFirst2 ']' '(' r2 with
      | some (d, r3) => (String.ofList b, String.ofList p, String.ofList d, String.ofList r3.dropLast)
      | none => (c, "", "", "")
    | none => (c, "", "", "")
  | none => (c, "", "", "")

/-- exact lot price inside the commodity key: `num/den SYMBOL` -/
def priceStr (a : Amount) : String := ratStr a.q ++ " " ++ a.comm

def padNat (w : Nat) (n : Nat) : String :=
  let s := toString n
  String.ofList (List.replicate (w - s.length) '0') ++ s

/-- format_date(FMT_WRITTEN) = `%Y/%m/%d` -/
def dateText (n : Int) : String :=
  let ymd := Cal.toYMD n
  padNat 4 ymd.1.toNat ++ "/" ++ padNat 2 ymd.2.1.toNat ++ "/" ++ padNat 2 ymd.2.2.toNat

/-- amount.cc 1235-1240: the annotation price per unit (`{{total}}` is divided
    by |quantity|; amount.cc raises "Divide by zero" for a zero quantity, the
    generators never write that). Parsed with PARSE_NO_MIGRATE: precision kept. -/
def lotPriceOf (env : PrecEnv) (a : Amount) (l : LotSpec) : Option Amount :=
  l.price.map (fun p =>
    let p0 : Amount := { p with keep := true }
    if l.total then
      match Amount.div env p0 a.abs with
      | .ok r => r
      | .error _ => p0
    else p0)

/-- the commodity of a written amount: the annotated commodity when a lot is given -/
def lotComm (env : PrecEnv) (a : Amount) (lot : Option LotSpec) : Comm :=
  match lot with
  | none => a.comm
  | some l => encodeLot a.comm (match lotPriceOf env a l with | some p => priceStr p | none => "")
                (l.date.getD "") (l.tag.getD "")

def FPost.ofPosting (env : PrecEnv) (lp : LPosting) : FPost :=
  let p := lp.post
  let amt : Option Amount := p.amount.map (fun a => { a with comm := lotComm env a lp.lot })
  { account := p.account, kind := p.kind, state := p.state, amount := amt,
    cost := match p.amount, p.cost with
      | some a, some c => some (parseCost env a c)
      | _, _ => none,
    calculated := false, costCalculated := false, generated := false, inferred := false,
    lotPrice := match p.amount, lp.lot with
      | some a, some l => lotPriceOf env a l
      | _, _ => none }

/-- xact.cc 171: `post->cost ? *post->cost : post->amount`. -/
def costOrAmt (p : FPost) : Option Amount :=
  match p.cost with
  | some c => some c
  | none => p.amount

def isNull : Value → Bool
  | .void => true
  | _ => false

/-- value_t::is_zero (value.cc 1516-1546) on the numeric cells; balance_t::is_zero
    (balance.h 437-445); amount_t::is_zero is `Amount.isZero`. -/
def valueIsZero (env : PrecEnv) : Value → Bool
  | .void => true
  | .bool b => !b
  | .int n => n = 0
  | .amt a => a.isZero env
  | .bal b => b.all (Amount.isZero env)

/-- xact.cc 117-123 `account_ends_with_special_char`. -/
def endsSpecial (name : String) : Bool :=
  match name.toList.getLast? with
  | some ch => ch.isDigit || ch == ')' || ch == '}' || ch == ']'
  | none => false

/-- xact.cc 167-200. `i` is the index of the head of the list in the
    transaction; the null posting is remembered as (index, account). -/
def scan : List FPost → Nat → Value → Option (Nat × String) →
    Except FinErr (Value × Option (Nat × String))
  | [], _, bal, np => .ok (bal, np)
  | p :: ps, i, bal, np =>
    if p.mustBalance = false then scan ps (i + 1) bal np
    else match costOrAmt p with
      | some a =>
        -- add_or_set_value(balance, p.keep_precision() ? p.rounded().reduced() : p.reduced())
        match Value.add bal (.amt { a with keep := false }) with
        | .ok b' => scan ps (i + 1) b' np
        | .error e => .error (.value e)
      | none =>
        match np with
        | some (_, acct) =>
          if endsSpecial p.account ∨ endsSpecial acct then .error .misspelled
          else .error .twoNulls
        | none => scan ps (i + 1) bal (some (i, p.account))

/-- xact.cc 214-218: one posting, a bucket in force and a non-null balance:
    a null posting on the bucket account is appended and becomes the null post. -/
def applyBucket (bucket : Option String) (ps : List FPost) (bal : Value) (np : Option Nat) :
    List FPost × Option Nat :=
  match bucket with
  | some b =>
    if ps.length = 1 ∧ isNull bal = false then
      (ps ++ [{ account := b, kind := .real, state := (ps.head?.map (·.state)).getD 0,
                amount := none, cost := none, calculated := false, costCalculated := false,
                generated := false, inferred := true, lotPrice := none }], some ps.length)
    else (ps, np)
  | none => (ps, np)

/-- `commodity().has_annotation()` on the encoded commodity -/
def hasAnn (c : Comm) : Bool := (decodeLot c).1 ≠ c

/-- xact.cc 230-245: (saw_cost, top_post); an annotated amount is preferred
    (the last one wins), otherwise the first must-balance posting with an amount. -/
def topScan : List FPost → Option FPost → Bool × Option FPost
  | [], top => (false, top)
  | p :: ps, top =>
    let top' := match p.amount with
      | some a => if p.mustBalance then
                    (if hasAnn a.comm then some p
                     else match top with | none => some p | some t => some t)
                  else top
      | none => top
    if p.cost.isSome ∧ p.costCalculated = false then (true, top') else topScan ps top'

/-- xact.cc 269-280: every must-balance posting in the primary commodity gets
    the computed cost; the balance is updated posting by posting. -/
def exchPosts (env : PrecEnv) (comm : Comm) (perUnit : Amount) :
    List FPost → Value → Except FinErr (List FPost × Value)
  | [], bal => .ok ([], bal)
  | p :: ps, bal =>
    match p.amount with
    | none => .error .uninit                               -- post->amount.reduced() on a null amount
    | some amt =>
      if p.mustBalance ∧ amt.comm = comm then
        match Value.sub bal (.amt amt) with                 -- balance -= amt
        | .error e => .error (.value e)
        | .ok b1 =>
          let cost := Amount.mul env perUnit amt            -- post->cost = per_unit_cost * amt
          match Value.add b1 (.amt cost) with               -- balance += *post->cost
          | .error e => .error (.value e)
          | .ok b2 =>
            match exchPosts env comm perUnit ps b2 with
            | .error e => .error e
            | .ok (r, b3) => .ok ({ p with cost := some cost, costCalculated := true } :: r, b3)
      else
        match exchPosts env comm perUnit ps bal with
        | .error e => .error e
        | .ok (r, b3) => .ok (p :: r, b3)

/-- xact.cc 264-281 with `x` the primary and `y` the secondary amount. -/
def exchangeWith (env : PrecEnv) (x y : Amount) (ps : List FPost) (bal : Value) :
    Except FinErr (List FPost × Value) :=
  match Amount.div env y x with
  | .error e => .error (.value e)
  | .ok r => exchPosts env x.comm { r.abs with keep := true } ps bal   -- (*y / *x).abs().unrounded()

/-- xact.cc 220-283. -/
def exchange2 (env : PrecEnv) (enum : Balance → Balance) (ps : List FPost) (bal : Value)
    (np : Option Nat) : Except FinErr (List FPost × Value) :=
  match np, bal with
  | none, .bal b =>
    if b.length = 2 then
      match topScan ps none with
      | (false, some top) =>
        match enum b with
        | [x0, y0] =>
          if x0.isZero env = false ∧ y0.isZero env = false then      -- if (*x && *y)
            if some x0.comm ≠ top.amount.map (·.comm) then
              exchangeWith env y0 x0 ps bal                           -- std::swap(x, y)
            else exchangeWith env x0 y0 ps bal
          else .ok (ps, bal)
        | _ => .ok (ps, bal)
      | _ => .ok (ps, bal)
    else .ok (ps, bal)
  | _, _ => .ok (ps, bal)

/-- xact.cc 288-294. -/
def costsOk (ps : List FPost) : Bool :=
  ps.all (fun p => match p.cost, p.amount with
    | some c, some a => a.comm ≠ c.comm
    | _, _ => true)

/-! ### xact.cc 296-352: exchange() and the gain/loss adjustment -/

/-- pool.cc 259-266: the per-unit cost put into the computed annotation
    (its own commodity stripped of annotations, no commodity when the cost has none) -/
def perUnitCost (env : PrecEnv) (amt cost : Amount) : Except FinErr Amount :=
  if amt.isZero env then .ok { cost.abs with comm := (decodeLot cost.comm).1 }
  else match Amount.div env cost amt with
    | .ok r => .ok { r.abs with comm := (decodeLot cost.comm).1 }
    | .error e => .error (.value e)

/-- pool.cc 297-309 + xact.cc 334-343: the amount's commodity gets the computed
    price and the transaction date; a tag it already had is kept. -/
def annotate (c : Comm) (pu : Amount) (date : String) : Comm :=
  let d := decodeLot c
  encodeLot d.1 (priceStr pu) date d.2.2.2

/-- One posting of the loop xact.cc 288-352: (posting afterwards, gain/loss
    to add to the balance). -/
def lotStep (env : PrecEnv) (date : String) (p : FPost) : Except FinErr (FPost × Option Amount) :=
  match p.cost, p.amount with
  | some cost, some amt =>
    match p.lotPrice with
    | some price =>                                   -- amount.has_annotation() && annotation().price
      let basis : Amount := { Amount.mul env price amt with keep := true }   -- (*price * amount).unrounded()
      if basis.comm = cost.comm then                   -- basis_cost.commodity() == final_cost.commodity()
        match Amount.sub basis cost with               -- gain_loss = basis_cost - final_cost
        | .error e => .error (.value e)
        | .ok gl =>
          if gl.isZero env = false then                -- `if (amount_t gain_loss = …)`
            let gl' : Amount := { gl with keep := false }    -- gain_loss.in_place_round()
            match Amount.add cost gl' with             -- *post->cost += gain_loss
            | .error e => .error (.value e)
            | .ok c' => .ok ({ p with cost := some c' }, if p.mustBalance then some gl' else none)
          else .ok (p, none)
      else .ok (p, none)
    | none =>                                          -- post->amount = breakdown.amount (annotated)
      match perUnitCost env amt cost with
      | .error e => .error e
      | .ok pu => .ok ({ p with amount := some { amt with comm := annotate amt.comm pu date },
                                lotPrice := some pu }, none)
  | _, _ => .ok (p, none)

def addGain (bal : Value) (gl : Option Amount) : Except FinErr Value :=
  match gl with
  | none => .ok bal
  | some g => match Value.add bal (.amt g) with        -- add_or_set_value(balance, gain_loss.reduced())
    | .ok b => .ok b
    | .error e => .error (.value e)

def lotLoop (env : PrecEnv) (date : String) : List FPost → Value → Except FinErr (List FPost × Value)
  | [], bal => .ok ([], bal)
  | p :: ps, bal =>
    match lotStep env date p with
    | .error e => .error e
    | .ok (p', gl) =>
      match addGain bal gl with
      | .error e => .error e
      | .ok bal' =>
        match lotLoop env date ps bal' with
        | .error e => .error e
        | .ok (r, b) => .ok (p' :: r, b)

/-! ### commodity_t::compare_by_commodity (commodity.cc 389-520) -/

/-- lexicographic combination of two total preorders given as Bool relations -/
def lexLe {α : Type} (r1 r2 : α → α → Bool) (a b : α) : Bool := r1 a b && (!(r1 b a) || r2 a b)

def lotBase (c : Comm) : String := (decodeLot c).1
def lotHasPrice (c : Comm) : Bool := (decodeLot c).2.1 ≠ ""
def natOfDigits (l : List Char) : Nat := l.foldl (fun n ch => n * 10 + (ch.toNat - '0'.toNat)) 0

/-- `num/den` (as `ratStr` writes it) back to a rational; 0 on anything else -/
def ratOfChars (l : List Char) : Rat :=
  let neg := l.head? = some '-'
  let l' := if neg then l.drop 1 else l
  match splitFirst '/' l' with
  | some (n, d) =>
    let q := mkRat (natOfDigits n) (natOfDigits d)
    if neg then -q else q
  | none => 0

def lotPComm (c : Comm) : String :=
  match splitFirst ' ' (decodeLot c).2.1.toList with
  | some (_, r) => String.ofList r
  | none => ""
def lotPVal (c : Comm) : Rat :=
  match splitFirst ' ' (decodeLot c).2.1.toList with
  | some (q, _) => ratOfChars q
  | none => 0
def lotHasDate (c : Comm) : Bool := (decodeLot c).2.2.1 ≠ ""
def lotDate (c : Comm) : String := (decodeLot c).2.2.1
def lotHasTag (c : Comm) : Bool := (decodeLot c).2.2.2 ≠ ""
def lotTag (c : Comm) : String := (decodeLot c).2.2.2

def leS (f : Comm → String) (a b : Comm) : Bool := decide (f a ≤ f b)
def leB (f : Comm → Bool) (a b : Comm) : Bool := !(f a) || f b
def leQ (f : Comm → Rat) (a b : Comm) : Bool := decide (f a ≤ f b)

/-- base symbol; no price < price; price commodity symbol; price value; no date <
    date; date; no tag < tag; tag.  (The last component, the key itself, only
    makes the relation antisymmetric on arbitrary strings; on well-formed keys the
    components before it already decide.) -/
def commLe : Comm → Comm → Bool :=
  lexLe (leS lotBase) (lexLe (leB lotHasPrice) (lexLe (leS lotPComm) (lexLe (leQ lotPVal)
    (lexLe (leB lotHasDate) (lexLe (leS lotDate) (lexLe (leB lotHasTag) (lexLe (leS lotTag) (leS id))))))))

/-- insertion of `a` before the first entry that is not smaller (stable). -/
def insByComm (a : Amount) : List Amount → List Amount
  | [] => [a]
  | b :: bs => if commLe a.comm b.comm then a :: b :: bs else b :: insByComm a bs

/-- std::stable_sort by `compare_by_commodity`. -/
def sortByComm : List Amount → List Amount
  | [] => []
  | a :: as => insByComm a (sortByComm as)

/-- balance_t::map_sorted_amounts (balance.cc 287-300). -/
def sortedAmounts (enum : Balance → Balance) (b : Balance) : List Amount :=
  match b with
  | [a] => [a]
  | _ => sortByComm (enum b)

/-- xact.cc 363-370: which amounts the null posting has to offset. -/
def fillAmounts (enum : Balance → Balance) (bal : Value) : Except FinErr (List Amount) :=
  match bal with
  | .bal b => .ok (sortedAmounts enum b)
  | .amt a => .ok [a]
  | .int n => .ok [Amount.ofInt n]
  | v => if isNull v = false ∧ v.isRealZero = false then .error .unbalanced else .ok []

/-- add_balancing_post (xact.cc 125-155): the first amount goes into the null
    posting, every further one into a generated copy appended to the transaction. -/
def fillPosts (ps : List FPost) (i : Nat) (npost : FPost) : List Amount → List FPost
  | [] => ps
  | a :: rest =>
    ps.set i { npost with amount := some a.neg, calculated := true } ++
    rest.map (fun r => { npost with amount := some r.neg, calculated := true, generated := true })

/-- xact.cc 355-374. -/
def fillNull (enum : Balance → Balance) (ps : List FPost) (bal : Value) (np : Option Nat) :
    Except FinErr (List FPost × Value) :=
  match np with
  | none => .ok (ps, bal)
  | some i =>
    match ps[i]? with
    | none => .ok (ps, bal)
    | some npost =>
      match fillAmounts enum bal with
      | .error e => .error e
      | .ok amts => .ok (fillPosts ps i npost amts, .void)          -- balance = NULL_VALUE

/-- xact.cc 388-418. -/
def finish (ps : List FPost) : Except FinErr FXact :=
  if ps.all (fun p => p.amount.isNone) then .error .ignored
  else if ps.any (fun p => p.amount.isNone) then .error .nullAfter
  else .ok ⟨ps⟩

/-- xact_base_t::finalize on the parsed postings; `date` is the transaction
    date as printed (used for computed annotations). -/
def finalizeF (env : PrecEnv) (bucket : Option String) (enum : Balance → Balance) (date : String)
    (ps0 : List FPost) : Except FinErr FXact :=
  match scan ps0 0 .void none with
  | .error e => .error e
  | .ok (bal0, np0) =>
    let r1 := applyBucket bucket ps0 bal0 (np0.map (·.1))
    match exchange2 env enum r1.1 bal0 r1.2 with
    | .error e => .error e
    | .ok (ps2, bal2) =>
      if costsOk ps2 = false then .error .sameCommCost
      else match lotLoop env date ps2 bal2 with
        | .error e => .error e
        | .ok (ps2', bal2') =>
          match fillNull enum ps2' bal2' r1.2 with
          | .error e => .error e
          | .ok (ps3, bal3) =>
            if isNull bal3 = false ∧ valueIsZero env bal3 = false then .error .unbalanced
            else finish ps3

/-- the display precision of an annotated commodity is that of its base commodity
    (`annotated_commodity_t` shares the base's `precision`); `env` is keyed by base symbol -/
def liftEnv (env : PrecEnv) : PrecEnv := fun c => env (lotBase c)

def finalize (env : PrecEnv) (bucket : Option String) (enum : Balance → Balance) (x : LXact) :
    Except FinErr FXact :=
  finalizeF (liftEnv env) bucket enum (dateText x.date) (x.posts.map (FPost.ofPosting (liftEnv env)))

/-! ### Journal step -/

/-- amount.cc 1190-1195: a parsed posting amount raises its commodity's display
    precision (costs are parsed with PARSE_NO_MIGRATE and do not). -/
def observe (env : PrecEnv) (x : LXact) : PrecEnv := fun c =>
  x.posts.foldl (fun m p => match p.post.amount with
    | some a => if a.comm = c then max m a.prec else m
    | none => m) (env c)

/-- the three spellings of a default (bucket) account declaration: `A X` (textual.cc
    437-438) and `bucket X` (textual.cc 1344-1345) both reach
    `default_account_directive` (textual.cc 540-544); `account X` with the indented
    sub-directive `default` reaches `account_default_directive` (textual.cc 972-973,
    1057-1060).  All three ASSIGN `journal->bucket`: the last declaration wins. -/
inductive BucketDecl
  | A | bucket | accountDefault
deriving DecidableEq, Repr

inductive JItem
  | xact (x : LXact)
  | bucket (how : BucketDecl) (a : String)   -- a default-account declaration, in any of its spellings

structure JState where
  env : PrecEnv
  bucket : Option String
  xacts : List FXact
  errors : Nat

def JState.init : JState := { env := fun _ => 0, bucket := none, xacts := [], errors := 0 }

/-- journal.cc 365-372 + textual.cc 258-300, 729-751: a transaction whose
    finalize throws is left out and counts one error; one that is all-null is
    left out silently. -/
def step (enum : Balance → Balance) (st : JState) : JItem → JState
  | .bucket _ a => { st with bucket := some a }
  | .xact x =>
    let env' := observe st.env x
    match finalize env' st.bucket enum x with
    | .ok fx => { st with env := env', xacts := st.xacts ++ [fx] }
    | .error .ignored => { st with env := env' }
    | .error _ => { st with env := env', errors := st.errors + 1 }

def load (enum : Balance → Balance) (items : List JItem) : JState :=
  items.foldl (step enum) JState.init

/-- the account named by the last default-account declaration of a directive list -/
def lastBucket : List JItem → Option String
  | [] => none
  | .bucket _ a :: rest => (match lastBucket rest with | some b => some b | none => some a)
  | .xact _ :: rest => lastBucket rest

/-! ### Exact residual (what `bal -B` sums) -/

/-- contribution of one posting to the residual in commodity `c`: its
    cost-or-amount when it must balance. -/
def FPost.bal (p : FPost) (c : Comm) : Rat :=
  if p.mustBalance then
    match costOrAmt p with
    | some a => if a.comm = c then a.q else 0
    | none => 0
  else 0

def residual : List FPost → Comm → Rat
  | [], _ => 0
  | p :: ps, c => p.bal c + residual ps c

/-- grand total at cost of all balancing postings of the accepted transactions,
    accumulated posting by posting over the whole journal as `bal -B` does. -/
def grandTotal (st : JState) (c : Comm) : Rat := residual (st.xacts.flatMap (·.posts)) c

end FinX
end Ledger
