/- Driver ops for C01/C02:
   `xact.fin  <xact json> <bucket|""> <env c=p,...> <id|rev>`
       -> `ok <post> <post> …` (TAB separated) or `err <kind>`;
       post = account|kind|amount|calculated|cost_calculated|cost   (amount = q:prec:keep:comm, cost `-` when absent)
       `env` is the display precision table BEFORE the transaction is parsed.
   `journal.fin <{"items":[{"bucket":a}|{"xact":x},…]}> <id|rev>`
       -> `ok <errors> <accepted> <total at cost c=q;…> <post> … / <post> …`  (transactions separated by a `/` field). -/
import LedgerModel.Model.Finalize
import LedgerModel.Model.ValueProto

namespace Ledger
namespace FinX

def FinErr.render : FinErr → String
  | .twoNulls => "two-nulls"
  | .misspelled => "misspelled"
  | .unbalanced => "unbalanced"
  | .sameCommCost => "same-comm-cost"
  | .nullAfter => "null-after"
  | .uninit => "uninit"
  | .ignored => "ignored"
  | .value e => "value:" ++ e.render

def kindStr : PostKind → String
  | .real => "real" | .virtual => "virtual" | .bvirtual => "bvirtual"

def FPost.render (p : FPost) : String :=
  let a := match p.amount with | some a => a.render | none => "-"
  let c := match p.cost with | some c => c.render | none => "-"
  s!"{p.account}|{kindStr p.kind}|{a}|{boolStr p.calculated}|{boolStr p.costCalculated}|{c}"

def parseEnum? (s : String) : Option (Balance → Balance) :=
  if s = "id" then some id else if s = "rev" then some List.reverse else none

/-- `amount.lot = {"price": amount|null, "total": bool, "fixated": bool, "date": day|null, "tag": str}` -/
def lotSpec? (j : Lean.Json) : Option LotSpec := do
  let price ← J.optField j "price" J.amount?
  let tag := (J.str? j "tag").getD ""
  pure { price := price, total := (J.bool? j "total").getD false, fixated := (J.bool? j "fixated").getD false,
         date := (J.int? j "date").map dateText, tag := if tag.isEmpty then none else some tag }

def lposting? (j : Lean.Json) : Option LPosting := do
  let p ← J.posting? j
  let lot ← match J.obj? j "amount" with
    | some a => J.optField a "lot" lotSpec?
    | none => some none
  pure { post := p, lot := lot }

def lxact? (j : Lean.Json) : Option LXact := do
  let d ← J.int? j "date"
  let ps ← optAll lposting? (← J.arr? j "posts")
  pure { date := d, posts := ps }

def opXactFin (args : List String) : String :=
  match args with
  | [js, bucket, env, en] =>
    match (J.parse? js).bind lxact?, parseEnum? en with
    | some x, some enum =>
      let env0 := parseEnv env
      match finalize (observe env0 x) (if bucket.isEmpty then none else some bucket) enum x with
      | .ok fx => "\t".intercalate ("ok" :: fx.posts.map FPost.render)
      | .error e => "err\t" ++ e.render
    | _, _ => "err\tbad-op"
  | _ => "err\tbad-op"

def item? (j : Lean.Json) : Option JItem :=
  match J.str? j "bucket" with
  | some a =>
    match (J.str? j "how").getD "A" with
    | "A" => some (.bucket .A a)
    | "bucket" => some (.bucket .bucket a)
    | "account" => some (.bucket .accountDefault a)
    | _ => none
  | none => (J.obj? j "xact").bind (fun xj => (lxact? xj).map JItem.xact)

def dedup (l : List String) : List String :=
  l.foldl (fun acc x => if acc.contains x then acc else acc ++ [x]) []

def totalStr (st : JState) : String :=
  let ps := st.xacts.flatMap (·.posts)
  let comms := dedup (ps.filterMap (fun p => if p.mustBalance then (costOrAmt p).map (·.comm) else none))
  ";".intercalate (sortStrings (comms.map (fun c => s!"{c}={ratStr (grandTotal st c)}")))

def opJournalFin (args : List String) : String :=
  match args with
  | [js, en] =>
    match (J.parse? js).bind (fun j => J.arr? j "items") |>.bind (optAll item?), parseEnum? en with
    | some items, some enum =>
      let st := load enum items
      let rows := st.xacts.map (fun fx => "\t".intercalate (fx.posts.map FPost.render))
      "\t".intercalate (["ok", toString st.errors, toString st.xacts.length, totalStr st] ++
                        (if rows.isEmpty then [] else ["\t/\t".intercalate rows]))
    | _, _ => "err\tbad-op"
  | _ => "err\tbad-op"

end FinX

def FinalizeProto.ops : List (String × (List String → String)) :=
  [("xact.fin", FinX.opXactFin), ("journal.fin", FinX.opJournalFin)]

end Ledger
