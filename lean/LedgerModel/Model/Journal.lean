/-
Shared journal AST (what tools/jgen.py generates) and its JSON decoding.
Postings, transactions and journals as plain structures; every property model
that consumes journals (C01 C02 C05 C07 C08 C09 C12 C16 C17 …) builds on these.
`Lean.Data.Json` is part of the Lean distribution (not Mathlib), so the driver
still links as a plain `lean_exe`.
-/
import Lean.Data.Json
import LedgerModel.Model.Value

namespace Ledger

inductive PostKind | real | virtual | bvirtual
deriving DecidableEq, Repr

/-- posting state: 0 = uncleared, 1 = cleared `*`, 2 = pending `!`. -/
abbrev ItemState := Nat

structure Cost where
  amt     : Amount
  perUnit : Bool
deriving DecidableEq, Repr

structure Posting where
  account : String
  kind    : PostKind
  state   : ItemState
  amount  : Option Amount     -- none = elided
  cost    : Option Cost
  assert  : Option Amount
  note    : String
  line    : Nat
deriving DecidableEq, Repr

structure Xact where
  date    : Int               -- days since 1970-01-01
  aux     : Option Int
  state   : ItemState
  code    : String
  payee   : String
  note    : String
  posts   : List Posting
  line    : Nat
  endLine : Nat
deriving Repr

structure Journal where
  xacts : List Xact
deriving Repr

/-- `must_balance()`: ordinary and [balanced virtual] postings. -/
def Posting.mustBalance (p : Posting) : Bool := p.kind ≠ .virtual

def Posting.isReal (p : Posting) : Bool := p.kind = .real

/-- account name components, "A:B:C" ↦ ["A","B","C"]. -/
def accountPath (a : String) : List String := a.splitOn ":"

/-- `a` is `b` or one of its sub-accounts. -/
def accountUnder (a b : String) : Bool := a = b ∨ a.startsWith (b ++ ":")

open Lean (Json)

namespace J

def str? (j : Json) (k : String) : Option String := (j.getObjValAs? String k).toOption
def nat? (j : Json) (k : String) : Option Nat := (j.getObjValAs? Nat k).toOption
def int? (j : Json) (k : String) : Option Int := (j.getObjValAs? Int k).toOption
def bool? (j : Json) (k : String) : Option Bool := (j.getObjValAs? Bool k).toOption
def obj? (j : Json) (k : String) : Option Json :=
  match j.getObjVal? k with
  | .ok .null => none
  | .ok v => some v
  | .error _ => none
def arr? (j : Json) (k : String) : Option (List Json) :=
  match j.getObjVal? k with
  | .ok (.arr a) => some a.toList
  | _ => none

def amount? (j : Json) : Option Amount := do
  let q ← parseRat? (← str? j "q")
  let p ← nat? j "prec"
  let c ← str? j "comm"
  pure { q := q, prec := p, keep := false, comm := c }

def cost? (j : Json) : Option Cost := do
  let a ← amount? j
  let pu ← bool? j "per_unit"
  pure { amt := a, perUnit := pu }

def kind? (s : String) : Option PostKind :=
  match s with
  | "real" => some .real
  | "virtual" => some .virtual
  | "bvirtual" => some .bvirtual
  | _ => none

/-- decode an optional sub-object: absent/null ↦ `some none`, malformed ↦ `none`. -/
def optField {α} (j : Json) (k : String) (f : Json → Option α) : Option (Option α) :=
  match obj? j k with
  | none => some none
  | some v => (f v).map some

def posting? (j : Json) : Option Posting := do
  let acct ← str? j "account"
  let kind ← kind? (← str? j "kind")
  let st := (nat? j "state").getD 0
  let amt ← optField j "amount" amount?
  let cost ← optField j "cost" cost?
  let asr ← optField j "assert" amount?
  pure { account := acct, kind := kind, state := st, amount := amt, cost := cost, assert := asr,
         note := (str? j "note").getD "", line := (nat? j "line").getD 0 }

def xact? (j : Json) : Option Xact := do
  let d ← int? j "date"
  let ps ← optAll posting? (← arr? j "posts")
  pure { date := d, aux := int? j "aux", state := (nat? j "state").getD 0,
         code := (str? j "code").getD "", payee := (str? j "payee").getD "",
         note := (str? j "note").getD "", posts := ps,
         line := (nat? j "line").getD 0, endLine := (nat? j "end_line").getD 0 }

def journal? (j : Json) : Option Journal := do
  let xs ← optAll xact? (← arr? j "xacts")
  pure { xacts := xs }

def parse? (s : String) : Option Json := (Json.parse s).toOption

end J

end Ledger
