/- Driver op `journal.echo <json>`: decodes a journal AST and answers with
   counts (a self-test of the JSON transport used by every journal-level op). -/
import LedgerModel.Model.Journal

namespace Ledger

def opJournalEcho (args : List String) : String :=
  match args with
  | [s] =>
    match (J.parse? s).bind J.journal? with
    | some j =>
      let nposts := (j.xacts.map (fun x => x.posts.length)).foldl (· + ·) 0
      let elided := (j.xacts.map (fun x => (x.posts.filter (fun p => p.amount.isNone)).length)).foldl (· + ·) 0
      s!"ok\t{j.xacts.length}\t{nposts}\t{elided}"
    | none => "err\tbad-json"
  | _ => "err\tbad-op"

def JournalProto.ops : List (String × (List String → String)) := [("journal.echo", opJournalEcho)]

end Ledger
