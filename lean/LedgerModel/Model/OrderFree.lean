/-
C08 — model of journal loading as far as aggregate reports can depend on the
order of the input and on the file layout.

What is mirrored (file:line of /repo/src at the pinned commit):

* amount text → quantity: the punctuation scan of `amount_t::parse`
  (amount.cc 1098-1172), which CONSULTS the commodity's DECIMAL_COMMA flag
  learned so far (amount.cc 1107-1109) — `scanStep`, `scan`;
* commodity style learning (amount.cc 1174-1195, flags.h `add_flags` is `|=`):
  flags are OR-ed into the commodity, the display precision only grows —
  `Style.join`, `Pool.learn`; costs are parsed with PARSE_NO_MIGRATE
  (textual.cc 1602) and learn nothing;
* `xact_base_t::finalize` (xact.cc 158-418): the balance of the must-balance
  postings (cost instead of amount when a cost is given), one elided posting
  receives the negated balance — one generated posting per commodity in
  `sorted_amounts` order (xact.cc 355-374, balance.cc 273-300) —, the implicit
  two-commodity exchange (xact.cc 220-283), and the acceptance test
  `balance.is_zero()` (xact.cc 377) which uses the DISPLAY precision learned so
  far (amount.cc 832-865);
* `journal_t::add_xact` / `account_t::add_post` (journal.cc 365-443, account.cc
  128-153): postings are appended to the journal and to their account; an
  account's balance is the fold of `balance_t::operator+=` over its postings;
* the include directive (textual.cc 753-843): path relative to the including
  file, glob in the file-name part only (mask.cc 55-86, case-insensitive regex),
  matched files visited in SORTED order, nested instances share the journal;
* `sort_posts` (filters.cc 154-165): `std::stable_sort` by the sort key.

Directives outside the order-free fragment (balance assertions/assignments,
automated transactions, apply account, alias, bucket, year) are given a light
semantics only so that the decidable predicate `orderFree` has something to
exclude; their faithful models belong to C09/C16.

Commodities are base symbols: lot annotations created by costs (`AAA {0.5 EUR}
[2020/01/03]`) are not modelled; observations are compared per base symbol.
Core Lean only.
-/
import LedgerModel.Model.Journal

namespace Ledger
namespace OF

inductive LoadErr
  | amount (msg : String)   -- amount.cc parse errors
  | unbalanced              -- "Transaction does not balance"
  | twoNulls                -- "Only one posting with null amount allowed per transaction"
  | nullAfter               -- "There cannot be null amounts after balancing a transaction"
  | assertOff
  | endApply
  | includeNotFound         -- "File to include was not found"
  | includeDepth            -- fuel of the virtual file tree exhausted (include cycle)
deriving DecidableEq, Repr

/-! ### Amount text -/

/-- State of the reverse punctuation scan (amount.cc 1098-1119). -/
structure ScanSt where
  off       : Nat     -- decimal_offset
  sawComma  : Bool    -- last_comma != npos
  sawPeriod : Bool    -- last_period != npos
  noCommas  : Bool
  noPeriods : Bool
  dc        : Bool    -- decimal_comma_style
  prec      : Nat     -- new_quantity->prec
  thousands : Bool    -- COMMODITY_STYLE_THOUSANDS in comm_flags
deriving DecidableEq, Repr

def ScanSt.init (dc : Bool) : ScanSt :=
  { off := 0, sawComma := false, sawPeriod := false, noCommas := false, noPeriods := false,
    dc := dc, prec := 0, thousands := false }

/-- One character of `BOOST_REVERSE_FOREACH (const char& ch, quant)` (amount.cc 1121-1172). -/
def scanStep (s : ScanSt) (ch : Char) : Except LoadErr ScanSt :=
  if ch = '.' then
    if s.noPeriods then .error (.amount "Too many periods in amount")
    else if s.dc then
      if s.off % 3 ≠ 0 then .error (.amount "Incorrect use of thousand-mark period")
      else .ok { s with thousands := true, noCommas := true, sawPeriod := true }
    else if s.sawComma then
      if s.off % 3 ≠ 0 then .error (.amount "Incorrect use of thousand-mark period")
      else .ok { s with dc := true, sawPeriod := true }
    else .ok { s with noPeriods := true, prec := s.off, off := 0, sawPeriod := true }
  else if ch = ',' then
    if s.noCommas then .error (.amount "Too many commas in amount")
    else if s.dc then
      if s.sawPeriod then .error (.amount "Incorrect use of decimal comma")
      else .ok { s with noCommas := true, prec := s.off, off := 0, sawComma := true }
    else if s.off % 3 ≠ 0 then
      if s.sawComma ∨ s.sawPeriod then .error (.amount "Incorrect use of thousand-mark comma")
      else .ok { s with dc := true, noCommas := true, prec := s.off, off := 0, sawComma := true }
    else .ok { s with thousands := true, noPeriods := true, sawComma := true }
  else if ch.isDigit then .ok { s with off := s.off + 1 }
  else .error (.amount "bad character in quantity")

def scanChars : ScanSt → List Char → Except LoadErr ScanSt
  | s, [] => .ok s
  | s, c :: cs =>
    match scanStep s c with
    | .error e => .error e
    | .ok s' => scanChars s' cs

/-- amount.cc 1204-1209: `while (*p) { if (*p == ',' || *p == '.') p++; *t++ = *p++; }` —
    ONE punctuation character is skipped, the next character is copied whatever it is. -/
def stripMarks : List Char → List Char
  | [] => []
  | c :: cs =>
    if c = ',' ∨ c = '.' then
      match cs with
      | [] => []
      | d :: ds => d :: stripMarks ds
    else c :: stripMarks cs

/-- `mpq_set_str` of the stripped text (amount.cc 1211): the decimal number, or the
    initial 0 when the text is not a number (two adjacent marks leave one in). -/
def digitsVal (cs : List Char) : Nat :=
  let t := stripMarks cs
  if t.all Char.isDigit then t.foldl (fun n c => 10 * n + (c.toNat - 48)) 0 else 0

structure Scanned where
  q         : Rat
  prec      : Nat
  thousands : Bool
  dc        : Bool
deriving DecidableEq, Repr

/-- Quantity text → exact quantity, precision and the style flags it shows, given
    whether the commodity is already known to use the decimal comma. -/
def scan (dc : Bool) (text : String) : Except LoadErr Scanned :=
  let cs := text.toList
  if cs.filter Char.isDigit = [] then .error (.amount "No quantity specified for amount")
  else match scanChars (ScanSt.init dc) cs.reverse with
    | .error e => .error e
    | .ok s => .ok { q := mkRat (digitsVal cs) (10 ^ s.prec), prec := s.prec,
                     thousands := s.thousands, dc := s.dc }

/-! ### Commodity styles -/

/-- Display precision and the four style flags of a commodity (commodity.h 84-87). -/
structure Style where
  prec         : Nat
  suffixed     : Bool
  separated    : Bool
  thousands    : Bool
  decimalComma : Bool
deriving DecidableEq, Repr

def Style.zero : Style :=
  { prec := 0, suffixed := false, separated := false, thousands := false, decimalComma := false }

/-- `commodity().add_flags(comm_flags); if (prec > commodity().precision()) set_precision(prec)`
    (amount.cc 1190-1194). -/
def Style.join (a b : Style) : Style :=
  { prec := max a.prec b.prec, suffixed := a.suffixed || b.suffixed,
    separated := a.separated || b.separated, thousands := a.thousands || b.thousands,
    decimalComma := a.decimalComma || b.decimalComma }

/-- The commodity pool: symbol ↦ learned style, in creation order. -/
abbrev Pool := List (Comm × Style)

def Pool.get (p : Pool) (c : Comm) : Style :=
  match p.find? (fun e => e.1 = c) with
  | some e => e.2
  | none => Style.zero

def Pool.learn : Pool → Comm → Style → Pool
  | [], c, s => [(c, Style.zero.join s)]
  | (d, t) :: rest, c, s => if d = c then (d, t.join s) :: rest else (d, t) :: Pool.learn rest c s

def Pool.precEnv (p : Pool) : PrecEnv := fun c => (p.get c).prec

/-! ### Written journals -/

/-- An amount as written in the file. -/
structure WAmt where
  comm      : Comm
  neg       : Bool
  text      : String     -- the quantity: digits, `,` and `.`
  suffixed  : Bool       -- symbol after the number
  separated : Bool       -- white space between number and symbol
deriving DecidableEq, Repr

structure WCost where
  amt     : WAmt
  perUnit : Bool
deriving DecidableEq, Repr

structure WPost where
  account : String
  kind    : PostKind
  amount  : Option WAmt
  cost    : Option WCost
  assert  : Option WAmt     -- `= AMT`: assertion (with an amount) or assignment (without)
deriving DecidableEq, Repr

structure WXact where
  date  : Int
  posts : List WPost
deriving DecidableEq, Repr

inductive Dir
  | xact (x : WXact)
  | auto (pattern : String) (posts : List WPost)   -- `= PATTERN`
  | applyAccount (name : String)
  | endApply
  | alias (src dst : String)
  | bucket (acct : String)
  | year (y : Nat)
deriving DecidableEq, Repr

/-- `amount_t::parse` of one written amount: the scan is run under the DECIMAL_COMMA
    flag the commodity has at that moment; the result is the amount and the
    style it exhibits. `migrate = false` is PARSE_NO_MIGRATE (keep-precision). -/
def readAmt (dc : Bool) (migrate : Bool) (w : WAmt) : Except LoadErr (Amount × Style) :=
  match scan dc w.text with
  | .error e => .error e
  | .ok s =>
    .ok ({ q := if w.neg then -s.q else s.q, prec := s.prec, keep := !migrate, comm := w.comm },
         { prec := s.prec, suffixed := w.suffixed, separated := w.separated,
           thousands := s.thousands, decimalComma := s.dc })

/-- An amount without a commodity has no commodity to teach (`commodity_ &&` in amount.cc 1189). -/
def readOpt (pool : Pool) (migrate : Bool) : Option WAmt → Except LoadErr (Option Amount × Pool)
  | none => .ok (none, pool)
  | some w =>
    match readAmt (pool.get w.comm).decimalComma migrate w with
    | .error e => .error e
    | .ok (a, sty) => .ok (some a, if migrate && decide (w.comm ≠ "") then pool.learn w.comm sty else pool)

def mkPosting (p : WPost) (amt cst asr : Option Amount) : Posting :=
  { account := p.account, kind := p.kind, state := 0, amount := amt,
    cost := match cst, p.cost with
      | some a, some c => some { amt := a, perUnit := c.perUnit }
      | _, _ => none,
    assert := asr, note := "", line := 0 }

/-- textual.cc parse_post: amount (migrates), then cost (PARSE_NO_MIGRATE, textual.cc
    1602), then the assertion amount (plain `parse(stream)`, textual.cc 1661: migrates). -/
def readPost (pool : Pool) (p : WPost) : Except LoadErr (Posting × Pool) :=
  match readOpt pool true p.amount with
  | .error e => .error e
  | .ok (amt, pool1) =>
    match readOpt pool1 false (p.cost.map (·.amt)) with
    | .error e => .error e
    | .ok (cst, pool2) =>
      match readOpt pool2 true p.assert with
      | .error e => .error e
      | .ok (asr, pool3) => .ok (mkPosting p amt cst asr, pool3)

def readPosts : Pool → List WPost → Except LoadErr (List Posting × Pool)
  | pool, [] => .ok ([], pool)
  | pool, p :: ps =>
    match readPost pool p with
    | .error e => .error e
    | .ok (q, pool1) =>
      match readPosts pool1 ps with
      | .error e => .error e
      | .ok (qs, pool2) => .ok (q :: qs, pool2)

/-! ### finalize -/

/-- total cost of a posting (textual.cc 1611-1622): `cost *= amount` for `@`,
    the sign of the amount for `@@`; `rounded()` in finalize clears keep-precision. -/
def totalCost (a : Amount) (c : Cost) : Amount :=
  if c.perUnit then
    { q := c.amt.q * a.q, prec := c.amt.prec + a.prec, keep := false, comm := c.amt.comm }
  else
    { q := if a.q < 0 then -c.amt.q else c.amt.q, prec := c.amt.prec, keep := false, comm := c.amt.comm }

/-- what a must-balance posting contributes to the transaction balance (xact.cc 167-181). -/
def bamt (p : Posting) : Option Amount :=
  if p.mustBalance then
    match p.amount with
    | none => none
    | some a => match p.cost with
      | some c => some (totalCost a c)
      | none => some a
  else none

/-- `add_or_set_value(balance, amount)` (value.h 996-1002, value.cc operator+=). -/
def vadd : Value → Amount → Value
  | .void, a => .amt a
  | .amt x, a =>
    if x.comm = a.comm then .amt { x with q := x.q + a.q, prec := max x.prec a.prec }
    else .bal (Balance.addAmt (Balance.ofAmt x) a)
  | .bal b, a => .bal (Balance.addAmt b a)
  | .int n, a => .bal (Balance.addAmt (Balance.ofAmt (Amount.ofInt n)) a)   -- not reached: the fold starts at void
  | .bool _, a => .amt a                                                     -- not reached

def xbalance (ps : List Posting) : Value := (ps.filterMap bamt).foldl vadd .void

def isNullPost (p : Posting) : Bool := p.mustBalance && p.amount.isNone

def nullPosts (ps : List Posting) : List Posting := ps.filter isNullPost

/-- stable insertion sort (structural, so that closed instances reduce in the kernel). -/
def insertBy {α : Type} (le : α → α → Bool) (x : α) : List α → List α
  | [] => [x]
  | y :: ys => if le x y then x :: y :: ys else y :: insertBy le x ys

def isort {α : Type} (le : α → α → Bool) : List α → List α
  | [] => []
  | x :: xs => insertBy le x (isort le xs)

/-- balance_t::sorted_amounts: by commodity symbol (stable). -/
def sortedAmounts (b : Balance) : Balance := isort (fun x y => decide (x.comm ≤ y.comm)) b

/-- the amounts handed to `add_balancing_post` (xact.cc 363-370). -/
def inferred : Value → List Amount
  | .amt a => [a.neg]
  | .bal b => (sortedAmounts b).map Amount.neg
  | .int n => [(Amount.ofInt n).neg]
  | _ => []

/-- value_t::is_zero at display precision. -/
def valueIsZero (env : PrecEnv) : Value → Bool
  | .void => true
  | .bool b => !b
  | .int n => n = 0
  | .amt a => a.isZero env
  | .bal b => b.all (Amount.isZero env)

/-- Acceptance when no posting is elided (xact.cc 220-283, 377-384). -/
def acceptNoNull (env : PrecEnv) (ps : List Posting) (v : Value) : Bool :=
  match v with
  | .bal [x, y] =>
    if ps.any (fun p => p.cost.isSome) then valueIsZero env v
    else if !(x.isZero env) && !(y.isZero env) then decide (x.q * y.q < 0)
    else valueIsZero env v
  | v => valueIsZero env v

structure Entry where
  date    : Int
  account : String
  amt     : Amount
deriving DecidableEq, Repr

/-- postings in transaction order; the elided posting receives the first inferred amount. -/
def postEntries (date : Int) (inf : List Amount) : List Posting → List Entry
  | [] => []
  | p :: ps =>
    match p.amount with
    | some a => { date := date, account := p.account, amt := a } :: postEntries date inf ps
    | none =>
      if p.mustBalance then
        match inf with
        | a :: _ => { date := date, account := p.account, amt := a } :: postEntries date inf ps
        | [] => postEntries date inf ps
      else postEntries date inf ps

/-- further inferred amounts become generated postings appended to the transaction. -/
def extraEntries (date : Int) (n : Posting) (inf : List Amount) : List Entry :=
  (inf.drop 1).map (fun a => { date := date, account := n.account, amt := a })

/-- The postings a transaction contributes once it is accepted (independent of
    the precision environment). -/
def fin0 (date : Int) (ps : List Posting) : List Entry :=
  match nullPosts ps with
  | [n] => postEntries date (inferred (xbalance ps)) ps ++ extraEntries date n (inferred (xbalance ps))
  | _ => postEntries date [] ps

def finalize (env : PrecEnv) (date : Int) (ps : List Posting) : Except LoadErr (List Entry) :=
  if ps.any (fun p => !p.mustBalance && p.amount.isNone) then .error .nullAfter
  else match nullPosts ps with
    | [] => if acceptNoNull env ps (xbalance ps) then .ok (fin0 date ps) else .error .unbalanced
    | [_] =>
      if inferred (xbalance ps) = [] then
        -- all postings null: the transaction is ignored (xact.cc 413-414; `fin0` is empty then)
        (if ps.all (fun p => p.amount.isNone) then .ok (fin0 date ps) else .error .nullAfter)
      else .ok (fin0 date ps)
    | _ => .error .twoNulls

/-! ### Journal state and directives -/

structure Ctx where
  applyStack : List String
  aliases    : List (String × String)
  bucket     : Option String
  autos      : List (String × List WPost)
  year       : Option Nat
deriving DecidableEq, Repr

def Ctx.init : Ctx := { applyStack := [], aliases := [], bucket := none, autos := [], year := none }

structure State where
  ctx     : Ctx
  pool    : Pool
  entries : List Entry     -- every posting of the journal, in load order
deriving DecidableEq, Repr

def State.init : State := { ctx := Ctx.init, pool := [], entries := [] }

/-- An account's own balance: `balance_t +=` over its postings in load order. -/
def ownBalance (es : List Entry) (a : String) : Balance :=
  (es.filter (fun e => e.account = a)).foldl (fun b e => Balance.addAmt b e.amt) []

/-- An account's total including sub-accounts (`account_t::total`). -/
def familyBalance (es : List Entry) (a : String) : Balance :=
  (es.filter (fun e => accountUnder e.account a)).foldl (fun b e => Balance.addAmt b e.amt) []

def rewriteAccount (ctx : Ctx) (a : String) : String :=
  let a1 := match ctx.aliases.find? (fun e => e.1 = a) with
    | some e => e.2
    | none => a
  match ctx.applyStack with
  | [] => a1
  | pre => ":".intercalate (pre.reverse ++ [a1])

def bucketPosts (b : Option String) (posts : List WPost) : List WPost :=
  match b, posts with
  | some acct, [p] =>
    if p.amount.isSome then
      [p, { account := acct, kind := .real, amount := none, cost := none, assert := none }]
    else posts
  | _, _ => posts

/-- Light semantics of apply account / alias / automated transactions / bucket. -/
def rewriteX (ctx : Ctx) (x : WXact) : WXact :=
  let posts := x.posts.map (fun p => { p with account := rewriteAccount ctx p.account })
  let added := ctx.autos.flatMap (fun au =>
    (posts.filter (fun p => accountUnder p.account au.1)).flatMap (fun _ => au.2))
  { x with posts := bucketPosts ctx.bucket (posts ++ added) }

/-- balance assignment: `ACCT  = AMT` sets the amount to AMT minus the running own balance. -/
def assignPosts (before : List Entry) : List Posting → List Posting
  | [] => []
  | p :: ps =>
    match p.amount, p.assert with
    | none, some a =>
      let cur := match (ownBalance before p.account).find? a.comm with
        | some b => b.q
        | none => 0
      let amt : Amount := { a with q := a.q - cur, keep := false }
      { p with amount := some amt } ::
        assignPosts (before ++ [{ date := 0, account := p.account, amt := amt }]) ps
    | some a, _ =>
      p :: assignPosts (before ++ [{ date := 0, account := p.account, amt := a }]) ps
    | none, none => p :: assignPosts before ps

/-- balance assertions: the account's own balance in the asserted commodity after
    the posting (simplified; C09 carries the faithful rule). -/
def checkAsserts (before : List Entry) (date : Int) : List Posting → Bool
  | [] => true
  | p :: ps =>
    let before' := match p.amount with
      | some a => before ++ [{ date := date, account := p.account, amt := a }]
      | none => before
    (match p.assert with
     | none => true
     | some a =>
       let cur := match (ownBalance before' p.account).find? a.comm with
         | some b => b.q
         | none => 0
       decide (cur = a.q)) && checkAsserts before' date ps

/-- One transaction: parse its postings (learning styles), finalize under the
    precisions learned so far, append its postings (journal.cc 365-443). -/
def stepX (st : State) (x : WXact) : Except LoadErr State :=
  match readPosts st.pool x.posts with
  | .error e => .error e
  | .ok (ps0, pool) =>
    let ps := assignPosts st.entries ps0
    if checkAsserts st.entries x.date ps then
      match finalize pool.precEnv x.date ps with
      | .error e => .error e
      | .ok es => .ok { st with pool := pool, entries := st.entries ++ es }
    else .error .assertOff

def step (st : State) : Dir → Except LoadErr State
  | .xact x => stepX st (rewriteX st.ctx x)
  | .auto pat ps => .ok { st with ctx := { st.ctx with autos := st.ctx.autos ++ [(pat, ps)] } }
  | .applyAccount n => .ok { st with ctx := { st.ctx with applyStack := n :: st.ctx.applyStack } }
  | .endApply =>
    match st.ctx.applyStack with
    | [] => .error .endApply
    | _ :: r => .ok { st with ctx := { st.ctx with applyStack := r } }
  | .alias s d => .ok { st with ctx := { st.ctx with aliases := (s, d) :: st.ctx.aliases } }
  | .bucket b => .ok { st with ctx := { st.ctx with bucket := some b } }
  | .year y => .ok { st with ctx := { st.ctx with year := some y } }

def loadFrom : State → List Dir → Except LoadErr State
  | st, [] => .ok st
  | st, d :: ds =>
    match step st d with
    | .error e => .error e
    | .ok st' => loadFrom st' ds

/-- Loading a journal: fold of the directive step over the list. -/
def load (ds : List Dir) : Except LoadErr State := loadFrom State.init ds

/-! ### The order-free fragment (decidable) -/

/-- every written amount of a posting with its `migrate` flag, in textual order. -/
def amtsOfPost (p : WPost) : List (WAmt × Bool) :=
  (p.amount.map (fun w => (w, true))).toList ++
  (p.cost.map (fun c => (c.amt, false))).toList ++
  (p.assert.map (fun w => (w, true))).toList

def amtsOfDir : Dir → List (WAmt × Bool)
  | .xact x => x.posts.flatMap amtsOfPost
  | .auto _ ps => ps.flatMap amtsOfPost
  | _ => []

def allAmounts (ds : List Dir) : List (WAmt × Bool) := ds.flatMap amtsOfDir

/-- the amount reads the same whether or not the commodity is already flagged DECIMAL_COMMA. -/
def stableAmt (wm : WAmt × Bool) : Bool :=
  decide (readAmt true wm.2 wm.1 = readAmt false wm.2 wm.1)

/-- a style-learning amount that does not raise DECIMAL_COMMA. -/
def noDC (wm : WAmt × Bool) : Bool :=
  !wm.2 || (match readAmt false wm.2 wm.1 with
            | .ok r => !r.2.decimalComma
            | .error _ => true)

def neverDC (ws : List (WAmt × Bool)) (c : Comm) : Bool :=
  ws.all (fun wm => decide (wm.1.comm ≠ c) || noDC wm)

def allStable (ws : List (WAmt × Bool)) (c : Comm) : Bool :=
  ws.all (fun wm => decide (wm.1.comm ≠ c) || stableAmt wm)

/-- No commodity is written with both decimal conventions: per commodity, either
    no amount ever raises DECIMAL_COMMA, or every amount reads the same under
    both settings of the flag. -/
def styleConsistent (ws : List (WAmt × Bool)) : Bool :=
  ws.all (fun wm => neverDC ws wm.1.comm || allStable ws wm.1.comm)

/-- a plain transaction: no balance assertion or assignment. -/
def Dir.plain : Dir → Bool
  | .xact x => x.posts.all (fun p => p.assert.isNone)
  | _ => false

/-- The order-free fragment: only plain transactions (no assertions/assignments,
    automated transactions, apply/alias/bucket/year directives) and
    style-consistent amounts. -/
def orderFree (ds : List Dir) : Bool := ds.all Dir.plain && styleConsistent (allAmounts ds)

/-- canonical (state-free) reading of an optional amount; `none` = unreadable. -/
def canonOpt (migrate : Bool) : Option WAmt → Option (Option Amount)
  | none => some none
  | some w =>
    match readAmt false migrate w with
    | .ok r => some (some r.1)
    | .error _ => none

def canonPost (p : WPost) : Option Posting :=
  match canonOpt true p.amount, canonOpt false (p.cost.map (·.amt)), canonOpt true p.assert with
  | some a, some c, some r => some (mkPosting p a c r)
  | _, _, _ => none

def canonPosts (ps : List WPost) : Option (List Posting) := optAll canonPost ps

/-- a value all of whose components are exactly zero. -/
def exactZero : Value → Bool
  | .void => true
  | .amt a => a.q = 0
  | .bal b => b.all (fun a => a.q = 0)
  | _ => false

/-- The transaction balances exactly, or has one elided posting that receives
    an amount (C01's domain); its acceptance then does not depend on any
    learned display precision. -/
def exactXact (x : WXact) : Bool :=
  match canonPosts x.posts with
  | none => false
  | some ps =>
    !ps.any (fun p => !p.mustBalance && p.amount.isNone) &&
    (match nullPosts ps with
     | [] => exactZero (xbalance ps)
     | [_] => inferred (xbalance ps) ≠ []
     | _ => false)

def exactlyBalanced (ds : List Dir) : Bool :=
  ds.all (fun d => match d with
    | .xact x => exactXact x
    | _ => true)

/-! ### Register rows sorted by date -/

/-- `reg --sort date`: std::stable_sort of the postings by date (filters.cc 154-165). -/
def sortByDate (es : List Entry) : List Entry := es.mergeSort (fun a b => decide (a.date ≤ b.date))

/-! ### Virtual file tree and include directives -/

inductive Item
  | dir (d : Dir)
  | incl (path : List String) (glob : String)   -- `include a/b/GLOB`
deriving DecidableEq, Repr

structure File where
  dir   : List String
  name  : String
  items : List Item
deriving DecidableEq, Repr

abbrev Tree := List File

/-- directory of the including file joined with the directory part of the argument. -/
def normDir (base : List String) (parts : List String) : List String :=
  parts.foldl (fun acc p => if p = ".." then acc.dropLast else if p = "." then acc else acc ++ [p]) base

/-- mask_t::assign_glob + case-insensitive anchored regex (mask.cc 44-86): `*` any
    sequence, `?` any character; a period is NOT escaped, so it also matches
    any character. Names are over [A-Za-z0-9_.]. -/
def globMatch : List Char → List Char → Bool
  | [], ns => ns.isEmpty
  | p :: ps, ns =>
    if p = '*' then (List.range (ns.length + 1)).any (fun k => globMatch ps (ns.drop k))
    else match ns with
      | [] => false
      | n :: ns' => (p = '?' || p = '.' || p.toLower = n.toLower) && globMatch ps ns'

/-- the files an include directive visits, in the order it visits them
    (textual.cc 789-795: directory listing copied and `std::sort`ed). -/
def matched (t : Tree) (dir : List String) (glob : String) : List File :=
  isort (fun a b => decide (a.name ≤ b.name))
    (t.filter (fun f => decide (f.dir = dir) && globMatch glob.toList f.name.toList))

def loadFilesWith (rec : State → File → Except LoadErr State) : State → List File → Except LoadErr State
  | st, [] => .ok st
  | st, f :: fs =>
    match rec st f with
    | .error e => .error e
    | .ok st' => loadFilesWith rec st' fs

/-- `instance_t::parse` of one file: directives in order; an include directive
    runs nested instances on the same journal, then parsing continues. -/
def loadItemsWith (rec : State → File → Except LoadErr State) (t : Tree) (dir : List String) :
    State → List Item → Except LoadErr State
  | st, [] => .ok st
  | st, .dir d :: is =>
    match step st d with
    | .error e => .error e
    | .ok st' => loadItemsWith rec t dir st' is
  | st, .incl path g :: is =>
    match matched t (normDir dir path) g with
    | [] => .error .includeNotFound
    | f :: fs =>
      match loadFilesWith rec st (f :: fs) with
      | .error e => .error e
      | .ok st' => loadItemsWith rec t dir st' is

/-- loading a file of the tree; `fuel` bounds the include nesting. -/
def loadFile (t : Tree) : Nat → State → File → Except LoadErr State
  | 0, _, _ => .error .includeDepth
  | n + 1, st, f => loadItemsWith (loadFile t n) t f.dir st f.items

def flattenFilesWith (rec : File → Except LoadErr (List Dir)) : List File → Except LoadErr (List Dir)
  | [] => .ok []
  | f :: fs =>
    match rec f with
    | .error e => .error e
    | .ok ds =>
      match flattenFilesWith rec fs with
      | .error e => .error e
      | .ok ds' => .ok (ds ++ ds')

def flattenItemsWith (rec : File → Except LoadErr (List Dir)) (t : Tree) (dir : List String) :
    List Item → Except LoadErr (List Dir)
  | [] => .ok []
  | .dir d :: is =>
    match flattenItemsWith rec t dir is with
    | .error e => .error e
    | .ok ds => .ok (d :: ds)
  | .incl path g :: is =>
    match matched t (normDir dir path) g with
    | [] => .error .includeNotFound
    | f :: fs =>
      match flattenFilesWith rec (f :: fs) with
      | .error e => .error e
      | .ok ds =>
        match flattenItemsWith rec t dir is with
        | .error e => .error e
        | .ok ds' => .ok (ds ++ ds')

/-- The directive list a file denotes: includes replaced by the flattening of
    the matched files in sorted order. -/
def flattenFile (t : Tree) : Nat → File → Except LoadErr (List Dir)
  | 0, _ => .error .includeDepth
  | n + 1, f => flattenItemsWith (flattenFile t n) t f.dir f.items

def findFile (t : Tree) (dir : List String) (name : String) : Option File :=
  t.find? (fun f => decide (f.dir = dir) && decide (f.name = name))

end OF
end Ledger
