/- Driver ops for C08 (order/file-layout independence):

   of.load <json>   json = {"main":{"dir":[..],"name":".."},"fuel":N,"files":[{"dir":[..],"name":"..","items":[ITEM..]}]}
                    ITEM = {"t":"x","date":D,"posts":[POST..]} | {"t":"inc","path":[..],"glob":".."}
                         | {"t":"auto","pattern":"..","posts":[..]} | {"t":"apply","name":".."} | {"t":"end"}
                         | {"t":"alias","src":"..","dst":".."} | {"t":"bucket","acct":".."} | {"t":"year","y":N}
                    POST = {"account","kind","amount":WAMT|null,"cost":WAMT+{"per_unit":b}|null,"assert":WAMT|null}
                    WAMT = {"comm","neg":b,"text","suffixed":b,"separated":b,"q":"n/d" (what the generator meant)}
     answer  ok \t FLAGS \t BALANCES \t ROWS \t STYLES      or   err \t KIND \t FLAGS
       FLAGS    = orderFree exactlyBalanced flattenAgrees intendedQuantities   (four 0/1 characters)
       BALANCES = acct|own|family ; ...   (accounts sorted; own/family = comm~n/d~prec,... sorted, zero dropped; prec = precision counter)
       ROWS     = date|acct|comm~n/d ; ... (register sorted by date, stable; zero rows kept)
       STYLES   = comm|prec|PSTD flags ; ... (sorted by symbol)
   of.scan <0|1> <text>   the punctuation scan under the given DECIMAL_COMMA flag
     answer  ok \t n/d \t prec \t thousands \t dc     or   err \t amount
-/
import LedgerModel.Model.OrderFree

namespace Ledger
namespace OF

open Lean (Json)

def sortStr (l : List String) : List String := l.mergeSort (fun a b => decide (a ≤ b))

def dedupSorted : List String → List String
  | [] => []
  | [a] => [a]
  | a :: b :: r => if a = b then dedupSorted (b :: r) else a :: dedupSorted (b :: r)

def strs? (j : Json) (k : String) : Option (List String) :=
  match J.arr? j k with
  | some l => optAll (fun (x : Json) => x.getStr?.toOption) l
  | none => none

def wamt? (j : Json) : Option WAmt := do
  let c ← J.str? j "comm"
  let n ← J.bool? j "neg"
  let t ← J.str? j "text"
  let sf ← J.bool? j "suffixed"
  let sp ← J.bool? j "separated"
  pure { comm := c, neg := n, text := t, suffixed := sf, separated := sp }

def wcost? (j : Json) : Option WCost := do
  let a ← wamt? j
  let pu ← J.bool? j "per_unit"
  pure { amt := a, perUnit := pu }

def wpost? (j : Json) : Option WPost := do
  let acct ← J.str? j "account"
  let kind ← J.kind? (← J.str? j "kind")
  let amt ← J.optField j "amount" wamt?
  let cost ← J.optField j "cost" wcost?
  let asr ← J.optField j "assert" wamt?
  pure { account := acct, kind := kind, amount := amt, cost := cost, assert := asr }

def item? (j : Json) : Option Item := do
  let t ← J.str? j "t"
  match t with
  | "x" =>
    let d ← J.int? j "date"
    let ps ← optAll wpost? (← J.arr? j "posts")
    pure (.dir (.xact { date := d, posts := ps }))
  | "inc" =>
    let p ← strs? j "path"
    let g ← J.str? j "glob"
    pure (.incl p g)
  | "auto" =>
    let pat ← J.str? j "pattern"
    let ps ← optAll wpost? (← J.arr? j "posts")
    pure (.dir (.auto pat ps))
  | "apply" => do pure (.dir (.applyAccount (← J.str? j "name")))
  | "end" => pure (.dir .endApply)
  | "alias" => do pure (.dir (.alias (← J.str? j "src") (← J.str? j "dst")))
  | "bucket" => do pure (.dir (.bucket (← J.str? j "acct")))
  | "year" => do pure (.dir (.year (← J.nat? j "y")))
  | _ => none

def file? (j : Json) : Option File := do
  let d ← strs? j "dir"
  let n ← J.str? j "name"
  let is ← optAll item? (← J.arr? j "items")
  pure { dir := d, name := n, items := is }

/-- the written amounts with the quantity the generator meant. -/
partial def intendedOf (j : Json) : List (Json) :=
  match j with
  | .arr a => a.toList.flatMap intendedOf
  | .obj _ =>
    let here := match J.str? j "text", J.str? j "q" with
      | some _, some _ => [j]
      | _, _ => []
    let kids := match j with
      | .obj kvs => kvs.toList.flatMap (fun kv => intendedOf kv.2)
      | _ => []
    here ++ kids
  | _ => []

def intendedOk (j : Json) : Bool :=
  (intendedOf j).all (fun a =>
    match wamt? a, (J.str? a "q").bind parseRat? with
    | some w, some q =>
      (match readAmt false true w with
       | .ok r => decide (r.1.q = q)
       | .error _ => false)
    | _, _ => false)

def LoadErr.render : LoadErr → String
  | .amount _ => "amount"
  | .unbalanced => "unbalanced"
  | .twoNulls => "two-nulls"
  | .nullAfter => "null-after"
  | .assertOff => "assert-off"
  | .endApply => "end-apply"
  | .includeNotFound => "include-not-found"
  | .includeDepth => "include-depth"

def renderBal (b : Balance) : String :=
  ",".intercalate (sortStr ((b.filter (fun a => a.q ≠ 0)).map (fun a => s!"{a.comm}~{ratStr a.q}~{a.prec}")))

/-- every account with a posting, and every ancestor. -/
def ancestors (a : String) : List String :=
  let parts := accountPath a
  (List.range parts.length).map (fun i => ":".intercalate (parts.take (i + 1)))

def renderBalances (es : List Entry) : String :=
  let accts := dedupSorted (sortStr (es.flatMap (fun e => ancestors e.account)))
  ";".intercalate (accts.map (fun a => s!"{a}|{renderBal (ownBalance es a)}|{renderBal (familyBalance es a)}"))

def renderRows (es : List Entry) : String :=
  ";".intercalate ((sortByDate es).map (fun e => s!"{e.date}|{e.account}|{e.amt.comm}~{ratStr e.amt.q}"))

def Style.flags (s : Style) : String :=
  (if s.suffixed then "" else "P") ++ (if s.separated then "S" else "") ++
  (if s.thousands then "T" else "") ++ (if s.decimalComma then "D" else "")

def renderStyles (p : Pool) : String :=
  ";".intercalate (sortStr (p.map (fun e => s!"{e.1}|{e.2.prec}|{e.2.flags}")))

def bit (b : Bool) : String := if b then "1" else "0"

def opLoad (args : List String) : String :=
  match args with
  | [s] =>
    match J.parse? s with
    | none => "err\tbad-json"
    | some j =>
      match (J.arr? j "files").bind (optAll file?), J.obj? j "main" with
      | some files, some m =>
        match strs? m "dir", J.str? m "name" with
        | some md, some mn =>
          let fuel := (J.nat? j "fuel").getD 8
          match findFile files md mn with
          | none => "err\tbad-main"
          | some f =>
            let viaTree := loadFile files fuel State.init f
            let flat := flattenFile files fuel f
            let viaFlat := match flat with
              | .ok ds => load ds
              | .error e => .error e
            let flags := match flat with
              | .ok ds => bit (orderFree ds) ++ bit (exactlyBalanced ds)
              | .error _ => "00"
            let flags := flags ++ bit (decide (viaTree = viaFlat)) ++ bit (intendedOk j)
            match viaTree with
            | .error e => s!"err\t{e.render}\t{flags}"
            | .ok st =>
              s!"ok\t{flags}\t{renderBalances st.entries}\t{renderRows st.entries}\t{renderStyles st.pool}"
        | _, _ => "err\tbad-json"
      | _, _ => "err\tbad-json"
  | _ => "err\tbad-op"

def opScan (args : List String) : String :=
  match args with
  | [d, t] =>
    match parseBool? d with
    | none => "err\tbad-op"
    | some dc =>
      match scan dc t with
      | .ok r => s!"ok\t{ratStr r.q}\t{r.prec}\t{bit r.thousands}\t{bit r.dc}"
      | .error e => s!"err\t{e.render}"
  | _ => "err\tbad-op"

end OF

def OrderFreeProto.ops : List (String × (List String → String)) :=
  [("of.load", OF.opLoad), ("of.scan", OF.opScan)]

end Ledger
