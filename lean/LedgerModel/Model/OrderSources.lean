/-
C19 / C08 — consumers of containers whose iteration order is NOT fixed by the
input: `balance_t::amounts` (std::unordered_map keyed by `commodity_t*`,
balance.h 82) and the `std::map`/`std::set`s keyed by a pointer
(`Gen.orderContainers`).

Convention (DESIGN §2): such a container is a finite map; the consumer takes the
list of its entries *in the enumeration order σ the container happens to have*
(hash order, address order).  Two enumerations of one map are `List.Perm` of each
other and have pairwise distinct keys.  "The order does not leak" is then the
theorem `out l = out l'` for all such `l ~ l'` (Props/C19.lean); where it does
leak the consumer is still modelled literally and the negation is proved.

`Balance` (Model/Value.lean) already is such a list.  Core Lean only.
-/
import LedgerModel.Model.Value
import LedgerModel.Gen.OrderSources

namespace Ledger
namespace OS

/-- `commodity_t::compare_by_commodity` on unannotated commodities (commodity.cc
    389-403): `base_symbol().compare(…)`, i.e. byte-wise order of the symbols
    (= code-point order of the UTF-8 strings). -/
def commLe (a b : Comm) : Bool := decide (a ≤ b)

/-- Entries of a finite map emitted in key order: `std::stable_sort` with the
    comparator `le` on the keys (balance.cc 278-282), or the in-order walk of a
    `std::map` whose comparator is `le`.  `l` is the enumeration σ. -/
def sortBy {α κ : Type} (key : α → κ) (le : κ → κ → Bool) (l : List α) : List α :=
  l.mergeSort (fun x y => le (key x) (key y))

/-- balance_t::sorted_amounts (balance.cc 273-283).  (`is_null` amounts — no
    quantity at all — are not representable in the model.) -/
def sortedAmounts (b : Balance) : List Amount := sortBy Amount.comm commLe b

/-- balance_t::print (balance.cc 352-365) through map_sorted_amounts (285-300;
    its size-1 shortcut is the sorted walk of a one-entry list) and
    print_amount_from_balance (balance.cc 327: amounts that display as zero are
    skipped): the sequence of (commodity, quantity) lines. -/
def printBalance (env : PrecEnv) (b : Balance) : List (Comm × Rat) :=
  ((sortedAmounts b).filter (fun a => !a.isZero env)).map (fun a => (a.comm, a.q))

/-- put_balance (balance.cc 375-379): the `<amount>` children of a `<balance>`
    element of `ledger xml`.  Today it walks the hash map as it comes
    (`Gen.putBalanceSorted = false`). -/
def putBalance (b : Balance) : List (Comm × Rat) :=
  (if Gen.putBalanceSorted then sortedAmounts b else b).map (fun a => (a.comm, a.q))

/-- top_amount (report.cc 517-521): `*amounts.begin()` of the hash map. -/
def topAmount (b : Balance) : Option Amount :=
  if Gen.topAmountSorted then (sortedAmounts b).head? else b.head?

/-! ### commodity_t::compare_by_commodity on lots (commodity.cc 389-520) -/

/-- An annotated commodity of one symbol: lot price (in one fixed price commodity), lot date
    (day number), lot tag.  All three absent = the unannotated commodity.  Value-expression
    annotations and prices in different commodities are not modelled. -/
structure Lot where
  sym   : String
  price : Option Rat
  date  : Option Int
  tag   : Option String
deriving DecidableEq, Repr

def Lot.annotated (l : Lot) : Bool := l.price.isSome || l.date.isSome || l.tag.isSome

/-- what the source returns when only the right / only the left lot has detail `x`. -/
def presenceRet (x : String) : Int × Int :=
  match Gen.lotPresenceReturns.find? (fun e => e.1 = x) with
  | some e => e.2
  | none => (0, 0)

/-- one "detail" step: `none` = undecided, go on to the next detail. -/
def cmpDetail {α : Type} (x : String) (lt : α → α → Bool) (l r : Option α) : Option Int :=
  match l, r with
  | none, some _ => some (presenceRet x).1
  | some _, none => some (presenceRet x).2
  | some a, some b => if lt a b then some (-1) else if lt b a then some 1 else none
  | none, none => none

/-- compare_by_commodity (negative: left sorts first), mirroring the order of the tests:
    symbol, annotated or not, price, date, tag; two lots equal in everything end in the
    `assert(false); return -1` the source calls "should never happen". -/
def compareLots (l r : Lot) : Int :=
  if l.sym < r.sym then -1 else if r.sym < l.sym then 1
  else if !l.annotated && r.annotated then (presenceRet "annotation").1
  else if l.annotated && !r.annotated then (presenceRet "annotation").2
  else if !l.annotated && !r.annotated then 0
  else match cmpDetail "price" (fun a b => decide (a < b)) l.price r.price with
    | some c => c
    | none => match cmpDetail "date" (fun a b => decide (a < b)) l.date r.date with
      | some c => c
      | none => match cmpDetail "tag" (fun a b => decide (a < b)) l.tag r.tag with
        | some c => c
        | none => -1

/-- balance_t::strip_annotations (balance.cc 263-271; `scrub`, every default report format):
    each component is stripped — `strip` maps an annotated commodity (a lot) to its base
    commodity — and re-added to a fresh balance in enumeration order.  Lots of one base
    commodity merge, and the merged entry keeps the `keep_precision` flag of the lot met
    FIRST (amount_t::operator+= keeps the left operand's flags: `Balance.addGo`). -/
def stripAnnotations (strip : Comm → Comm) (b : Balance) : Balance :=
  (b.map (fun a => { a with comm := strip a.comm })).foldl Balance.addAmt []

/-! ### value_t::is_less_than / is_greater_than, BALANCE row (value.cc)

`bal < v` is `Value.lt (.bal b) v` of Model/Value.lean: `Value.lt.ltAll` over
`Value.ltWalkOrder b` — the hash map as it comes on the pinned tree, `sorted_amounts`
since 89c0598 (`Gen.ltBalanceSorted`).  It stops at the first component with `c >= v`,
where `amount >= value` is `!(value > amount)` and throws for two different commodities.
is_greater_than's BALANCE row stops at the first `c <= v`, i.e. `!(v < c)`;
`value < amount` never throws (different commodities are ordered by symbol), so that row
is order-free whatever order it walks (`gtAll` takes the walk order as given).
NB in value expressions `a > b` is boost's `b < a` (less_than_comparable1 beats the member
template), so `balance > amount` written by a user is `amount < balance` = `to_amount()`
of the balance; is_greater_than is reached only from C++ callers comparing with a non-value_t. -/

/-- value_t::is_greater_than, BALANCE row against INTEGER / AMOUNT. -/
def gtAll (x : Balance) (v : Value) : Res Bool :=
  match x with
  | [] => .ok false
  | c :: cs => do
    let l ← Value.lt v (.amt c)
    if ¬ l then pure false
    else match cs with
      | [] => pure true
      | _ => gtAll cs v

/-! ### xact_base_t::finalize, two-commodity branch (xact.cc 219-283) -/

def ratAbs (r : Rat) : Rat := if r < 0 then -r else r

/-- The balance finalize accumulates (xact.cc 166-186): the must-balance
    postings' amounts added one by one (`add_or_set_value`), insertion order. -/
def xactBalance (posts : List Amount) : Balance := posts.foldl Balance.addAmt []

/-- xact.cc 252-279 with `x`, `y` = the first two entries of the hash map in
    enumeration order and `top` = the commodity of `top_post`: per posting the
    cost it is given (`none` = untouched).  `*x && *y` is `!is_zero()`. -/
def finalize2 (env : PrecEnv) (top : Comm) (x y : Amount) (posts : List Amount) :
    List (Option (Comm × Rat)) :=
  if x.isZero env ∨ y.isZero env then posts.map (fun _ => none)
  else
    let p : Amount × Amount := if x.comm ≠ top then (y, x) else (x, y)
    let unit := ratAbs (p.2.q / p.1.q)
    posts.map (fun a => if a.comm = p.1.comm then some (p.2.comm, unit * a.q) else none)

/-- The branch as a function of the enumeration `bal` of the two-entry map. -/
def finalizeCosts (env : PrecEnv) (top : Comm) (bal : Balance) (posts : List Amount) :
    Option (List (Option (Comm × Rat))) :=
  match bal with
  | [x, y] => some (finalize2 env top x y posts)
  | _ => none

/-- `top_post` (xact.cc 233-239), unannotated postings: the first must-balance
    posting with a non-null amount. -/
def topComm (posts : List Amount) : Option Comm := posts.head?.map (·.comm)

/-! ### maps keyed by a name or by a pointer -/

/-- One entry per key, first-insertion order; the value accumulates
    (`post.add_to_value(find_totals(…))`, filters.cc 486; subtotal_posts
    filters.cc 905-922). -/
def addTotal : List (String × Balance) → String → Amount → List (String × Balance)
  | [], k, a => [(k, Balance.addAmt [] a)]
  | (k', v) :: r, k, a =>
    if k' = k then (k', Balance.addAmt v a) :: r else (k', v) :: addTotal r k a

/-- collapse_posts::find_totals (filters.cc 464-474): the ancestor at depth ≤ d. -/
def truncAccount (depth : Nat) (a : String) : String :=
  ":".intercalate ((a.splitOn ":").take depth)

/-- The totals map of one transaction, in first-insertion order. -/
def collapseTotals (depth : Nat) (posts : List (String × Amount)) : List (String × Balance) :=
  posts.foldl (fun t p => addTotal t (if depth = 0 then "<Total>" else truncAccount depth p.1) p.2) []

/-- collapse_posts::report_subtotal (filters.cc 440-448): one row per entry of
    `totals`, in the order of the map.  The map is `std::map<account_t*,value_t>`
    (filters.h 431): the order is that of the account objects' addresses, the
    parameter `addr`.  (`Gen.collapseTotalsOrder` tells which order the working
    tree uses.) -/
def collapseRows (addr : String → Nat) (totals : List (String × Balance)) : List (String × Balance) :=
  if Gen.collapseTotalsOrder = "address" then sortBy (fun e => addr e.1) Nat.ble totals
  else if Gen.collapseTotalsOrder = "name" then sortBy (fun e => e.1) commLe totals
  else totals

/-- A map keyed by a name (`std::map<string,…>`: subtotal_posts::values_map
    filters.h 684, by_payee_posts filters.h 833, account_t::accounts_map
    account.h 55): whatever the order entries came in, they leave in name order. -/
def emitByName {β : Type} (entries : List (String × β)) : List (String × β) :=
  sortBy (fun e => e.1) commLe entries

/-- subtotal_posts (filters.cc 862-925): rows of `reg --subtotal`. -/
def subtotalRows (posts : List (String × Amount)) : List (String × Balance) :=
  emitByName (posts.foldl (fun t p => addTotal t p.1 p.2) [])

/-- The commodities of the journal's postings in order of first appearance (the walk of
    `journal_posts`, iterators.cc 143-152: push-if-absent into a vector). -/
def firstAppearance (comms : List Comm) : List Comm := comms.eraseDups

/-- posts_commodities_iterator::reset (iterators.cc 137-163): the commodities of the postings
    are collected and their price histories are emitted group by group in the order of the
    collection (`prices`, `pricedb`).  `groups` is the collection in first-appearance order.
    `Gen.pricesSetOrder` tells what the working tree collects them in: a
    `std::set<commodity_t*>` ("address": walked in heap address order, the parameter `addr`),
    a set with a symbol comparator ("name"), or a vector in first-appearance order
    ("insertion": the order of `groups` itself). -/
def pricesGroups {β : Type} (addr : Comm → Nat) (groups : List (Comm × β)) : List (Comm × β) :=
  if Gen.pricesSetOrder = "address" then sortBy (fun g => addr g.1) Nat.ble groups
  else if Gen.pricesSetOrder = "name" then sortBy (fun g => g.1) commLe groups
  else groups

end OS
end Ledger
