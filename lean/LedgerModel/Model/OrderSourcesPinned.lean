/- Pinned copy of the container inventory and of the walks over `balance_t::amounts` in
   Gen/OrderSources.lean that Model/OrderSources.lean and Props/C19.lean were written against
   (hand-maintained: a NEW pointer-keyed/unordered container or a NEW function that enumerates the
   hash map breaks `C19.containers_pinned` / `C19.walks_pinned` and has to be classified - modelled with an
   explicit enumeration order and proved order-free, or reported - before it is added here).
   Line numbers and the four interpreted consumers (put_balance, top_amount, collapse_posts::totals_map,
   posts_commodities_iterator::reset) are deliberately not part of the pin: their form is read into the flags of
   Gen/OrderSources.lean and Props/C19.lean carries the obligations that it is the repaired one.
   State of the four at the time of this pin (after 36e5f68, c1ef985, c8b647e, fc0aedd):
     filters.h collapse_posts::totals_map   std::map<account_t *, value_t, account_name_less>  (class `compared`, by fullname)
     iterators.cc reset(): `commodities`     std::vector<commodity_t *>, first-appearance order  (the std::set<commodity_t*> is gone)
     balance.cc put_balance                  bal.map_sorted_amounts(…)                           (no walk of the hash map)
     report.cc top_amount                    first of sorted_amounts                             (no `amounts.begin()`) -/
namespace Ledger.Pinned

/-- every container, classified: who iterates it and why the order cannot (or can) reach output.
    balance.h:amounts_map            unordered; consumers = amountsWalks below
    commodity.h:memoized_price_map   memo table of a pure lookup (commodity.cc 142-177): find/insert/clear, eviction by erase(begin()) - cannot change a result
    filters.h:commodity_index_map    anonymize_posts (--anon, outside the model): find/insert only
    filters.h:tag_injected_set       inject_posts: find/insert only
    lookup.cc:account_use_map        `xact` draft command (outside the model): max_element over it, ties fall to address order
    output.h:*_report_map            comparator by fullname / symbol
    print.h:xacts_present_map        find/insert only (posts collected in a list)
    ptree.h:transactions_set         insert only (order kept by the deque `transactions`)
    utils.cc:*                       VERIFY/trace builds only -/
def orderContainers : List (String × String) := [
  ("balance.h:amounts_map", "unordered|unordered_map<commodity_t *, amount_t>"),
  ("commodity.h:memoized_price_map", "address|map<memoized_price_entry, optional<price_point_t>>"),
  ("filters.h:commodity_index_map", "address|map<commodity_t *, std::size_t>"),
  ("filters.h:tag_injected_set", "address|set<xact_t *>"),
  ("lookup.cc:account_use_map", "address|map<account_t *, int>"),
  ("output.h:accounts_report_map", "compared|map<account_t *, std::size_t, account_compare>"),
  ("output.h:commodities_report_map", "compared|map<commodity_t *, std::size_t, commodity_compare>"),
  ("print.h:xacts_present_map", "address|map<xact_t *, bool>"),
  ("ptree.h:transactions_set", "address|set<xact_t *>"),
  ("utils.cc:memory_map", "address|map<void *, allocation_pair>"),
  ("utils.cc:objects_map", "address|multimap<void *, allocation_pair>")
]

/-- classification of every walk (all are order-free as all/any/sum/map/in-place updates or
    size<=1 accesses, except: xact_base_t::finalize (first two entries - C19.finalize_order_free), sorted_amounts (sorted afterwards -
    C19.sortedAmounts_perm), operator+= and operator-= on balances (determine only the insertion order of another balance),
    strip_annotations (lots of one base commodity merge: exact sums, but the FIRST lot's keep_precision flag wins -
    C19.strip_annotations_order_leaks), dump (debug only), average_lot_prices (exact sums per symbol - but when the lot prices of one
    symbol are in two commodities `+` throws and the error text names the pair met first: order-dependent stderr,
    found and localised by the runtime part of tools/props/c19.py, not modelled)).
    value_t::is_less_than / is_greater_than no longer walk the hash map (89c0598: they walk sorted_amounts; the old
    walk is C19.lt_balance_order_leaks, the new one C19.lt_balance_order_free), so they left this list. -/
def amountsWalks : List (String × String) := [
  ("balance.cc:balance_t::operator+=", "foreach*1"),
  ("balance.cc:balance_t::operator-=", "foreach*1"),
  ("balance.cc:balance_t::operator*=", "foreach*1 begin*2"),
  ("balance.cc:balance_t::operator/=", "foreach*1 begin*2"),
  ("balance.cc:balance_t::value", "foreach*1"),
  ("balance.cc:balance_t::find_by_name", "begin*2"),
  ("balance.cc:balance_t::commodity_amount", "begin*1"),
  ("balance.cc:balance_t::strip_annotations", "foreach*1"),
  ("balance.cc:balance_t::sorted_amounts", "foreach*1"),
  ("balance.cc:balance_t::map_sorted_amounts", "begin*1"),
  ("balance.cc:average_lot_prices", "foreach*1"),
  ("balance.h:operator==", "begin*1"),
  ("balance.h:in_place_negate", "foreach*1"),
  ("balance.h:abs", "foreach*1"),
  ("balance.h:in_place_round", "foreach*1"),
  ("balance.h:in_place_roundto", "foreach*1"),
  ("balance.h:in_place_truncate", "foreach*1"),
  ("balance.h:in_place_floor", "foreach*1"),
  ("balance.h:in_place_ceiling", "foreach*1"),
  ("balance.h:in_place_unround", "foreach*1"),
  ("balance.h:in_place_reduce", "foreach*1"),
  ("balance.h:in_place_unreduce", "foreach*1"),
  ("balance.h:is_nonzero", "foreach*1"),
  ("balance.h:is_zero", "foreach*1"),
  ("balance.h:is_realzero", "foreach*1"),
  ("balance.h:to_amount", "begin*1"),
  ("balance.h:number", "foreach*1"),
  ("balance.h:dump", "foreach*1"),
  ("balance.h:valid", "foreach*1"),
  ("filters.cc:changed_value_posts::output_intermediate_prices", "foreach*1"),
  ("report.cc:report_t::fn_verif_rational", "foreach*1"),
  ("report.cc:report_t::fn_nail_down", "foreach*1"),
  ("value.cc:value_t::in_place_cast", "begin*1"),
  ("value.cc:value_t::exchange_commodities", "foreach*1"),
  ("xact.cc:xact_base_t::finalize", "begin*1")
]

/-- the comparators of the ordered containers keyed by a pointer.  Such a map is only safe when the comparator never
    falls back to comparing the pointers themselves (equal names then merge into one entry - by design - instead of
    being listed in heap-address order):
    filters.h:totals_map             account_name_less: fullname only
    output.h:accounts_report_map     account_compare: fullname only (the account_t* keys convert through account_t(parent))
    output.h:commodities_report_map  commodity_compare: symbol only (the lots of one commodity share one entry) -/
def comparators : List (String × String × String) := [
  ("filters.h:totals_map", "name-only", "account_name_less|return left->fullname() < right->fullname();"),
  ("output.h:accounts_report_map", "name-only", "account_compare|return (lhs.fullname().compare(rhs.fullname()) < 0);"),
  ("output.h:commodities_report_map", "name-only", "commodity_compare|return (lhs->symbol().compare(rhs->symbol()) < 0);")
]

end Ledger.Pinned
