/- Driver ops for the order-sensitive consumers (C19): each takes the entries of
   the container in an explicit enumeration order σ (the order of the fields)
   and answers what the consumer emits.

   amounts are `num/den:prec:keep:comm` (ValueProto.parseAmount?), rendered as
   `comm=num/den`; lists are TAB-separated fields unless stated.

   os.print    <env> <amount>…                 lines of balance_t::print: `comm=q` …
   os.putbal   <amount>…                       `<amount>` children of put_balance
   os.top      <amount>…                       top_amount
   os.cmp      <op> <rhs> <amount>…            (balance of the amounts in σ order) op rhs, op ∈ lt gt le ge;
                                               rhs = `i:n` | `a:<amount>`
   os.finalize <env> <fwd|rev> <amount>…       two-commodity branch on the postings' amounts (top = first);
                                               answers per posting `comm=q` of its cost or `-`
   os.collapse <depth> <σ: accounts joined by ;> <account|amount>…   rows `account|comm=q,comm=q` (zero entries dropped)
   os.subtotal <account|amount>…               rows of subtotal_posts
   os.prices   <σ: commodities joined by ;> <posting commodity>…     group order of prices/pricedb; the fields are the
                                               commodities of the journal's postings in journal order (repeats allowed)
   os.strip    <amount>…                       strip_annotations (lots merge; keep flag of the first)
-/
import LedgerModel.Model.OrderSources
import LedgerModel.Model.ValueProto

namespace Ledger
namespace OS

def renderCQ (c : Comm) (q : Rat) : String := s!"{c}={ratStr q}"

def parseAmounts (l : List String) : Option (List Amount) := optAll parseAmount? l

/-- index of a key in the enumeration σ (absent keys go last, in a fixed order). -/
def addrOf (σ : List String) (k : String) : Nat :=
  match σ.findIdx? (· = k) with
  | some i => i
  | none => σ.length

def opPrint (args : List String) : String :=
  match args with
  | envs :: rest =>
    match parseAmounts rest with
    | some b => "ok\t" ++ "\t".intercalate ((printBalance (parseEnv envs) b).map (fun p => renderCQ p.1 p.2))
    | none => "err\tbad-op"
  | _ => "err\tbad-op"

def opPutBal (args : List String) : String :=
  match parseAmounts args with
  | some b => "ok\t" ++ "\t".intercalate ((putBalance b).map (fun p => renderCQ p.1 p.2))
  | none => "err\tbad-op"

def opTop (args : List String) : String :=
  match parseAmounts args with
  | some b => match topAmount b with
    | some a => "ok\t" ++ renderCQ a.comm a.q
    | none => "ok\t-"
  | none => "err\tbad-op"

/-- the base symbol of a printed (possibly annotated) commodity: everything before " {" / " [" / " (". -/
def baseSym (c : Comm) : Comm :=
  match c.splitOn " " with
  | b :: _ => b
  | [] => c

/-- os.strip <amount>… : balance_t::strip_annotations on the enumeration; answers `comm=q:keep` per entry. -/
def opStrip (args : List String) : String :=
  match parseAmounts args with
  | some b => "ok\t" ++ "\t".intercalate ((sortedAmounts (stripAnnotations baseSym b)).map
      (fun a => renderCQ a.comm a.q ++ ":" ++ boolStr a.keep))
  | none => "err\tbad-op"

def parseRhs (s : String) : Option Value :=
  if s.startsWith "i:" then (s.drop 2).toString.toInt?.map Value.int
  else if s.startsWith "a:" then (parseAmount? (s.drop 2).toString).map Value.amt
  else none

def resBool (r : Res Bool) : String :=
  match r with
  | .ok b => "ok\t" ++ boolStr b
  | .error e => "err\t" ++ e.render

/-- the value the expression `(a1 + a2 + …)` denotes: one amount stays an amount. -/
def balValue (b : Balance) : Value :=
  match b with
  | [a] => .amt a
  | _ => .bal b

def opCmp (args : List String) : String :=
  match args with
  | op :: rhs :: rest =>
    match parseRhs rhs, parseAmounts rest with
    | some v, some b =>
      let l := balValue b
      match op with
      | "lt" => resBool (Value.lt l v)
      | "gt" => resBool (Value.gt l v)
      | "le" => resBool (Value.le l v)
      | "ge" => resBool (Value.ge l v)
      | _ => "err\tbad-op"
    | _, _ => "err\tbad-op"
  | _ => "err\tbad-op"

def renderCost (o : Option (Comm × Rat)) : String :=
  match o with
  | some (c, q) => renderCQ c q
  | none => "-"

def sameSign (a b : Rat) : Bool := (a < 0 ∧ b < 0) ∨ (0 < a ∧ 0 < b)

def opFinalize (args : List String) : String :=
  match args with
  | envs :: dir :: rest =>
    match parseAmounts rest with
    | some posts =>
      match topComm posts, xactBalance posts with
      | some top, [x, y] =>
        let bal := if dir = "rev" then [y, x] else [x, y]
        if dir ≠ "fwd" ∧ dir ≠ "rev" then "err\tbad-op"
        else if ¬ (x.isZero (parseEnv envs) ∨ y.isZero (parseEnv envs)) ∧ sameSign x.q y.q then "err\tunbalanced"
        else match finalizeCosts (parseEnv envs) top bal posts with
          | some cs => "ok\t" ++ "\t".intercalate (cs.map renderCost)
          | none => "err\tnot-two"
      | _, _ => "err\tnot-two"
    | none => "err\tbad-op"
  | _ => "err\tbad-op"

def parsePost (s : String) : Option (String × Amount) :=
  match s.splitOn "|" with
  | [acct, a] => (parseAmount? a).map (fun x => (acct, x))
  | _ => none

/-- `comm=q` of the non-zero entries, sorted by commodity. -/
def renderBal (b : Balance) : String :=
  ",".intercalate (((sortedAmounts b).filter (fun a => a.q ≠ 0)).map (fun a => renderCQ a.comm a.q))

def renderRows (rows : List (String × Balance)) : String :=
  "ok\t" ++ "\t".intercalate (rows.map (fun r => r.1 ++ "|" ++ renderBal r.2))

def opCollapse (args : List String) : String :=
  match args with
  | d :: σ :: rest =>
    match d.toNat?, optAll parsePost rest with
    | some depth, some posts =>
      renderRows (collapseRows (addrOf (splitList σ ";")) (collapseTotals depth posts))
    | _, _ => "err\tbad-op"
  | _ => "err\tbad-op"

def opSubtotal (args : List String) : String :=
  match optAll parsePost args with
  | some posts => renderRows (subtotalRows posts)
  | none => "err\tbad-op"

def opPrices (args : List String) : String :=
  match args with
  | σ :: comms => "ok\t" ++ "\t".intercalate
      ((pricesGroups (addrOf (splitList σ ";")) ((firstAppearance comms).map (fun c => (c, ())))).map (·.1))
  | _ => "err\tbad-op"

end OS

def OrderSourcesProto.ops : List (String × (List String → String)) :=
  [("os.print", OS.opPrint), ("os.putbal", OS.opPutBal), ("os.top", OS.opTop), ("os.cmp", OS.opCmp),
   ("os.finalize", OS.opFinalize), ("os.collapse", OS.opCollapse), ("os.subtotal", OS.opSubtotal),
   ("os.prices", OS.opPrices), ("os.strip", OS.opStrip)]

end Ledger
