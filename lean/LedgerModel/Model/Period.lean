/-
Period expressions and reporting intervals (C13).

Mirrors, step by step:
  * `date_duration_t` (times.h 157-236): quantum x length, `add`;
  * `date_duration_t::find_nearest` (times.cc 1153-1184);
  * `date_interval_t` (times.h 448-551): `resolve_end` (times.cc 1133-1151),
    `stabilize` (1186-1307), `find_period` (1309-1386), `operator++` (1388-1412),
    `dump` (1414-1471, what `ledger period EXPR` prints);
  * the period-expression parser `date_parser_t::parse` (times.cc 797-1124) for the
    repeating forms (keywords, `every N <quantum>s`, `every <quantum>`) bounded by
    `from|since D`, `to|until D`, `in D` with fully specified dates
    (`Y/M/D`, `Y/M`, `Y`);
  * `interval_posts::operator()` / `flush` (filters.cc 956-1045) and the limit
    predicate `report_t::normalize_period` derives from the bounds (report.cc 272-292).

Dates are day numbers (`Ledger.Cal`).  Optionals are `Option`; a C++ `throw_`
is an `Except` error.  The two `while` loops whose progress depends on the
duration (`stabilize`, times.cc 1255-1266; the `find_period` scan, 1355-1380) and
the `flush` walk carry an explicit measure as fuel: `date - start` days.  With
`0 < length` every step moves `start` strictly forward (`C13.add_strict_mono`) and
the fuel is never exhausted (`C13.stabilize_terminates`); with `length = 0` the
step leaves `start` unchanged, the measure does not decrease, the model answers
`Err.diverges` and the C++ loops forever (DESIGN section 9, item 3).

Core Lean only.
-/
import LedgerModel.Model.Calendar
import LedgerModel.Gen.PeriodKeywords

namespace Ledger.Period
open Ledger.Cal

/-- `date_duration_t::skip_quantum_t` (times.h 159-161). -/
inductive Quantum where
  | days | weeks | months | quarters | years
deriving DecidableEq, Repr, Inhabited

def Quantum.name : Quantum → String
  | .days => "DAYS" | .weeks => "WEEKS" | .months => "MONTHS" | .quarters => "QUARTERS" | .years => "YEARS"

def Quantum.ofName? (s : String) : Option Quantum :=
  if s = "DAYS" then some .days else if s = "WEEKS" then some .weeks
  else if s = "MONTHS" then some .months else if s = "QUARTERS" then some .quarters
  else if s = "YEARS" then some .years else none

/-- `date_duration_t` (times.h 157-176).  `length` comes from an `unsigned short`
    token (times.cc 1032), hence a `Nat`. -/
structure Duration where
  quantum : Quantum
  length : Nat
deriving DecidableEq, Repr, Inhabited

/-- `date_duration_t::add` (times.h 178-195): boost `days(n)`, `weeks(n)`,
    `months(n)`, `months(3n)`, `years(n)` (= 12n months, same end-of-month snap). -/
def Duration.add (d : Duration) (n : Int) : Int :=
  match d.quantum with
  | .days => n + (d.length : Int)
  | .weeks => n + 7 * (d.length : Int)
  | .months => addMonths n (d.length : Int)
  | .quarters => addMonths n ((d.length : Int) * 3)
  | .years => addYears n (d.length : Int)

/-- `add` read off the table re-extracted from times.h (`Gen.durationAdd`:
    quantum -> boost duration type and multiplier of `length`). -/
def addByTable (tbl : List (String × String × Nat)) (d : Duration) (n : Int) : Option Int :=
  match tbl.find? (fun e => e.1 = d.quantum.name) with
  | some (_, unit, k) =>
    let len : Int := (d.length : Int) * (k : Int)
    if unit = "days" then some (n + len)
    else if unit = "weeks" then some (n + 7 * len)
    else if unit = "months" then some (addMonths n len)
    else if unit = "years" then some (addYears n len)
    else none
  | none => none

/-- `date_duration_t::find_nearest` (times.cc 1153-1184): start of the year /
    quarter / month containing the date; most recent `start_of_week` day; the date
    itself.  The quarter loop steps back month by month from day 1 until the month is
    Jan/Apr/Jul/Oct; the week loop steps back day by day until the weekday matches:
    both are written in closed form. -/
def findNearest (sow : Int) (n : Int) : Quantum → Int
  | .years => ofYMD (yearOf n) 1 1
  | .quarters => ofYMD (yearOf n) (monthOf n - (monthOf n - 1) % 3) 1
  | .months => ofYMD (yearOf n) (monthOf n) 1
  | .weeks => n - (weekday n - sow) % 7
  | .days => n

/-- The alignment the property asks of an interval start: first day of a month /
    quarter / year, the configured first day of the week, any day. -/
def AlignedDate (sow : Int) (q : Quantum) (n : Int) : Prop :=
  match q with
  | .days => True
  | .weeks => weekday n = sow
  | .months => dayOf n = 1
  | .quarters => dayOf n = 1 ∧ (monthOf n - 1) % 3 = 0
  | .years => dayOf n = 1 ∧ monthOf n = 1

inductive Err where
  | parse          -- the period parser rejects the text
  | unsupported    -- valid for ledger but outside the modelled grammar
  | unstarted      -- "Cannot increment an unstarted date interval" (times.cc 1391)
  | improper       -- "Date interval is improperly initialized" (times.cc 1321)
  | noNext         -- assert(next) (times.cc 1399)
  | sigfpe         -- `400 % period` with period = 0 (times.cc 1235)
  | diverges       -- the termination measure did not decrease: the C++ loop does not end
  | failedFind     -- "Failed to find period for interval report" (filters.cc 991)
deriving DecidableEq, Repr

def Err.render : Err → String
  | .parse => "parse" | .unsupported => "unsupported" | .unstarted => "unstarted"
  | .improper => "improper" | .noNext => "no-next" | .sigfpe => "sigfpe"
  | .diverges => "diverges" | .failedFind => "failed-find"

/-- `date_interval_t` with a duration (times.h 448-470).  `rangeBegin`/`rangeEnd` are
    `range->begin()` / `range->end()` (`none` also when there is no range). -/
structure Interval where
  rangeBegin : Option Int
  rangeEnd : Option Int
  start : Option Int
  finish : Option Int
  aligned : Bool
  next : Option Int
  duration : Duration
  eod : Option Int            -- end_of_duration
  sinceSpecified : Bool
deriving DecidableEq, Repr

/-- `date_interval_t::begin()` (times.h 505-507). -/
def Interval.begin (iv : Interval) : Option Int :=
  match iv.start with
  | some s => some s
  | none => iv.rangeBegin

/-- `date_interval_t::end()` (times.h 508-510). -/
def Interval.end (iv : Interval) : Option Int :=
  match iv.finish with
  | some f => some f
  | none => iv.rangeEnd

/-- `min(e, finish)` as `resolve_end` computes it. -/
def clipTo (e : Int) : Option Int → Int
  | some f => if e > f then f else e
  | none => e

/-- `date_interval_t::resolve_end` (times.cc 1133-1151). -/
def resolveEnd (iv : Interval) : Interval :=
  let iv1 : Interval :=
    match iv.start, iv.eod with
    | some s, none => { iv with eod := some (iv.duration.add s) }
    | _, _ => iv
  let iv2 : Interval :=
    match iv1.eod with
    | some e => { iv1 with eod := some (clipTo e iv1.finish) }
    | none => iv1
  match iv2.start, iv2.next with
  | some _, none => { iv2 with next := iv2.eod }
  | _, _ => iv2

/-- `finish && x >= *finish` -/
def reachedFinish (finish : Option Int) (x : Int) : Bool :=
  match finish with
  | some f => decide (x ≥ f)
  | none => false

/-- `finish && x > *finish` -/
def afterFinish (finish : Option Int) (x : Int) : Bool :=
  match finish with
  | some f => decide (x > f)
  | none => false

/-- `! finish || x < *finish` -/
def beforeFinish (finish : Option Int) (x : Int) : Bool :=
  match finish with
  | some f => decide (x < f)
  | none => true

/-- `date_interval_t::operator++` (times.cc 1388-1412); `stabilize()` without a
    date is `resolve_end` when there is a duration (times.cc 1296-1306). -/
def incr (iv : Interval) : Except Err Interval :=
  match iv.start with
  | none => .error .unstarted
  | some _ =>
    let iv1 := resolveEnd iv
    match iv1.next with
    | none => .error .noNext
    | some nx =>
      let iv2 : Interval :=
        if reachedFinish iv1.finish nx then { iv1 with start := none }
        else { iv1 with start := some nx, eod := some (iv1.duration.add nx) }
      .ok (resolveEnd { iv2 with next := none })

/-- `incr` applied k times. -/
def iter : Nat → Interval → Except Err Interval
  | 0, iv => .ok iv
  | k + 1, iv =>
    match incr iv with
    | .ok iv' => iter k iv'
    | .error e => .error e

/-- The `while (*start < *date)` loop of `stabilize` (times.cc 1255-1266); the fuel
    is the measure `date - start` (in days) + 1. -/
def stabLoop (date : Int) : Nat → Interval → Except Err Interval
  | 0, _ => .error .diverges
  | fuel + 1, iv =>
    match iv.start with
    | none => .error .improper
    | some s =>
      if s < date then
        match incr iv with
        | .error e => .error e
        | .ok nxt =>
          match nxt.start with
          | some s' =>
            if s' ≤ date then stabLoop date fuel nxt
            else .ok { iv with eod := none, next := none }
          | none => .ok { iv with eod := none, next := none }
      else .ok iv

/-- The switch on the quantum choosing the first candidate start (times.cc 1214-1251). -/
def baseStart (sow : Int) (align : Bool) (iv : Interval) (when : Int) : Except Err Int :=
  match iv.duration.quantum with
  | .days => .ok when
  | .weeks =>
    if align && iv.sinceSpecified then .ok when
    else
      let period : Int := (iv.duration.length : Int) * 7
      if period = 0 then .error .sigfpe
      else .ok (findNearest sow (when - (period + 400 % period)) .weeks)
  | q =>
    if align && iv.sinceSpecified then .ok when
    else .ok (findNearest sow when q)

/-- `if (initial_start && (! start || *start < *initial_start))` (times.cc 1270-1276). -/
def clipStart (initialStart : Option Int) (iv : Interval) : Interval :=
  match initialStart with
  | none => iv
  | some is =>
    match iv.start with
    | none => { resolveEnd iv with start := some is }
    | some s => if s < is then { resolveEnd iv with start := some is } else iv

/-- `if (initial_finish && (! finish || *finish > *initial_finish))` (times.cc 1277-1280). -/
def clipFinish (initialFinish : Option Int) (iv : Interval) : Interval :=
  match initialFinish with
  | none => iv
  | some fi =>
    match iv.finish with
    | none => { iv with finish := some fi }
    | some f => if f > fi then { iv with finish := some fi } else iv

/-- days from `s` up to `date`, the termination measure of the stepping loops -/
def gap (date s : Int) : Nat := (date - s).toNat

/-- `date_interval_t::stabilize` (times.cc 1186-1307) for an interval with a duration. -/
def stabilize (sow : Int) (date : Option Int) (align : Bool) (iv : Interval) : Except Err Interval :=
  match date, iv.aligned with
  | some d, false =>
    let initialStart := iv.begin
    let initialFinish := iv.end
    let when : Int := match iv.start with
      | some s => s
      | none => d
    match baseStart sow align iv when with
    | .error e => .error e
    | .ok b =>
      match stabLoop d (gap d b + 1) { iv with start := some b } with
      | .error e => .error e
      | .ok iv1 =>
        let iv2 := clipStart initialStart iv1
        let iv3 := clipFinish initialFinish iv2
        .ok (resolveEnd { iv3 with aligned := true })
  | _, _ => .ok (resolveEnd iv)

/-- The scan loop of `find_period` (times.cc 1355-1380). -/
def scanLoop (date : Int) (allowShift : Bool) : Nat → Int → Int → Interval → Except Err (Bool × Interval)
  | 0, _, _, _ => .error .diverges
  | fuel + 1, scan, eos, iv =>
    if decide (date ≥ scan) && beforeFinish iv.finish scan then
      if date < eos then
        .ok (true, resolveEnd { iv with start := some scan, eod := some eos, next := none })
      else if !allowShift then .ok (false, iv)
      else
        let scan' := iv.duration.add scan
        scanLoop date allowShift fuel scan' (iv.duration.add scan') iv
    else .ok (false, iv)

/-- `date_interval_t::find_period` (times.cc 1309-1386). -/
def findPeriod (sow : Int) (date : Int) (align allowShift : Bool) (iv : Interval) : Except Err (Bool × Interval) :=
  match stabilize sow (some date) align iv with
  | .error e => .error e
  | .ok iv1 =>
    if afterFinish iv1.finish date then .ok (false, iv1)
    else
      match iv1.start with
      | none => .error .improper
      | some s =>
        if date < s then .ok (false, iv1)
        else
          match iv1.eod with
          | none => .ok (false, iv1)
          | some e =>
            if date < e then .ok (true, iv1)
            else scanLoop date allowShift (gap date s + 1) s e iv1

/-- `within_period` (times.h 529-531). -/
def withinPeriod (sow : Int) (date : Int) (iv : Interval) : Except Err (Bool × Interval) :=
  findPeriod sow date false false iv

/-! ### period expressions -/

/-- What `date_parser_t::parse` leaves in the `date_interval_t` (times.cc 1105-1122). -/
structure Period where
  duration : Option Duration
  rangeBegin : Option Int
  rangeEnd : Option Int
  sinceSpecified : Bool
deriving DecidableEq, Repr

def Period.interval (p : Period) (d : Duration) : Interval :=
  { rangeBegin := p.rangeBegin, rangeEnd := p.rangeEnd, start := none, finish := none,
    aligned := false, next := none, duration := d, eod := none, sinceSpecified := p.sinceSpecified }

/-- A date token with its traits: `Y/M/D`, `Y/M`, or a bare year (an integer above 31,
    times.cc 644-646). -/
structure Spec where
  year : Int
  month : Option Int
  day : Option Int
deriving DecidableEq, Repr

/-- `date_specifier_t::begin` (times.cc 266-285). -/
def Spec.begin (s : Spec) : Int := ofYMD s.year (s.month.getD 1) (s.day.getD 1)

/-- `date_specifier_t::end` (times.cc 287-299). -/
def Spec.end (s : Spec) : Int :=
  match s.day, s.month with
  | some _, _ => s.begin + 1
  | none, some _ => addMonths s.begin 1
  | none, none => addYears s.begin 1

def allDigits (s : String) : Bool := !s.isEmpty && s.toList.all Char.isDigit

/-- Date words of the modelled grammar.  `none` = not a date word; `some (error _)` = a
    date word ledger rejects (impossible calendar date) or one outside the model. -/
def parseSpec (w : String) : Option (Except Err Spec) :=
  match w.splitOn "/" with
  | [y] =>
    if allDigits y then
      let n := y.toNat!
      if n > 31 then
        (if 1400 ≤ n ∧ n ≤ 9999 then some (.ok { year := n, month := none, day := none })
         else some (.error .unsupported))
      else some (.error .unsupported)     -- a bare day of month: depends on the current date
    else none
  | [y, m] =>
    if allDigits y && allDigits m && y.length = 4 && m.length ≤ 2 then
      let yy : Int := y.toNat!
      let mm : Int := m.toNat!
      if 1400 ≤ yy ∧ 1 ≤ mm ∧ mm ≤ 12 then some (.ok { year := yy, month := some mm, day := none })
      else some (.error .parse)
    else some (.error .unsupported)
  | [y, m, d] =>
    if allDigits y && allDigits m && allDigits d && y.length = 4 && m.length ≤ 2 && d.length ≤ 2 then
      let yy : Int := y.toNat!
      let mm : Int := m.toNat!
      let dd : Int := d.toNat!
      if 1400 ≤ yy ∧ validYMD yy mm dd then some (.ok { year := yy, month := some mm, day := some dd })
      else some (.error .parse)
    else some (.error .unsupported)
  | _ => some (.error .unsupported)

/-- Lookup in the table regenerated from times.cc (lexer spelling -> token -> parser case). -/
def keywordDuration? (w : String) : Option Duration :=
  match Gen.periodKeywords.find? (fun e => e.1 = w) with
  | some (_, q, n) => (Quantum.ofName? q).map (fun qq => { quantum := qq, length := n })
  | none => none

def everyPlural? (w : String) : Option Quantum :=
  match Gen.everyPlural.find? (fun e => e.1 = w) with
  | some (_, q) => Quantum.ofName? q
  | none => none

def everySingular? (w : String) : Option Quantum :=
  match Gen.everySingular.find? (fun e => e.1 = w) with
  | some (_, q) => Quantum.ofName? q
  | none => none

/-- Parser state: since / until / inclusion specifiers and the duration (times.cc 799-805). -/
structure PState where
  since : Option Spec := none
  until_ : Option Spec := none
  incl : Option Spec := none
  duration : Option Duration := none

/-- Is the word one the lexer gives a token of its own (keyword, quantum word, relative-date
    word, month or weekday name)? -/
def knownWord (w : String) : Bool :=
  Gen.sinceWords.contains w || Gen.untilWords.contains w || Gen.inWords.contains w || Gen.everyWords.contains w ||
  Gen.otherWords.contains w || (Gen.periodKeywords.any (fun e => e.1 = w)) ||
  (Gen.everyPlural.any (fun e => e.1 = w)) || (Gen.everySingular.any (fun e => e.1 = w))

def quantumWord (w : String) : Bool :=
  (Gen.everyPlural.any (fun e => e.1 = w)) || (Gen.everySingular.any (fun e => e.1 = w))

/-- After an integer token `determine_when` peeks at the next token (times.cc 589).  A quantum
    word there starts `N months ago|hence` (outside the model).  An identifier the lexer does
    not know becomes an UNKNOWN token, and because `token_cache` uses the kind UNKNOWN for
    "empty" (times.cc 546-550, 1474-1478) the peeked token is lost: the word is silently
    dropped.  Every other token stays cached and is read next. -/
def afterInt (rest : List String) : Except Err (List String) :=
  match rest with
  | [] => .ok []
  | w :: rest' =>
    if quantumWord w then .error .unsupported
    else if knownWord w then .ok (w :: rest')
    else match w.toList with
      | [] => .ok rest'
      | c :: _ =>
        if c.isDigit then .ok (w :: rest')
        else if c.isAlpha && w.toList.all Char.isAlphanum then .ok rest'
        else .error .unsupported

def specArg (ws : List String) : Except Err (Spec × List String) :=
  match ws with
  | [] => .error .parse                       -- "Unexpected end of expression"
  | w :: rest =>
    match parseSpec w with
    | some (.ok s) =>
      if allDigits w then
        match afterInt rest with
        | .ok rest' => .ok (s, rest')
        | .error e => .error e
      else .ok (s, rest)
    | some (.error e) => .error e
    | none =>
      if Gen.otherWords.contains w then .error .unsupported else .error .parse

/-- The token loop of `date_parser_t::parse` (times.cc 807-1098) over whitespace-separated,
    lower-cased words.  Structural on the word list (each case consumes at least one word). -/
def parseLoop : Nat → List String → PState → Except Err PState
  | 0, _, _ => .error .parse
  | _ + 1, [], st => .ok st
  | fuel + 1, w :: rest, st =>
    if Gen.sinceWords.contains w then
      if st.since.isSome then .error .parse
      else match specArg rest with
        | .ok (s, rest') => parseLoop fuel rest' { st with since := some s }
        | .error e => .error e
    else if Gen.untilWords.contains w then
      if st.until_.isSome then .error .parse
      else match specArg rest with
        | .ok (s, rest') => parseLoop fuel rest' { st with until_ := some s }
        | .error e => .error e
    else if Gen.inWords.contains w then
      if st.incl.isSome then .error .parse
      else match specArg rest with
        | .ok (s, rest') => parseLoop fuel rest' { st with incl := some s }
        | .error e => .error e
    else if Gen.everyWords.contains w then
      match rest with
      | [] => .error .parse
      | a :: rest1 =>
        if allDigits a then
          let n := a.toNat!
          if n > 65535 then .error .parse           -- lexical_cast<unsigned short>
          else if n ≥ 1000 then .error .unsupported -- may lex as a date word
          else match rest1 with
            | [] => .error .parse
            | q :: rest2 =>
              match everyPlural? q with
              | some qq =>
                if Gen.everyRejectsZero && n = 0 then .error .parse
                else parseLoop fuel rest2 { st with duration := some { quantum := qq, length := n } }
              | none => .error .parse
        else match everySingular? a with
          | some qq => parseLoop fuel rest1 { st with duration := some { quantum := qq, length := 1 } }
          | none => .error .parse
    else match keywordDuration? w with
      | some d => parseLoop fuel rest { st with duration := some d }
      | none =>
        match specArg (w :: rest) with
        | .ok (s, rest') =>
          -- a date word replaces the inclusion specifier (`specifier = date`, times.cc 581); a bare
          -- integer only sets its year and keeps month and day (times.cc 644-646, 816-820)
          let s' : Spec := if allDigits w then
              (match st.incl with
               | some old => { old with year := s.year }
               | none => s)
            else s
          let ok : Bool := match s'.month, s'.day with
            | some m, some d => validYMD s'.year m d
            | _, _ => true
          if ok then parseLoop fuel rest' { st with incl := some s' } else .error .parse
        | .error e => .error e

def words (s : String) : List String :=
  (s.toLower.splitOn " ").filter (fun w => !w.isEmpty)

/-- `date_parser_t::parse` for the modelled grammar; the tail (times.cc 1105-1122)
    builds the range: since/until win over an inclusion specifier. -/
def parsePeriod (text : String) : Except Err Period :=
  let ws := words text
  -- the lexer splits words at every change between alphanumeric and other characters and has
  -- tokens for `-` and `.`; only words made of letters, digits and `/` are modelled
  if ws.any (fun w => !(w.toList.all (fun c => c.isAlphanum || c = '/'))) then .error .unsupported else
  match parseLoop (ws.length + 1) ws {} with
  | .error e => .error e
  | .ok st =>
    if st.since.isSome || st.until_.isSome then
      .ok { duration := st.duration, rangeBegin := st.since.map Spec.begin,
            rangeEnd := st.until_.map Spec.begin, sinceSpecified := st.since.isSome }
    else match st.incl with
      | some s => .ok { duration := st.duration, rangeBegin := some s.begin, rangeEnd := some s.end,
                        sinceSpecified := false }
      | none => .ok { duration := st.duration, rangeBegin := none, rangeEnd := none, sinceSpecified := false }

/-! ### `ledger period EXPR` (date_interval_t::dump, times.cc 1414-1471) -/

/-- The sample loop: up to `n` intervals `(start, end_of_duration)`; stops when the
    interval becomes unstarted or repeats its start (`last_date == *start`). -/
def sampleLoop : Nat → Option Int → Interval → Except Err (List (Int × Int))
  | 0, _, _ => .ok []
  | n + 1, last, iv =>
    match iv.start with
    | none => .ok []
    | some s =>
      if last = some s then .ok []
      else
        let e := iv.eod.getD s
        match incr iv with
        | .error err => .error err
        | .ok iv' =>
          match sampleLoop n (some s) iv' with
          | .error err => .error err
          | .ok rest => .ok ((s, e) :: rest)

structure Listing where
  start : Option Int
  finish : Option Int
  samples : List (Int × Int)

/-- `dump`: stabilize at `begin()` or the current date, then list. -/
def listPeriod (p : Period) (now : Int) (n : Nat) : Except Err Listing :=
  match p.duration with
  | none =>
    -- no duration: `stabilize` copies the range (times.cc 1290-1293) and throws when there
    -- is neither start nor finish (1301-1303); one sample line without an end.
    match p.rangeBegin, p.rangeEnd with
    | none, none => .error .improper
    | b, e => .ok { start := b, finish := e, samples := [] }
  | some d =>
    let iv := p.interval d
    let when := (iv.begin).getD now
    match stabilize 0 (some when) false iv with
    | .error e => .error e
    | .ok iv1 =>
      match sampleLoop n none iv1 with
      | .error e => .error e
      | .ok l => .ok { start := iv1.start, finish := iv1.finish, samples := l }

/-! ### interval_posts (filters.cc 956-1045) -/

/-- One reported subtotal: the interval (`start`, `end_of_duration`) and the postings
    (index in input order, date) it accumulated.  `members = []` is the `<None>` row
    written for an empty interval under `--empty`. -/
structure Group where
  start : Int
  eod : Int
  members : List (Nat × Int)
deriving DecidableEq, Repr

def mkGroup (iv : Interval) (cur : List (Nat × Int)) : Group :=
  { start := iv.start.getD 0, eod := iv.eod.getD 0, members := cur }

/-- The `else` branch of the walk, repeated until the posting falls within the interval
    (filters.cc 1011-1033): report what was accumulated (or an empty row under
    `--empty`), then `++interval`.  Returns the new interval and the rows emitted
    (in order).  Fuel: the measure `date - start` + 1. -/
def seek (sow : Int) (empty : Bool) (date : Int) :
    Nat → Interval → List (Nat × Int) → Except Err (Interval × List Group)
  | 0, _, _ => .error .diverges
  | fuel + 1, iv, cur =>
    match withinPeriod sow date iv with
    | .error e => .error e
    | .ok (true, iv1) => .ok (iv1, [])
    | .ok (false, iv1) =>
      let emitted : List Group :=
        if !cur.isEmpty then [mkGroup iv1 cur]
        else if empty then [mkGroup iv1 []] else []
      match incr iv1 with
      | .error e => .error e
      | .ok iv2 =>
        match seek sow empty date fuel iv2 [] with
        | .error e => .error e
        | .ok (iv3, gs) => .ok (iv3, emitted ++ gs)

/-- Fuel for one `seek`: the measure `date - start` (+ 2). -/
def walkFuel (iv : Interval) (date : Int) : Nat :=
  (match iv.start with
   | some s => gap date s
   | none => 0) + 2

/-- The walk over the date-sorted postings (filters.cc 995-1041); `cur` is what
    `subtotal_posts` has accumulated since the last report (`saw_posts` = `cur ≠ []`). -/
def walk (sow : Int) (empty : Bool) : Interval → List (Nat × Int) → List (Nat × Int) → Except Err (List Group)
  | iv, cur, [] => .ok (if cur.isEmpty then [] else [mkGroup iv cur])
  | iv, cur, p :: ps =>
    match seek sow empty p.2 (walkFuel iv p.2) iv cur with
    | .error e => .error e
    | .ok (iv1, gs) =>
      let cur1 := if gs.isEmpty then cur ++ [p] else [p]
      match walk sow empty iv1 cur1 ps with
      | .error e => .error e
      | .ok rest => .ok (gs ++ rest)

/-- insertion into a date-sorted list after all entries with a date `≤` (stable) -/
def insertByDate (p : Nat × Int) : List (Nat × Int) → List (Nat × Int)
  | [] => [p]
  | q :: qs => if p.2 < q.2 then p :: q :: qs else q :: insertByDate p qs

/-- `std::stable_sort(all_posts, sort_posts_by_date)` (filters.cc 981-982). -/
def sortByDate (l : List (Nat × Int)) : List (Nat × Int) :=
  l.foldl (fun acc p => insertByDate p acc) []

/-- The limit predicate `normalize_period` adds (report.cc 276-286):
    `date >= begin` and `date < end` of the parsed interval. -/
def inBounds (p : Period) (d : Int) : Bool :=
  (match p.rangeBegin with | some b => decide (b ≤ d) | none => true) &&
  (match p.rangeEnd with | some e => decide (d < e) | none => true)

/-- `interval_posts::flush` (filters.cc 972-1045) after the limit filter: choose the
    first interval from `begin()` or else from the earliest posting, then walk. -/
def flush (sow : Int) (align empty : Bool) (iv : Interval) (posts : List (Nat × Int)) : Except Err (List Group) :=
  let sorted := sortByDate posts
  let first : Except Err (Bool × Interval) :=
    match iv.begin with
    | some b => findPeriod sow b align true iv
    | none => .ok (false, iv)
  match first with
  | .error e => .error e
  | .ok (true, iv1) => walk sow empty iv1 [] sorted
  | .ok (false, iv1) =>
    match sorted with
    | [] => .ok []
    | p :: _ =>
      match findPeriod sow p.2 align true iv1 with
      | .error e => .error e
      | .ok (false, _) => .error .failedFind
      | .ok (true, iv2) => walk sow empty iv2 [] sorted

/-- Sum of a rational-valued quantity (an amount in one commodity of one account, say)
    over a list. -/
def total {α : Type} (f : α → Rat) : List α → Rat
  | [] => 0
  | x :: xs => f x + total f xs

/-- The postings that pass the limit predicate, as (index in input order, date). -/
def inBoundsPosts (p : Period) (dates : List Int) : List (Nat × Int) :=
  (dates.zipIdx.map (fun x => (x.2, x.1))).filter (fun x => inBounds p x.2)

/-- `reg --period TEXT [--align-intervals] [--empty] [--start-of-week sow]` on postings
    with the given dates (input order): the group rows. -/
def reportGroups (p : Period) (d : Duration) (sow : Int) (align empty : Bool) (dates : List Int) : Except Err (List Group) :=
  flush sow align empty (p.interval d) (inBoundsPosts p dates)

end Ledger.Period
