/- Driver ops for period expressions and reporting intervals (C13).

   period.parse  TEXT                       -> ok  QUANTUM|-  LENGTH  BEGIN|-  END|-  SINCE
   period.list   TEXT  NOW  N               -> ok  START|-  FINISH|-  s:e,s:e,...      (`ledger period TEXT --now NOW`; e = end_of_duration, exclusive)
   period.group  TEXT  SOW  ALIGN  EMPTY  d0,d1,...  -> ok  s:e:i+j+k;s:e:;...        (`reg --period TEXT` group rows; members = indices into the date list)
   period.add    QUANTUM  LENGTH  DATE      -> ok  DATE'
   period.nearest QUANTUM  SOW  DATE        -> ok  DATE'
   Dates are day numbers (days since 1970-01-01).  Errors: err <kind>. -/
import LedgerModel.Model.Proto
import LedgerModel.Model.Period

namespace Ledger.PeriodProto
open Ledger.Period

def optStr : Option Int → String
  | some n => toString n
  | none => "-"

def errStr (e : Err) : String := "err\t" ++ e.render

def opParse (args : List String) : String :=
  match args with
  | [text] =>
    match parsePeriod text with
    | .error e => errStr e
    | .ok p =>
      let (q, n) := match p.duration with
        | some d => (d.quantum.name, toString d.length)
        | none => ("-", "0")
      s!"ok\t{q}\t{n}\t{optStr p.rangeBegin}\t{optStr p.rangeEnd}\t{boolStr p.sinceSpecified}"
  | _ => "err\tbad-op"

def opList (args : List String) : String :=
  match args with
  | [text, now, n] =>
    match now.toInt?, n.toNat? with
    | some now, some n =>
      match parsePeriod text with
      | .error e => errStr e
      | .ok p =>
        match listPeriod p now n with
        | .error e => errStr e
        | .ok l =>
          let ss := ",".intercalate (l.samples.map (fun x => s!"{x.1}:{x.2}"))
          s!"ok\t{optStr l.start}\t{optStr l.finish}\t{ss}"
    | _, _ => "err\tbad-op"
  | _ => "err\tbad-op"

def groupStr (g : Group) : String :=
  s!"{g.start}:{g.eod}:" ++ "+".intercalate (g.members.map (fun m => toString m.1))

def opGroup (args : List String) : String :=
  match args with
  | [text, sow, align, empty, dates] =>
    match sow.toInt?, parseBool? align, parseBool? empty, optAll String.toInt? (splitList dates ",") with
    | some sow, some align, some empty, some ds =>
      if sow < 0 ∨ sow > 6 then "err\tbad-op" else
      match parsePeriod text with
      | .error e => errStr e
      | .ok p =>
        match p.duration with
        | none => "err\tno-duration"
        | some d =>
          match reportGroups p d sow align empty ds with
          | .error e => errStr e
          | .ok gs => "ok\t" ++ ";".intercalate (gs.map groupStr)
    | _, _, _, _ => "err\tbad-op"
  | _ => "err\tbad-op"

def opAdd (args : List String) : String :=
  match args with
  | [q, n, d] =>
    match Quantum.ofName? q, n.toNat?, d.toInt? with
    | some q, some n, some d => s!"ok\t{({ quantum := q, length := n } : Duration).add d}"
    | _, _, _ => "err\tbad-op"
  | _ => "err\tbad-op"

def opNearest (args : List String) : String :=
  match args with
  | [q, sow, d] =>
    match Quantum.ofName? q, sow.toInt?, d.toInt? with
    | some q, some sow, some d => if sow < 0 ∨ sow > 6 then "err\tbad-op" else s!"ok\t{findNearest sow d q}"
    | _, _, _ => "err\tbad-op"
  | _ => "err\tbad-op"

def ops : List (String × (List String → String)) :=
  [("period.parse", opParse), ("period.list", opList), ("period.group", opGroup),
   ("period.add", opAdd), ("period.nearest", opNearest)]

end Ledger.PeriodProto
