/-
Route choice on a general price graph (C10): what history.cc 435-546
`find_price(source, target, moment, oldest)` does when source and target are joined by
several routes.  Core Lean only.

  * history.cc 447-450: the graph is filtered by `recent_edge_weight` — an edge stays when
    its pair has a price dated not after the moment; its weight is the age in seconds of
    that price point (history.cc 243-247)                        → `fgraph`, `outOf`
  * history.cc 464-467: `dijkstra_shortest_paths(fg, sv, predecessor_map(..).distance_map(..)
    .distance_combine(f_max<long>()))`.  With `f_max` as combine the length of a route is
    the age of its OLDEST price (a bottleneck, not a sum); compare is `std::less`, zero is
    0, inf is `LONG_MAX` (`none` here).  The model follows boost 1.83 statement by
    statement: `dijkstra_shortest_paths` initialises every predecessor to the vertex
    itself and every distance to inf; `breadth_first_visit` pops the top of a
    `d_ary_heap_indirect<Vertex,4>`, walks the out-edges in their stored order (for the
    `vecS` undirected graph: edge creation order), and calls `relax_target` on white and
    gray targets (`max(d_u, w) < d_v` → `d_v := max(d_u, w)`, `p_v := u`), pushing white
    targets and sifting up relaxed gray ones                     → `relaxEdge`, `dstepW`, `drunW`
  * d_ary_heap.hpp 122-168, 247-372: push / pop / update with `parent i = (i-1)/4`,
    `first_child i = 4i+1`, strict comparisons, first smallest child → `heapPush`, `heapPop`,
    `heapUpdate`.  Which of several equally distant vertices is popped first — and with
    it which of several equally old routes is taken — is decided by this array.
  * history.cc 470-535: walk the predecessors from the target back to the vertex that is
    its own predecessor, multiplying the edge prices (inverted when quoted the other way
    round), and remember the oldest date                          → `walkBack`, `routeW`/`routeOf`,
    `rateAlong` (Model/Prices.lean), `leastRecent`

Proof device (no effect on any result as long as the heap does its job): `queue` holds the
gray vertices as a plain list, and `popChoice` takes the heap's top only after checking
that it is a gray vertex of minimal distance; otherwise it takes the first minimal gray
vertex.  `Q.top()` is a parameter (`choose`) of `dstepW`/`drunW`/`routeW`/`valueW`; the
theorems assume only `ChoiceOk choose` (some gray vertex of least distance), so they hold for
*every* order in which equally distant vertices are popped and do not depend on the
internals of the heap, while the executable instance (`popChoice`) pops exactly what
boost pops.  `rank`/`time` record the pop order (ghost state).  The
vertex is marked black before its out-edges are walked instead of after; the only
target that sees the difference is the vertex itself (a self-loop), whose relaxation
`max(d_u,w) < d_u` is false either way.
-/
import LedgerModel.Model.Prices

namespace Ledger.Prices

/-- a distance; `none` is boost's `inf` -/
abbrev Dist := Option Int

def Dist.lt : Dist → Dist → Bool
  | some a, some b => decide (a < b)
  | some _, none => true
  | none, _ => false

def Dist.le (a b : Dist) : Bool := !(Dist.lt b a)

/-- `f_max<long>` (history.cc 41-50) as `distance_combine`; inf stays inf -/
def combineMax (d : Dist) (w : Int) : Dist := d.map (fun x => max x w)

inductive Color
  | white | gray | black
deriving DecidableEq, Repr

def upd {β : Type} (f : Comm → β) (k : Comm) (x : β) : Comm → β := fun y => if y = k then x else f y

/-! ### boost's 4-ary indirect heap on a list -/

def lget (h : List Comm) (i : Nat) : Comm := h.getD i ""

def lswap (h : List Comm) (i j : Nat) : List Comm := (h.set i (lget h j)).set j (lget h i)

/-- `preserve_heap_property_up` -/
def siftUp (key : Comm → Dist) : Nat → List Comm → Nat → List Comm
  | 0, h, _ => h
  | fuel + 1, h, i =>
    if i = 0 then h
    else
      let p := (i - 1) / 4
      if Dist.lt (key (lget h i)) (key (lget h p)) then siftUp key fuel (lswap h i p) p else h

/-- the first smallest of the `n` children starting at index `first` -/
def smallestChild (key : Comm → Dist) (h : List Comm) (first n : Nat) : Nat :=
  (List.range n).foldl
    (fun best i => if Dist.lt (key (lget h (first + i))) (key (lget h best)) then first + i else best) first

/-- `preserve_heap_property_down` -/
def siftDown (key : Comm → Dist) : Nat → List Comm → Nat → List Comm
  | 0, h, _ => h
  | fuel + 1, h, i =>
    let first := 4 * i + 1
    if first ≥ h.length then h
    else
      let c := smallestChild key h first (min 4 (h.length - first))
      if Dist.lt (key (lget h c)) (key (lget h i)) then siftDown key fuel (lswap h i c) c else h

def heapPush (key : Comm → Dist) (h : List Comm) (v : Comm) : List Comm :=
  siftUp key (h.length + 1) (h ++ [v]) h.length

def heapPop (key : Comm → Dist) (h : List Comm) : List Comm :=
  match h with
  | [] => []
  | [_] => []
  | _ :: _ =>
    let h' := h.dropLast.set 0 (lget h (h.length - 1))
    siftDown key h'.length h' 0

def heapUpdate (key : Comm → Dist) (h : List Comm) (v : Comm) : List Comm :=
  siftUp key h.length h (h.idxOf v)

/-! ### Dijkstra as `breadth_first_visit` runs it -/

structure DState where
  dist : Comm → Dist
  pred : Comm → Comm
  color : Comm → Color
  /-- the gray vertices in discovery order -/
  queue : List Comm
  /-- boost's heap array -/
  heap : List Comm
  /-- ghost: number of vertices popped so far, and when each vertex was popped -/
  time : Nat
  rank : Comm → Nat

/-- `dijkstra_shortest_paths`: every distance inf, every predecessor the vertex itself,
    every colour white; then the source: distance zero, gray, pushed. -/
def dinit (src : Comm) : DState where
  dist := upd (fun _ => none) src (some 0)
  pred := fun v => v
  color := upd (fun _ => Color.white) src Color.gray
  queue := [src]
  heap := [src]
  time := 0
  rank := fun _ => 0

/-- `tree_edge` / `gray_target` → `relax_target` (relax.hpp 92-118), then gray + push, or
    `Q.update`.  Black targets are not touched. -/
def relaxEdge (u : Comm) (s : DState) (e : Comm × Int) : DState :=
  let v := e.1
  match s.color v with
  | .black => s
  | .white =>
    let cand := combineMax (s.dist u) e.2
    if Dist.lt cand (s.dist v) then
      let d' := upd s.dist v cand
      { s with dist := d', pred := upd s.pred v u, color := upd s.color v .gray,
               queue := s.queue ++ [v], heap := heapPush d' s.heap v }
    else
      { s with color := upd s.color v .gray, queue := s.queue ++ [v], heap := heapPush s.dist s.heap v }
  | .gray =>
    let cand := combineMax (s.dist u) e.2
    if Dist.lt cand (s.dist v) then
      let d' := upd s.dist v cand
      { s with dist := d', pred := upd s.pred v u, heap := heapUpdate d' s.heap v }
    else s

/-- the first element of `q :: qs` with the least key -/
def firstMin (key : Comm → Dist) : Comm → List Comm → Comm
  | q, [] => q
  | q, z :: zs => if Dist.lt (key z) (key q) then firstMin key z zs else firstMin key q zs

def isMinOf (key : Comm → Dist) (l : List Comm) (t : Comm) : Bool :=
  l.all (fun z => Dist.le (key t) (key z))

/-- `Q.top()`: the root of the heap — taken after checking that it is a gray vertex at
    least distance (see the header). -/
def popChoice (s : DState) : Option Comm :=
  match s.queue with
  | [] => none
  | q :: qs =>
    match s.heap.head? with
    | some t => if (q :: qs).contains t && isMinOf s.dist (q :: qs) t then some t else some (firstMin s.dist q qs)
    | none => some (firstMin s.dist q qs)

/-- one iteration of the `while (!Q.empty())` loop; `choose` is `Q.top()` -/
def dstepW (choose : DState → Option Comm) (out : Comm → List (Comm × Int)) (s : DState) : DState :=
  match choose s with
  | none => s
  | some u =>
    let s1 : DState :=
      { s with color := upd s.color u .black, queue := s.queue.erase u,
               heap := if s.heap.head? = some u then heapPop s.dist s.heap else s.heap.erase u,
               rank := upd s.rank u s.time, time := s.time + 1 }
    (out u).foldl (relaxEdge u) s1

def drunW (choose : DState → Option Comm) (out : Comm → List (Comm × Int)) : Nat → DState → DState
  | 0, s => s
  | fuel + 1, s => if s.queue.isEmpty then s else drunW choose out fuel (dstepW choose out s)

/-- What the proofs assume about `Q.top()`: it is a gray vertex whose distance is least, and
    there is one as long as the queue is not empty.  Which one, among several, is free. -/
structure ChoiceOk (choose : DState → Option Comm) : Prop where
  spec : ∀ s u, choose s = some u → u ∈ s.queue ∧ ∀ z ∈ s.queue, Dist.le (s.dist u) (s.dist z) = true
  none_iff : ∀ s, choose s = none ↔ s.queue = []

/-- history.cc 475-478: `for (u = pred[v]; u != v; v = u, u = pred[v])`, read from the source end -/
def walkBack (pred : Comm → Comm) : Nat → Comm → List Comm
  | 0, v => [v]
  | fuel + 1, v => if pred v = v then [v] else walkBack pred fuel (pred v) ++ [v]

/-! ### the filtered graph of a history -/

/-- The edges that pass `recent_edge_weight` at the moment, in creation order, each with
    its price point. -/
def fgraph (hist : List Entry) (D : Int) : List (Comm × Comm × Entry) :=
  (Graph.ofHistory hist).filterMap
    (fun ed => (PriceMap.recent D ed.prices).map (fun p => (ed.u, ed.v, p)))

/-- `out_edges(u, fg)`: targets and weights (ages in seconds, history.cc 243) in stored order -/
def outOf (fe : List (Comm × Comm × Entry)) (D : Int) (u : Comm) : List (Comm × Int) :=
  fe.filterMap (fun t =>
    if t.1 = u then some (t.2.1, D - t.2.2.date)
    else if t.2.1 = u then some (t.1, D - t.2.2.date)
    else none)

/-- the price point of the edge {a,b} of the filtered graph -/
def feLookup (fe : List (Comm × Comm × Entry)) (a b : Comm) : Option Entry :=
  match fe.find? (fun t => (t.1 = a ∧ t.2.1 = b) ∨ (t.1 = b ∧ t.2.1 = a)) with
  | some t => some t.2.2
  | none => none

/-- all the commodities of the filtered graph (with repetitions), plus the source -/
def feVerts (fe : List (Comm × Comm × Entry)) (src : Comm) : List Comm :=
  src :: fe.flatMap (fun t => [t.1, t.2.1])

/-- The route from `src` to `tgt` through the filtered graph `fe` when `choose` plays the heap
    (`none`: the target's predecessor chain does not lead back to the source). -/
def routeW (choose : DState → Option Comm) (fe : List (Comm × Comm × Entry)) (D : Int) (src tgt : Comm) : Option (List Comm) :=
  let n := (feVerts fe src).length + 1
  let s := drunW choose (outOf fe D) n (dinit src)
  let p := walkBack s.pred n tgt
  if p.head? = some src ∧ 2 ≤ p.length then some p else none

/-- The route ledger takes: `choose` is boost's heap (`popChoice`). -/
def routeOf (fe : List (Comm × Comm × Entry)) (D : Int) (src tgt : Comm) : Option (List Comm) :=
  routeW popChoice fe D src tgt

/-- history.cc 470-504: the oldest date among the price points used -/
def leastRecent (re : Comm → Comm → Option Entry) : List Comm → Option Int
  | a :: b :: rest =>
    match re a b, leastRecent re (b :: rest) with
    | some e, some m => some (min e.date m)
    | some e, none => some e.date
    | none, _ => none
  | _ => none

/-- `amount_t::value(moment, target)` on a general price graph, for any way of breaking ties. -/
def valueW (choose : DState → Option Comm) (fe : List (Comm × Comm × Entry)) (D : Int) (tgt : Comm) (h : Holding) : Rat × Comm :=
  if h.comm = tgt then (h.q, h.comm)
  else
    match routeW choose fe D h.comm tgt with
    | none => (h.q, h.comm)
    | some p =>
      match rateAlong (feLookup fe) p with
      | none => (h.q, h.comm)
      | some r => (h.q * r, tgt)

def valueG (fe : List (Comm × Comm × Entry)) (D : Int) (tgt : Comm) (h : Holding) : Rat × Comm :=
  valueW popChoice fe D tgt h

/-- `-X tgt` as of `D` on any price graph. -/
def valueXG (hist : List Entry) (D : Int) (tgt : Comm) (h : Holding) : Rat × Comm :=
  valueG (fgraph hist D) D tgt h

/-- `-V` with the route choice of `valueXG` for lots. -/
def valueVG (hist : List Entry) (D : Int) (h : Holding) : Rat × Comm :=
  if Gen.Prices.marketSkipsPrimary && (primaries hist).contains h.comm then (h.q, h.comm)
  else
    match h.lot with
    | some t => valueXG hist D t h
    | none =>
      match marketPick (Graph.ofHistory hist) h.comm D with
      | none => (h.q, h.comm)
      | some e => (h.q * rate e (e.other h.comm), e.other h.comm)

end Ledger.Prices
