/-
Price history and market valuation (C10).  Core Lean only.

Mirrors, step by step:
  * history.cc 278-299  `commodity_history_impl_t::add_price`: one undirected edge per
    commodity pair, each carrying a `std::map<datetime_t, amount_t>`; a second price for
    the same moment replaces the first                       → `PriceMap.insert`, `Graph.addPrice`
  * history.cc 214-253  `recent_edge_weight::operator()`: `upper_bound(reftime)` then
    `--low`, i.e. the entry with the greatest date ≤ the moment → `PriceMap.recent`
  * history.cc 435-546  `find_price(source, target, moment)`: shortest path in the graph
    filtered by `recent_edge_weight`, product of the edge prices, each inverted when it
    is quoted the other way round                             → `rate`, `rateAlong`, `findPath`, `valueX`
  * history.cc 374-433  `find_price(source, moment)` (-V, no target): the neighbour whose
    recent price is the latest, first edge winning ties        → `marketPick`
  * commodity.cc 45-63  `commodity_t::add_price`: the commodity of the price amount is
    flagged COMMODITY_PRIMARY, whatever the date               → `primaries`
  * amount.cc 752-810   `amount_t::value`: PRIMARY commodities are left alone when there
    is no target; a lot price names the target for -V; the result is `price × quantity`
    exactly (`mpq_mul`, no rounding)                            → `valueX`, `valueV`
  * balance.cc 192-207  `balance_t::value`: component-wise      → `valueBalance`
  * pool.cc 237-281, xact.cc 296-299, textual.cc 1611-1621: a posting cost records the
    price `|cost / amount|` of the amount's commodity at 00:00:00 of the transaction
    date; pool.cc 317-367 + textual.cc 449/549: a `P` line records its price at its
    date(time)                                                  → `Directive.entry?`
  * history.cc 322-372  `map_prices` (the `prices` / `pricedb` listings) → `listing`

Datetimes are `Int` seconds since 1970-01-01 00:00:00 (`datetime_t`; `P` lines may carry
a time of day, `--now D` and transaction dates are midnights).  Quantities are exact
`Rat` (GMP rationals).  The comparison operators that decide "not after the moment" and
"same moment overwrites" are read from the source on every run (`Gen.Prices`).

Path choice.  ledger runs Dijkstra (distance = age of the oldest price on the path).  On
the graphs of the property (a single edge, a reversed edge, a simple chain — more
generally any forest) there is exactly one simple path, and that is what `findPath`
returns (depth-first search over the filtered graph).  On graphs with cycles ledger's
choice depends on the ages; that is outside the modelled fragment.
-/
import LedgerModel.Gen.Prices

namespace Ledger.Prices

abbrev Comm := String

/-- One recorded price: `1 src = price tgt` as of `date`. -/
structure Entry where
  src : Comm
  tgt : Comm
  date : Int
  price : Rat
deriving DecidableEq, Repr, Inhabited

/-- The entry lies on the undirected edge {a, b}. -/
def Entry.onPair (e : Entry) (a b : Comm) : Prop :=
  (e.src = a ∧ e.tgt = b) ∨ (e.src = b ∧ e.tgt = a)

instance (e : Entry) (a b : Comm) : Decidable (e.onPair a b) := by
  unfold Entry.onPair; infer_instance

/-- "the price date is not after the moment": `upper_bound` (≤) in the pinned source. -/
def notAfter (t D : Int) : Bool :=
  if Gen.Prices.boundInclusive then decide (t ≤ D) else decide (t < D)

/-! ### the per-edge `std::map<datetime_t, amount_t>` -/

/-- `prices.insert(value_type(when, price))`, replacing the stored price when the key
    exists (history.cc 293-298).  The list is kept sorted by date. -/
def PriceMap.insert : List Entry → Entry → List Entry
  | [], e => [e]
  | x :: xs, e =>
    if e.date < x.date then e :: x :: xs
    else if e.date = x.date then (if Gen.Prices.equalDateOverwrites then e else x) :: xs
    else x :: PriceMap.insert xs e

/-- `low = prices.upper_bound(reftime); if (low == begin) none else *--low`
    (history.cc 230-247): walk the sorted map while the key is not after the moment and
    return the last key passed. -/
def PriceMap.recent (D : Int) : List Entry → Option Entry
  | [] => none
  | x :: xs =>
    if notAfter x.date D then
      (match PriceMap.recent D xs with
       | some r => some r
       | none => some x)
    else none

/-! ### the graph -/

structure Edge where
  u : Comm
  v : Comm
  prices : List Entry
deriving Repr

def Edge.isPair (ed : Edge) (a b : Comm) : Prop :=
  (ed.u = a ∧ ed.v = b) ∨ (ed.u = b ∧ ed.v = a)

instance (ed : Edge) (a b : Comm) : Decidable (ed.isPair a b) := by
  unfold Edge.isPair; infer_instance

def Edge.touches (ed : Edge) (c : Comm) : Prop := ed.u = c ∨ ed.v = c

instance (ed : Edge) (c : Comm) : Decidable (ed.touches c) := by
  unfold Edge.touches; infer_instance

/-- Edges in creation order (boost `vecS` edge list). -/
abbrev Graph := List Edge

/-- history.cc 287-298: `edge(sv, tv)` or `add_edge(sv, tv)`, then insert into its map. -/
def Graph.addPrice : Graph → Entry → Graph
  | [], e => [{ u := e.src, v := e.tgt, prices := [e] }]
  | ed :: rest, e =>
    if ed.isPair e.src e.tgt then { ed with prices := PriceMap.insert ed.prices e } :: rest
    else ed :: Graph.addPrice rest e

/-- The graph after recording a history (entries in insertion order). -/
def Graph.ofHistory (hist : List Entry) : Graph := hist.foldl Graph.addPrice []

/-- The price map of the edge {a, b} (empty when there is no such edge). -/
def Graph.edgePrices : Graph → Comm → Comm → List Entry
  | [], _, _ => []
  | ed :: rest, a, b => if ed.isPair a b then ed.prices else Graph.edgePrices rest a b

/-- The price point `recent_edge_weight` attaches to the edge {a, b} at moment `D`
    (`none`: the edge is filtered out). -/
def recentEdge (hist : List Entry) (a b : Comm) (D : Int) : Option Entry :=
  PriceMap.recent D ((Graph.ofHistory hist).edgePrices a b)

/-! ### conversion along a path -/

/-- The factor that converts one unit of the other end of `e`'s edge into `to`
    (history.cc 511-526: `pprice.commodity_ptr() != last_target` → `inverted()`).
    `in_place_invert` leaves a zero price zero, as `Rat`'s `0⁻¹ = 0`. -/
def rate (e : Entry) (to : Comm) : Rat := if e.tgt = to then e.price else e.price⁻¹

/-- Product of the edge factors along a path of commodities, `none` when an edge has no
    price point. -/
def rateAlong (re : Comm → Comm → Option Entry) : List Comm → Option Rat
  | [] => some 1
  | [_] => some 1
  | a :: b :: rest =>
    match re a b, rateAlong re (b :: rest) with
    | some e, some r => some (rate e b * r)
    | _, _ => none

def firstSome {α β : Type} (f : α → Option β) : List α → Option β
  | [] => none
  | x :: xs =>
    match f x with
    | some r => some r
    | none => firstSome f xs

/-- Depth-first search for a simple path `cur … tgt` through the commodities `V` along
    `adj`; `vis` are the commodities already on the path. -/
def dfs (adj : Comm → Comm → Bool) (V : List Comm) (tgt : Comm) : Nat → List Comm → Comm → Option (List Comm)
  | 0, _, _ => none
  | fuel + 1, vis, cur =>
    if cur = tgt then some [cur]
    else
      (firstSome (fun c => dfs adj V tgt fuel (cur :: vis) c)
        (V.filter (fun c => adj cur c && !(cur :: vis).contains c))).map (fun p => cur :: p)

/-- The simple path from `src` to `tgt` in the graph filtered at the moment (`re a b`
    is the price point of edge {a,b}); `V` is the vertex set (all commodities of the pool). -/
def findPath (re : Comm → Comm → Option Entry) (V : List Comm) (src tgt : Comm) : Option (List Comm) :=
  dfs (fun a b => (re a b).isSome) V tgt (V.length + 1) [] src

/-- An amount as a report sees it: quantity, commodity, and the commodity of its lot
    price when it was acquired at a cost (`10 AAA {2 BBB}`). -/
structure Holding where
  q : Rat
  comm : Comm
  lot : Option Comm := none
deriving Repr, DecidableEq

/-- `amount_t::value(moment, target)` (amount.cc 752-810) with the price point function
    abstracted: same commodity → unchanged; no path → unconverted; else `q × Π rates`. -/
def valueWith (re : Comm → Comm → Option Entry) (V : List Comm) (tgt : Comm) (h : Holding) : Rat × Comm :=
  if h.comm = tgt then (h.q, h.comm)
  else
    match findPath re V h.comm tgt with
    | none => (h.q, h.comm)
    | some p =>
      match rateAlong re p with
      | none => (h.q, h.comm)
      | some r => (h.q * r, tgt)

/-- `-X tgt` as of `D`. -/
def valueX (V : List Comm) (hist : List Entry) (D : Int) (tgt : Comm) (h : Holding) : Rat × Comm :=
  valueWith (fun a b => recentEdge hist a b D) V tgt h

/-! ### -V (no target) -/

/-- Commodities flagged COMMODITY_PRIMARY: the unit of every price ever recorded
    (commodity.cc 48-55; the flag is set when the price is added, whatever its date). -/
def primaries (hist : List Entry) : List Comm :=
  hist.map (fun e => if Gen.Prices.priceUnitIsPrimary then e.tgt else e.src)

/-- history.cc 395-424: over the edges at `c` in creation order, keep the price point with
    the strictly latest date. -/
def marketStep (c : Comm) (D : Int) (best : Option Entry) (ed : Edge) : Option Entry :=
  if ed.touches c then
    match PriceMap.recent D ed.prices with
    | none => best
    | some p =>
      match best with
      | none => some p
      | some b => if b.date < p.date then some p else some b
  else best

def marketPick (g : Graph) (c : Comm) (D : Int) : Option Entry :=
  g.foldl (marketStep c D) none

/-- The other end of `e`'s edge, seen from `c`. -/
def Entry.other (e : Entry) (c : Comm) : Comm := if e.tgt = c then e.src else e.tgt

/-- `-V` as of `D` (amount.cc 769-804 with `in_terms_of = NULL`). -/
def valueV (V : List Comm) (hist : List Entry) (D : Int) (h : Holding) : Rat × Comm :=
  if Gen.Prices.marketSkipsPrimary && (primaries hist).contains h.comm then (h.q, h.comm)
  else
    match h.lot with
    | some t => valueX V hist D t h
    | none =>
      match marketPick (Graph.ofHistory hist) h.comm D with
      | none => (h.q, h.comm)
      | some e => (h.q * rate e (e.other h.comm), e.other h.comm)

/-- `balance_t::value`: every component on its own (balance.cc 192-207). -/
def valueBalance (f : Holding → Rat × Comm) (b : List Holding) : List (Rat × Comm) := b.map f

/-! ### where prices come from -/

def ratAbs (x : Rat) : Rat := if x < 0 then -x else x

/-- A journal item that records a price. -/
inductive Directive
  /-- `P date src price tgt` -/
  | price (date : Int) (src tgt : Comm) (p : Rat)
  /-- posting `q c @ k cc` (`perUnit`) or `q c @@ k cc` in a transaction dated `date` (a midnight) -/
  | cost (date : Int) (q : Rat) (c : Comm) (perUnit : Bool) (k : Rat) (cc : Comm)
deriving Repr

/-- The total cost the reader hands to `exchange` (textual.cc 1611-1621): a per-unit
    cost is multiplied by the amount, a total cost takes the amount's sign. -/
def totalCost (q : Rat) (perUnit : Bool) (k : Rat) : Rat :=
  if perUnit then k * q else if q < 0 then -k else k

/-- pool.cc 258-280: `per_unit_cost = amount.is_zero() ? |cost| : |cost / amount|`, recorded
    unless it is zero (or both commodities are the same, which xact.cc 293 rejects). -/
def Directive.entry? : Directive → Option Entry
  | .price d s t p => some { src := s, tgt := t, date := d, price := p }
  | .cost d q c pu k cc =>
    let total := totalCost q pu k
    let per := if q = 0 then ratAbs total else ratAbs (total / q)
    if per ≠ 0 ∧ c ≠ cc then some { src := c, tgt := cc, date := d, price := per } else none

/-- ledger refuses a price of a commodity in itself (history.cc 282 assertion for `P`,
    xact.cc 290-293 for costs). -/
def Directive.selfPriced : Directive → Bool
  | .price _ s t _ => s = t
  | .cost _ _ c _ _ cc => c = cc

def historyOf (ds : List Directive) : List Entry := ds.filterMap Directive.entry?

/-! ### the `prices` / `pricedb` listing -/

/-- history.cc 341-370 (`bidirectionally = false`): for the edges at `c` that pass the
    filter, the stored entries dated not after the moment that price `c` itself. -/
def listingStep (c : Comm) (D : Int) (ed : Edge) : List Entry :=
  if ed.touches c ∧ (PriceMap.recent D ed.prices).isSome then
    ed.prices.filter (fun e =>
      (if Gen.Prices.listingInclusive then decide (e.date ≤ D) else decide (e.date < D)) && decide (e.tgt ≠ c))
  else []

/-- iterators.cc 102-118 (`create_price_xact`): a price is not listed again when the same
    amount is already listed for the same day. -/
def listingDedup : List Entry → List Entry → List Entry
  | _, [] => []
  | kept, e :: rest =>
    if kept.any (fun k => decide (k.tgt = e.tgt ∧ k.date / 86400 = e.date / 86400 ∧ k.price = e.price)) then
      listingDedup kept rest
    else e :: listingDedup (e :: kept) rest

def listing (hist : List Entry) (c : Comm) (D : Int) : List Entry :=
  listingDedup [] ((Graph.ofHistory hist).flatMap (listingStep c D))

end Ledger.Prices
