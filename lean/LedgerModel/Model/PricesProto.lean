/- Driver ops for the price-history model (C10).

   Fields are TAB-separated.
     hist      directives joined by `;`:
                 `P,<datetime>,<src>,<tgt>,<num/den>`           a `P` line
                 `C,<date>,<q>,<comm>,<1|0>,<k>,<costcomm>`     a posting cost (`1` = per unit `@`, `0` = total `@@`)
     datetime  `Y/M/D` or `Y/M/D h:m:s` (converted with `Cal.ofYMD`; invalid → `err bad-date`)
     holdings  `<q>,<comm>,<lot commodity or empty>` joined by `;`

   px.recent  hist a b D               → ok  <secs>,<src>,<tgt>,<price> | ok none
   px.value   V hist X:<tgt>|V D holdings → ok  <comm>=<num/den>;…   (summed per commodity, zero sums dropped;
                                               X / V use ledger's route choice on any graph (`valueXG`), X0 / V0 the
                                               forced-walk search `findPath` of Model/Prices.lean)
   px.route   hist src tgt D            → ok  c0>c1>…>cn,<least recent secs> | ok none
   px.list    hist D c1,c2,…           → ok  <secs>,<src>,<tgt>,<price>;…  (in the model's order; compare as a multiset)
   A directive pricing a commodity in itself answers `err self-priced` (ledger refuses it). -/
import LedgerModel.Model.PriceRoute
import LedgerModel.Model.Calendar
import LedgerModel.Model.Proto

namespace Ledger
open Prices

namespace PricesProto

def allSome {α : Type} : List (Option α) → Option (List α)
  | [] => some []
  | none :: _ => none
  | some x :: xs => (allSome xs).map (fun r => x :: r)

def parseInts (s : String) (sep : String) : Option (List Int) :=
  allSome ((s.splitOn sep).map (fun (t : String) => (t.toNat?).map (fun n => (n : Int))))

/-- `Y/M/D` or `Y/M/D h:m:s` → seconds since 1970-01-01 00:00:00. -/
def parseDateTime (s : String) : Except String Int :=
  let parts := s.splitOn " "
  let dpart := parts.headD ""
  let tpart := match parts with
    | [_] => some "0:0:0"
    | [_, t] => some t
    | _ => none
  match parseInts dpart "/", tpart.bind (fun t => parseInts t ":") with
  | some [y, m, d], some [hh, mm, ss] =>
    if Cal.validYMD y m d ∧ hh < 24 ∧ mm < 60 ∧ ss < 60 then
      .ok (Cal.ofYMD y m d * 86400 + hh * 3600 + mm * 60 + ss)
    else .error "bad-date"
  | _, _ => .error "bad-op"

def parseDirective (s : String) : Except String Directive :=
  match s.splitOn "," with
  | ["P", dt, src, tgt, p] =>
    match parseDateTime dt, parseRat? p with
    | .ok d, some p => .ok (.price d src tgt p)
    | .error e, _ => .error e
    | _, _ => .error "bad-op"
  | ["C", dt, q, c, pu, k, cc] =>
    match parseDateTime dt, parseRat? q, parseBool? pu, parseRat? k with
    | .ok d, some q, some pu, some k => .ok (.cost d q c pu k cc)
    | .error e, _, _, _ => .error e
    | _, _, _, _ => .error "bad-op"
  | _ => .error "bad-op"

def mapExcept {α β : Type} (f : α → Except String β) : List α → Except String (List β)
  | [] => .ok []
  | x :: xs =>
    match f x, mapExcept f xs with
    | .ok y, .ok ys => .ok (y :: ys)
    | .error e, _ => .error e
    | _, .error e => .error e

def parseHist (s : String) : Except String (List Entry) :=
  match mapExcept parseDirective (splitList s ";") with
  | .error e => .error e
  | .ok ds => if ds.any Directive.selfPriced then .error "self-priced" else .ok (historyOf ds)

def parseHolding (s : String) : Option Holding :=
  match s.splitOn "," with
  | [q, c, lot] => (parseRat? q).map (fun q => { q := q, comm := c, lot := if lot.isEmpty then none else some lot })
  | _ => none

def entryStr (e : Entry) : String := s!"{e.date},{e.src},{e.tgt},{ratStr e.price}"

/-- Sum per commodity, in order of first appearance. -/
def collect : List (Rat × Comm) → List (Comm × Rat)
  | [] => []
  | (q, c) :: rest =>
    let r := collect rest
    match r.find? (fun kv => kv.1 = c) with
    | some _ => r.map (fun kv => if kv.1 = c then (kv.1, kv.2 + q) else kv)
    | none => (c, q) :: r

def balanceStr (b : List (Rat × Comm)) : String :=
  ";".intercalate (((collect b).filter (fun kv => kv.2 ≠ 0)).map (fun kv => s!"{kv.1}={ratStr kv.2}"))

def opRecent (args : List String) : String :=
  match args with
  | [h, a, b, d] =>
    match parseHist h, parseDateTime d with
    | .ok hist, .ok D =>
      match recentEdge hist a b D with
      | some e => "ok\t" ++ entryStr e
      | none => "ok\tnone"
    | .error e, _ => "err\t" ++ e
    | _, .error e => "err\t" ++ e
  | _ => "err\tbad-op"

def opValue (args : List String) : String :=
  match args with
  | [v, h, mode, d, hs] =>
    match parseHist h, parseDateTime d, allSome ((splitList hs ";").map parseHolding) with
    | .ok hist, .ok D, some holds =>
      let V := splitList v ","
      if mode = "V" then "ok\t" ++ balanceStr (valueBalance (valueVG hist D) holds)
      else if mode = "V0" then "ok\t" ++ balanceStr (valueBalance (valueV V hist D) holds)
      else match mode.splitOn ":" with
        | ["X", tgt] => "ok\t" ++ balanceStr (valueBalance (valueXG hist D tgt) holds)
        | ["X0", tgt] => "ok\t" ++ balanceStr (valueBalance (valueX V hist D tgt) holds)
        | _ => "err\tbad-op"
    | .error e, _, _ => "err\t" ++ e
    | _, .error e, _ => "err\t" ++ e
    | _, _, none => "err\tbad-op"
  | _ => "err\tbad-op"

def opList (args : List String) : String :=
  match args with
  | [h, d, cs] =>
    match parseHist h, parseDateTime d with
    | .ok hist, .ok D =>
      "ok\t" ++ ";".intercalate (((splitList cs ",").flatMap (fun c => listing hist c D)).map entryStr)
    | .error e, _ => "err\t" ++ e
    | _, .error e => "err\t" ++ e
  | _ => "err\tbad-op"

def opRoute (args : List String) : String :=
  match args with
  | [h, a, b, d] =>
    match parseHist h, parseDateTime d with
    | .ok hist, .ok D =>
      match routeOf (fgraph hist D) D a b with
      | some p =>
        let lr := match leastRecent (feLookup (fgraph hist D)) p with
          | some t => toString t
          | none => "none"
        "ok\t" ++ ">".intercalate p ++ "," ++ lr
      | none => "ok\tnone"
    | .error e, _ => "err\t" ++ e
    | _, .error e => "err\t" ++ e
  | _ => "err\tbad-op"

def ops : List (String × (List String → String)) :=
  [("px.recent", opRecent), ("px.value", opValue), ("px.list", opList), ("px.route", opRoute)]

end PricesProto
end Ledger
