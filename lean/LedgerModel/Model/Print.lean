/-
Model of ledger's `print` command on one finalised transaction (print.cc 44-297),
of the part of the journal reader that must accept that text again
(textual.cc parse_xact 1837-2063, parse_post 1436-1810, read_line 314-354,
utils.h next_element / skip_ws), and of the `equity` command's
opening-balances transaction (filters.cc subtotal_posts::operator() 895-938,
posts_as_equity::report_subtotal 1081-1141).

Text is `List Char` (`Str`); a `String` wrapper is at the end.  The amount and
date text layers are PARAMETERS (`AmtCodec`, `DateCodec`): amount printing and
reading is C04's subject (Model/AmountText.lean), dates are C14's.  Every
hypothesis the print/parse round trip needs about them is a field of
`AmtCodec.Lawful` / `DateCodec.Lawful`.

What is modelled
* print_xact for a finalised transaction: header (date, `=`aux date, state
  mark, `(code)`, payee), the note placement rule of print_note (same line /
  next line by the 80-column rule or ITEM_NOTE_ON_NEXT_LINE), per posting the
  account name with state mark and virtual brackets (format_account_name), the
  account/amount column arithmetic (account_width 36 grown to the longest
  name, amount right-justified in 12, at least two spaces), the elision of the
  second amount of a two-posting transaction (post_has_simple_amount), the
  per-unit cost reconstruction `(given_cost / amount).abs()` for `@`,
  `given_cost.abs()` for `@@`, ` = assigned amount`, posting notes.
* the reader for exactly that text.
* equity: accumulation per account name (a `std::map<string, …>`, i.e. sorted
  by name), one posting per account and commodity in commodity order, the
  balancing `Equity:Opening Balances` postings.

Left out (never reaches the model; see tools/props/c06.py for what is run on the
real binary): ITEM_GENERATED / ITEM_TEMP postings (skipped by print.cc 203-206;
finalize only creates them for transactions with at least three written
postings, so `count == 2` is unaffected), metadata that does not come from a
note (`apply tag`, automated transactions: print.cc 172-183), amount
expressions (`post->amount_expr`), virtual costs `(@)`, lot annotations, and
`--date-format` / `--columns` / `--account-width` / `--amount-width` other than
the defaults (the widths are a `Layout` parameter; `Gen.Print` holds the values
extracted from the source).  Core Lean only.
-/
import LedgerModel.Model.Journal

namespace Ledger
namespace Print

abbrev Str := List Char

/-- quantity and commodity: what an amount's text denotes. -/
structure Qty where
  q    : Rat
  comm : Comm
deriving DecidableEq, Repr

def Qty.neg (a : Qty) : Qty := { a with q := -a.q }

def rabs (x : Rat) : Rat := if x < 0 then -x else x

/-- The amount text layer (amount_t::print / amount_t::parse), a parameter.
`showAmt` prints a posting or assertion amount (commodity display precision),
`showCost` prints a cost (BIGINT_KEEP_PREC: every digit), `readAmt` reads
exactly such a text, `disp a` is the quantity the text of `showAmt a` denotes
(`a` rounded to its commodity's display precision), `dom a` says the text layer
can print `a` as a posting amount and read it back (its commodity symbol does not
bring `;` `@` `=` or control characters into the text), `fullOk a` says the same
for `showCost` and that `a` has a finite decimal expansion (so nothing is lost). -/
structure AmtCodec where
  showAmt  : Qty → Str
  showCost : Qty → Str
  readAmt  : Str → Option Qty
  disp     : Qty → Qty
  dom      : Qty → Bool
  fullOk   : Qty → Bool

/-- The date text layer (format_date FMT_WRITTEN / parse_date), a parameter;
    `dateDom n` says the layer prints day `n` and reads it back (for ledger: the
    years boost::gregorian accepts). -/
structure DateCodec where
  showDate : Int → Str
  readDate : Str → Option Int
  dateDom  : Int → Bool

structure Codec extends AmtCodec, DateCodec

/-- print's parameters.  Widths: print.cc 163-165, 188-190, 220-223 (`--columns`,
    `--account-width`, `--amount-width`; defaults in `Gen.Print`).  Three rule
    switches, each recognised in the source by tools/extract_print.py
    (`Gen.printMarkWhenStateDiffers` …): the pinned code has all three `false`;
    `true` is the repaired form, so that the model follows a repair of print.cc
    without being rewritten.
    * `markWhenDiffers`: format_account_name writes a posting's state mark when it
      differs from the transaction's state (pinned: only under an uncleared transaction);
    * `elideChecksMustBalance`: the second amount is elided only when both postings
      must balance (pinned: not tested);
    * `padOnlyWithAmount`: the two padding blanks are written only in front of an
      amount (pinned: also when the amount is elided). -/
structure Layout where
  accountWidth : Nat
  amountWidth  : Nat
  columns      : Nat
  markWhenDiffers        : Bool := false
  elideChecksMustBalance : Bool := false
  padOnlyWithAmount      : Bool := false
deriving DecidableEq, Repr

/-! ### characters -/

/-- the set `skip_ws` / `next_element` treat as blank inside one line (utils.h 479-483). -/
def isWs (ch : Char) : Bool := ch == ' ' || ch == '\t'

/-- C `isspace` in the "C" locale (read_line's trailing strip, textual.cc 353). -/
def isSpaceC (ch : Char) : Bool :=
  ch == ' ' || ch == '\t' || ch == '\n' || ch == '\r' || ch == '\x0b' || ch == '\x0c'

def skipWs (s : Str) : Str := s.dropWhile isWs

/-- read_line 352-354: strip trailing whitespace. -/
def rtrim (s : Str) : Str := (s.reverse.dropWhile isSpaceC).reverse

def trimSp (s : Str) : Str := rtrim (skipWs s)

def spaces (n : Nat) : Str := List.replicate n ' '

/-- `justify(out, str, width, right = true)` (unistring.h 180-203); the width of
    a character is taken to be 1 (assumption: no East-Asian wide characters in
    commodity symbols). -/
def rjust (w : Nat) (s : Str) : Str := spaces (w - s.length) ++ s

/-- `std::string::length()` of the UTF-8 encoding. -/
def byteLen (s : Str) : Nat := (s.map Char.utf8Size).sum

/-! ### the finalised transaction as print sees it -/

/-- `item_t::note` split at its '\n's, and ITEM_NOTE_ON_NEXT_LINE. -/
structure PNote where
  lines    : List Str
  nextLine : Bool
deriving DecidableEq, Repr

/-- `post_t::given_cost` (total cost carrying the amount's sign, textual.cc
    1612-1627) and POST_COST_IN_FULL. -/
structure PCost where
  given  : Qty
  inFull : Bool
deriving DecidableEq, Repr

structure PPost where
  account  : Str
  kind     : PostKind
  state    : ItemState            -- the posting's effective state
  amount   : Option Qty           -- none ⇔ POST_CALCULATED (the amount was elided in the source)
  cost     : Option PCost         -- given_cost, when not POST_COST_CALCULATED
  assigned : Option Qty           -- assigned_amount (`= …`)
  note     : Option PNote
deriving DecidableEq, Repr

structure PXact where
  date  : Int
  aux   : Option Int
  state : ItemState
  code  : Option Str
  payee : Str
  note  : Option PNote
  posts : List PPost
deriving DecidableEq, Repr

/-! ### cost arithmetic -/

/-- textual.cc 1612-1627: the stored `given_cost` for a written cost `u`
    (`@ u`: `u * amount`, commodity of `u`; `@@ u`: `u`, negated when the amount
    is negative). -/
def mkGiven (a u : Qty) (inFull : Bool) : Qty :=
  if inFull then (if a.q < 0 then u.neg else u) else { q := u.q * a.q, comm := u.comm }

/-- print.cc 270-274: what is written after `@@` (`given_cost->abs()`) or after
    `@` (`(*given_cost / amount).abs()`). -/
def printedCost (g a : Qty) (inFull : Bool) : Qty :=
  if inFull then { q := rabs g.q, comm := g.comm } else { q := rabs (g.q / a.q), comm := g.comm }

/-! ### print_xact -/

def stateMark (s : ItemState) : Str :=
  if s = 1 then ['*', ' '] else if s = 2 then ['!', ' '] else []

/-- is the posting's state mark written? (print.cc 107) -/
def marked (L : Layout) (xs : ItemState) (p : PPost) : Bool :=
  if L.markWhenDiffers then decide (p.state ≠ xs) else decide (xs = 0)

/-- format_account_name (print.cc 103-128); `xs` is the transaction's state. -/
def postName (L : Layout) (xs : ItemState) (p : PPost) : Str :=
  (if marked L xs p then stateMark p.state else []) ++
  (match p.kind with
   | .real => p.account
   | .virtual => '(' :: p.account ++ [')']
   | .bvirtual => '[' :: p.account ++ [']'])

/-- print.cc 188-198. -/
def accountWidth (L : Layout) (x : PXact) : Nat :=
  x.posts.foldl (fun w p => max w (postName L x.state p).length) L.accountWidth

/-- post_has_simple_amount (print.cc 44-72) on a posting that has an amount. -/
def simpleAmount (p : PPost) : Bool :=
  p.amount.isSome && p.assigned.isNone && p.cost.isNone

/-- print.cc 230-234: `count == 2 && index == 2`, both simple, same commodity
    (and, in the repaired form, both must balance). -/
def elideSecond (L : Layout) (x : PXact) : Bool :=
  match x.posts with
  | [p1, p2] =>
    simpleAmount p1 && simpleAmount p2 &&
    (match p1.amount, p2.amount with
     | some a1, some a2 => a1.comm == a2.comm
     | _, _ => false) &&
    (!L.elideChecksMustBalance || (decide (p1.kind ≠ .virtual) && decide (p2.kind ≠ .virtual)))
  | _ => false

/-- value_t::print of an amount (value.cc 2026-2036): a display-zero amount is
    written `0`. -/
def amtText (c : AmtCodec) (a : Qty) : Str :=
  if (c.disp a).q = 0 then ['0'] else c.showAmt a

def costOp (inFull : Bool) : Str := if inFull then [' ', '@', '@', ' '] else [' ', '@', ' ']

/-- print.cc 260-275. -/
def costText (c : AmtCodec) (p : PPost) (a : Qty) : Str :=
  match p.cost with
  | none => []
  | some k => costOp k.inFull ++ c.showCost (printedCost k.given a k.inFull)

/-- print.cc 277-278. -/
def assignText (c : AmtCodec) (p : PPost) : Str :=
  match p.assigned with
  | none => []
  | some b => [' ', '=', ' '] ++ c.showAmt b

/-- print.cc 208-290: the posting up to (not including) its note.  `w` is the
    account width, `elide` says this is the second posting of a transaction
    whose second amount is not printed. -/
def postBody (c : AmtCodec) (L : Layout) (xs : ItemState) (w : Nat) (elide : Bool) (p : PPost) : Str :=
  let name := postName L xs p
  match p.amount with
  | none => name
  | some a =>
    let slip := w - name.length
    let amt := if elide then [] else rjust L.amountWidth (amtText c a)
    let amtSlip := (amt.takeWhile isSpaceC).length
    let pad := if (!L.padOnlyWithAmount || !amt.isEmpty) ∧ slip + amtSlip < 2 then spaces (2 - (slip + amtSlip)) else []
    let trailer := pad ++ amt ++ costText c p a ++ assignText c p
    name ++ (if trailer = [] then [] else spaces slip ++ trailer)

def noteBytes (n : PNote) : Nat :=
  (n.lines.map byteLen).sum + (n.lines.length - 1)

/-- print_note's placement test (print.cc 81-84). -/
def noteOnNext (L : Layout) (n : PNote) (prior : Nat) : Bool :=
  n.nextLine ||
  (decide (L.columns > 0) &&
   (decide (L.columns ≤ prior + 3) || decide (noteBytes n > L.columns - (prior + 3))))

def noteLine (l : Str) : Str := [' ', ' ', ' ', ' ', ';'] ++ l

/-- print_note (print.cc 74-101): `body` is what is already on the line.
    Empty segments between consecutive '\n's print nothing. -/
def withNote (L : Layout) (body : Str) (prior : Nat) (n : Option PNote) : List Str :=
  match n with
  | none => [body]
  | some n =>
    match n.lines with
    | [] => [if noteOnNext L n prior then body else body ++ [' ', ' ', ';']]
    | l0 :: rest =>
      if noteOnNext L n prior then
        body :: noteLine l0 :: (rest.filter (fun l => !l.isEmpty)).map noteLine
      else
        (body ++ [' ', ' ', ';'] ++ l0) :: (rest.filter (fun l => !l.isEmpty)).map noteLine

/-- print.cc 142-160: the text before the transaction's note. -/
def leader (c : Codec) (x : PXact) : Str :=
  c.showDate x.date ++
  (match x.aux with | none => [] | some a => '=' :: c.showDate a) ++
  [' '] ++ stateMark x.state ++
  (match x.code with | none => [] | some k => '(' :: k ++ [')', ' ']) ++
  x.payee

def postLines (c : AmtCodec) (L : Layout) (xs : ItemState) (w : Nat) (elide : Bool) (p : PPost) : List Str :=
  withNote L ([' ', ' ', ' ', ' '] ++ postBody c L xs w elide p) (4 + w) p.note

/-- elision flags per posting position: only the second of exactly two. -/
def elideFlags (L : Layout) (x : PXact) : List Bool :=
  match x.posts with
  | [_, _] => [false, elideSecond L x]
  | ps => ps.map (fun _ => false)

/-- print_xact (print.cc 130-297): the lines of one transaction. -/
def renderXact (c : Codec) (L : Layout) (x : PXact) : List Str :=
  let w := accountWidth L x
  withNote L (leader c x) (leader c x).length x.note ++
  ((x.posts.zip (elideFlags L x)).map (fun pe => postLines c.toAmtCodec L x.state w pe.2 pe.1)).flatten

/-- print_xacts::flush (print.cc 310-330): transactions separated by one empty line. -/
def renderJournal (c : Codec) (L : Layout) : List PXact → List Str
  | [] => []
  | [x] => renderXact c L x
  | x :: xs => renderXact c L x ++ [[]] ++ renderJournal c L xs

/-! ### the reader -/

inductive PErr
  | noLines | badDate | noAccount | badAmount | badCost | costWithoutAmount | badAssign | blankLine
deriving DecidableEq, Repr

/-- next_element(p, variable = true) (utils.h 493-512): cut at the first TAB or
    the first two consecutive spaces. -/
def nextElem : Str → Str × Option Str
  | [] => ([], none)
  | ch :: t =>
    if ch = '\t' then ([], some (skipWs t))
    else if ch = ' ' ∧ t.head? = some ' ' then ([], some (skipWs t.tail))
    else ((ch :: (nextElem t).1), (nextElem t).2)

/-- cut at the first occurrence of `ch`: (before, after) or (all, none). -/
def cutAt (ch : Char) (s : Str) : Str × Option Str :=
  (s.takeWhile (· != ch),
   match s.dropWhile (· != ch) with
   | [] => none
   | _ :: t => some t)

/-- parse_xact 1893-1917: the payee ends at a `;` preceded by a TAB or by at
    least two spaces; trailing blanks before it are dropped. `acc` is the text
    scanned so far, reversed. -/
def scanPayee : Nat → Nat → Str → Str → Str × Option Str
  | _, _, acc, [] => (acc.reverse, none)
  | sp, tb, acc, ch :: t =>
    if ch = ' ' then scanPayee (sp + 1) tb (ch :: acc) t
    else if ch = '\t' then scanPayee sp (tb + 1) (ch :: acc) t
    else if ch = ';' ∧ (tb > 0 ∨ sp > 1) then (rtrim acc.reverse, some t)
    else scanPayee 0 0 (ch :: acc) t

/-- item_t::append_note (item.cc 223-235) on the split representation;
    `next` = the line was a continuation line (parse_xact 1951-1957). -/
def appendNote (n : Option PNote) (t : Str) (next : Bool) : PNote :=
  match n with
  | none => { lines := [t], nextLine := next }
  | some m => { lines := m.lines ++ [t], nextLine := m.nextLine || next }

structure Header where
  date  : Int
  aux   : Option Int
  state : ItemState
  code  : Option Str
  payee : Str
  note  : Option PNote
deriving DecidableEq, Repr

def unspecifiedPayee : Str := "<Unspecified payee>".toList

/-- the `*` / `!` flag followed by blanks (parse_xact 1868-1879, parse_post 1466-1480). -/
def takeState (s : Str) : ItemState × Str :=
  if s.head? = some '*' then (1, skipWs s.tail)
  else if s.head? = some '!' then (2, skipWs s.tail)
  else (0, s)

/-- parse_xact 1883-1889 (`next++` happens even when no `)` follows). -/
def takeCode (s : Str) : Option Str × Str :=
  if s.head? = some '(' then
    match (cutAt ')' s.tail).2 with
    | some r => (some (cutAt ')' s.tail).1, skipWs r)
    | none => (none, s.tail)
  else (none, s)

/-- parse_xact 1856-1927: the header line. -/
def parseHeader (c : Codec) (line : Str) : Except PErr Header :=
  let l := rtrim line
  let tok := l.takeWhile (fun ch => !isWs ch)
  let next := skipWs (l.dropWhile (fun ch => !isWs ch))
  let dcut := cutAt '=' tok
  match c.readDate dcut.1 with
  | none => .error .badDate
  | some d =>
    let auxR : Except PErr (Option Int) :=
      match dcut.2 with
      | none => .ok none
      | some a => match c.readDate a with
                  | none => .error .badDate
                  | some ad => .ok (some ad)
    match auxR with
    | .error e => .error e
    | .ok aux =>
      let st := takeState next
      let cd := takeCode st.2
      if cd.2 = [] then
        .ok { date := d, aux := aux, state := st.1, code := cd.1, payee := unspecifiedPayee, note := none }
      else
        let pn := scanPayee 0 0 [] cd.2
        .ok { date := d, aux := aux, state := st.1, code := cd.1, payee := pn.1,
              note := pn.2.map (fun t => { lines := [t], nextLine := false }) }

/-- parse_post 1497-1514 (`<deferred>` accounts are outside the model). -/
def unbracket (s : Str) : PostKind × Str :=
  if s.head? = some '(' ∧ s.tail.getLast? = some ')' then (.virtual, s.tail.dropLast)
  else if s.head? = some '[' ∧ s.tail.getLast? = some ']' then (.bvirtual, s.tail.dropLast)
  else (.real, s)

structure Trailer where
  amount   : Option Qty
  cost     : Option PCost
  assigned : Option Qty
  note     : Option Str
deriving DecidableEq, Repr

def readAsg (c : AmtCodec) (t : Option Str) : Except PErr (Option Qty) :=
  match t with
  | none => .ok none
  | some t =>
    match c.readAmt (trimSp t) with
    | none => .error .badAssign
    | some b => .ok (some b)

/-- `@` or `@@` (parse_post 1574-1581): the text starts just after the first `@`. -/
def splitCostOp (t : Str) : Bool × Str :=
  if t.head? = some '@' then (true, t.tail) else (false, t)

def readCost (c : AmtCodec) (a : Qty) (t : Option Str) : Except PErr (Option PCost) :=
  match t with
  | none => .ok none
  | some t =>
    match c.readAmt (trimSp (splitCostOp t).2) with
    | none => .error .badCost
    | some u => .ok (some { given := mkGiven a u (splitCostOp t).1, inFull := (splitCostOp t).1 })

/-- parse_post 1523-1778 on the text after the account, for the grammar
    print emits: `AMOUNT [@|@@ COST] [= ASSIGNED] [;NOTE]`, every part optional.
    Amount texts contain none of `;`, `=`, `@` (`AmtCodec.Lawful`), so the parts
    are found by cutting at the first `;`, then `=`, then `@`. -/
def parseTrailer (c : AmtCodec) (r : Str) : Except PErr Trailer :=
  let nc := cutAt ';' r
  let ec := cutAt '=' nc.1
  let cc := cutAt '@' ec.1
  match readAsg c ec.2 with
  | .error e => .error e
  | .ok asg =>
    if trimSp cc.1 = [] then
      (if cc.2.isSome then .error .costWithoutAmount
       else .ok { amount := none, cost := none, assigned := asg, note := nc.2 })
    else
      match c.readAmt (trimSp cc.1) with
      | none => .error .badAmount
      | some a =>
        match readCost c a cc.2 with
        | .error e => .error e
        | .ok k => .ok { amount := some a, cost := k, assigned := asg, note := nc.2 }

/-- parse_post: one posting line, already stripped of trailing and leading
    blanks (`p`); `xs` is the transaction's state (1482-1484). -/
def parsePostLine (c : AmtCodec) (xs : ItemState) (p : Str) : Except PErr PPost :=
  let st := takeState p
  let state := if xs ≠ 0 ∧ st.1 = 0 then xs else st.1
  if st.2 = [] ∨ st.2.head? = some ';' then .error .noAccount
  else
    let ne := nextElem st.2
    let ka := unbracket (rtrim ne.1)
    match ne.2 with
    | none => .ok { account := ka.2, kind := ka.1, state := state, amount := none, cost := none,
                    assigned := none, note := none }
    | some r =>
      match parseTrailer c r with
      | .error e => .error e
      | .ok t => .ok { account := ka.2, kind := ka.1, state := state, amount := t.amount, cost := t.cost,
                       assigned := t.assigned,
                       note := t.note.map (fun s => { lines := [s], nextLine := false }) }

def addPostNote (ps : List PPost) (t : Str) : List PPost :=
  match ps with
  | [] => []
  | p :: r => { p with note := some (appendNote p.note t true) } :: r

/-- parse_xact 1937-2004: the lines after the header. `ps` holds the postings
    read so far, latest first. -/
def parseBody (c : AmtCodec) (xs : ItemState) : List Str → Option PNote → List PPost →
    Except PErr (Option PNote × List PPost)
  | [], xn, ps => .ok (xn, ps.reverse)
  | l :: ls, xn, ps =>
    if skipWs (rtrim l) = [] then .error .blankLine
    else if (skipWs (rtrim l)).head? = some ';' then
      (if ps = [] then parseBody c xs ls (some (appendNote xn (skipWs (rtrim l)).tail true)) ps
       else parseBody c xs ls xn (addPostNote ps (skipWs (rtrim l)).tail))
    else
      match parsePostLine c xs (skipWs (rtrim l)) with
      | .error e => .error e
      | .ok p => parseBody c xs ls xn (p :: ps)

/-- the reader on the lines of one transaction. -/
def parseXactText (c : Codec) (lines : List Str) : Except PErr PXact :=
  match lines with
  | [] => .error .noLines
  | h :: rest =>
    match parseHeader c h with
    | .error e => .error e
    | .ok hd =>
      match parseBody c.toAmtCodec hd.state rest hd.note [] with
      | .error e => .error e
      | .ok r => .ok { date := hd.date, aux := hd.aux, state := hd.state, code := hd.code,
                       payee := hd.payee, note := r.1, posts := r.2 }

/-! ### what the printed text re-reads as -/

def normNote (L : Layout) (prior : Nat) (n : Option PNote) : Option PNote :=
  n.map (fun m => { m with nextLine := noteOnNext L m prior || decide (m.lines.length ≥ 2) })

/-- a posting as re-read from its printed form: the state mark is only written
    under an uncleared transaction; amounts come back as their displayed
    quantity; the cost is recomputed from the printed price. -/
def normPost (c : AmtCodec) (L : Layout) (xs : ItemState) (w : Nat) (elide : Bool) (p : PPost) : PPost :=
  { p with
    state := if marked L xs p ∧ p.state ≠ 0 then p.state else xs
    amount := if elide then none else p.amount.map c.disp
    cost := match p.amount, p.cost with
            | some a, some k => some { given := mkGiven (c.disp a) (printedCost k.given a k.inFull) k.inFull,
                                       inFull := k.inFull }
            | _, _ => none
    assigned := match p.amount with
                | none => none
                | some _ => p.assigned.map c.disp
    note := normNote L (4 + w) p.note }

/-- `norm x`: the transaction that the printed text of `x` denotes. -/
def norm (c : Codec) (L : Layout) (x : PXact) : PXact :=
  { x with
    note := normNote L (leader c x).length x.note
    posts := (x.posts.zip (elideFlags L x)).map
      (fun pe => normPost c.toAmtCodec L x.state (accountWidth L x) pe.2 pe.1) }

/-- print.cc 256-257 writes padding blanks after the account even when the
    second amount is elided: the condition under which the printed line ends in
    blanks (which a second print does not reproduce). -/
def trailingPad (L : Layout) (x : PXact) : Bool :=
  match x.posts with
  | [_, p2] => !L.padOnlyWithAmount && elideSecond L x && decide (accountWidth L x - (postName L x.state p2).length < 2)
  | _ => false

/-- the account of the posting whose amount print does not write, if any. -/
def elidedAccount (L : Layout) (x : PXact) : Option Str :=
  match x.posts with
  | [_, p2] => if elideSecond L x then some p2.account else none
  | _ => none

/-! ### equity -/

/-- a finalised posting as `posts_as_equity` sees it. -/
structure EPost where
  account : Str
  virt    : Bool          -- POST_VIRTUAL
  mustBal : Bool          -- POST_MUST_BALANCE (meaningful when `virt`)
  amt     : Qty
  date    : Int
deriving DecidableEq, Repr

/-- a balance: commodity ↦ quantity, kept in commodity order (`map_sorted_amounts`). -/
abbrev EBal := List (Comm × Rat)

def balAdd (k : Comm) (q : Rat) : EBal → EBal
  | [] => [(k, q)]
  | (k', q') :: r =>
    if k = k' then (k', q' + q) :: r
    else if k < k' then (k, q) :: (k', q') :: r
    else (k', q') :: balAdd k q r

structure EAcct where
  name    : Str
  virt    : Bool
  mustBal : Bool
  bal     : EBal
deriving DecidableEq, Repr

/-- `std::string` order (bytewise on UTF-8 = by code point). -/
def strLt : Str → Str → Bool
  | [], [] => false
  | [], _ :: _ => true
  | _ :: _, [] => false
  | a :: s, b :: t => a.val < b.val || (a.val == b.val && strLt s t)

/-- subtotal_posts::operator() (filters.cc 895-938): `values` is a
    `std::map<string, acct_value_t>`; a new account records the first posting's
    flags. (The "virtual and non-virtual postings to the same account" error is
    reported by the caller, `equityMixed`.) -/
def acctAdd (p : EPost) : List EAcct → List EAcct
  | [] => [{ name := p.account, virt := p.virt, mustBal := p.mustBal, bal := balAdd p.amt.comm p.amt.q [] }]
  | a :: r =>
    if p.account = a.name then { a with bal := balAdd p.amt.comm p.amt.q a.bal } :: r
    else if strLt p.account a.name then
      { name := p.account, virt := p.virt, mustBal := p.mustBal, bal := balAdd p.amt.comm p.amt.q [] } :: a :: r
    else a :: acctAdd p r

def collect (ps : List EPost) : List EAcct := ps.foldl (fun m p => acctAdd p m) []

/-- filters.cc 920-923. -/
def equityMixed (ps : List EPost) : Bool :=
  ps.any (fun p => ps.any (fun q => p.account = q.account ∧ p.virt ≠ q.virt))

def equityAccount : Str := "Equity:Opening Balances".toList

/-- handle_value's virtual flags (filters.cc 339-346): brackets follow what
    kinds of postings the account received. -/
def acctKind (ps : List EPost) (name : Str) : PostKind :=
  if ps.any (fun p => p.account = name ∧ !p.virt) then .real
  else if ps.any (fun p => p.account = name ∧ p.virt ∧ !p.mustBal) then .virtual
  else .bvirtual

def mkPost (account : Str) (kind : PostKind) (a : Qty) : PPost :=
  { account := account, kind := kind, state := 0, amount := some a, cost := none, assigned := none, note := none }

/-- the account postings of report_subtotal (filters.cc 1096-1122); `zero` is
    `amount_t::is_zero` (display zero). -/
def acctPosts (zero : Qty → Bool) (ps : List EPost) (m : List EAcct) : List PPost :=
  (m.map (fun a =>
    (a.bal.filter (fun kq => !zero { q := kq.2, comm := kq.1 })).map
      (fun kq => mkPost a.name (acctKind ps a.name) { q := kq.2, comm := kq.1 }))).flatten

/-- filters.cc 1124-1125: the total over accounts that are not purely `(virtual)`. -/
def equityTotal (m : List EAcct) : EBal :=
  m.foldl (fun t a => if !a.virt || a.mustBal then a.bal.foldl (fun t kq => balAdd kq.1 kq.2 t) t else t) []

/-- filters.cc 1133-1140. -/
def balancingPosts (zero : Qty → Bool) (t : EBal) : List PPost :=
  (t.filter (fun kq => !zero { q := kq.2, comm := kq.1 })).map
    (fun kq => mkPost equityAccount .real { q := -kq.2, comm := kq.1 })

def maxDate (ps : List EPost) : Int :=
  match ps with
  | [] => 0
  | p :: r => r.foldl (fun d q => if q.date > d then q.date else d) p.date

/-- posts_as_equity::report_subtotal (filters.cc 1081-1141). -/
def equityXact (zero : Qty → Bool) (ps : List EPost) : PXact :=
  let m := collect ps
  { date := maxDate ps, aux := none, state := 0, code := none, payee := "Opening Balances".toList, note := none,
    posts := acctPosts zero ps m ++ balancingPosts zero (equityTotal m) }

/-- per-account, per-commodity sum of a list of finalised postings. -/
def balOf (ps : List EPost) (a : Str) (k : Comm) : Rat :=
  (ps.map (fun p => if p.account = a ∧ p.amt.comm = k then p.amt.q else 0)).sum

/-- what one printed posting contributes to account `a`, commodity `k` (nothing when its amount is not written). -/
def contribP (p : PPost) (a : Str) (k : Comm) : Rat :=
  match p.amount with
  | some x => if p.account = a ∧ x.comm = k then x.q else 0
  | none => 0

/-- the same sum over printed postings that carry an amount. -/
def balOfP (ps : List PPost) (a : Str) (k : Comm) : Rat :=
  (ps.map (fun p => contribP p a k)).sum

/-! ### well-formedness of the free text (decidable; the hypotheses of C06.parse_render) -/

/-- no TAB / newline / CR / VT / FF. -/
def noCtl (s : Str) : Bool := s.all (fun ch => !isSpaceC ch || ch == ' ')

def noDblSp : Str → Bool
  | [] => true
  | ch :: t => !(ch == ' ' && t.head? == some ' ') && noDblSp t

/-- the last character, if any, is not white space (read_line strips it). -/
def endOk (s : Str) : Bool :=
  match s.getLast? with
  | none => true
  | some ch => !isSpaceC ch

/-- non-empty, single blanks only, no control white space, no blank at either end. -/
def cleanText (s : Str) : Bool :=
  !s.isEmpty && noCtl s && noDblSp s && s.head? != some ' ' && endOk s

def accountOk (s : Str) : Bool :=
  cleanText s && !(['(', '[', '<', '*', '!', ';'].any (fun ch => s.head? == some ch))

def payeeOk (s : Str) : Bool :=
  cleanText s && !(['*', '!', '(', ';'].any (fun ch => s.head? == some ch))

def codeOk (k : Str) : Bool := k.all (fun ch => ch != ')' && ch != '\n' && ch != '\r')

def noteLineOk (l : Str) : Bool := endOk l && l.all (fun ch => ch != '\n')

def noteOk (n : PNote) : Bool :=
  match n.lines with
  | [] => false
  | l0 :: rest =>
    noteLineOk l0 && rest.all (fun l => !l.isEmpty && noteLineOk l) && (rest.isEmpty || n.nextLine)

def optNoteOk (n : Option PNote) : Bool :=
  match n with
  | none => true
  | some n => noteOk n

def postOk (c : AmtCodec) (p : PPost) : Bool :=
  accountOk p.account && decide (p.state ≤ 2) && optNoteOk p.note &&
  (match p.amount with
   | none => p.cost.isNone && p.assigned.isNone
   | some a =>
     c.dom a && decide ((c.disp a).q ≠ 0) &&
     (match p.cost with
      | none => true
      | some k => c.fullOk (printedCost k.given a k.inFull)) &&
     (match p.assigned with
      | none => true
      | some b => c.dom b))

def xactOk (c : Codec) (x : PXact) : Bool :=
  decide (x.state ≤ 2) && payeeOk x.payee && optNoteOk x.note &&
  (match x.code with | none => true | some k => codeOk k) &&
  x.posts.all (postOk c.toAmtCodec) &&
  c.dateDom x.date && (match x.aux with | none => true | some a => c.dateDom a)

/-! ### what the model needs from the amount and date text layers -/

/-- the shape of an amount's text that lets a posting line be split: non-empty,
    no control white space, no blank at either end, none of `;` `=` `@`. -/
def amtTextOk (s : Str) : Bool :=
  !s.isEmpty && noCtl s && s.head? != some ' ' && endOk s &&
  s.all (fun ch => ch != ';' && ch != '=' && ch != '@')

/-- Hypotheses on the amount text layer (to be discharged by C04's
    printAmount / parseAmount): reading a printed amount gives the displayed
    quantity, reading a printed cost gives the quantity itself when it has a
    finite decimal expansion, displaying is idempotent and keeps the commodity,
    and the texts have the shape `amtTextOk`. -/
structure AmtCodec.Lawful (c : AmtCodec) : Prop where
  read_showAmt  : ∀ a, c.dom a = true → c.readAmt (c.showAmt a) = some (c.disp a)
  read_showCost : ∀ a, c.fullOk a = true → c.readAmt (c.showCost a) = some a
  disp_comm     : ∀ a, c.dom a = true → (c.disp a).comm = a.comm
  disp_idem     : ∀ a, c.dom a = true → c.disp (c.disp a) = c.disp a
  showAmt_disp  : ∀ a, c.dom a = true → c.showAmt (c.disp a) = c.showAmt a
  showAmt_ok    : ∀ a, c.dom a = true → amtTextOk (c.showAmt a) = true
  showCost_ok   : ∀ a, c.fullOk a = true → amtTextOk (c.showCost a) = true

def dateTextOk (s : Str) : Bool := !s.isEmpty && s.all (fun ch => !isSpaceC ch && ch != '=')

/-- Hypotheses on the date text layer (C14). -/
structure DateCodec.Lawful (d : DateCodec) : Prop where
  read_show : ∀ n, d.dateDom n = true → d.readDate (d.showDate n) = some n
  show_ok   : ∀ n, d.dateDom n = true → dateTextOk (d.showDate n) = true

structure Codec.Lawful (c : Codec) : Prop where
  amt  : c.toAmtCodec.Lawful
  date : c.toDateCodec.Lawful

/-! ### String wrappers -/

def renderXactS (c : Codec) (L : Layout) (x : PXact) : List String :=
  (renderXact c L x).map String.ofList

def parseXactTextS (c : Codec) (lines : List String) : Except PErr PXact :=
  parseXactText c (lines.map String.toList)

end Print
end Ledger
