/- Driver ops for print / equity (C06) and the concrete amount / date text
   layer the driver renders with.

   print.journal <json>
     json = {"comms": [{"name","prefix","space","thousands","quoted"}...],
             "xacts": [xact ...]}     xact = tools/jgen.py's AST, optionally extended with
        xact / post "note_lines": [text after ';' of every note line], "note_next": bool
        post "computed": amount    (the amount ledger computed for an assignment-only posting `A  = X`)
     answers  ok <TAB> JSON array of the lines `ledger print` writes for the journal
   print.reparse <json>            same input
     answers  ok <TAB> rows of parseXactText (renderXact x) for every transaction, joined by U+001E:
              date|aux|xstate|state|code|payee|account|kind|amount q@comm|given cost q@comm|note
              (U+001F instead of | ; note lines joined by \n escaped as U+001D)
              followed by <TAB> 1/0: the parsed transaction equals `norm x` for every transaction
              followed by <TAB> 1/0: renderXact (norm x) = renderXact x for every transaction
              followed by <TAB> 1/0: xactOk holds for every transaction (hypothesis of C06.parse_render)
              followed by <TAB> 1/0: trailingPad holds for some transaction (excluded by C06.render_fixpoint_partial)
   print.equity <json>
     json = {"comms": …, "xacts": … (for the display precisions), "rows": [{"account","virt","mb","q","comm","date"}...]}
     answers  ok <TAB> JSON array of the lines `ledger equity` writes, or err <TAB> mixed-virtual

   The concrete codec (`mkCodec`) renders the styles tools/jgen.py uses: prefix or
   suffix symbol, optional separating space, thousands marks, quoted symbols,
   commodity display precision = the most decimals written in a posting or
   assertion amount (costs do not migrate: amount.cc 1185-1195), costs with
   every digit but at least the display precision.  It is executable only; its
   lawfulness (`AmtCodec.Lawful`) is C04's subject and is not assumed by any
   theorem here - the driver reports whether parse ∘ render = norm held on each
   concrete case. -/
import LedgerModel.Model.Print
import LedgerModel.Model.Calendar
import LedgerModel.Gen.Print

namespace Ledger
namespace Print

open Lean (Json)

def defaultLayout : Layout :=
  { accountWidth := Gen.printAccountWidth, amountWidth := Gen.printAmountWidth, columns := Gen.printColumns,
    markWhenDiffers := Gen.printMarkWhenStateDiffers, elideChecksMustBalance := Gen.printElideChecksMustBalance,
    padOnlyWithAmount := Gen.printPadsOnlyWithAmount }

/-! ### concrete amount text -/

structure CStyle where
  name      : String
  prefixed  : Bool
  space     : Bool
  thousands : Bool
  quoted    : Bool
  prec      : Nat
deriving Repr

def natDigits (n : Nat) : Str := (toString n).toList

def padLeft0 (w : Nat) (s : Str) : Str := List.replicate (w - s.length) '0' ++ s

/-- thousands marks every three integer digits from the right (amount.cc 171-212). -/
def groupThousands (s : Str) : Str :=
  let n := s.length
  (s.zipIdx.map (fun ci => if ci.2 > 0 ∧ (n - ci.2) % 3 = 0 then [',', ci.1] else [ci.1])).flatten

/-- least number of decimals that represents `q` exactly (bounded search), if any. -/
def minDecimals (q : Rat) : Option Nat :=
  (List.range 41).find? (fun d => (10 ^ d) % q.den = 0)

def fmtQuantity (q : Rat) (d : Nat) (thousands : Bool) : Str :=
  let u := Amount.roundUnits q d
  let neg := u < 0
  let m := u.natAbs
  let ip := natDigits (m / 10 ^ d)
  let fp := padLeft0 d (natDigits (m % 10 ^ d))
  (if neg then ['-'] else []) ++ (if thousands then groupThousands ip else ip) ++
  (if d = 0 then [] else '.' :: fp)

def symText (st : CStyle) : Str :=
  if st.quoted then '"' :: st.name.toList ++ ['"'] else st.name.toList

def showWith (st : CStyle) (d : Nat) (q : Rat) : Str :=
  let num := fmtQuantity q d st.thousands
  if st.name = "" then num
  else if st.prefixed then symText st ++ (if st.space then [' '] else []) ++ num
  else num ++ (if st.space then [' '] else []) ++ symText st

def lookupStyle (tbl : List CStyle) (c : Comm) : CStyle :=
  match tbl.find? (fun s => s.name = c) with
  | some s => s
  | none => { name := c, prefixed := true, space := false, thousands := false, quoted := false, prec := 0 }

def cShowAmt (tbl : List CStyle) (a : Qty) : Str :=
  let st := lookupStyle tbl a.comm
  showWith st st.prec a.q

def cShowCost (tbl : List CStyle) (a : Qty) : Str :=
  let st := lookupStyle tbl a.comm
  let d := match minDecimals a.q with
           | some d => max d st.prec
           | none => st.prec + 6
  showWith st d a.q

def cDisp (tbl : List CStyle) (a : Qty) : Qty :=
  { a with q := Amount.roundTo a.q (lookupStyle tbl a.comm).prec }

def digitVal? (ch : Char) : Option Nat :=
  if '0' ≤ ch ∧ ch ≤ '9' then some (ch.toNat - '0'.toNat) else none

def digitsVal (s : Str) : Option Nat :=
  s.foldl (fun acc ch => match acc, digitVal? ch with
                         | some n, some d => some (n * 10 + d)
                         | _, _ => none) (some 0)

/-- `[0-9.,]+` with `,` as thousands mark and `.` as decimal point. -/
def readNumber (s : Str) : Option Rat :=
  let s' := s.filter (· != ',')
  if s' = [] then none else
  let ip := s'.takeWhile (· != '.')
  let fp := (s'.dropWhile (· != '.')).drop 1
  if ip = [] ∨ fp.any (· == '.') then none else
  match digitsVal ip, digitsVal fp with
  | some i, some f => some (mkRat (i * 10 ^ fp.length + f) (10 ^ fp.length))
  | _, _ => none

def isNumCh (ch : Char) : Bool := ('0' ≤ ch ∧ ch ≤ '9') || ch == '.' || ch == ','

def readSymbol (s : Str) : Option (Str × Str) :=
  match s with
  | '"' :: t =>
    let sym := t.takeWhile (· != '"')
    match t.dropWhile (· != '"') with
    | _ :: r => some (sym, r)
    | [] => none
  | _ =>
    let sym := s.takeWhile (fun ch => !(isNumCh ch || isWs ch || ch == '-'))
    if sym = [] then none else some (sym, s.drop sym.length)

/-- amount_t::parse (amount.cc 1001-1246) for the shapes `showWith` writes. -/
def cReadAmt (s : Str) : Option Qty :=
  let (neg0, s1) := match s with | '-' :: t => (true, skipWs t) | _ => (false, s)
  match s1 with
  | [] => none
  | ch :: _ =>
    if '0' ≤ ch ∧ ch ≤ '9' then
      let num := s1.takeWhile isNumCh
      let r := skipWs (s1.drop num.length)
      match readNumber num with
      | none => none
      | some q =>
        let q' := if neg0 then -q else q
        if r = [] then some { q := q', comm := "" }
        else match readSymbol r with
          | some (sym, []) => some { q := q', comm := String.ofList sym }
          | _ => none
    else
      match readSymbol s1 with
      | none => none
      | some (sym, r) =>
        let r1 := skipWs r
        let (neg1, r2) := match r1 with | '-' :: t => (true, t) | _ => (false, r1)
        match readNumber r2 with
        | none => none
        | some q => some { q := if neg0 != neg1 then -q else q, comm := String.ofList sym }

def isFullOk (a : Qty) : Bool := (minDecimals a.q).isSome

/-! ### concrete date text: `%Y/%m/%d` -/

def cShowDate (n : Int) : Str :=
  let (y, m, d) := Cal.toYMD n
  padLeft0 4 (natDigits y.toNat) ++ ['/'] ++ padLeft0 2 (natDigits m.toNat) ++ ['/'] ++ padLeft0 2 (natDigits d.toNat)

def cReadDate (s : Str) : Option Int :=
  match (String.ofList s).splitOn "/" with
  | [y, m, d] =>
    match y.toNat?, m.toNat?, d.toNat? with
    | some y, some m, some d =>
      if Cal.validYMD y m d then some (Cal.ofYMD y m d) else none
    | _, _, _ => none
  | _ => none

def mkCodec (tbl : List CStyle) : Codec :=
  { showAmt := cShowAmt tbl, showCost := cShowCost tbl, readAmt := cReadAmt, disp := cDisp tbl,
    dom := fun _ => true, fullOk := isFullOk, showDate := cShowDate, readDate := cReadDate, dateDom := fun _ => true }

/-! ### decoding the AST -/

def qtyOf (a : Amount) : Qty := { q := a.q, comm := a.comm }

def noteOf (j : Json) : Option PNote :=
  match J.arr? j "note_lines" with
  | some ls =>
    let lines := ls.filterMap (fun l => match l with | .str s => some s.toList | _ => none)
    if lines = [] then none else some { lines := lines, nextLine := (J.bool? j "note_next").getD false }
  | none =>
    match J.str? j "note" with
    | some s => if s = "" then none else some { lines := [' ' :: s.toList], nextLine := false }
    | none => none

/-- parse_post's view of one written posting (state inheritance 1482-1484, cost 1612-1627). -/
def ppost? (xs : ItemState) (j : Json) : Option PPost := do
  let acct ← J.str? j "account"
  let kind ← J.kind? (← J.str? j "kind")
  let st := (J.nat? j "state").getD 0
  let amt ← J.optField j "amount" J.amount?
  let cost ← J.optField j "cost" J.cost?
  let asr ← J.optField j "assert" J.amount?
  let comp ← J.optField j "computed" J.amount?
  let amount : Option Qty := match amt with
    | some a => some (qtyOf a)
    | none => match asr with
              | some _ => comp.map qtyOf
              | none => none
  let pcost : Option PCost := match amt, cost with
    | some a, some k => some { given := mkGiven (qtyOf a) (qtyOf k.amt) (!k.perUnit), inFull := !k.perUnit }
    | _, _ => none
  pure { account := acct.toList, kind := kind, state := if xs ≠ 0 ∧ st = 0 then xs else st,
         amount := amount, cost := pcost, assigned := asr.map qtyOf, note := noteOf j }

def pxact? (j : Json) : Option PXact := do
  let d ← J.int? j "date"
  let xs := (J.nat? j "state").getD 0
  let ps ← optAll (ppost? xs) (← J.arr? j "posts")
  let code := (J.str? j "code").getD ""
  pure { date := d, aux := J.int? j "aux", state := xs,
         code := if code = "" then none else some code.toList,
         payee := ((J.str? j "payee").getD "").toList, note := noteOf j, posts := ps }

/-- the amounts that migrate precision and style flags: posting amounts and
    assertion amounts as written (not costs). -/
def writtenAmounts (j : Json) : List Amount :=
  match J.arr? j "xacts" with
  | none => []
  | some xs =>
    (xs.map (fun x =>
      match J.arr? x "posts" with
      | none => []
      | some ps =>
        (ps.map (fun p =>
          (match (J.optField p "amount" J.amount?) with | some (some a) => [a] | _ => []) ++
          (match (J.optField p "assert" J.amount?) with | some (some a) => [a] | _ => []))).flatten)).flatten

def style? (written : List Amount) (j : Json) : Option CStyle := do
  let name ← J.str? j "name"
  let mine := written.filter (fun a => a.comm = name)
  if mine = [] then
    -- only seen in costs (PARSE_NO_MIGRATE): commodity created with default flags
    pure { name := name, prefixed := true, space := false, thousands := false,
           quoted := (J.bool? j "quoted").getD false, prec := 0 }
  else
    let thousands := (J.bool? j "thousands").getD false
    pure { name := name, prefixed := (J.bool? j "prefix").getD false, space := (J.bool? j "space").getD false,
           thousands := thousands && mine.any (fun a => decide (rabs a.q ≥ 1000)),
           quoted := (J.bool? j "quoted").getD false,
           prec := mine.foldl (fun m a => max m a.prec) 0 }

def table? (j : Json) : Option (List CStyle) := do
  let cs ← J.arr? j "comms"
  optAll (style? (writtenAmounts j)) cs

def jsonLines (ls : List Str) : String :=
  (Json.arr (ls.map (fun l => Json.str (String.ofList l))).toArray).compress

def opJournal (args : List String) : String :=
  match args with
  | [s] =>
    match J.parse? s with
    | none => "err\tbad-json"
    | some j =>
      match table? j, (J.arr? j "xacts").bind (optAll pxact?) with
      | some tbl, some xs => "ok\t" ++ jsonLines (renderJournal (mkCodec tbl) defaultLayout xs)
      | _, _ => "err\tbad-json"
  | _ => "err\tbad-op"

def kindStr : PostKind → String
  | .real => "real" | .virtual => "virtual" | .bvirtual => "bvirtual"

def qtyStr (a : Option Qty) : String :=
  match a with
  | none => "-"
  | some a => ratStr a.q ++ "@" ++ a.comm

def noteStr (n : Option PNote) : String :=
  match n with
  | none => "-"
  | some n => (if n.nextLine then "N" else "S") ++ "\x1d".intercalate (n.lines.map String.ofList)

def optInt (i : Option Int) : String := match i with | none => "-" | some n => toString n

def rowsOf (x : PXact) : List String :=
  let head := s!"H\x1f{x.date}\x1f{optInt x.aux}\x1f{x.state}\x1f" ++
              (match x.code with | none => "-" | some k => "(" ++ String.ofList k ++ ")") ++ "\x1f" ++
              String.ofList x.payee ++ "\x1f" ++ noteStr x.note
  head :: x.posts.map (fun p =>
    s!"P\x1f{p.state}\x1f" ++ String.ofList p.account ++ "\x1f" ++ kindStr p.kind ++ "\x1f" ++ qtyStr p.amount ++ "\x1f" ++
    (match p.cost with | none => "-" | some k => (if k.inFull then "@@" else "@") ++ qtyStr (some k.given)) ++ "\x1f" ++
    qtyStr p.assigned ++ "\x1f" ++ noteStr p.note)

def opReparse (args : List String) : String :=
  match args with
  | [s] =>
    match J.parse? s with
    | none => "err\tbad-json"
    | some j =>
      match table? j, (J.arr? j "xacts").bind (optAll pxact?) with
      | some tbl, some xs =>
        let c := mkCodec tbl
        let L := defaultLayout
        let res := xs.map (fun x => (x, parseXactText c (renderXact c L x)))
        if res.any (fun r => match r.2 with | .error _ => true | .ok _ => false) then
          "err\tparse:" ++ ",".intercalate (res.filterMap (fun r => match r.2 with
            | .error e => some (reprStr e) | .ok _ => none))
        else
          let rows := (res.map (fun r => match r.2 with | .ok y => rowsOf y | .error _ => [])).flatten
          let bad := res.zipIdx.filterMap (fun ri => match ri.1.2 with
            | .ok y => if y = norm c L ri.1.1 then none else some (toString ri.2)
            | .error _ => some (toString ri.2))
          let eqNorm := bad.isEmpty
          let fix := xs.all (fun x => decide (renderXact c L (norm c L x) = renderXact c L x))
          -- the hypotheses of C06.parse_render / C06.render_fixpoint_partial, evaluated
          let wf := xs.all (fun x => xactOk c x)
          let pad := xs.any (fun x => trailingPad L x)
          "ok\t" ++ (Json.arr (rows.map Json.str).toArray).compress ++ "\t" ++ (if eqNorm then "1" else ",".intercalate bad) ++ "\t" ++ boolStr fix
            ++ "\t" ++ boolStr wf ++ "\t" ++ boolStr pad
      | _, _ => "err\tbad-json"
  | _ => "err\tbad-op"

def epost? (j : Json) : Option EPost := do
  let acct ← J.str? j "account"
  let virt ← J.bool? j "virt"
  let mb ← J.bool? j "mb"
  let q ← parseRat? (← J.str? j "q")
  let comm ← J.str? j "comm"
  let d ← J.int? j "date"
  pure { account := acct.toList, virt := virt, mustBal := mb, amt := { q := q, comm := comm }, date := d }

def opEquity (args : List String) : String :=
  match args with
  | [s] =>
    match J.parse? s with
    | none => "err\tbad-json"
    | some j =>
      match table? j, (J.arr? j "rows").bind (optAll epost?) with
      | some tbl, some rows =>
        if equityMixed rows then "err\tmixed-virtual"
        else
          let c := mkCodec tbl
          let zero : Qty → Bool := fun a => decide ((c.disp a).q = 0)
          "ok\t" ++ jsonLines (renderXact c defaultLayout (equityXact zero rows))
      | _, _ => "err\tbad-json"
  | _ => "err\tbad-op"

end Print

def PrintProto.ops : List (String × (List String → String)) :=
  [("print.journal", Print.opJournal), ("print.reparse", Print.opReparse), ("print.equity", Print.opEquity)]

end Ledger
