/-
Line-protocol helpers shared by every driver op: one op per line, fields
separated by TAB, list elements by `;` or `,` as each op documents.
Core Lean only (the driver is a compiled `lean_exe`).
-/
namespace Ledger

/-- Exact rational rendered as `num/den` in lowest terms (den > 0). -/
def ratStr (q : Rat) : String := s!"{q.num}/{q.den}"

/-- Parse `num/den` or a plain integer. -/
def parseRat? (s : String) : Option Rat :=
  match s.splitOn "/" with
  | [n] => n.toInt?.map (fun (i : Int) => (i : Rat))
  | [n, d] =>
    match n.toInt?, d.toNat? with
    | some i, some k => if k = 0 then none else some (mkRat i k)
    | _, _ => none
  | _ => none

def boolStr (b : Bool) : String := if b then "1" else "0"

def parseBool? (s : String) : Option Bool :=
  if s = "1" then some true else if s = "0" then some false else none

/-- Split a field on a separator, mapping the empty field to the empty list. -/
def splitList (s : String) (sep : String) : List String :=
  if s.isEmpty then [] else s.splitOn sep

instance instDecEqExcept {ε α : Type} [DecidableEq ε] [DecidableEq α] : DecidableEq (Except ε α)
  | .ok a, .ok b => if h : a = b then isTrue (by rw [h]) else isFalse (by intro h'; cases h'; exact h rfl)
  | .error a, .error b => if h : a = b then isTrue (by rw [h]) else isFalse (by intro h'; cases h'; exact h rfl)
  | .ok _, .error _ => isFalse (by intro h; cases h)
  | .error _, .ok _ => isFalse (by intro h; cases h)

def optAll {α β} (f : α → Option β) : List α → Option (List β)
  | [] => some []
  | x :: xs => do
    let y ← f x
    let ys ← optAll f xs
    pure (y :: ys)

end Ledger
