/-
Model of ledger's posting filters (C07).

* `Pred`      the predicate trees that command-line queries (query.cc) build and
              that `--limit`, `--only`, `--display` expressions of the same fragment
              parse to: `=~` matches of account / payee / code / note,
              `has_tag`, comparisons of `amount` and `date` with a literal, the
              state / kind flags, `!`, `&`, `|`.
* `evalPred`  op.cc calc (328-384): O_MATCH, O_EQ…O_GTE through `Value.*`
              (value.cc is_equal_to / is_less_than), O_NOT, short-circuit
              O_AND / O_OR, over a posting bound to its transaction
              (post.cc 148-215, item.cc 238-300).  boost::regex is the
              parameter `Matcher` (mask.h 84-96: case-insensitive search).
* `filterPosts` filters.h 343-349: `if (pred(post)) (*handler)(post);` over the
              posting stream; an evaluation error aborts the run after the rows
              already passed on.
* `render`    the text `predicate_t::print_to_str` gives for such a tree
              (op.cc print), which is what `ledger query` shows and what
              report.cc 294-300 hands to `--limit`.
* option templates of report.h (`--begin`, `--end`, `--real`, …) interpreted from
  `Gen.BeginEnd`.
Core Lean only.
-/
import LedgerModel.Model.Journal
import LedgerModel.Model.Calendar
import LedgerModel.Gen.BeginEnd

namespace Ledger
namespace Query

/-- `matches pattern text`: mask_t::match, i.e. boost::regex_search with
    `perl | icase` (mask.cc 44-52, mask.h 84-96).  External; a parameter. -/
abbrev Matcher := String → String → Bool

/-- `p` occurs in `t`. -/
def hasSub (p : List Char) : List Char → Bool
  | [] => p.isEmpty
  | c :: cs => p.isPrefixOf (c :: cs) || hasSub p cs

/-- What boost::regex_search with `icase` computes for a pattern made of letters,
    digits, blanks and colons only: case-insensitive substring search.  The
    instance of `Matcher` the checks run the model with. -/
def substrMatcher : Matcher := fun pat text =>
  hasSub (pat.toList.map Char.toLower) (text.toList.map Char.toLower)

/-- item metadata (`item_t::string_map`, a std::map ordered case-insensitively by
    tag name): (tag, optional value) in map order. -/
abbrev Tags := List (String × Option String)

/-- A posting bound to its transaction, as `bind_scope_t(report, post)` sees it. -/
structure PostCtx where
  post  : Posting
  xact  : Xact
  tags  : Tags := []     -- the posting's own metadata
  xtags : Tags := []     -- the transaction's metadata
deriving Repr

theorem xact_ext {a b : Xact} (h : a.date = b.date ∧ a.aux = b.aux ∧ a.state = b.state ∧ a.code = b.code ∧
    a.payee = b.payee ∧ a.note = b.note ∧ a.posts = b.posts ∧ a.line = b.line ∧ a.endLine = b.endLine) : a = b := by
  cases a; cases b
  obtain ⟨h1, h2, h3, h4, h5, h6, h7, h8, h9⟩ := h
  simp only at h1 h2 h3 h4 h5 h6 h7 h8 h9
  subst h1 h2 h3 h4 h5 h6 h7 h8 h9; rfl

instance instDecEqXact : DecidableEq Xact := fun a b =>
  decidable_of_iff (a.date = b.date ∧ a.aux = b.aux ∧ a.state = b.state ∧ a.code = b.code ∧
    a.payee = b.payee ∧ a.note = b.note ∧ a.posts = b.posts ∧ a.line = b.line ∧ a.endLine = b.endLine)
    ⟨xact_ext, fun h => by subst h; simp⟩

theorem ctx_ext {a b : PostCtx} (h : a.post = b.post ∧ a.xact = b.xact ∧ a.tags = b.tags ∧ a.xtags = b.xtags) : a = b := by
  cases a; cases b
  obtain ⟨h1, h2, h3, h4⟩ := h
  simp only at h1 h2 h3 h4
  subst h1 h2 h3 h4; rfl

instance instDecEqPostCtx : DecidableEq PostCtx := fun a b =>
  decidable_of_iff (a.post = b.post ∧ a.xact = b.xact ∧ a.tags = b.tags ∧ a.xtags = b.xtags)
    ⟨ctx_ext, fun h => by subst h; simp⟩

/-! ### What the identifiers of a predicate evaluate to -/

/-- The note text as textual.cc stores it: the blank after `;` is kept. -/
def storedNote (s : String) : String := if s = "" then "" else " " ++ s

/-- post.cc 183-192 `get_note`: posting note followed by transaction note, no separator. -/
def PostCtx.note (c : PostCtx) : String := storedNote c.post.note ++ storedNote c.xact.note

/-- textual.cc 1482-1484: a posting without its own mark takes the transaction's state. -/
def PostCtx.state (c : PostCtx) : ItemState := if c.post.state = 0 then c.xact.state else c.post.state

/-- post.cc 156-162: POST_VIRTUAL is set for `(A)` and `[A]` alike. -/
def PostCtx.isVirtual (c : PostCtx) : Bool := c.post.kind ≠ .real

/-- post.cc 198-206 `get_amount`: the posting amount (0 when null). -/
def PostCtx.amount (c : PostCtx) : Value :=
  match c.post.amount with
  | some a => .amt a
  | none => .int 0

/-- item.cc 255 / post.cc 88-118: the transaction's primary date (the generators
    give postings no date of their own and never pass --aux-date). -/
def PostCtx.date (c : PostCtx) : Int := c.xact.date

inductive Field | account | payee | code | note
deriving DecidableEq, Repr

def Field.name : Field → String
  | .account => "account" | .payee => "payee" | .code => "code" | .note => "note"

/-- the text an `=~` is applied to (`left()->calc().to_string()`; a null code or
    note converts to the empty string). -/
def PostCtx.field (c : PostCtx) : Field → String
  | .account => c.post.account
  | .payee => c.xact.payee
  | .code => c.xact.code
  | .note => c.note

inductive Flag | cleared | pending | uncleared | virtual | real | actual
deriving DecidableEq, Repr

def Flag.name : Flag → String
  | .cleared => "cleared" | .pending => "pending" | .uncleared => "uncleared"
  | .virtual => "virtual" | .real => "real" | .actual => "actual"

/-- item.cc 241-253, post.cc 156-162.  Journal postings are never generated/temporary. -/
def PostCtx.flag (c : PostCtx) : Flag → Bool
  | .cleared => c.state = 1
  | .pending => c.state = 2
  | .uncleared => c.state = 0
  | .virtual => c.isVirtual
  | .real => !c.isVirtual
  | .actual => true

/-- item.cc 59-73 `item_t::has_tag(mask, value_mask)`: walks the map in order; the
    first tag whose name matches decides when it carries a value (a matching tag
    without a value is skipped when a value mask is given). -/
def itemHasTag (m : Matcher) (tag : String) (val : Option String) : Tags → Bool
  | [] => false
  | (k, v) :: rest =>
    if m tag k then
      match val with
      | none => true
      | some vm =>
        match v with
        | some vv => m vm vv
        | none => itemHasTag m tag val rest
    else itemHasTag m tag val rest

/-- post.cc 52-60: the posting's own metadata, then the transaction's. -/
def PostCtx.hasTag (m : Matcher) (c : PostCtx) (tag : String) (val : Option String) : Bool :=
  itemHasTag m tag val c.tags || itemHasTag m tag val c.xtags

/-! ### Predicate trees -/

inductive CmpOp | eq | lt | le | gt | ge
deriving DecidableEq, Repr

def CmpOp.sym : CmpOp → String
  | .eq => "==" | .lt => "<" | .le => "<=" | .gt => ">" | .ge => ">="

/-- comparison subject -/
inductive Subj | amount | date
deriving DecidableEq, Repr

def Subj.name : Subj → String
  | .amount => "amount" | .date => "date"

/-- a literal: numbers are amounts (token.cc), `[…]` is a date (day number). -/
inductive Lit
  | amt (a : Amount)
  | date (d : Int)
deriving DecidableEq, Repr

inductive Pred
  | matchF (f : Field) (pat : String)
  | hasTag (tag : String) (val : Option String)
  | cmp (s : Subj) (op : CmpOp) (rhs : Lit)
  | flag (f : Flag)
  | not (p : Pred)
  | and (p q : Pred)
  | or (p q : Pred)
deriving DecidableEq, Repr

inductive EvalErr
  | cannotCompare          -- value.cc "Cannot compare %1% to %2%"
deriving DecidableEq, Repr

/-- The operands of a comparison, as values of the C03 lattice, or the error
    value.cc raises for a date against a non-date. -/
def cmpValues (c : PostCtx) (s : Subj) (rhs : Lit) : Except EvalErr (Value × Value ⊕ Int × Int) :=
  match s, rhs with
  | .amount, .amt a => .ok (.inl (c.amount, .amt a))
  | .date, .date d => .ok (.inr (c.date, d))
  | .amount, .date _ => .error .cannotCompare
  | .date, .amt _ => .error .cannotCompare

def liftVal (r : Res Bool) : Except EvalErr Bool :=
  match r with
  | .ok b => .ok b
  | .error _ => .error .cannotCompare

/-- op.cc 333-352 O_EQ…O_GTE on values (`>`, `<=`, `>=` derived from `<` by
    boost::operators, as `Value.gt/le/ge`). -/
def cmpVal (op : CmpOp) (a b : Value) : Except EvalErr Bool :=
  match op with
  | .eq => liftVal (Value.eq a b)
  | .lt => liftVal (Value.lt a b)
  | .le => liftVal (Value.le a b)
  | .gt => liftVal (Value.gt a b)
  | .ge => liftVal (Value.ge a b)

/-- value.cc DATE cells: boost::gregorian order on day numbers. -/
def cmpDate (op : CmpOp) (a b : Int) : Bool :=
  match op with
  | .eq => a == b
  | .lt => decide (a < b)
  | .le => decide (a ≤ b)
  | .gt => decide (a > b)
  | .ge => decide (a ≥ b)

/-- op.cc calc on the predicate fragment. `&` and `|` evaluate the right operand
    only when the left one does not decide (op.cc 376-391). -/
def evalPred (m : Matcher) : Pred → PostCtx → Except EvalErr Bool
  | .matchF f pat, c => .ok (m pat (c.field f))
  | .hasTag t v, c => .ok (c.hasTag m t v)
  | .cmp s op rhs, c =>
    match cmpValues c s rhs with
    | .error e => .error e
    | .ok (.inl (a, b)) => cmpVal op a b
    | .ok (.inr (a, b)) => .ok (cmpDate op a b)
  | .flag f, c => .ok (c.flag f)
  | .not p, c =>
    match evalPred m p c with
    | .ok b => .ok (!b)
    | .error e => .error e
  | .and p q, c =>
    match evalPred m p c with
    | .ok true => evalPred m q c
    | .ok false => .ok false
    | .error e => .error e
  | .or p q, c =>
    match evalPred m p c with
    | .ok true => .ok true
    | .ok false => evalPred m q c
    | .error e => .error e

/-- the posting satisfies the predicate (and evaluation did not fail). -/
def holds (m : Matcher) (p : Pred) (c : PostCtx) : Bool := decide (evalPred m p c = .ok true)

/-- evaluation of `p` fails on no posting of the list. -/
def NoErr (m : Matcher) (p : Pred) (ps : List PostCtx) : Prop :=
  ∀ c ∈ ps, ∃ b, evalPred m p c = .ok b

/-- filters.h 343-349 over the posting stream, in order: the postings handed to
    the next handler before the first evaluation error, and that error (the
    report is aborted there; what was already printed stays printed). -/
def filterPosts (m : Matcher) (p : Pred) : List PostCtx → List PostCtx × Option EvalErr
  | [] => ([], none)
  | c :: cs =>
    match evalPred m p c with
    | .error e => ([], some e)
    | .ok b =>
      let r := filterPosts m p cs
      (if b then c :: r.1 else r.1, r.2)

/-- the postings the filter looks at before the run aborts (all of them when no
    evaluation fails). -/
def processed (m : Matcher) (p : Pred) : List PostCtx → List PostCtx
  | [] => []
  | c :: cs =>
    match evalPred m p c with
    | .error _ => []
    | .ok _ => c :: processed m p cs

/-- the optional predicate of an option that may be absent (chain.cc 53-60: no
    `filter_posts` handler is installed without `--limit`). -/
def filterOpt (m : Matcher) : Option Pred → List PostCtx → List PostCtx × Option EvalErr
  | none, ps => (ps, none)
  | some p, ps => filterPosts m p ps

/-- Comparisons are between an amount and an amount literal, or a date and a
    date literal: the fragment on which evaluation cannot fail. -/
def Pred.wellTyped : Pred → Bool
  | .cmp .amount _ (.amt _) => true
  | .cmp .date _ (.date _) => true
  | .cmp _ _ _ => false
  | .not p => p.wellTyped
  | .and p q => p.wellTyped && q.wellTyped
  | .or p q => p.wellTyped && q.wellTyped
  | _ => true

def Pred.depth : Pred → Nat
  | .not p => p.depth + 1
  | .and p q => max p.depth q.depth + 1
  | .or p q => max p.depth q.depth + 1
  | _ => 0

/-! ### Printing (op.cc print; what `ledger query` shows as "Input expression") -/

def pad2 (n : Int) : String :=
  let s := toString n.toNat
  if s.length < 2 then "0" ++ s else s

def pad4 (n : Int) : String :=
  let s := toString n.toNat
  "".pushn '0' (4 - s.length) ++ s

/-- `[YYYY/MM/DD]` (format_date FMT_WRITTEN of a date value inside brackets). -/
def renderDate (d : Int) : String :=
  let (y, mo, dd) := Cal.toYMD d
  "[" ++ pad4 y ++ "/" ++ pad2 mo ++ "/" ++ pad2 dd ++ "]"

/-- to_iso_extended_string: `YYYY-MM-DD` (what report.h pastes into its templates). -/
def isoDate (d : Int) : String :=
  let (y, mo, dd) := Cal.toYMD d
  pad4 y ++ "-" ++ pad2 mo ++ "-" ++ pad2 dd

/-- digits of a non-negative integer padded to at least `w` digits. -/
def natPad (n w : Nat) : String :=
  let s := toString n
  "".pushn '0' (w - s.length) ++ s

/-- An amount literal at its own written precision, commodity after the number
    separated by a blank (the generators use suffix commodities in literals; no
    thousands marks below 1000).  Printing of amounts proper is C04's subject. -/
def renderAmount (a : Amount) : String :=
  let scaled := a.q * (10 : Rat) ^ a.prec
  let n := scaled.num.natAbs / scaled.den
  let digits := natPad n (a.prec + 1)
  let ip := (digits.toList.take (digits.length - a.prec))
  let fp := (digits.toList.drop (digits.length - a.prec))
  let num := String.ofList ip ++ (if a.prec = 0 then "" else "." ++ String.ofList fp)
  let sign := if a.q < 0 then "-" else ""
  "{" ++ sign ++ num ++ (if a.comm = "" then "" else " " ++ a.comm) ++ "}"

def renderLit : Lit → String
  | .amt a => renderAmount a
  | .date d => renderDate d

/-- op.cc print of the trees query.cc builds: O_MATCH / comparisons / `&` `|`
    `!` in parentheses, `has_tag` as a call whose two masks sit in the
    O_SEQ/O_CONS nest query.cc 303-306 makes. -/
def render : Pred → String
  | .matchF f pat => "(" ++ f.name ++ " =~ /" ++ pat ++ "/)"
  | .hasTag t none => "has_tag(/" ++ t ++ "/)"
  | .hasTag t (some v) => "has_tag(((/" ++ t ++ "/, /" ++ v ++ "/)))"
  | .cmp s op rhs => "(" ++ s.name ++ " " ++ op.sym ++ " " ++ renderLit rhs ++ ")"
  | .flag f => f.name
  | .not p => "(! " ++ render p ++ ")"
  | .and p q => "(" ++ render p ++ " & " ++ render q ++ ")"
  | .or p q => "(" ++ render p ++ " | " ++ render q ++ ")"

/-! ### report.h option templates (from `Gen.BeginEnd`) -/

/-- the comparison a `date OP [` template denotes. -/
def cmpOfDateTemplate (pre suf : String) : Option CmpOp :=
  if suf ≠ "]" then none
  else if pre = "date>=[" then some .ge
  else if pre = "date<[" then some .lt
  else if pre = "date<=[" then some .le
  else if pre = "date>[" then some .gt
  else if pre = "date==[" then some .eq
  else none

/-- `--begin D` (report.h 446-455): the limit predicate it adds. -/
def beginPred (d : Int) : Option Pred :=
  (cmpOfDateTemplate Gen.beginPredicate.1 Gen.beginPredicate.2.1).map (fun op => .cmp .date op (.date d))

/-- `--end D` (report.h 658-672). -/
def endPred (d : Int) : Option Pred :=
  (cmpOfDateTemplate Gen.endPredicate.1 Gen.endPredicate.2.1).map (fun op => .cmp .date op (.date d))

/-- the text report.h builds for --begin / --end. -/
def beginText (d : Int) : String := Gen.beginPredicate.1 ++ isoDate d ++ Gen.beginPredicate.2.1
def endText (d : Int) : String := Gen.endPredicate.1 ++ isoDate d ++ Gen.endPredicate.2.1

def flagOfChars (s : List Char) : Option Flag :=
  if s = "cleared".toList then some .cleared else if s = "pending".toList then some .pending
  else if s = "uncleared".toList then some .uncleared else if s = "virtual".toList then some .virtual
  else if s = "real".toList then some .real else if s = "actual".toList then some .actual else none

/-- split at `|`. -/
def splitBar : List Char → List (List Char)
  | [] => [[]]
  | c :: cs =>
    match splitBar cs with
    | [] => [[c]]
    | w :: ws => if c = '|' then [] :: w :: ws else (c :: w) :: ws

/-- the fixed predicate texts of report.h are flag names joined by `|`. -/
def predOfFlagText (s : String) : Option Pred :=
  match (splitBar s.toList).map flagOfChars with
  | [some a] => some (.flag a)
  | [some a, some b] => some (.or (.flag a) (.flag b))
  | _ => none

/-- `--real`, `--cleared`, `--pending`, `--uncleared`, `--actual`. -/
def optionPred (opt : String) : Option Pred :=
  match Gen.limitOptions.find? (fun kv => kv.1 = opt) with
  | some kv => predOfFlagText kv.2
  | none => none

/-- report.h 748-753: a second `--limit` is and-ed to the first. -/
def combineLimit (old new : String) : String :=
  Gen.limitCombine.1 ++ old ++ Gen.limitCombine.2.1 ++ new ++ Gen.limitCombine.2.2

def combinePred (old new : Pred) : Option Pred :=
  if Gen.limitCombine = ("(", ")&(", ")") then some (.and old new) else none

end Query
end Ledger
