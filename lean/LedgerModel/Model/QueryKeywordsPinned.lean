/- Pinned copy of Gen/QueryKeywords.lean: the source text this model was written against (hand-maintained; refresh with tools/repin.py together with the model). -/
namespace Ledger.Pinned

/-- characters that open a quoted pattern (query.cc, first switch of next_token). -/
def queryQuoteChars : List Char := ['\'', '"', '/']

/-- whitespace skipped between tokens (second switch). -/
def queryWhitespace : List Char := [' ', '\t', '\r', '\n']

/-- whitespace kept inside an identifier when the lexer runs over an argument list. -/
def queryIdentWhitespace : List Char := [' ', '\t', '\n', '\r']

/-- single-character tokens (character, token kind). -/
def queryCharTokens : List (Char × String) := [('(', "LPAREN"), (')', "RPAREN"), ('&', "TOK_AND"), ('|', "TOK_OR"), ('!', "TOK_NOT"), ('@', "TOK_PAYEE"), ('#', "TOK_CODE"), ('%', "TOK_META")]

/-- `=`: token at the very start of an argument, token elsewhere. -/
def queryEqTokens : String × String := ("TOK_NOTE", "TOK_EQ")

/-- characters that end an identifier (outside `expr` context, not escaped). -/
def queryIdentStops : List Char := [')', '(', '&', '|', '!', '@', '#', '%', '=']

/-- the `test_ident` keyword chain, in source order (identifier, token kind). -/
def queryKeywords : List (String × String) := [("and", "TOK_AND"), ("or", "TOK_OR"), ("not", "TOK_NOT"), ("code", "TOK_CODE"), ("desc", "TOK_PAYEE"), ("payee", "TOK_PAYEE"), ("note", "TOK_NOTE"), ("tag", "TOK_META"), ("meta", "TOK_META"), ("data", "TOK_META"), ("show", "TOK_SHOW"), ("only", "TOK_ONLY"), ("bold", "TOK_BOLD"), ("for", "TOK_FOR"), ("since", "TOK_SINCE"), ("until", "TOK_UNTIL"), ("expr", "TOK_EXPR")]

/-- keywords after which the whole next argument is one term. -/
def queryNextArgKeywords : List String := ["expr"]

/-- parser levels: (function, token it acts on, node it builds, level it calls for operands). -/
def queryLadder : List (String × String × String × String) := [("parse_or_expr", "TOK_OR", "O_OR", "parse_and_expr"), ("parse_and_expr", "TOK_AND", "O_AND", "parse_unary_expr"), ("parse_unary_expr", "TOK_NOT", "O_NOT", "parse_query_term")]

/-- juxtaposed terms: (level called repeatedly, node built). -/
def queryJuxtaposition : String × String := ("parse_or_expr", "O_OR")

/-- context token → identifier matched with `=~`. -/
def queryContextIdents : List (String × String) := [("TOK_ACCOUNT", "account"), ("TOK_PAYEE", "payee"), ("TOK_CODE", "code"), ("TOK_NOTE", "note")]

/-- function called for a metadata term. -/
def queryMetaFunction : String := "has_tag"

/-- tokens that switch the context of the following term. -/
def queryContextTokens : List String := ["TOK_CODE", "TOK_PAYEE", "TOK_NOTE", "TOK_ACCOUNT", "TOK_META", "TOK_EXPR"]

/-- tokens at which a term (and so the limit predicate) stops. -/
def queryStopTokens : List String := ["TOK_SHOW", "TOK_ONLY", "TOK_BOLD", "TOK_FOR", "TOK_SINCE", "TOK_UNTIL", "END_REACHED"]

/-- keyword sections after the limit predicate: (token, query kind). -/
def querySections : List (String × String) := [("TOK_SHOW", "QUERY_SHOW"), ("TOK_ONLY", "QUERY_ONLY"), ("TOK_BOLD", "QUERY_BOLD")]

end Ledger.Pinned
