/-
Model of query.cc: the lexer over an argument list (next_token, 50-238, with
`multiple_args = true` as report.cc 294 / precmd.cc 187 construct it) and the
recursive-descent parser (parse_query_term 245-354, parse_unary_expr 356-381,
parse_and_expr 383-405, parse_or_expr 407-429, parse_query_expr 431-548) that
turns command-line query terms into a predicate tree.

Single-character tokens, the `=` rule, quote characters, identifier stop
characters and the keyword chain come from `Gen.QueryKeywords` (re-extracted
from query.cc on every run).

With `multiple_args` the lexer never depends on the parser's `tok_context`
(the only context-dependent branches are reached under TOK_EXPR, where
`consume_next_arg` makes the whole next argument one TERM first), so the token
stream is a function of the arguments: `lexArgs`.  Lexing is still lazy in the
C++: an error is raised only when the parser asks for the offending token; the
stream therefore ends in `Tok.lexErr e` and the parser fails when it reaches it.
Core Lean only.
-/
import LedgerModel.Model.Query
import LedgerModel.Gen.QueryKeywords

namespace Ledger
namespace Query

/-- `tok_context` (query.h 84-89). -/
inductive Ctx | account | payee | code | note | tags | expr
deriving DecidableEq, Repr

/-- token_t::symbol() of the context tokens (query.h 165-170). -/
def Ctx.symbol : Ctx → String
  | .account => "account" | .payee => "payee" | .code => "code"
  | .note => "note" | .tags => "meta" | .expr => "expr"

inductive QErr
  | emptyArg                       -- query.cc 71 assertion on an empty argument
  | backslashAtEnd                 -- "Unexpected '\\' at end of pattern"
  | unterminated (c : Char)        -- "Expected '%1%' at end of pattern"
  | emptyPattern                   -- "Match pattern is empty"
  | opNoArg (sym : String)         -- "%1% operator not followed by argument"
  | missingParen                   -- "Missing ')'"
  | metaEqNoTerm                   -- "Metadata equality operator not followed by term"
  | badExpr (text : String)        -- the argument of `expr` does not parse (expression parser: a parameter)
  | unknownToken (name : String)   -- the generated tables name a token kind this model does not know
  | internal                       -- progress check of the model itself (never reached, see Lemmas)
deriving DecidableEq, Repr

inductive Tok
  | lparen | rparen | tnot | tand | tor | teq
  | ctx (c : Ctx)
  | tshow | tonly | tbold | tfor | tsince | tuntil
  | term (s : List Char)
  | lexErr (e : QErr)
deriving DecidableEq, Repr

/-- token kind names of query.h 73-101 as they appear in the generated tables. -/
def tokOfName (n : String) : Tok :=
  if n = "LPAREN" then .lparen else if n = "RPAREN" then .rparen
  else if n = "TOK_NOT" then .tnot else if n = "TOK_AND" then .tand
  else if n = "TOK_OR" then .tor else if n = "TOK_EQ" then .teq
  else if n = "TOK_CODE" then .ctx .code else if n = "TOK_PAYEE" then .ctx .payee
  else if n = "TOK_NOTE" then .ctx .note else if n = "TOK_ACCOUNT" then .ctx .account
  else if n = "TOK_META" then .ctx .tags else if n = "TOK_EXPR" then .ctx .expr
  else if n = "TOK_SHOW" then .tshow else if n = "TOK_ONLY" then .tonly
  else if n = "TOK_BOLD" then .tbold else if n = "TOK_FOR" then .tfor
  else if n = "TOK_SINCE" then .tsince else if n = "TOK_UNTIL" then .tuntil
  else .lexErr (.unknownToken n)

/-! ### Lexer -/

def isStop (c : Char) : Bool := Gen.queryIdentStops.contains c
def isQuote (c : Char) : Bool := Gen.queryQuoteChars.contains c
def isSpace (c : Char) : Bool := Gen.queryWhitespace.contains c

/-- single-character tokens (query.cc 123-138). -/
def charTok (c : Char) : Option Tok :=
  (Gen.queryCharTokens.find? (fun kv => kv.1 = c)).map (fun kv => tokOfName kv.2)

/-- `test_ident` (query.cc 194-233): keyword or TERM. -/
def identTok (ident : List Char) : Tok :=
  match Gen.queryKeywords.find? (fun kv => kv.1.toList = ident) with
  | some kv => tokOfName kv.2
  | none => .term ident

/-- keywords that set `consume_next_arg` (query.cc 227-231). -/
def setsNextArg (ident : List Char) : Bool :=
  Gen.queryNextArgKeywords.any (fun k => k.toList = ident)

/-- identifier scan (query.cc 153-191) outside TOK_EXPR context: runs to the end
    of the argument or to a stop character unless escaped. -/
def scanIdent (consumeNext : Bool) : List Char → List Char × List Char
  | [] => ([], [])
  | c :: cs =>
    if !consumeNext && isStop c then ([], c :: cs)
    else
      let r := scanIdent consumeNext cs
      (c :: r.1, r.2)

theorem scanIdent_length (b : Bool) (cs : List Char) : (scanIdent b cs).2.length ≤ cs.length := by
  induction cs with
  | nil => simp [scanIdent]
  | cons c cs ih =>
    simp only [scanIdent]
    split
    · simp
    · simp only [List.length_cons]; omega

/-- quoted pattern (query.cc 74-98): up to the closing character; a backslash
    makes the next character literal. -/
def scanQuoted (closing : Char) : List Char → Except QErr (List Char × List Char)
  | [] => .error (.unterminated closing)
  | c :: cs =>
    if c = '\\' then
      match cs with
      | [] => .error .backslashAtEnd
      | d :: ds =>
        match scanQuoted closing ds with
        | .ok r => .ok (d :: r.1, r.2)
        | .error e => .error e
    else if c = closing then .ok ([], cs)
    else
      match scanQuoted closing cs with
      | .ok r => .ok (c :: r.1, r.2)
      | .error e => .error e

theorem scanQuoted_length (q : Char) : ∀ (cs : List Char) (r : List Char × List Char),
    scanQuoted q cs = .ok r → r.2.length ≤ cs.length
  | [], r, h => by simp [scanQuoted] at h
  | [c], r, h => by
    simp only [scanQuoted] at h
    split at h
    · simp at h
    · split at h
      · cases h; simp
      · simp at h
  | c :: d :: ds, r, h => by
    simp only [scanQuoted] at h
    split at h
    · split at h
      · rename_i r' hr
        cases h
        have := scanQuoted_length q ds r' hr
        simp only [List.length_cons]; omega
      · cases h
    · split at h
      · cases h; simp
      · split at h
        · rename_i r' hr
          cases h
          have := scanQuoted_length q (d :: ds) r' hr
          simp only [List.length_cons] at this ⊢; omega
        · cases h

structure LexR where
  toks    : List Tok
  cna     : Bool      -- consume_next_arg after this argument
  stopped : Bool      -- a lexer error ended the stream

def LexR.cons (t : Tok) (r : LexR) : LexR := { r with toks := t :: r.toks }

/-- next_token iterated over what is left of one argument.  `cna` is
    `consume_next_arg`, `atStart` is `arg_i == (*begin).as_string().begin()`. -/
def lexChars (cna atStart : Bool) (cur : List Char) : LexR :=
  match cur with
  | [] => ⟨[], cna, false⟩
  | c :: cs =>
    if isQuote c then
      match h : scanQuoted c cs with
      | .error e => ⟨[.lexErr e], cna, true⟩
      | .ok (pat, r) =>
        have : r.length ≤ cs.length := scanQuoted_length c cs (pat, r) h
        if pat = [] then ⟨[.lexErr .emptyPattern], cna, true⟩
        else (lexChars cna false r).cons (.term pat)
    else if cna then ⟨[.term (c :: cs)], false, false⟩
    else if isSpace c then lexChars false false cs
    else if c = '=' then
      (lexChars false false cs).cons (tokOfName (if atStart then Gen.queryEqTokens.1 else Gen.queryEqTokens.2))
    else
      match charTok c with
      | some t => (lexChars false false cs).cons t
      | none =>
        if c = '\\' then
          have := scanIdent_length true cs
          let ident := (scanIdent true cs).1
          (lexChars (setsNextArg ident) false (scanIdent true cs).2).cons (identTok ident)
        else
          have := scanIdent_length false cs
          let ident := c :: (scanIdent false cs).1
          (lexChars (setsNextArg ident) false (scanIdent false cs).2).cons (identTok ident)
termination_by cur.length
decreasing_by all_goals (simp only [List.length_cons]; omega)

/-- arguments after the first one (an empty one trips the assertion at query.cc 71). -/
def lexMore (cna : Bool) : List (List Char) → List Tok
  | [] => []
  | a :: as =>
    if a = [] then [.lexErr .emptyArg]
    else
      let r := lexChars cna true a
      if r.stopped then r.toks else r.toks ++ lexMore r.cna as

/-- the whole token stream of an argument list (an empty first argument is
    skipped: query.cc 59-66 moves on when `arg_i == arg_end`). -/
def lexArgs : List (List Char) → List Tok
  | [] => []
  | a :: as =>
    let r := lexChars false true a
    if r.stopped then r.toks else r.toks ++ lexMore r.cna as

/-! ### Parser -/

abbrev PRes := Except QErr (Option Pred × List Tok)

/-- the leaf a TERM makes in a context (query.cc 274-338; the metadata context is
    handled by the caller because it looks ahead for `=`). -/
def mkLeaf (exprOf : String → Option Pred) (ctx : Ctx) (s : List Char) : Except QErr Pred :=
  match ctx with
  | .account => .ok (.matchF .account (String.ofList s))
  | .payee => .ok (.matchF .payee (String.ofList s))
  | .code => .ok (.matchF .code (String.ofList s))
  | .note => .ok (.matchF .note (String.ofList s))
  | .tags => .ok (.hasTag (String.ofList s) none)
  | .expr =>
    match exprOf (String.ofList s) with
    | some p => .ok p
    | none => .error (.badExpr (String.ofList s))

/-- tokens at which parse_query_term pushes the token back and returns null
    (query.cc 252-260 and the `default:` at 348-350). -/
def Tok.isSection : Tok → Bool
  | .tshow | .tonly | .tbold | .tfor | .tsince | .tuntil => true
  | _ => false

mutual

/-- parse_query_term (query.cc 245-354). -/
def parseTerm (exprOf : String → Option Pred) (ctx : Ctx) (toks : List Tok) : PRes :=
  match toks with
  | [] => .ok (none, [])
  | .lexErr e :: _ => .error e
  | .ctx k :: rest =>
    match parseTerm exprOf k rest with
    | .error e => .error e
    | .ok (none, _) => .error (.opNoArg k.symbol)
    | .ok (some n, r) => .ok (some n, r)
  | .term s :: rest =>
    match ctx with
    | .tags =>
      match rest with
      | .lexErr e :: _ => .error e
      | .teq :: rest2 =>
        match rest2 with
        | .lexErr e :: _ => .error e
        | .term v :: rest3 => .ok (some (.hasTag (String.ofList s) (some (String.ofList v))), rest3)
        | _ => .error .metaEqNoTerm
      | _ => .ok (some (.hasTag (String.ofList s) none), rest)
    | _ =>
      match mkLeaf exprOf ctx s with
      | .ok p => .ok (some p, rest)
      | .error e => .error e
  | .lparen :: rest =>
    match parseQuery exprOf ctx rest with
    | .error e => .error e
    | .ok (node, r) =>
      match r with
      | .lexErr e :: _ => .error e
      | .rparen :: r' => .ok (node, r')
      | _ => .error .missingParen
  | t :: rest => .ok (none, t :: rest)
termination_by toks.length * 8 + 0

/-- parse_unary_expr (query.cc 356-381). -/
def parseUnary (exprOf : String → Option Pred) (ctx : Ctx) (toks : List Tok) : PRes :=
  match toks with
  | .lexErr e :: _ => .error e
  | .tnot :: rest =>
    match parseTerm exprOf ctx rest with
    | .error e => .error e
    | .ok (none, _) => .error (.opNoArg "not")
    | .ok (some n, r) => .ok (some (.not n), r)
  | other => parseTerm exprOf ctx other
termination_by toks.length * 8 + 1

/-- the `while (true)` of parse_and_expr (query.cc 387-401). -/
def andLoop (exprOf : String → Option Pred) (ctx : Ctx) (node : Pred) (toks : List Tok) : PRes :=
  match toks with
  | .lexErr e :: _ => .error e
  | .tand :: rest =>
    match parseUnary exprOf ctx rest with
    | .error e => .error e
    | .ok (none, _) => .error (.opNoArg "and")
    | .ok (some rhs, r) =>
      if r.length ≤ rest.length then andLoop exprOf ctx (.and node rhs) r else .error .internal
  | other => .ok (some node, other)
termination_by toks.length * 8 + 2

/-- parse_and_expr (query.cc 383-405). -/
def parseAnd (exprOf : String → Option Pred) (ctx : Ctx) (toks : List Tok) : PRes :=
  match parseUnary exprOf ctx toks with
  | .error e => .error e
  | .ok (none, r) => .ok (none, r)
  | .ok (some n, r) =>
    if r.length ≤ toks.length then andLoop exprOf ctx n r else .error .internal
termination_by toks.length * 8 + 3

/-- the `while (true)` of parse_or_expr (query.cc 411-425). -/
def orLoop (exprOf : String → Option Pred) (ctx : Ctx) (node : Pred) (toks : List Tok) : PRes :=
  match toks with
  | .lexErr e :: _ => .error e
  | .tor :: rest =>
    match parseAnd exprOf ctx rest with
    | .error e => .error e
    | .ok (none, _) => .error (.opNoArg "or")
    | .ok (some rhs, r) =>
      if r.length ≤ rest.length then orLoop exprOf ctx (.or node rhs) r else .error .internal
  | other => .ok (some node, other)
termination_by toks.length * 8 + 4

/-- parse_or_expr (query.cc 407-429). -/
def parseOr (exprOf : String → Option Pred) (ctx : Ctx) (toks : List Tok) : PRes :=
  match parseAnd exprOf ctx toks with
  | .error e => .error e
  | .ok (none, r) => .ok (none, r)
  | .ok (some n, r) =>
    if r.length ≤ toks.length then orLoop exprOf ctx n r else .error .internal
termination_by toks.length * 8 + 5

/-- the juxtaposition loop of parse_query_expr (query.cc 437-446): successive
    or-expressions are or-ed, left to right. -/
def queryLoop (exprOf : String → Option Pred) (ctx : Ctx) (lim : Option Pred) (toks : List Tok) : PRes :=
  match parseOr exprOf ctx toks with
  | .error e => .error e
  | .ok (none, r) => .ok (lim, r)
  | .ok (some nx, r) =>
    let lim' := match lim with
      | none => nx
      | some l => .or l nx
    if r.length < toks.length then queryLoop exprOf ctx (some lim') r else .error .internal
termination_by toks.length * 8 + 6

/-- parse_query_expr with `subexpression = true` (and the first half of the
    top-level call). -/
def parseQuery (exprOf : String → Option Pred) (ctx : Ctx) (toks : List Tok) : PRes :=
  queryLoop exprOf ctx none toks
termination_by toks.length * 8 + 7

end

/-- what parse_query_expr leaves in `query_map` (query.h 238-246). -/
structure Parsed where
  limit : Option Pred := none
  show_ : Option Pred := none
  only  : Option Pred := none
  bold  : Option Pred := none
  period : Bool := false     -- a `for` / `since` / `until` section follows (not modelled further)
deriving DecidableEq, Repr

/-- std::map::insert keeps the first value of a key. -/
def insertFirst (old new : Option Pred) : Option Pred :=
  match old with
  | some o => some o
  | none => new

/-- the section loop of parse_query_expr (query.cc 454-544). -/
def sections (exprOf : String → Option Pred) (acc : Parsed) (toks : List Tok) : Except QErr Parsed :=
  match toks with
  | [] => .ok acc
  | .lexErr e :: _ => .error e
  | t :: rest =>
    if t = .tshow ∨ t = .tonly ∨ t = .tbold then
      match queryLoop exprOf Ctx.account none rest with
      | .error e => .error e
      | .ok (node, r) =>
        let acc' := if t = .tshow then { acc with show_ := insertFirst acc.show_ node }
                    else if t = .tonly then { acc with only := insertFirst acc.only node }
                    else { acc with bold := insertFirst acc.bold node }
        if r.length ≤ rest.length then sections exprOf acc' r else .error .internal
    else if t = .tfor ∨ t = .tsince ∨ t = .tuntil then .ok { acc with period := true }
    else .ok acc
termination_by toks.length
decreasing_by simp only [List.length_cons]; omega

/-- query_t::parse_args on a command-line argument list: every `query_map` entry. -/
def parseAll (exprOf : String → Option Pred) (args : List String) : Except QErr Parsed :=
  let toks := lexArgs (args.map String.toList)
  match parseQuery exprOf Ctx.account toks with
  | .error e => .error e
  | .ok (lim, r) => sections exprOf { limit := lim } r

/-- The limit predicate of a command-line query (`none`: the arguments give none). -/
def parse (exprOf : String → Option Pred) (args : List String) : Except QErr (Option Pred) :=
  match parseAll exprOf args with
  | .ok p => .ok p.limit
  | .error e => .error e

/-! ### Query trees and their canonical rendering -/

/-- context prefixes that have a token (`@ # = %`); `account` has none. -/
inductive QCtx | payee | code | note | tags
deriving DecidableEq, Repr

def QCtx.toCtx : QCtx → Ctx
  | .payee => .payee | .code => .code | .note => .note | .tags => .tags

/-- the single-character argument that switches context. -/
def QCtx.arg : QCtx → String
  | .payee => "@" | .code => "#" | .note => "=" | .tags => "%"

/-- Query trees: the surface syntax of command-line queries. -/
inductive Q
  | term (pat : String)                          -- a pattern in the ambient context
  | tag (name : String) (val : Option String)    -- `%name` / `%name=value`
  | expr (text : String)                         -- `expr TEXT`
  | ctx (c : QCtx) (q : Q)                       -- `@ q`, `# q`, `= q`, `% q`
  | not (q : Q)
  | and (a b : Q)
  | or (a b : Q)
  | juxt (a b : Q)                               -- `a b`
deriving DecidableEq, Repr

/-- the predicate a query tree denotes in an ambient context. -/
def Q.toPred (exprOf : String → Option Pred) (ctx : Ctx) : Q → Option Pred
  | .term pat =>
    match ctx with
    | .account => some (.matchF .account pat)
    | .payee => some (.matchF .payee pat)
    | .code => some (.matchF .code pat)
    | .note => some (.matchF .note pat)
    | .tags => some (.hasTag pat none)
    | .expr => exprOf pat
  | .tag n v => some (.hasTag n v)
  | .expr t => exprOf t
  | .ctx c q => q.toPred exprOf c.toCtx
  | .not q => (q.toPred exprOf ctx).map .not
  | .and a b =>
    match a.toPred exprOf ctx, b.toPred exprOf ctx with
    | some x, some y => some (.and x y)
    | _, _ => none
  | .or a b =>
    match a.toPred exprOf ctx, b.toPred exprOf ctx with
    | some x, some y => some (.or x y)
    | _, _ => none
  | .juxt a b =>
    match a.toPred exprOf ctx, b.toPred exprOf ctx with
    | some x, some y => some (.or x y)
    | _, _ => none

/-- The meaning of a query tree on a posting, stated directly: a pattern is
    matched against the field its context names, `%` asks for a tag, juxtaposed
    terms and `or` are alternatives, `and` needs both, `not` negates; operands
    are looked at left to right and only as far as needed. -/
def Q.eval (m : Matcher) (exprOf : String → Option Pred) (ctx : Ctx) (c : PostCtx) : Q → Option (Except EvalErr Bool)
  | .term pat =>
    match ctx with
    | .account => some (.ok (m pat c.post.account))
    | .payee => some (.ok (m pat c.xact.payee))
    | .code => some (.ok (m pat c.xact.code))
    | .note => some (.ok (m pat c.note))
    | .tags => some (.ok (c.hasTag m pat none))
    | .expr => (exprOf pat).map (fun p => evalPred m p c)
  | .tag n v => some (.ok (c.hasTag m n v))
  | .expr t => (exprOf t).map (fun p => evalPred m p c)
  | .ctx k q => q.eval m exprOf k.toCtx c
  | .not q => (q.eval m exprOf ctx c).map (fun r => r.map (!·))
  | .and a b =>
    match a.eval m exprOf ctx c, b.eval m exprOf ctx c with
    | some ra, some rb =>
      some (match ra with
            | .ok true => rb
            | .ok false => .ok false
            | .error e => .error e)
    | _, _ => none
  | .or a b =>
    match a.eval m exprOf ctx c, b.eval m exprOf ctx c with
    | some ra, some rb =>
      some (match ra with
            | .ok true => .ok true
            | .ok false => rb
            | .error e => .error e)
    | _, _ => none
  | .juxt a b =>
    match a.eval m exprOf ctx c, b.eval m exprOf ctx c with
    | some ra, some rb =>
      some (match ra with
            | .ok true => .ok true
            | .ok false => rb
            | .error e => .error e)
    | _, _ => none

/-- binding strength of the outermost construct: juxtaposition 0, `or` 1,
    `and` 2, `not` 3, a term 4. -/
def Q.level : Q → Nat
  | .juxt _ _ => 0
  | .or _ _ => 1
  | .and _ _ => 2
  | .not _ => 3
  | _ => 4

/-- canonical token sequence of a query tree at binding strength `p`, with the
    fewest parentheses the grammar allows (operators associate to the left; `not`
    and the context prefixes take a term). -/
def Q.toks (p : Nat) : Q → List Tok
  | .term pat => [.term pat.toList]
  | .tag n none => [.ctx .tags, .term n.toList]
  | .tag n (some v) => [.ctx .tags, .term n.toList, .teq, .term v.toList]
  | .expr t => [.ctx .expr, .term t.toList]
  | .ctx c q => .ctx c.toCtx :: q.toks 4
  | .not q => if p ≤ 3 then .tnot :: q.toks 4 else .lparen :: (.tnot :: q.toks 4) ++ [.rparen]
  | .and a b =>
    if p ≤ 2 then a.toks 2 ++ .tand :: b.toks 3
    else .lparen :: (a.toks 2 ++ .tand :: b.toks 3) ++ [.rparen]
  | .or a b =>
    if p ≤ 1 then a.toks 1 ++ .tor :: b.toks 2
    else .lparen :: (a.toks 1 ++ .tor :: b.toks 2) ++ [.rparen]
  | .juxt a b =>
    if p = 0 then a.toks 0 ++ b.toks 1
    else .lparen :: (a.toks 0 ++ b.toks 1) ++ [.rparen]

/-- the same as command-line arguments: one argument per token, except that a
    tag term is written `%name` / `%name=value` in one argument. -/
def Q.args (p : Nat) : Q → List String
  | .term pat => [pat]
  | .tag n none => ["%" ++ n]
  | .tag n (some v) => ["%" ++ n ++ "=" ++ v]
  | .expr t => ["expr", t]
  | .ctx c q => c.arg :: q.args 4
  | .not q => if p ≤ 3 then "not" :: q.args 4 else "(" :: ("not" :: q.args 4) ++ [")"]
  | .and a b =>
    if p ≤ 2 then a.args 2 ++ "and" :: b.args 3
    else "(" :: (a.args 2 ++ "and" :: b.args 3) ++ [")"]
  | .or a b =>
    if p ≤ 1 then a.args 1 ++ "or" :: b.args 2
    else "(" :: (a.args 1 ++ "or" :: b.args 2) ++ [")"]
  | .juxt a b =>
    if p = 0 then a.args 0 ++ b.args 1
    else "(" :: (a.args 0 ++ b.args 1) ++ [")"]

/-- a pattern the lexer returns as one TERM when it stands alone in (the rest
    of) an argument: not empty, no stop character or backslash, not starting
    with a quote or a blank, not a keyword. -/
def plainPat (s : String) : Bool :=
  match s.toList with
  | [] => false
  | c :: cs =>
    !isQuote c && !isSpace c && (c :: cs).all (fun x => !isStop x && x ≠ '\\') &&
    (Gen.queryKeywords.find? (fun kv => kv.1.toList = c :: cs)).isNone

/-- the argument of `expr`: taken whole, unless it opens with a quote. -/
def plainExprText (s : String) : Bool :=
  match s.toList with
  | [] => false
  | c :: _ => !isQuote c

/-- every pattern of the tree is plain and every `expr` text parses. -/
def Q.wf (exprOf : String → Option Pred) : Q → Bool
  | .term pat => plainPat pat
  | .tag n none => plainPat n
  | .tag n (some v) => plainPat n && plainPat v
  | .expr t => plainExprText t && (exprOf t).isSome
  | .ctx _ q => q.wf exprOf
  | .not q => q.wf exprOf
  | .and a b => a.wf exprOf && b.wf exprOf
  | .or a b => a.wf exprOf && b.wf exprOf
  | .juxt a b => a.wf exprOf && b.wf exprOf

end Query
end Ledger
