/-
Driver ops for C07 (one JSON field each; answers are TAB-separated):

  query.parse   {"args":[…], "exprs":{text: pred,…}}
                → ok <limit> <show> <only> <bold> <period 0|1>    (rendered predicates, "-" = none)
                | err <kind>
  query.canon   {"q": qtree, "exprs":{…}}
                → ok <json array of canonical arguments> <rendered predicate>  | err …
  query.render  {"pred": pred}                → ok <text>
  query.filter  {"journal": AST, "preds":[pred,…]}
                → ok r1;r2;…   with r = rows "/" error-or-"-", rows = line:num/den:comm joined by ","
  query.fields  {"journal": AST}
                → ok line|account|payee|code|note|cleared|pending|virtual|real|date  joined by ";"
  query.option  {"journal": AST, "opt": "begin"|"end"|"real"|…, "day": n}
                → ok <predicate text report.h builds> <rows>/<err>

pred   = {"k":"match","f":"account|payee|code|note","p":pat} | {"k":"tag","t":name,"v":value|null}
       | {"k":"cmp","s":"amount|date","op":"eq|lt|le|gt|ge","amt":{q,prec,comm} | "date":n}
       | {"k":"flag","f":name} | {"k":"not","a":pred} | {"k":"and","a":pred,"b":pred} | {"k":"or",…}
qtree  = {"k":"term","p":pat} | {"k":"tag","t":name,"v":value|null} | {"k":"expr","t":text}
       | {"k":"ctx","c":"payee|code|note|meta","a":qtree} | {"k":"not","a":…} | {"k":"and"|"or"|"juxt","a":…,"b":…}
journal AST = tools/jgen.py's, postings/transactions optionally carrying "tags": [[name, value|null],…]
(in the order of ledger's metadata map).  The matcher is `substrMatcher`.
-/
import LedgerModel.Model.QueryParse

namespace Ledger
namespace QueryProto
open Lean (Json)
open Query

def fieldOf (s : String) : Option Field :=
  if s = "account" then some .account else if s = "payee" then some .payee
  else if s = "code" then some .code else if s = "note" then some .note else none

def opOf (s : String) : Option CmpOp :=
  if s = "eq" then some .eq else if s = "lt" then some .lt else if s = "le" then some .le
  else if s = "gt" then some .gt else if s = "ge" then some .ge else none

def optStr (j : Json) (k : String) : Option (Option String) :=
  match j.getObjVal? k with
  | .ok .null => some none
  | .ok (.str s) => some (some s)
  | .ok _ => none
  | .error _ => some none

def predN? : Nat → Json → Option Pred
  | 0, _ => none
  | n + 1, j => do
  let pred? := predN? n
  let k ← J.str? j "k"
  if k = "match" then
    pure (.matchF (← fieldOf (← J.str? j "f")) (← J.str? j "p"))
  else if k = "tag" then
    pure (.hasTag (← J.str? j "t") (← optStr j "v"))
  else if k = "cmp" then
    let s ← (fun (x : String) => if x = "amount" then some Subj.amount else if x = "date" then some Subj.date else none) (← J.str? j "s")
    let op ← opOf (← J.str? j "op")
    match J.obj? j "amt" with
    | some a => pure (.cmp s op (.amt (← J.amount? a)))
    | none => pure (.cmp s op (.date (← J.int? j "date")))
  else if k = "flag" then
    pure (.flag (← flagOfChars (← J.str? j "f").toList))
  else if k = "not" then
    pure (.not (← pred? (← J.obj? j "a")))
  else if k = "and" then
    pure (.and (← pred? (← J.obj? j "a")) (← pred? (← J.obj? j "b")))
  else if k = "or" then
    pure (.or (← pred? (← J.obj? j "a")) (← pred? (← J.obj? j "b")))
  else none

def pred? (j : Json) : Option Pred := predN? 64 j

def qctxOf (s : String) : Option QCtx :=
  if s = "payee" then some .payee else if s = "code" then some .code
  else if s = "note" then some .note else if s = "meta" then some .tags else none

def qtreeN? : Nat → Json → Option Q
  | 0, _ => none
  | n + 1, j => do
  let qtree? := qtreeN? n
  let k ← J.str? j "k"
  if k = "term" then pure (.term (← J.str? j "p"))
  else if k = "tag" then pure (.tag (← J.str? j "t") (← optStr j "v"))
  else if k = "expr" then pure (.expr (← J.str? j "t"))
  else if k = "ctx" then pure (.ctx (← qctxOf (← J.str? j "c")) (← qtree? (← J.obj? j "a")))
  else if k = "not" then pure (.not (← qtree? (← J.obj? j "a")))
  else if k = "and" then pure (.and (← qtree? (← J.obj? j "a")) (← qtree? (← J.obj? j "b")))
  else if k = "or" then pure (.or (← qtree? (← J.obj? j "a")) (← qtree? (← J.obj? j "b")))
  else if k = "juxt" then pure (.juxt (← qtree? (← J.obj? j "a")) (← qtree? (← J.obj? j "b")))
  else none

def qtree? (j : Json) : Option Q := qtreeN? 64 j

/-- the `exprs` table: text ↦ predicate (the value-expression parser, a parameter of the model). -/
def exprTable? (j : Json) : Option (List (String × Pred)) :=
  match j.getObjVal? "exprs" with
  | .ok (.obj kvs) => optAll (fun (kv : String × Json) => (pred? kv.2).map (fun p => (kv.1, p))) (kvs.toList.map (fun ⟨a, b⟩ => (a, b)))
  | .ok .null => some []
  | .ok _ => none
  | .error _ => some []

def exprOfTable (t : List (String × Pred)) (s : String) : Option Pred :=
  (t.find? (fun kv => kv.1 = s)).map (·.2)

def errKind : QErr → String
  | .emptyArg => "assert"
  | .backslashAtEnd => "backslash-at-end"
  | .unterminated _ => "unterminated"
  | .emptyPattern => "empty-pattern"
  | .opNoArg s => "op-no-arg:" ++ s
  | .missingParen => "missing-paren"
  | .metaEqNoTerm => "meta-eq-no-term"
  | .badExpr _ => "bad-expr"
  | .unknownToken n => "unknown-token:" ++ n
  | .internal => "internal"

def showOpt (p : Option Pred) : String :=
  match p with
  | some x => render x
  | none => "-"

def strArr? (j : Json) (k : String) : Option (List String) := do
  let a ← J.arr? j k
  optAll (fun (x : Json) => match x with | .str s => some s | _ => none) a

def opParse (args : List String) : String :=
  match args with
  | [s] =>
    match J.parse? s with
    | none => "err\tbad-json"
    | some j =>
      match strArr? j "args", exprTable? j with
      | some as, some t =>
        match parseAll (exprOfTable t) as with
        | .ok p => s!"ok\t{showOpt p.limit}\t{showOpt p.show_}\t{showOpt p.only}\t{showOpt p.bold}\t{boolStr p.period}"
        | .error e => "err\t" ++ errKind e
      | _, _ => "err\tbad-json"
  | _ => "err\tbad-op"

def opCanon (args : List String) : String :=
  match args with
  | [s] =>
    match J.parse? s with
    | none => "err\tbad-json"
    | some j =>
      match (J.obj? j "q").bind qtree?, exprTable? j with
      | some q, some t =>
        if q.wf (exprOfTable t) then
          match q.toPred (exprOfTable t) .account with
          | some p => s!"ok\t{(Json.arr ((q.args 0).map Json.str).toArray).compress}\t{render p}"
          | none => "err\tno-pred"
        else "err\tnot-wf"
      | _, _ => "err\tbad-json"
  | _ => "err\tbad-op"

def opRender (args : List String) : String :=
  match args with
  | [s] =>
    match (J.parse? s).bind (fun j => (J.obj? j "pred").bind pred?) with
    | some p => "ok\t" ++ render p
    | none => "err\tbad-json"
  | _ => "err\tbad-op"

def tags? (j : Json) : Option Tags :=
  match j.getObjVal? "tags" with
  | .ok (.arr a) =>
    optAll (fun (x : Json) =>
      match x with
      | .arr #[.str k, .str v] => some (k, some v)
      | .arr #[.str k, .null] => some (k, none)
      | _ => none) a.toList
  | .ok .null => some []
  | .ok _ => none
  | .error _ => some []

/-- every posting of the journal bound to its transaction, in file order. -/
def ctxs? (j : Json) : Option (List PostCtx) := do
  let xs ← J.arr? j "xacts"
  let per ← optAll (fun (xj : Json) => do
    let x ← J.xact? xj
    let xt ← tags? xj
    let pjs ← J.arr? xj "posts"
    let pts ← optAll tags? pjs
    pure ((x.posts.zip pts).map (fun (pp : Posting × Tags) =>
      ({ post := pp.1, xact := x, tags := pp.2, xtags := xt } : PostCtx)))) xs
  pure per.flatten

def rowStr (c : PostCtx) : String :=
  match c.post.amount with
  | some a => s!"{c.post.line}:{ratStr a.q}:{a.comm}"
  | none => s!"{c.post.line}:0/1:"

def resStr (r : List PostCtx × Option EvalErr) : String :=
  ",".intercalate (r.1.map rowStr) ++ "/" ++ (match r.2 with | some _ => "cannot-compare" | none => "-")

def opFilter (args : List String) : String :=
  match args with
  | [s] =>
    match J.parse? s with
    | none => "err\tbad-json"
    | some j =>
      match (J.obj? j "journal").bind ctxs?, (J.arr? j "preds").bind (optAll pred?) with
      | some cs, some ps =>
        "ok\t" ++ ";".intercalate (ps.map (fun p => resStr (filterPosts substrMatcher p cs)))
      | _, _ => "err\tbad-json"
  | _ => "err\tbad-op"

def opFields (args : List String) : String :=
  match args with
  | [s] =>
    match (J.parse? s).bind (fun j => (J.obj? j "journal").bind ctxs?) with
    | some cs =>
      "ok\t" ++ ";".intercalate (cs.map (fun c =>
        s!"{c.post.line}|{c.field .account}|{c.field .payee}|{c.field .code}|{(c.field .note).replace "\n" "\\n"}|" ++
        s!"{boolStr (c.flag .cleared)}|{boolStr (c.flag .pending)}|{boolStr (c.flag .virtual)}|{boolStr (c.flag .real)}|{c.date}"))
    | none => "err\tbad-json"
  | _ => "err\tbad-op"

def opOption (args : List String) : String :=
  match args with
  | [s] =>
    match J.parse? s with
    | none => "err\tbad-json"
    | some j =>
      match (J.obj? j "journal").bind ctxs?, J.str? j "opt" with
      | some cs, some opt =>
        let day := (J.int? j "day").getD 0
        let pt : Option (Pred × String) :=
          if opt = "begin" then (beginPred day).map (fun p => (p, beginText day))
          else if opt = "end" then (endPred day).map (fun p => (p, endText day))
          else (optionPred opt).bind (fun p => (Gen.limitOptions.find? (fun kv => kv.1 = opt)).map (fun kv => (p, kv.2)))
        match pt with
        | some (p, t) => s!"ok\t{t}\t{resStr (filterPosts substrMatcher p cs)}"
        | none => "err\tunknown-option"
      | _, _ => "err\tbad-json"
  | _ => "err\tbad-op"

def ops : List (String × (List String → String)) :=
  [("query.parse", opParse), ("query.canon", opCanon), ("query.render", opRender),
   ("query.filter", opFilter), ("query.fields", opFields), ("query.option", opOption)]

end QueryProto
end Ledger
