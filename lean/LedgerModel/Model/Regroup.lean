/-
Model of ledger's sorting, truncating and regrouping posting handlers
(filters.cc / filters.h / compare.cc / value.cc, stacked by chain.cc 108-273):

  sort_posts        filters.cc 154-165   std::stable_sort with compare_items<post_t>
  compare_items     compare.cc 42-113    push_sort_value (O_CONS list, O_NEG = inverted, `.simplified()`),
                                         sort_value_is_less_than value.cc 2194-2224
  truncate_xacts    filters.cc 86-152    --head / --tail
  collapse_posts    filters.cc 399-489   --collapse / --depth N (totals map ordered by account fullname, filters.h 431-438)
  sort_xacts        filters.h 279-323    --sort-xacts (sort_posts applied to each transaction)
  subtotal_posts    filters.cc 839-938   --subtotal (values map keyed by account fullname, filters.h 684)
  by_payee_posts    filters.cc 1143-1170 --by-payee (std::map<string, subtotal_posts>, filters.h 833)
  day_of_week_posts filters.cc 1221-1231, filters.h 918-920   --dow
  calc_posts        filters.cc 288-318   running total

Data flow for `reg` (chain.cc builds the chain back to front): limit filter →
dow | by-payee → subtotal → collapse → sort | sort-xacts → calc (running total)
→ truncate → format; any subset of these may be present (`Opts`, `report`).
A posting handed from one handler to the next is an `RPost`; `xid` stands for
the `xact_t *` the C++ compares (`post->xact`).

Valuation: `value` is what the report's amount expression (`amount_expr`, e.g.
`rounded(cost)` under -B) yields for the posting; calc_posts and
collapse_posts accumulate it (post_t::add_to_value), while subtotal_posts
accumulates the raw `post.amount` – or the compound value of a
posting handed down by another subtotalling handler (filters.cc 907-909).  Every theorem holds for
every assignment of `value`s.

The comparison operators of the truncation window, the sort algorithm and the
`.simplified()` of sort keys are read from the source (Gen/Regroup.lean).
Core Lean only.
-/
import LedgerModel.Model.Journal
import LedgerModel.Model.Calendar
import LedgerModel.Gen.Regroup

namespace Ledger
namespace Regroup

open Gen.Regroup (Cmp)

/-- A posting as the report handlers see it. -/
structure RPost where
  line    : Nat      -- `beg_line` of the posting (0 for a generated one)
  xid     : Nat      -- identity of `post->xact` (first line of the transaction)
  date    : Int      -- `post.date()`, days since 1970-01-01
  payee   : String   -- `post.payee()`
  account : String   -- `reported_account()->fullname()`
  virt    : Bool     -- POST_VIRTUAL (both `(A)` and `[A]`)
  amount  : Value    -- `post.amount` of a journal posting (`.amt`), or the compound value (`.bal`) of a generated one
  value   : Value    -- the amount expression evaluated on the posting (= `amount` unless a valuation such as -B is active)
  vdate   : Int      -- `post.value_date()`: the date, or the latest date of the group a generated posting stands for
deriving DecidableEq, Repr

/-! ### The plain register: limit predicate, calc_posts -/

/-- the parts of the limit predicate used with the regrouping options:
    `--real`, `--cleared`, and an account regex that is a plain word
    (case-insensitive substring search). -/
structure Filter where
  real    : Bool := false
  cleared : Bool := false
  acct    : String := ""
deriving Repr

/-- textual.cc 1482-1484: a posting without its own mark takes the transaction's. -/
def effState (x : Xact) (p : Posting) : ItemState :=
  if p.state = 0 ∧ x.state ≠ 0 then x.state else p.state

def containsCI (s pat : String) : Bool :=
  pat.isEmpty || (s.toLower.splitOn pat.toLower).length > 1

def Filter.pass (f : Filter) (x : Xact) (p : Posting) : Bool :=
  (!f.real || p.kind = .real) && (!f.cleared || effState x p = 1) && containsCI p.account f.acct

/-- postings of one transaction that pass the limit predicate (elided amounts
    are not modelled here: the driver refuses them). -/
def xactPosts (f : Filter) (x : Xact) : List RPost :=
  x.posts.filterMap (fun p =>
    match p.amount with
    | some a =>
      if f.pass x p then
        some { line := p.line, xid := x.line, date := x.date, payee := x.payee, account := p.account,
               virt := p.kind ≠ .real, amount := .amt a, value := .amt a, vdate := x.date }
      else none
    | none => none)

def plainPosts (f : Filter) (j : Journal) : List RPost := j.xacts.flatMap (xactPosts f)

/-- `add_or_set_value` (value.h): set when null, else `+=`.  The error cells of
    `Value.add` are not reachable from amounts and balances (`vplus_ok`). -/
def vplus (a b : Value) : Value :=
  match Value.add a b with
  | .ok v => v
  | .error _ => a

/-- calc_posts::operator() (filters.cc 288-318): `xdata.total = last total; total += amount`. -/
def runTotals : Value → List RPost → List (RPost × Value)
  | _, [] => []
  | t, p :: ps => (p, vplus t p.value) :: runTotals (vplus t p.value) ps

def register (ps : List RPost) : List (RPost × Value) := runTotals .void ps

/-- sum of the values of a posting list, accumulated like every handler does. -/
def sumValue (ps : List RPost) : Value := ps.foldl (fun v p => vplus v p.value) .void

/-! ### Sorting -/

inductive KeyField | date | payee | account | amount
deriving DecidableEq, Repr

structure SortKey where
  field    : KeyField
  inverted : Bool          -- O_NEG at the top of the key expression (compare.cc 55-58)
deriving DecidableEq, Repr

/-- value of a sort key: the numeric lattice of `Value`, a date, or a string. -/
inductive SortVal
  | num (v : Value)
  | date (d : Int)
  | str (s : String)
deriving DecidableEq, Repr

/-- compare.cc 62: `expr_t(node).calc(scope).simplified()`. -/
def keyVal (k : KeyField) (p : RPost) : SortVal :=
  match k with
  | .date => .date p.date
  | .payee => .str p.payee
  | .account => .str p.account
  | .amount => .num (if Gen.Regroup.sortKeySimplified then p.amount.simplify else p.amount)

def sortVals (ks : List SortKey) (p : RPost) : List (SortVal × Bool) :=
  ks.map (fun k => (keyVal k.field p, k.inverted))

/-- `value_t::operator<` on sort values; an error cell ("Cannot compare") is `false`. -/
def svLt : SortVal → SortVal → Bool
  | .num a, .num b => match Value.lt a b with
    | .ok r => r
    | .error _ => false
  | .date a, .date b => decide (a < b)
  | .str a, .str b => decide (a < b)
  | _, _ => false

def SortVal.isBal : SortVal → Bool
  | .num (.bal _) => true
  | _ => false

/-- sort_value_is_less_than (value.cc 2194-2224).  `a > b` on two `value_t`s is
    boost::operators' `b < a` (the non-template friend wins over value_t's member
    template), so mixed commodities do not throw. -/
def sortValueLess : List (SortVal × Bool) → List (SortVal × Bool) → Bool
  | l :: ls, r :: rs =>
    if !l.1.isBal && !r.1.isBal then
      if svLt l.1 r.1 then !l.2
      else if svLt r.1 l.1 then l.2
      else sortValueLess ls rs
    else sortValueLess ls rs
  | _, _ => false

/-- compare_items<post_t>::operator() (compare.cc 76-104). -/
def postLess (ks : List SortKey) (a b : RPost) : Bool :=
  sortValueLess (sortVals ks a) (sortVals ks b)

/-- A stable sort driven by a strict comparison `less` (std::stable_sort's
    contract): `a` stays in front of `b` unless `less b a`. -/
def sortBy {α : Type} (less : α → α → Bool) (l : List α) : List α :=
  l.mergeSort (fun a b => !less b a)

/-- sort_posts::post_accumulated_posts. -/
def sortPosts (ks : List SortKey) (l : List RPost) : List RPost := sortBy (postLess ks) l

/-! ### Transaction groups -/

/-- put `p` in front of a list of runs -/
def consRun {α : Type} (xid : α → Nat) (p : α) : List (List α) → List (List α)
  | (q :: g) :: gs => if xid p = xid q then (p :: q :: g) :: gs else [p] :: (q :: g) :: gs
  | [] :: gs => [p] :: gs
  | [] => [[p]]

/-- maximal runs of consecutive postings of the same transaction: what every
    handler that watches `post->xact` change sees as "a transaction". -/
def runs {α : Type} (xid : α → Nat) : List α → List (List α)
  | [] => []
  | p :: ps => consRun xid p (runs xid ps)

/-- sort_xacts (filters.h 279-323): the sorter is flushed at every change of
    `post.xact`, so each transaction is sorted by itself. -/
def sortXacts (ks : List SortKey) (l : List RPost) : List RPost :=
  (runs (fun p : RPost => p.xid) l).flatMap (sortPosts ks)

/-! ### truncate_xacts (--head / --tail)
Generic in the item type: in the chain the handler sits behind calc_posts, so
its items are postings that already carry their running total. -/

/-- the `print` decision of truncate_xacts::flush (filters.cc 110-123) for the
    `i`-th of `l` transactions. -/
def truncPrint (head tail l i : Int) : Bool :=
  let byHead :=
    if head ≠ 0 then
      if head > 0 ∧ Gen.Regroup.truncHeadPos.eval i head then true
      else if head < 0 ∧ Gen.Regroup.truncHeadNeg.eval i (-head) then true
      else false
    else false
  if byHead then true
  else if tail ≠ 0 then
    if tail > 0 ∧ Gen.Regroup.truncTailPos.eval (l - i) tail then true
    else if tail < 0 ∧ Gen.Regroup.truncTailNeg.eval (l - i) (-tail) then true
    else false
  else false

/-- first loop of flush (filters.cc 93-98): number of times `post->xact` changes. -/
def countChanges {α : Type} (xid : α → Nat) : Nat → List α → Nat
  | _, [] => 0
  | x, p :: ps => if x ≠ xid p then countChanges xid (xid p) ps + 1 else countChanges xid x ps

/-- second loop of flush (filters.cc 103-127). -/
def flushGo {α : Type} (xid : α → Nat) (head tail l : Int) : Nat → Int → List α → List α
  | _, _, [] => []
  | x, i, p :: ps =>
    let i' := if x ≠ xid p then i + 1 else i
    if truncPrint head tail l i' then p :: flushGo xid head tail l (xid p) i' ps
    else flushGo xid head tail l (xid p) i' ps

/-- truncate_xacts::flush. -/
def truncFlush {α : Type} (xid : α → Nat) (head tail : Int) (posts : List α) : List α :=
  match posts with
  | [] => []
  | p0 :: _ => flushGo xid head tail ((countChanges xid (xid p0) posts : Nat) + 1) (xid p0) 0 posts

structure TruncState (α : Type) where
  completed : Bool
  posts     : List α      -- arrival order
  xactsSeen : Nat
  lastXact  : Option Nat
  out       : List α

def TruncState.init {α : Type} : TruncState α :=
  { completed := false, posts := [], xactsSeen := 0, lastXact := none, out := [] }

/-- truncate_xacts::operator() (filters.cc 133-152). -/
def truncStep {α : Type} (xid : α → Nat) (head tail : Int) (st : TruncState α) (p : α) : TruncState α :=
  if st.completed then st
  else
    let seen := if st.lastXact ≠ some (xid p) then (if st.lastXact.isSome then st.xactsSeen + 1 else st.xactsSeen)
                else st.xactsSeen
    if tail = 0 ∧ head > 0 ∧ Gen.Regroup.truncEarlyStop.eval (seen : Nat) head then
      { completed := true, posts := [], xactsSeen := seen, lastXact := some (xid p),
        out := st.out ++ truncFlush xid head tail st.posts }
    else
      { completed := false, posts := st.posts ++ [p], xactsSeen := seen, lastXact := some (xid p), out := st.out }

/-- feed the postings, then the final flush(). -/
def truncRun {α : Type} (xid : α → Nat) (head tail : Int) : TruncState α → List α → List α
  | st, [] => st.out ++ truncFlush xid head tail st.posts
  | st, p :: ps => truncRun xid head tail (truncStep xid head tail st p) ps

def truncate {α : Type} (xid : α → Nat) (head tail : Int) (posts : List α) : List α :=
  truncRun xid head tail TruncState.init posts

/-! ### Keyed accumulation (std::map<string, …>) -/

/-- association list kept in ascending key order, as a std::map iterates. -/
abbrev AMap (V : Type) := List (String × V)

def AMap.get? {V : Type} : AMap V → String → Option V
  | [], _ => none
  | (k', v) :: rest, k => if k = k' then some v else AMap.get? rest k

/-- `insert` of an absent key: in front of the first greater key. -/
def AMap.insertSorted {V : Type} (k : String) (v : V) : AMap V → AMap V
  | [] => [(k, v)]
  | (k', v') :: rest =>
    if k < k' then (k, v) :: (k', v') :: rest else (k', v') :: AMap.insertSorted k v rest

/-- `find`, then update in place or `insert`. -/
def AMap.upd {V : Type} (k : String) (f : Option V → V) (m : AMap V) : AMap V :=
  match m.get? k with
  | some v => m.map (fun e => if e.1 = k then (e.1, f (some v)) else e)
  | none => m.insertSorted k (f none)

inductive RErr
  | virtMix     -- "'equity' cannot accept virtual and non-virtual postings to the same account"
  | nullAmount  -- "Cannot add an uninitialized amount to …" (a compound posting met an existing subtotal entry)
deriving DecidableEq, Repr

/-! ### subtotal_posts -/

/-- What `value_t amount(…)` (filters.cc 907-909) takes from a posting.  A posting
    generated by an upstream handler for a multi-commodity value carries that
    value in `xdata().compound_value` and its `post.amount` is a null amount:
    with `readsCompound` the compound value is taken, without it (the code before
    the fix 08839e9) the null amount, here `none`. -/
def subAmtWith (readsCompound : Bool) (p : RPost) : Option Value :=
  if readsCompound then some p.amount
  else match p.amount with
    | .bal _ => none
    | .int _ => none      -- the 0 a null-amount entry is reported as (such a posting's `post.amount` is null again)
    | v => some v

/-- … as the source reads it now (Gen.Regroup.subtotalReadsCompound) -/
def subAmt (p : RPost) : Option Value := subAmtWith Gen.Regroup.subtotalReadsCompound p

structure AcctVal where
  value : Value
  virt  : Bool
  null  : Bool      -- the entry holds a null amount
deriving Repr

/-- the state of one subtotal_posts object: `values` and `component_posts`. -/
structure SubState where
  values : AMap AcctVal
  posts  : List RPost
deriving Repr

def SubState.empty : SubState := { values := [], posts := [] }

/-- filters.cc 907-926: a new entry holds the amount and the posting's
    virtual flag, an existing one is `add_or_set_value`d. -/
def acctStep (o : Option AcctVal) (p : RPost) : AcctVal :=
  match o with
  | none => { value := (subAmt p).getD (.int 0), virt := p.virt, null := (subAmt p).isNone }
  | some av =>
    -- a null amount cast to BALANCE is the empty balance (value.cc in_place_cast), so an amount can be added to it
    if av.null then { av with value := vplus (.bal []) ((subAmt p).getD (.int 0)), null := false }
    else { av with value := vplus av.value ((subAmt p).getD (.int 0)) }

/-- the "'equity' cannot accept virtual and non-virtual postings to the same
    account" test of filters.cc 920-923 -/
def virtClash (st : SubState) (p : RPost) : Bool :=
  match st.values.get? p.account with
  | some av => av.virt != p.virt
  | none => false

/-- `add_or_set_value` on an existing entry throws when the posting's amount is null
    ("Cannot add an uninitialized amount to a balance" / "… two uninitialized amounts") -/
def nullClash (st : SubState) (p : RPost) : Bool :=
  match st.values.get? p.account with
  | some _ => (subAmt p).isNone
  | none => false

/-- subtotal_posts::operator() (filters.cc 895-938). -/
def SubState.add (st : SubState) (p : RPost) : Except RErr SubState :=
  if virtClash st p then .error .virtMix
  else if nullClash st p then .error .nullAmount
  else .ok { values := st.values.upd p.account (fun o => acctStep o p), posts := st.posts ++ [p] }

def SubState.addAll : SubState → List RPost → Except RErr SubState
  | st, [] => .ok st
  | st, p :: ps => do
    let st' ← st.add p
    st'.addAll ps

def minDate : List RPost → Int
  | [] => 0
  | [p] => p.date
  | p :: ps => min p.date (minDate ps)

/-- latest `value_date()` -/
def maxDate : List RPost → Int
  | [] => 0
  | [p] => p.vdate
  | p :: ps => max p.vdate (maxDate ps)

/-- subtotal_posts::report_subtotal (filters.cc 839-893): one generated posting
    per entry of `values`, in key order, all of one fresh temporary transaction
    (`xid`); nothing when no posting was seen.  A null-amount entry reads as 0
    (post.cc get_amount).  The generated posting is virtual when the account
    has seen no non-virtual posting at all (`hasReal`: the ACCOUNT_EXT_HAS_NON_VIRTUALS
    flag lives on the account, filters.cc 339-346, 932-937). -/
def SubState.report (st : SubState) (payee : String) (xid : Nat) (hasReal : String → Bool) : List RPost :=
  if st.posts.isEmpty then []
  else st.values.map (fun kv =>
    { line := 0, xid := xid, date := minDate st.posts, payee := payee, account := kv.1,
      virt := !hasReal kv.1, amount := kv.2.value, value := kv.2.value, vdate := maxDate st.posts })

/-- some posting to the account is not virtual -/
def hasRealIn (posts : List RPost) (a : String) : Bool := posts.any (fun p => p.account = a && !p.virt)

def pad2 (n : Int) : String :=
  let s := toString (n % 100).toNat
  if s.length < 2 then "0" ++ s else s

def monthAbbr (m : Int) : String :=
  ["Jan", "Feb", "Mar", "Apr", "May", "Jun", "Jul", "Aug", "Sep", "Oct", "Nov", "Dec"].getD (m - 1).toNat "?"

/-- format_date(d, FMT_PRINTED): "%y-%b-%d". -/
def fmtPrinted (d : Int) : String :=
  let (y, m, dd) := Cal.toYMD d
  pad2 y ++ "-" ++ monthAbbr m ++ "-" ++ pad2 dd

def dayName (i : Int) : String :=
  ["Sunday", "Monday", "Tuesday", "Wednesday", "Thursday", "Friday", "Saturday"].getD i.toNat "?"

/-- `--subtotal`: every posting into one subtotal_posts, reported at flush. -/
def subtotal (posts : List RPost) : Except RErr (List RPost) := do
  let st ← SubState.empty.addAll posts
  pure (st.report ("- " ++ fmtPrinted (maxDate st.posts)) 0 (hasRealIn posts))

/-! ### by_payee_posts -/

/-- by_payee_posts::operator(): one subtotal_posts per payee, in a std::map. -/
def byPayeeAdd (m : AMap SubState) (p : RPost) : Except RErr (AMap SubState) :=
  match (match m.get? p.payee with
         | some st => st
         | none => SubState.empty).add p with
  | .ok st' => .ok (m.upd p.payee (fun _ => st'))
  | .error e => .error e

def byPayeeAll : AMap SubState → List RPost → Except RErr (AMap SubState)
  | m, [] => .ok m
  | m, p :: ps => do
    let m' ← byPayeeAdd m p
    byPayeeAll m' ps

def amapKeys {V : Type} (m : AMap V) : List String := m.map (·.1)

/-- `--by-payee`: flush reports each payee's subtotal in key order, the payee
    text being the title; each report is a transaction of its own (numbered by
    the payee's position in the map). -/
def byPayee (posts : List RPost) : Except RErr (List RPost) := do
  let m ← byPayeeAll [] posts
  pure ((amapKeys m).flatMap (fun k =>
    ((m.get? k).getD SubState.empty).report k ((amapKeys m).idxOf k + 1) (hasRealIn posts)))

/-! ### day_of_week_posts -/

/-- filters.h 918-920: `days_of_the_week[post.date().day_of_week()].push_back(&post)`. -/
def dowBucket (i : Int) (posts : List RPost) : List RPost :=
  posts.filter (fun p => Cal.weekday p.date = i)

/-- day_of_week_posts::flush (filters.cc 1221-1231): for Sunday … Saturday, the
    bucket through subtotal_posts, reported with "%As" as a transaction of its own. -/
def dowDays (posts : List RPost) : List Int → Except RErr (List RPost)
  | [] => .ok []
  | i :: is => do
    let st ← SubState.empty.addAll (dowBucket i posts)
    let rest ← dowDays posts is
    -- the account flags are set while the buckets are fed, day after day
    pure (st.report (dayName i ++ "s") (i.toNat + 1) (hasRealIn (posts.filter (fun p => Cal.weekday p.date ≤ i))) ++ rest)

def dow (posts : List RPost) : Except RErr (List RPost) := dowDays posts [0, 1, 2, 3, 4, 5, 6]

/-! ### collapse_posts (--collapse, --depth N) -/

/-- ancestor of the account at depth ≤ n (find_totals, filters.cc 461-471). -/
def depthAccount (n : Nat) (a : String) : String := ":".intercalate ((a.splitOn ":").take n)

/-- key of the totals map for a posting. -/
def totalsKey (depth : Nat) (p : RPost) : String :=
  if depth = 0 then "<Total>" else depthAccount depth p.account

/-- `post.add_to_value(find_totals(post.account), amount_expr)`: a fresh map
    entry is a null value. -/
def totalsStep (o : Option Value) (p : RPost) : Value := vplus (o.getD .void) p.value

/-- accumulate one transaction's postings into the totals map. -/
def totalsOf (depth : Nat) (g : List RPost) : AMap Value :=
  g.foldl (fun m p => m.upd (totalsKey depth p) (fun o => totalsStep o p)) []

/-- handle_value (filters.cc 359-367): an INTEGER (or BOOLEAN) value is cast to an amount -/
def castInt : Value → Value
  | .int n => .amt (Amount.ofInt n)
  | v => v

/-- collapse_posts::report_subtotal (filters.cc 399-459) for one transaction
    `g`.  `passSingle`: with `--collapse` alone (display predicate
    `post|depth<=1`, true of every posting) a transaction with one displayed
    posting is passed through unchanged.  `σ` is the enumeration order of the
    totals map; the code now orders it by account fullname
    (`account_name_less`, filters.h 433-437), which is the order `AMap` keeps, so
    the report uses `σ = id`; the sums proved in Props/C17 hold for every `σ`. -/
def collapseGroup (depth : Nat) (passSingle : Bool) (σ : AMap Value → AMap Value) (g : List RPost) : List RPost :=
  match g.getLast? with
  | none => []
  | some lastp =>
    if depth = 0 ∧ passSingle ∧ g.length = 1 then [lastp]
    else (σ (totalsOf depth g)).map (fun kv =>
      { line := 0, xid := lastp.xid, date := minDate g, payee := lastp.payee, account := kv.1,
        virt := false, amount := castInt kv.2, value := castInt kv.2, vdate := maxDate g })

structure CollapseState where
  group : List RPost        -- component_posts
  out   : List RPost
deriving Repr

/-- collapse_posts::operator() (filters.cc 473-489): a change of `post.xact`
    reports what was accumulated. -/
def collapseStep (depth : Nat) (passSingle : Bool) (σ : AMap Value → AMap Value)
    (st : CollapseState) (p : RPost) : CollapseState :=
  match st.group.getLast? with
  | some q =>
    if q.xid ≠ p.xid then { group := [p], out := st.out ++ collapseGroup depth passSingle σ st.group }
    else { st with group := st.group ++ [p] }
  | none => { st with group := [p] }

/-- feed all postings, then flush() → report_subtotal(). -/
def collapse (depth : Nat) (passSingle : Bool) (σ : AMap Value → AMap Value) (posts : List RPost) : List RPost :=
  let st := posts.foldl (collapseStep depth passSingle σ) { group := [], out := [] }
  st.out ++ collapseGroup depth passSingle σ st.group

/-! ### the report -/

inductive Pre | none | dow | byPayee
deriving DecidableEq, Repr

/-- the options of this model, any subset of which may be given -/
structure Opts where
  pre      : Pre := .none                          -- --dow wins over --by-payee (chain.cc 221-224)
  subtotal : Bool := false
  collapse : Bool := false
  depth    : Option Nat := none
  sort     : Option (Bool × List SortKey) := none   -- (true = --sort-xacts, keys); --sort-all is --sort
  head     : Option Int := none
  tail     : Option Int := none
deriving Repr

/-- first regrouping stage: `--dow` or `--by-payee` -/
def preStage (o : Opts) (posts : List RPost) : Except RErr (List RPost) :=
  match o.pre with
  | .none => .ok posts
  | .dow => dow posts
  | .byPayee => byPayee posts

/-- second stage: `--subtotal` -/
def subStage (o : Opts) (s1 : List RPost) : Except RErr (List RPost) :=
  if o.subtotal then subtotal s1 else .ok s1

/-- third stage: collapse_posts, present under `--collapse` or `--depth N` (chain.cc 196-205) -/
def colStage (o : Opts) (s2 : List RPost) : List RPost :=
  if o.collapse ∨ o.depth.isSome then
    collapse (o.depth.getD 0) (o.collapse && o.depth.isNone) id s2
  else s2

/-- the regrouping stages in chain.cc's data-flow order: dow | by-payee, then
    subtotal, then collapse. -/
def regroup (o : Opts) (posts : List RPost) : Except RErr (List RPost) :=
  match preStage o posts with
  | .error e => .error e
  | .ok s1 =>
    match subStage o s1 with
    | .error e => .error e
    | .ok s2 => .ok (colStage o s2)

def sortStage (o : Opts) (l : List RPost) : List RPost :=
  match o.sort with
  | none => l
  | some (false, ks) => sortPosts ks l
  | some (true, ks) => sortXacts ks l

/-- truncate_xacts exists when either option is given; an absent count is 0 (chain.cc 135-141) -/
def truncStage (o : Opts) (rows : List (RPost × Value)) : List (RPost × Value) :=
  if o.head.isSome ∨ o.tail.isSome then
    truncate (fun r => r.1.xid) (o.head.getD 0) (o.tail.getD 0) rows
  else rows

/-- `reg` rows (posting, running total): regrouping → sort → calc → truncate. -/
def report (o : Opts) (posts : List RPost) : Except RErr (List (RPost × Value)) :=
  (regroup o posts).map (fun s => truncStage o (register (sortStage o s)))

end Regroup
end Ledger
