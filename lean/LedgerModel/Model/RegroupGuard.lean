/- Decidable guard of C17.sortValueLess_swo (Props/C17.lean): when is the
   comparison of compare_items known to be a strict weak order?  Kept in Model/
   so that the driver can report it (op regroup.swo). -/
import LedgerModel.Model.Regroup

namespace Ledger
namespace Regroup

/-- commodities of the non-zero commoditised amounts -/
def nonzeroComms : List RPost → List Comm
  | [] => []
  | p :: ps => match p.amount with
    | .amt x => if x.q ≠ 0 ∧ x.comm ≠ "" then x.comm :: nonzeroComms ps else nonzeroComms ps
    | _ => nonzeroComms ps

def allAmt (l : List RPost) : Bool := l.all (fun p => match p.amount with
  | .amt _ => true
  | _ => false)

/-- every amount is a single amount and the non-zero ones carry at most one commodity -/
def oneCommGuard (l : List RPost) : Bool :=
  allAmt l && (match nonzeroComms l with
    | [] => true
    | c :: cs => cs.all (fun d => d == c))

/-- every amount is a single non-zero amount with a commodity -/
def allCommGuard (l : List RPost) : Bool := l.all (fun p => match p.amount with
  | .amt x => decide (x.q ≠ 0) && decide (x.comm ≠ "")
  | _ => false)

/-- the guard of `C17.sortValueLess_swo`: no amount key, or amounts of one
    commodity (zeros allowed), or only non-zero commoditised amounts -/
def amountKeyGuard (ks : List SortKey) (l : List RPost) : Bool :=
  ks.all (fun k => k.field != .amount) || oneCommGuard l || allCommGuard l

end Regroup
end Ledger
