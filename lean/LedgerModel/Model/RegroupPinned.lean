/- Pinned copy of Gen/Regroup.lean: the source text this model was written against (hand-maintained; refresh with tools/repin.py together with the model). -/
namespace Ledger.Pinned.Regroup

/-- an integer comparison operator as written in the source -/
inductive Cmp | lt | le | gt | ge
deriving DecidableEq, Repr

def Cmp.eval : Cmp → Int → Int → Bool
  | .lt, a, b => decide (a < b)
  | .le, a, b => decide (a ≤ b)
  | .gt, a, b => decide (a > b)
  | .ge, a, b => decide (a ≥ b)

/-- filters.cc sort_posts::post_accumulated_posts: the algorithm applied to the posting deque. -/
def sortCall : String := "std::stable_sort"

/-- compare.cc push_sort_value: is the key value passed through `.simplified()` (a real-zero amount becomes INTEGER 0)? -/
def sortKeySimplified : Bool := true

/-- truncate_xacts::flush: `head_count > 0 && i ? head_count`. -/
def truncHeadPos : Cmp := .lt
/-- truncate_xacts::flush: `head_count < 0 && i ? - head_count`. -/
def truncHeadNeg : Cmp := .ge
/-- truncate_xacts::flush: `tail_count > 0 && l - i ? tail_count`. -/
def truncTailPos : Cmp := .le
/-- truncate_xacts::flush: `tail_count < 0 && l - i ? - tail_count`. -/
def truncTailNeg : Cmp := .gt
/-- truncate_xacts::operator(): `tail_count == 0 && head_count > 0 && xacts_seen ? head_count`. -/
def truncEarlyStop : Cmp := .ge

/-- subtotal_posts::operator(): the key used for both `values.find` and `values.insert`. -/
def subtotalKey : String := "acct->fullname()"
/-- subtotal_posts::operator(): what is accumulated (`value_t amount(...)`). -/
def subtotalAmount : String := "post.amount"
/-- filters.h container types (their iteration order orders the emitted rows). -/
def valuesMapType : String := "std::map<string,acct_value_t>"
def totalsMapType : String := "std::map<account_t*,value_t,account_name_less>"
def payeeMapType : String := "std::map<string,shared_ptr<subtotal_posts>>"
/-- filters.h day_of_week_posts::operator(): bucket index. -/
def dowIndex : String := "post.date().day_of_week()"

/-- order in which chain_post_handlers stacks the handlers (data flows through them in reverse). -/
def chainOrder : List String := ["filter_posts", "truncate_xacts", "display_filter_posts", "filter_posts", "changed_value_posts", "calc_posts", "filter_posts", "sort_xacts", "sort_posts", "collapse_posts", "posts_as_equity", "subtotal_posts", "day_of_week_posts", "by_payee_posts", "interval_posts", "transfer_details", "transfer_details", "transfer_details", "transfer_details", "related_posts", "inject_posts"]

/-- normalised text (comments, DEBUG lines and whitespace removed) of the functions the model mirrors. -/
def bodies : List (String × String) := [
  ("truncate_xacts::flush", "if (! posts.size()) return; xact_t * xact = (*posts.begin())->xact; int l = 0; foreach (post_t * post, posts) if (xact != post->xact) { l++; xact = post->xact; } l++; xact = (*posts.begin())->xact; int i = 0; foreach (post_t * post, posts) { if (xact != post->xact) { xact = post->xact; i++; } bool print = false; if (head_count) { if (head_count > 0 && i < head_count) print = true; else if (head_count < 0 && i >= - head_count) print = true; } if (! print && tail_count) { if (tail_count > 0 && l - i <= tail_count) print = true; else if (tail_count < 0 && l - i > - tail_count) print = true; } if (print) item_handler<post_t>::operator()(*post); } posts.clear(); item_handler<post_t>::flush();"),
  ("truncate_xacts::operator()", "if (completed) return; if (last_xact != post.xact) { if (last_xact) xacts_seen++; last_xact = post.xact; } if (tail_count == 0 && head_count > 0 && static_cast<int>(xacts_seen) >= head_count) { flush(); completed = true; return; } posts.push_back(&post);"),
  ("sort_posts::post_accumulated_posts", "std::stable_sort(posts.begin(), posts.end(), compare_items<post_t>(sort_order, report)); foreach (post_t * post, posts) { post->xdata().drop_flags(POST_EXT_SORT_CALC); item_handler<post_t>::operator()(*post); } posts.clear();"),
  ("collapse_posts::report_subtotal", "if (! count) return; std::size_t displayed_count = 0; foreach (post_t * post, component_posts) { bind_scope_t bound_scope(report, *post); if (only_predicate(bound_scope) && display_predicate(bound_scope)) displayed_count++; } if (collapse_depth == 0 && displayed_count == 1) { item_handler<post_t>::operator()(*last_post); } else if (only_collapse_if_zero && ! subtotal.is_zero()) { foreach (post_t * post, component_posts) item_handler<post_t>::operator()(*post); } else { date_t earliest_date; date_t latest_date; foreach (post_t * post, component_posts) { date_t date = post->date(); date_t value_date = post->value_date(); if (! is_valid(earliest_date) || date < earliest_date) earliest_date = date; if (! is_valid(latest_date) || value_date > latest_date) latest_date = value_date; } xact_t& xact = temps.create_xact(); xact.payee = last_xact->payee; xact._date = (is_valid(earliest_date) ? earliest_date : last_xact->_date); foreach (totals_map::value_type& pat, totals) { handle_value( pat.second, pat.first, &xact, temps, handler, latest_date, false); } } totals.clear(); component_posts.clear(); last_xact = NULL; last_post = NULL; subtotal = 0L; count = 0;"),
  ("collapse_posts::find_totals", "if (collapse_depth == 0) return totals[global_totals_account]; if (account->depth <= collapse_depth) return totals[account]; return find_totals(account->parent);"),
  ("collapse_posts::operator()", "if (last_xact != post.xact && count > 0) report_subtotal(); post.add_to_value(subtotal, amount_expr); post.add_to_value(find_totals(post.account), amount_expr); component_posts.push_back(&post); last_xact = post.xact; last_post = &post; count++;"),
  ("subtotal_posts::report_subtotal", "if (component_posts.empty()) return; optional<date_t> range_start = interval ? interval->start : none; optional<date_t> range_finish = interval ? interval->inclusive_end() : none; if (! range_start || ! range_finish) { foreach (post_t * post, component_posts) { date_t date = post->date(); date_t value_date = post->value_date(); if (! range_start || date < *range_start) range_start = date; if (! range_finish || value_date > *range_finish) range_finish = value_date; } } component_posts.clear(); std::ostringstream out_date; if (spec_fmt) { out_date << format_date(*range_finish, FMT_CUSTOM, spec_fmt); } else if (date_format) { out_date << \"- \" << format_date(*range_finish, FMT_CUSTOM, date_format->c_str()); } else { out_date << \"- \" << format_date(*range_finish); } xact_t& xact = temps.create_xact(); xact.payee = out_date.str(); xact._date = *range_start; foreach (values_map::value_type& pair, values) handle_value( pair.second.value, pair.second.account, &xact, temps, handler, *range_finish, false); values.clear();"),
  ("subtotal_posts::operator()", "component_posts.push_back(&post); account_t * acct = post.reported_account(); assert(acct); value_t amount(post.amount); post.xdata().compound_value = amount; post.xdata().add_flags(POST_EXT_COMPOUND); values_map::iterator i = values.find(acct->fullname()); if (i == values.end()) { values.insert(values_pair (acct->fullname(), acct_value_t(acct, amount, post.has_flags(POST_VIRTUAL), post.has_flags(POST_MUST_BALANCE)))); } else { if (post.has_flags(POST_VIRTUAL) != (*i).second.is_virtual) throw_(std::logic_error, _(\"'equity' cannot accept virtual and \" \"non-virtual postings to the same account\")); add_or_set_value((*i).second.value, amount); } post.reported_account()->xdata().add_flags(ACCOUNT_EXT_AUTO_VIRTUALIZE); if (! post.has_flags(POST_VIRTUAL)) post.reported_account()->xdata().add_flags(ACCOUNT_EXT_HAS_NON_VIRTUALS); else if (! post.has_flags(POST_MUST_BALANCE)) post.reported_account()->xdata().add_flags(ACCOUNT_EXT_HAS_UNB_VIRTUALS);"),
  ("by_payee_posts::flush", "foreach (payee_subtotals_map::value_type& pair, payee_subtotals) pair.second->report_subtotal(pair.first.c_str()); item_handler<post_t>::flush(); payee_subtotals.clear();"),
  ("by_payee_posts::operator()", "payee_subtotals_map::iterator i = payee_subtotals.find(post.payee()); if (i == payee_subtotals.end()) { payee_subtotals_pair temp(post.payee(), shared_ptr<subtotal_posts>(new subtotal_posts(handler, amount_expr))); std::pair<payee_subtotals_map::iterator, bool> result = payee_subtotals.insert(temp); assert(result.second); if (! result.second) return; i = result.first; } (*(*i).second)(post);"),
  ("day_of_week_posts::flush", "for (int i = 0; i < 7; i++) { foreach (post_t * post, days_of_the_week[i]) subtotal_posts::operator()(*post); subtotal_posts::report_subtotal(\"%As\"); days_of_the_week[i].clear(); } subtotal_posts::flush();"),
  ("calc_posts::operator()", "post_t::xdata_t& xdata(post.xdata()); if (last_post) { assert(last_post->has_xdata()); if (calc_running_total) xdata.total = last_post->xdata().total; xdata.count = last_post->xdata().count + 1; } else { xdata.count = 1; } post.add_to_value(xdata.visited_value, amount_expr); xdata.add_flags(POST_EXT_VISITED); account_t * acct = post.reported_account(); acct->xdata().add_flags(ACCOUNT_EXT_VISITED); if (calc_running_total) add_or_set_value(xdata.total, xdata.visited_value); item_handler<post_t>::operator()(post); last_post = &post;"),
  ("compare_items<post_t>::operator()", "assert(left); assert(right); post_t::xdata_t& lxdata(left->xdata()); if (! lxdata.has_flags(POST_EXT_SORT_CALC)) { if (sort_order.get_context()) { bind_scope_t bound_scope(*sort_order.get_context(), *left); find_sort_values(lxdata.sort_values, bound_scope); } else { find_sort_values(lxdata.sort_values, *left); } lxdata.add_flags(POST_EXT_SORT_CALC); } post_t::xdata_t& rxdata(right->xdata()); if (! rxdata.has_flags(POST_EXT_SORT_CALC)) { if (sort_order.get_context()) { bind_scope_t bound_scope(*sort_order.get_context(), *right); find_sort_values(rxdata.sort_values, bound_scope); } else { find_sort_values(rxdata.sort_values, *right); } rxdata.add_flags(POST_EXT_SORT_CALC); } return sort_value_is_less_than(lxdata.sort_values, rxdata.sort_values);"),
  ("compare_items<post_t>::find_sort_values", "bind_scope_t bound_scope(report, scope); push_sort_value(sort_values, sort_order.get_op(), bound_scope);"),
  ("push_sort_value", "if (! node) throw_(calc_error, _(\"Could not determine sorting value based an expression\")); if (node->kind == expr_t::op_t::O_CONS) { while (node && node->kind == expr_t::op_t::O_CONS) { push_sort_value(sort_values, node->left(), scope); node = node->has_right() ? node->right() : NULL; } } else { bool inverted = false; if (node->kind == expr_t::op_t::O_NEG) { inverted = true; node = node->left(); } sort_values.push_back(sort_value_t()); sort_values.back().inverted = inverted; sort_values.back().value = expr_t(node).calc(scope).simplified(); if (sort_values.back().value.is_null()) throw_(calc_error, _(\"Could not determine sorting value based an expression\")); }"),
  ("sort_value_is_less_than", "std::list<sort_value_t>::const_iterator left_iter = left_values.begin(); std::list<sort_value_t>::const_iterator right_iter = right_values.begin(); while (left_iter != left_values.end() && right_iter != right_values.end()) { if (! (*left_iter).value.is_balance() && ! (*right_iter).value.is_balance()) { if ((*left_iter).value < (*right_iter).value) { return ! (*left_iter).inverted; } else if ((*left_iter).value > (*right_iter).value) { return (*left_iter).inverted; } } left_iter++; right_iter++; } assert(left_iter == left_values.end()); assert(right_iter == right_values.end()); return false;"),
  ("value_t::in_place_simplify", "if (is_realzero()) { set_long(0L); return; } if (is_balance() && as_balance().single_amount()) { in_place_cast(AMOUNT); } #if REDUCE_TO_INTEGER if (is_amount() && ! as_amount().has_commodity() && as_amount().fits_in_long()) { in_place_cast(INTEGER); } #endif"),
  ("post_t::add_to_value", "if (xdata_ && xdata_->has_flags(POST_EXT_COMPOUND)) { if (! xdata_->compound_value.is_null()) add_or_set_value(value, xdata_->compound_value); } else if (expr) { scope_t *ctx = expr->get_context(); bind_scope_t bound_scope(*ctx, const_cast<post_t&>(*this)); #if 1 value_t temp(expr->calc(bound_scope)); add_or_set_value(value, temp); expr->set_context(ctx); #else if (! xdata_) xdata_ = xdata_t(); xdata_->value = expr->calc(bound_scope); xdata_->add_flags(POST_EXT_COMPOUND); add_or_set_value(value, xdata_->value); #endif } else if (xdata_ && xdata_->has_flags(POST_EXT_VISITED) && ! xdata_->visited_value.is_null()) { add_or_set_value(value, xdata_->visited_value); } else { add_or_set_value(value, amount); }"),
  ("sort_posts::flush", "post_accumulated_posts(); item_handler<post_t>::flush();"),
  ("sort_posts::operator()", "posts.push_back(&post);"),
  ("collapse_posts::flush", "report_subtotal(); item_handler<post_t>::flush();"),
  ("subtotal_posts::flush", "if (values.size() > 0) report_subtotal(); item_handler<post_t>::flush();"),
  ("day_of_week_posts::operator()", "days_of_the_week[post.date().day_of_week()].push_back(&post);"),
  ("truncate_xacts::truncate_xacts", "item_handler<post_t>(handler), head_count(_head_count), tail_count(_tail_count), completed(false), xacts_seen(0), last_xact(NULL)"),
  ("value_t::is_less_than:DATE", "if (val.is_date()) return as_date() < val.as_date(); break;"),
  ("value_t::is_less_than:STRING", "switch (val.type()) { case COMMODITY: return val.is_greater_than(*this); case STRING: return as_string() < val.as_string(); default: break; } break;")
]

end Ledger.Pinned.Regroup
