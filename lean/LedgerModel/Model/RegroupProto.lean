/- Driver ops for C17 (sorting / truncating / regrouping handlers).

   regroup.run <journal JSON> <filter> <option>
       filter : real=0|1,cleared=0|1,acct=<word>
       option : `+`-joined subset of  plain | dow | bypayee | subtotal | collapse | depth:N
                | sort:<key>,<key>… | sortx:<keys> (--sort-xacts) | head:N | tail:N   (N may be negative)
                (key = date|payee|account|amount, `-` prefix = inverted)
       answer : ok <TAB> row <TAB> row …   row = line|xactline|day|payee|account|amount|amount_expr|total
                (amount/total in the rendering of the verif_rational hook)
                err <TAB> virt-mix | null-amount | elided | bad-json | bad-op
   regroup.rows <option> <row> …   the same over rows of ledger's plain register
       (row = line|xactline|day|virtual|payee|account|amount|amount_expr): the valuation is data
   regroup.swo <journal JSON> <filter> <keys>
       answer : ok <TAB> 1|0 <TAB> 1|0   whether compare_items is a strict weak order on these postings,
                and whether the guard of C17.sortValueLess_swo holds for them
-/
import LedgerModel.Model.Regroup
import LedgerModel.Model.ValueProto
import LedgerModel.Model.RegroupGuard

namespace Ledger
namespace Regroup

def parseFilter (s : String) : Option Filter :=
  (splitList s ",").foldlM (fun (f : Filter) kv =>
    match kv.splitOn "=" with
    | ["real", v] => (parseBool? v).map (fun b => { f with real := b })
    | ["cleared", v] => (parseBool? v).map (fun b => { f with cleared := b })
    | ["acct", v] => some { f with acct := v }
    | _ => none) {}

def parseKey (s : String) : Option SortKey :=
  let (inv, name) := if s.startsWith "-" then (true, (s.drop 1).toString) else (false, s)
  match name with
  | "date" => some ⟨.date, inv⟩
  | "payee" => some ⟨.payee, inv⟩
  | "account" => some ⟨.account, inv⟩
  | "amount" => some ⟨.amount, inv⟩
  | _ => none

def parseKeys (s : String) : Option (List SortKey) :=
  match splitList s "," with
  | [] => none
  | ks => optAll parseKey ks

def applyTok (o : Opts) (t : String) : Option Opts :=
  match t.splitOn ":" with
  | ["plain"] => some o
  | ["dow"] => some { o with pre := .dow }
  | ["bypayee"] => some (if o.pre = .dow then o else { o with pre := .byPayee })
  | ["subtotal"] => some { o with subtotal := true }
  | ["collapse"] => some { o with collapse := true }
  | ["depth", n] => n.toNat?.map (fun k => { o with depth := some k })
  | ["sort", ks] => (parseKeys ks).map (fun k => { o with sort := some (false, k) })
  | ["sortx", ks] => (parseKeys ks).map (fun k => { o with sort := some (true, k) })
  | ["head", n] => n.toInt?.map (fun k => { o with head := some k })
  | ["tail", n] => n.toInt?.map (fun k => { o with tail := some k })
  | _ => none

/-- options joined by `+`, e.g. `bypayee+subtotal+depth:1+sort:date+head:2+tail:1` -/
def parseOpts (s : String) : Option Opts :=
  if s.isEmpty then none else (s.splitOn "+").foldlM applyTok {}

def renderRow (r : RPost × Value) : String :=
  -- a generated posting belongs to a temporary transaction without a source position
  s!"{r.1.line}|{if r.1.line = 0 then 0 else r.1.xid}|{r.1.date}|{r.1.payee}|{r.1.account}|{r.1.amount.render}|{r.1.value.render}|{r.2.render}"

def hasElided (j : Journal) : Bool := j.xacts.any (fun x => x.posts.any (fun p => p.amount.isNone))

def answer (o : Opts) (posts : List RPost) : String :=
  match report o posts with
  | .ok rows => "\t".intercalate ("ok" :: rows.map renderRow)
  | .error .virtMix => "err\tvirt-mix"
  | .error .nullAmount => "err\tnull-amount"

def opRun (args : List String) : String :=
  match args with
  | [js, fs, os] =>
    match (J.parse? js).bind J.journal? with
    | none => "err\tbad-json"
    | some j =>
      match parseFilter fs, parseOpts os with
      | some f, some o =>
        if hasElided j then "err\telided"
        else answer o (plainPosts f j)
      | _, _ => "err\tbad-op"
  | _ => "err\tbad-op"

def parseValue? (s : String) : Option Value :=
  if s.startsWith "I:" then (s.drop 2).toString.toInt?.map Value.int
  else if s.startsWith "A:" then (parseAmount? (s.drop 2).toString).map Value.amt
  else if s.startsWith "B:" then
    (optAll parseAmount? (splitList (s.drop 2).toString ";")).map Value.bal
  else none

/-- a row of the plain register as ledger printed it:
    line|xactline|day|virtual|payee|account|amount|amount_expr -/
def parseRow? (s : String) : Option RPost :=
  match s.splitOn "|" with
  | [l, x, d, v, payee, acct, a, e] => do
    let l ← l.toNat?
    let x ← x.toNat?
    let d ← d.toInt?
    let v ← parseBool? v
    let a ← parseValue? a
    let e ← parseValue? e
    pure { line := l, xid := x, date := d, payee := payee, account := acct, virt := v, amount := a, value := e, vdate := d }
  | _ => none

/-- `regroup.rows <options> <row> <row> …`: the handlers applied to the rows of a
    plain register (the valuation of each posting is data: column amount_expr). -/
def opRows (args : List String) : String :=
  match args with
  | os :: rows =>
    match parseOpts os, optAll parseRow? rows with
    | some o, some posts => answer o posts
    | _, _ => "err\tbad-op"
  | _ => "err\tbad-op"

/-- asymmetric and negatively transitive on the members of `l` (decidable check). -/
def isSWOOn (less : RPost → RPost → Bool) (l : List RPost) : Bool :=
  l.all (fun a => l.all (fun b => !(less a b && less b a))) &&
  l.all (fun a => l.all (fun b => l.all (fun c => less a b || less b c || !less a c)))

def opSwo (args : List String) : String :=
  match args with
  | [js, fs, ks] =>
    match (J.parse? js).bind J.journal? with
    | none => "err\tbad-json"
    | some j =>
      match parseFilter fs, parseKeys ks with
      | some f, some keys =>
        if hasElided j then "err\telided"
        else "ok\t" ++ boolStr (isSWOOn (postLess keys) (plainPosts f j)) ++ "\t" ++
          boolStr (amountKeyGuard keys (plainPosts f j))
      | _, _ => "err\tbad-op"
  | _ => "err\tbad-op"

end Regroup

def RegroupProto.ops : List (String × (List String → String)) :=
  [("regroup.run", Regroup.opRun), ("regroup.rows", Regroup.opRows), ("regroup.swo", Regroup.opSwo)]

end Ledger
