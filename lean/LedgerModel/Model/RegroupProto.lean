/- Driver ops for C17 (sorting / truncating / regrouping handlers).

   regroup.run <journal JSON> <filter> <option>
       filter : real=0|1,cleared=0|1,acct=<word>
       option : plain | sort:<key>,<key>… (key = date|payee|account|amount, `-` prefix = inverted)
                | head:N | tail:N | subtotal | collapse | bypayee | dow | depth:N
       answer : ok <TAB> row <TAB> row …   row = line|xactline|day|payee|account|amount|total
                (amount/total in the rendering of the verif_rational hook)
                err <TAB> virt-mix | elided | bad-json | bad-op
   regroup.swo <journal JSON> <filter> <keys>
       answer : ok <TAB> 1|0 <TAB> 1|0   whether compare_items is a strict weak order on these postings,
                and whether the guard of C17.sortValueLess_swo holds for them
-/
import LedgerModel.Model.Regroup
import LedgerModel.Model.ValueProto
import LedgerModel.Model.RegroupGuard

namespace Ledger
namespace Regroup

def parseFilter (s : String) : Option Filter :=
  (splitList s ",").foldlM (fun (f : Filter) kv =>
    match kv.splitOn "=" with
    | ["real", v] => (parseBool? v).map (fun b => { f with real := b })
    | ["cleared", v] => (parseBool? v).map (fun b => { f with cleared := b })
    | ["acct", v] => some { f with acct := v }
    | _ => none) {}

def parseKey (s : String) : Option SortKey :=
  let (inv, name) := if s.startsWith "-" then (true, (s.drop 1).toString) else (false, s)
  match name with
  | "date" => some ⟨.date, inv⟩
  | "payee" => some ⟨.payee, inv⟩
  | "account" => some ⟨.account, inv⟩
  | "amount" => some ⟨.amount, inv⟩
  | _ => none

def parseKeys (s : String) : Option (List SortKey) :=
  match splitList s "," with
  | [] => none
  | ks => optAll parseKey ks

def parseOpt (s : String) : Option Opt :=
  match s.splitOn ":" with
  | ["plain"] => some .plain
  | ["sort", ks] => (parseKeys ks).map .sort
  | ["head", n] => n.toInt?.map .head
  | ["tail", n] => n.toInt?.map .tail
  | ["subtotal"] => some .subtotal
  | ["collapse"] => some .collapse
  | ["bypayee"] => some .byPayee
  | ["dow"] => some .dow
  | ["depth", n] => n.toNat?.map .depth
  | _ => none

def renderRow (r : RPost × Value) : String :=
  -- a generated posting belongs to a temporary transaction without a source position
  s!"{r.1.line}|{if r.1.line = 0 then 0 else r.1.xid}|{r.1.date}|{r.1.payee}|{r.1.account}|{r.1.amount.render}|{r.2.render}"

def hasElided (j : Journal) : Bool := j.xacts.any (fun x => x.posts.any (fun p => p.amount.isNone))

def opRun (args : List String) : String :=
  match args with
  | [js, fs, os] =>
    match (J.parse? js).bind J.journal? with
    | none => "err\tbad-json"
    | some j =>
      match parseFilter fs, parseOpt os with
      | some f, some o =>
        if hasElided j then "err\telided"
        else match report o (plainPosts f j) with
          | .ok rows => "\t".intercalate ("ok" :: rows.map renderRow)
          | .error .virtMix => "err\tvirt-mix"
      | _, _ => "err\tbad-op"
  | _ => "err\tbad-op"

/-- asymmetric and negatively transitive on the members of `l` (decidable check). -/
def isSWOOn (less : RPost → RPost → Bool) (l : List RPost) : Bool :=
  l.all (fun a => l.all (fun b => !(less a b && less b a))) &&
  l.all (fun a => l.all (fun b => l.all (fun c => less a b || less b c || !less a c)))

def opSwo (args : List String) : String :=
  match args with
  | [js, fs, ks] =>
    match (J.parse? js).bind J.journal? with
    | none => "err\tbad-json"
    | some j =>
      match parseFilter fs, parseKeys ks with
      | some f, some keys =>
        if hasElided j then "err\telided"
        else "ok\t" ++ boolStr (isSWOOn (postLess keys) (plainPosts f j)) ++ "\t" ++
          boolStr (amountKeyGuard keys (plainPosts f j))
      | _, _ => "err\tbad-op"
  | _ => "err\tbad-op"

end Regroup

def RegroupProto.ops : List (String × (List String → String)) :=
  [("regroup.run", Regroup.opRun), ("regroup.swo", Regroup.opSwo)]

end Ledger
