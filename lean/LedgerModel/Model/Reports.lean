/-
Model of ledger's report pipeline as far as property C05 needs it: the posting
chain filter_posts(limit) → [collapse_posts(depth)] → calc_posts (chain.cc 42-273,
filters.cc 293-318, 399-489), the account tree totals (account.cc 613-684) and the
display marking of the balance report (output.cc 160-275).

The journal is taken as ACCEPTED and FINALISED (every posting carries its amount;
lot annotations computed by xact_t::finalize are already part of the commodity).
A posting's commodity is a `Comm` string; an annotated commodity is encoded as
`BASE{price}[date](tag)` (empty part = absent), so that two lots of one base
commodity are different commodities for `Balance`, exactly like
annotated_commodity_t objects in the pool.

Everything is PARAMETRIC in
  * `f    : RPost → Value`  the per-posting valuation (`amount_expr`: the amount,
                             or the cost for `-B`; post.cc 637-665 add_to_value);
  * `keep : RPost → Bool`   the posting predicate (`--limit`: real / cleared /
                             uncleared / pending / account-or-payee query).
Core Lean only.
-/
import LedgerModel.Model.Journal
import LedgerModel.Gen.Chain

namespace Ledger
namespace Reports

abbrev Path := List String

/-- A posting together with its transaction (what a `post_t*` gives access to). -/
structure RPost where
  xact : Xact
  post : Posting
deriving Repr

/-- account path of the posting: "A:B:C" ↦ ["A","B","C"] (account_t::find_account, account.cc 52-107). -/
def RPost.path (p : RPost) : Path :=
  -- the first branch is never taken (splitting yields at least one component); it keeps paths non-empty by construction
  if accountPath p.post.account = [] then [p.post.account] else accountPath p.post.account

/-- journal_posts_iterator: transactions in file order, postings in order. -/
def posts (j : Journal) : List RPost :=
  j.xacts.flatMap (fun x => x.posts.map (fun p => (⟨x, p⟩ : RPost)))

/-- `a` is `b` or an ancestor of `b` (the master account `[]` is above everything). -/
def under (a b : Path) : Bool := decide (b.take a.length = a)

/-! ### Sums of values: add_or_set_value (value.h) folded from the left -/

/-- `if (! temp.is_null()) add_or_set_value(acc, temp)`. -/
def addV (acc v : Value) : Res Value :=
  match v with
  | .void => .ok acc
  | v => Value.add acc v

def sumFrom (acc : Value) : List Value → Res Value
  | [] => .ok acc
  | v :: vs =>
    match addV acc v with
    | .ok a => sumFrom a vs
    | .error e => .error e

def sumV (vs : List Value) : Res Value := sumFrom .void vs

/-! ### Register: filter_posts(limit) then calc_posts -/

structure RegRow where
  post   : RPost
  amount : Value     -- xdata.visited_value = amount_expr(post)
  total  : Value     -- xdata.total (running total)
deriving Repr

/-- calc_posts::operator() (filters.cc 293-318): `xdata.total = last_post->xdata().total;
    post.add_to_value(xdata.visited_value, amount_expr); add_or_set_value(xdata.total, xdata.visited_value)`. -/
def regGo (f : RPost → Value) : Value → List RPost → Res (List RegRow)
  | _, [] => .ok []
  | acc, p :: ps =>
    match addV acc (f p) with
    | .ok t =>
      match regGo f t ps with
      | .ok rest => .ok ({ post := p, amount := f p, total := t } :: rest)
      | .error e => .error e
    | .error e => .error e

/-- filter_posts(limit) runs before calc_posts (Gen.Chain.execOrder), so postings that do
    not match never enter the running total. -/
def regRows (f : RPost → Value) (keep : RPost → Bool) (ps : List RPost) : Res (List RegRow) :=
  regGo f .void (ps.filter keep)

def lastTotal (rows : List RegRow) : Value :=
  match rows.getLast? with
  | some r => r.total
  | none => .void

/-! ### Account tree -/

/-- `l ++ [a]` unless `a` is already there (accounts_map insertion keeps one node per name). -/
def insertNew (l : List Path) (a : Path) : List Path := if a ∈ l then l else l ++ [a]

def dedup (l : List Path) : List Path := l.foldl insertNew []

/-- child accounts of `a` in the journal's tree: find_account creates every ancestor of every
    posting's account, whether or not the posting passes the report's filter. -/
def children (ps : List RPost) (a : Path) : List Path :=
  dedup ((ps.filter (fun p => under a p.path && decide (a.length < p.path.length))).map
          (fun p => p.path.take (a.length + 1)))

/-- all non-empty prefixes of a path, shortest first. -/
def prefixes (p : Path) : List Path := (List.range p.length).map (fun n => p.take (n + 1))

/-- every account of the journal (master excluded), in first-creation order. -/
def accounts (ps : List RPost) : List Path := dedup (ps.flatMap (fun p => prefixes p.path))

/-- account_t::amount (account.cc 613-665): the account's own VISITED postings, in order. -/
def acctAmount (f : RPost → Value) (keep : RPost → Bool) (ps : List RPost) (a : Path) : Res Value :=
  sumV ((ps.filter (fun p => keep p && decide (p.path = a))).map f)

/-- Specification of an account's total: its own postings plus those of all descendants. -/
def acctTotal (f : RPost → Value) (keep : RPost → Bool) (ps : List RPost) (a : Path) : Res Value :=
  sumV ((ps.filter (fun p => keep p && under a p.path)).map f)

def sumMapM (g : Path → Res Value) : List Path → Value → Res Value
  | [], acc => .ok acc
  | c :: cs, acc =>
    match g c with
    | .ok v =>
      match addV acc v with
      | .ok a => sumMapM g cs a
      | .error e => .error e
    | .error e => .error e

/-- account_t::total (account.cc 667-684) as the code computes it: the children's totals
    first, then the account's own amount.  `fuel` bounds the depth of the recursion
    (the height of the subtree below `a` suffices). -/
def acctTotalRec (f : RPost → Value) (keep : RPost → Bool) (ps : List RPost) : Nat → Path → Res Value
  | 0, a => acctAmount f keep ps a
  | n + 1, a =>
    match sumMapM (acctTotalRec f keep ps n) (children ps a) .void with
    | .ok kids =>
      match acctAmount f keep ps a with
      | .ok own => addV kids own
      | .error e => .error e
    | .error e => .error e

def maxLen (ps : List RPost) : Nat := ps.foldl (fun m p => max m p.path.length) 0

/-- the balance report's grand total: `total` of journal->master. -/
def grandTotal (f : RPost → Value) (keep : RPost → Bool) (ps : List RPost) : Res Value :=
  acctTotalRec f keep ps (maxLen ps) []

/-! ### Which accounts the balance report shows (always with --empty) -/

structure BalOpts where
  flat  : Bool
  depth : Option Nat      -- `--depth N` = display predicate `depth<=N`

def dispPred (o : BalOpts) (a : Path) : Bool :=
  match o.depth with
  | some n => decide (a.length ≤ n)
  | none => true

/-- ACCOUNT_EXT_VISITED: some posting of the account itself reached calc_posts. -/
def visited (keep : RPost → Bool) (ps : List RPost) (a : Path) : Bool :=
  ps.any (fun p => keep p && decide (p.path = a))

/-- `! account.posts.empty()`: the account has postings in the journal (filtered or not). -/
def hasPosts (ps : List RPost) (a : Path) : Bool := ps.any (fun p => decide (p.path = a))

/-- some account in the subtree of `a` is VISITED (what mark_accounts' `visited > 0` amounts to
    in tree mode). -/
def subVisited (keep : RPost → Bool) (ps : List RPost) (a : Path) : Bool :=
  ps.any (fun p => keep p && under a p.path)

/-- output.cc 221-222: is the account considered for display at all. -/
def considered (o : BalOpts) (keep : RPost → Bool) (ps : List RPost) (a : Path) : Bool :=
  if o.flat then visited keep ps a else subVisited keep ps a

/-- output.cc 225-231 with `--empty` (so the display_total test is skipped):
    `t` = number of children subtrees with something to display. -/
def showCond (o : BalOpts) (keep : RPost → Bool) (ps : List RPost) (t : Nat) (a : Path) : Bool :=
  (!o.flat && decide (t > 1)) ||
  (!o.flat && decide (t = 1) && hasPosts ps a) ||
  ((o.flat || decide (t ≠ 1) || visited keep ps a) && dispPred o a)

def natSum : List Nat → Nat
  | [] => 0
  | x :: xs => x + natSum xs

/-- mark_accounts (output.cc 200-240): the `to_display` count an account hands to its parent. -/
def markRet (o : BalOpts) (keep : RPost → Bool) (ps : List RPost) : Nat → Path → Nat
  | 0, _ => 0
  | n + 1, a =>
    let t := natSum ((children ps a).map (markRet o keep ps n))
    if considered o keep ps a && showCond o keep ps t a then 1 else t

/-- ACCOUNT_EXT_TO_DISPLAY. -/
def shown (o : BalOpts) (keep : RPost → Bool) (ps : List RPost) (fuel : Nat) (a : Path) : Bool :=
  let t := natSum ((children ps a).map (markRet o keep ps fuel))
  considered o keep ps a && showCond o keep ps t a

/-- lexicographic order on paths by component (std::map<string, account_t*> at every level,
    walked in pre-order by basic_accounts_iterator). -/
def pathLe : Path → Path → Bool
  | [], _ => true
  | _ :: _, [] => false
  | x :: xs, y :: ys => if x < y then true else if x = y then pathLe xs ys else false

def sortedAccounts (ps : List RPost) : List Path := (accounts ps).mergeSort pathLe

structure BalRow where
  acct   : Path
  amount : Value
  total  : Value
deriving Repr

def balRowsOf (f : RPost → Value) (keep : RPost → Bool) (ps : List RPost) : List Path → Res (List BalRow)
  | [] => .ok []
  | a :: as =>
    match acctAmount f keep ps a with
    | .ok am =>
      match acctTotalRec f keep ps (maxLen ps) a with
      | .ok tot =>
        match balRowsOf f keep ps as with
        | .ok rest => .ok ({ acct := a, amount := am, total := tot } :: rest)
        | .error e => .error e
      | .error e => .error e
    | .error e => .error e

/-- the accounts displayed by `bal --empty [--flat] [--depth N]`, in display order. -/
def shownAccounts (o : BalOpts) (keep : RPost → Bool) (ps : List RPost) : List Path :=
  (sortedAccounts ps).filter (shown o keep ps (maxLen ps))

def balRows (o : BalOpts) (f : RPost → Value) (keep : RPost → Bool) (ps : List RPost) : Res (List BalRow) :=
  balRowsOf f keep ps (shownAccounts o keep ps)

/-- account_t::partial_name (account.cc 216-233): the name shown in tree mode absorbs
    undisplayed single-child ancestors. -/
def partialName (o : BalOpts) (keep : RPost → Bool) (ps : List RPost) (a : Path) : String :=
  let fuel := maxLen ps
  let rec go (n : Nat) (acct : Path) (pname : String) : String :=
    match n with
    | 0 => pname
    | n + 1 =>
      if acct.isEmpty then pname
      else
        -- children_with_flags (account.cc 550-566): children that are, or contain, a displayed account
        let cnt := ((children ps acct).filter (fun c =>
          (accounts ps).any (fun d => under c d && shown o keep ps fuel d))).length
        if !o.flat && (decide (cnt > 1) || shown o keep ps fuel acct) then pname
        else go n acct.dropLast (acct.getLast?.getD "" ++ ":" ++ pname)
  if o.flat then ":".intercalate a
  else go a.length a.dropLast (a.getLast?.getD "")

/-! ### Register under --depth N: collapse_posts (filters.cc 399-489) -/

/-- `find_totals`: the ancestor at depth ≤ N that a posting is collapsed into. -/
def truncPath (n : Nat) (p : Path) : Path := p.take n

/-- one transaction's kept postings collapsed per depth-N account; the C++ emits the
    groups in `std::map<account_t*, …>` (address) order, the model in first-appearance order:
    consumers compare the rows of one transaction as a multiset. -/
def collapseXact (f : RPost → Value) (n : Nat) (ps : List RPost) : Res (List (Path × Value)) :=
  let keys := dedup (ps.map (fun p => truncPath n p.path))
  let rec go : List Path → Res (List (Path × Value))
    | [] => .ok []
    | k :: ks =>
      match sumV ((ps.filter (fun p => decide (truncPath n p.path = k))).map f) with
      | .ok v =>
        match go ks with
        | .ok rest => .ok ((k, v) :: rest)
        | .error e => .error e
      | .error e => .error e
  go keys

/-! ### Lot annotations: strip_annotations (annotate.cc 309-366, balance.cc 262-271) -/

structure Lot where
  base  : String
  price : String
  date  : String
  tag   : String
deriving DecidableEq, Repr

def Lot.encode (l : Lot) : Comm :=
  if l.price.isEmpty && l.date.isEmpty && l.tag.isEmpty then l.base
  else l.base ++ "{" ++ l.price ++ "}[" ++ l.date ++ "](" ++ l.tag ++ ")"

def Lot.decode (c : Comm) : Lot :=
  match c.splitOn "{" with
  | [b, r] =>
    match r.splitOn "}[" with
    | [p, r2] =>
      match r2.splitOn "](" with
      | [d, r3] => { base := b, price := p, date := d, tag := (r3.dropEnd 1).toString }
      | _ => { base := c, price := "", date := "", tag := "" }
    | _ => { base := c, price := "", date := "", tag := "" }
  | _ => { base := c, price := "", date := "", tag := "" }

def baseComm (c : Comm) : Comm := (Lot.decode c).base

structure Keep where
  price : Bool
  date  : Bool
  tag   : Bool

/-- report_t::what_to_keep (report.h 238-244) from the option names, via the extracted table. -/
def keepOf (opts : List String) : Keep :=
  let hit (sel : String × Bool × Bool × Bool → Bool) : Bool :=
    Gen.Chain.keepDetails.any (fun e => opts.contains e.1 && sel e)
  { price := hit (fun e => e.2.1), date := hit (fun e => e.2.2.1), tag := hit (fun e => e.2.2.2) }

/-- annotated_commodity_t::strip_annotations for non-fixated, non-`only_actuals` lots. -/
def stripComm (k : Keep) (c : Comm) : Comm :=
  if c = "" then "" else      -- the null commodity is never annotated
  let l := Lot.decode c
  Lot.encode { l with price := if k.price then l.price else "",
                      date := if k.date then l.date else "",
                      tag := if k.tag then l.tag else "" }

/-- amount_t::strip_annotations: same quantity, stripped commodity. -/
def stripAmt (s : Comm → Comm) (a : Amount) : Amount := { a with comm := s a.comm }

/-- balance_t::strip_annotations: `temp += amount.strip_annotations(...)` for every component. -/
def stripBal (s : Comm → Comm) (b : Balance) : Balance := (b.map (stripAmt s)).foldl Balance.addAmt []

/-- value_t::strip_annotations (value.cc 1911-1944). -/
def stripV (s : Comm → Comm) : Value → Value
  | .amt a => .amt (stripAmt s a)
  | .bal b => .bal (stripBal s b)
  | v => v

/-! ### The concrete valuations and predicates of the C05 option set -/

/-- `amount_expr` = `amount` (post.cc 198-206). -/
def valAmount (p : RPost) : Value :=
  match p.post.amount with
  | some a => .amt a
  | none => .int 0

/-- `-B`: `amount_expr` = `rounded(cost)` (Gen.Chain.basisExpr; post.cc 239-249 get_cost:
    the cost when there is one, else the amount; `rounded` only drops the keep-precision flag). -/
def valCost (p : RPost) : Value :=
  match p.post.cost with
  | some c => .amt c.amt
  | none => valAmount p

/-- textual.cc 1482-1484: a posting without its own mark inherits the transaction's state. -/
def effState (p : RPost) : ItemState := if p.post.state = 0 then p.xact.state else p.post.state

def evalAtom (atom : String) (p : RPost) : Option Bool :=
  match atom with
  | "real" => some p.post.isReal
  | "virtual" => some (!p.post.isReal)
  | "cleared" => some (decide (effState p = 1))
  | "pending" => some (decide (effState p = 2))
  | "uncleared" => some (decide (effState p = 0))
  | "actual" => some true      -- no generated postings in a finalised journal
  | _ => none

/-- a limit predicate of the shape `atom|atom|…` as report.h writes them. -/
def evalPred (pred : String) (p : RPost) : Option Bool :=
  (pred.splitOn "|").foldl (fun acc a =>
    match acc, evalAtom a p with
    | some x, some y => some (x || y)
    | _, _ => none) (some false)

def lowerChars (s : String) : List Char := s.toList.map Char.toLower

def isInfix (a : List Char) : List Char → Bool
  | [] => a.isEmpty
  | c :: cs => a.isPrefixOf (c :: cs) || isInfix a cs

/-- `account =~ /lit/` and `payee =~ /lit/` for literal patterns: mask_t searches
    case-insensitively (mask.h). -/
inductive QAtom
  | account (pat : String)
  | payee (pat : String)

def QAtom.eval (q : QAtom) (p : RPost) : Bool :=
  match q with
  | .account pat => isInfix (lowerChars pat) (lowerChars p.post.account)
  | .payee pat => isInfix (lowerChars pat) (lowerChars p.xact.payee)

/-- the report's `--limit`: every option predicate conjoined (report.h limit_ DO_) with the
    command-line query, whose terms are OR-ed (query.cc). `none` = an option the model does not know. -/
def keepOf? (limitOpts : List String) (query : List QAtom) (p : RPost) : Option Bool :=
  let optPart := limitOpts.foldl (fun acc o =>
    match acc, Gen.Chain.limitPreds.find? (fun e => e.1 = o) with
    | some x, some e =>
      match evalPred e.2 p with
      | some y => some (x && y)
      | none => none
    | _, _ => none) (some true)
  match optPart with
  | some x => some (x && (query.isEmpty || query.any (fun q => q.eval p)))
  | none => none

/-- The handler order this model implements, per scenario
    (forAccountsReport, limit, depth, basis) – compared with `Gen.Chain.execOrder` in Props/C05. -/
def assumedOrder (fa limit depth basis : Bool) : List String :=
  (if limit then ["filter_posts:limit_"] else []) ++
  (if !fa && depth then ["collapse_posts"] else []) ++
  ["calc_posts"] ++
  (if !fa && basis then ["changed_value_posts"] else []) ++
  (if !fa && depth then ["filter_posts:display_"] else []) ++
  (if !fa then ["display_filter_posts"] else [])

def allScenarios : List (Bool × Bool × Bool × Bool) :=
  [false, true].flatMap fun fa => [false, true].flatMap fun l => [false, true].flatMap fun d =>
    [false, true].map fun b => (fa, l, d, b)

end Reports
end Ledger
