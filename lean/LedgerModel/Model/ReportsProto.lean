/- Driver ops for the report model (C05).

   rep.raw  <journal-json>
       -> ok  row…          row = line|account|real|state|payee|amount|cost      (one per posting, journal order)
   rep.reg  <val> <limit-opts> <query> <keep-opts> <depth> <journal-json>
       -> ok  row…          row = line|account|amount|total|stripped amount|stripped total      (no depth)
                            row = xact line|account|amount|stripped amount  …  then  #|total|stripped total   (depth N: collapse_posts)
   rep.bal  <val> <limit-opts> <query> <keep-opts> <flat> <depth> <journal-json>
       -> ok  row…  footer   row = account|partial name|amount|total|stripped amount|stripped total
                            footer = #|number of rows|grand total|stripped grand total
   val = amount | cost;  limit-opts, keep-opts = comma separated option names (real,cleared,… / lots,lot_prices,…);
   query = `;`-separated `a:<literal>` / `p:<literal>` terms (OR-ed);  flat = 0|1;  depth = "" | N.
   Values are rendered canonically: `comm=num/den` components, zero components dropped, sorted, `;`-joined. -/
import LedgerModel.Model.Reports
import LedgerModel.Model.ValueProto

namespace Ledger
namespace Reports

def canonParts : Value → List String
  | .void => []
  | .bool _ => []
  | .int n => if n = 0 then [] else ["=" ++ ratStr (n : Rat)]
  | .amt a => if a.q = 0 then [] else [a.comm ++ "=" ++ ratStr a.q]
  | .bal b => (b.filter (fun a => a.q ≠ 0)).map (fun a => a.comm ++ "=" ++ ratStr a.q)

def canon (v : Value) : String := ";".intercalate (sortStrings (canonParts v))

def parseQuery (s : String) : Option (List QAtom) :=
  optAll (fun (t : String) =>
    if t.startsWith "a:" then some (QAtom.account (t.drop 2).toString)
    else if t.startsWith "p:" then some (QAtom.payee (t.drop 2).toString)
    else none) (splitList s ";")

def parseVal (s : String) : Option (RPost → Value) :=
  match s with
  | "amount" => some valAmount
  | "cost" => some valCost
  | _ => none

def parseDepth (s : String) : Option (Option Nat) :=
  if s.isEmpty then some none else s.toNat?.map some

def limitKnown (opts : List String) : Bool :=
  opts.all (fun o => Gen.Chain.limitPreds.any (fun e => e.1 = o))

def finalised (j : Journal) : Bool := (posts j).all (fun p => p.post.amount.isSome)

def resStr (r : Res String) : String :=
  match r with
  | .ok s => "ok" ++ s
  | .error e => "err\t" ++ e.render

def showPath (a : Path) : String := ":".intercalate a

def opRaw (args : List String) : String :=
  match args with
  | [js] =>
    match (J.parse? js).bind J.journal? with
    | some j =>
      if !finalised j then "err\tnot-finalised" else
      "ok" ++ String.join ((posts j).map (fun p =>
        s!"\t{p.post.line}|{p.post.account}|{boolStr p.post.isReal}|{effState p}|{p.xact.payee}|{canon (valAmount p)}|{canon (valCost p)}"))
    | none => "err\tbad-json"
  | _ => "err\tbad-op"

def groupByXact : List RPost → List (Nat × List RPost)
  | [] => []
  | p :: ps =>
    match groupByXact ps with
    | (l, g) :: rest => if l = p.xact.line then (l, p :: g) :: rest else (p.xact.line, [p]) :: (l, g) :: rest
    | [] => [(p.xact.line, [p])]

def regDepth (f : RPost → Value) (s : Comm → Comm) (n : Nat) (kept : List RPost) : Res String := do
  let mut out := ""
  for (l, g) in groupByXact kept do
    let rows ← collapseXact f n g
    for (a, v) in rows do
      out := out ++ s!"\t{l}|{showPath a}|{canon v}|{canon (stripV s v)}"
  let tot ← sumV (kept.map f)
  pure (out ++ s!"\t#|{canon tot}|{canon (stripV s tot)}")

def opReg (args : List String) : String :=
  match args with
  | [val, lim, q, ko, d, js] =>
    match parseVal val, parseQuery q, parseDepth d, (J.parse? js).bind J.journal? with
    | some f, some query, some depth, some j =>
      if !finalised j then "err\tnot-finalised" else
      let ps := posts j
      let limitOpts := splitList lim ","
      if !limitKnown limitOpts || ps.any (fun p => (keepOf? limitOpts query p).isNone) then "err\tbad-op" else
      let keep := fun p => (keepOf? limitOpts query p).getD false
      let s := stripComm (keepOf (splitList ko ","))
      match depth with
      | none =>
        resStr ((regRows f keep ps).map (fun rows => String.join (rows.map (fun r =>
          s!"\t{r.post.post.line}|{r.post.post.account}|{canon r.amount}|{canon r.total}|{canon (stripV s r.amount)}|{canon (stripV s r.total)}"))))
      | some n => resStr (regDepth f s n (ps.filter keep))
    | _, _, _, _ => "err\tbad-op"
  | _ => "err\tbad-op"

def opBal (args : List String) : String :=
  match args with
  | [val, lim, q, ko, fl, d, js] =>
    match parseVal val, parseQuery q, parseBool? fl, parseDepth d, (J.parse? js).bind J.journal? with
    | some f, some query, some flat, some depth, some j =>
      if !finalised j then "err\tnot-finalised" else
      let ps := posts j
      let limitOpts := splitList lim ","
      if !limitKnown limitOpts || ps.any (fun p => (keepOf? limitOpts query p).isNone) then "err\tbad-op" else
      let keep := fun p => (keepOf? limitOpts query p).getD false
      let s := stripComm (keepOf (splitList ko ","))
      let o : BalOpts := { flat := flat, depth := depth }
      resStr (do
        let rows ← balRows o f keep ps
        let g ← grandTotal f keep ps
        pure (String.join (rows.map (fun r =>
          s!"\t{showPath r.acct}|{partialName o keep ps r.acct}|{canon r.amount}|{canon r.total}|{canon (stripV s r.amount)}|{canon (stripV s r.total)}"))
          ++ s!"\t#|{rows.length}|{canon g}|{canon (stripV s g)}"))
    | _, _, _, _, _ => "err\tbad-op"
  | _ => "err\tbad-op"

end Reports

def ReportsProto.ops : List (String × (List String → String)) :=
  [("rep.raw", Reports.opRaw), ("rep.reg", Reports.opReg), ("rep.bal", Reports.opBal)]

end Ledger
