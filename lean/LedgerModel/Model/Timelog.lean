/-
Time-clock (`i`/`o` lines) model for C20.  Mirrors /repo/src/timelog.cc
(`time_log_t::clock_in` 179-189, `time_log_t::clock_out` 191-197,
`clock_out_from_timelog` 78-159, `create_timelog_xact` 44-76,
`time_log_t::close` 162-177) and the column reads of
`instance_t::clock_in_directive` / `clock_out_directive` (textual.cc 467-523).

A timestamp is an `Int` number of seconds since 1970-01-01 00:00:00 (the
harness runs with TZ=UTC; `datetime_t` carries no zone); the calendar day of a
timestamp is `ts / 86400` (`Int` `/` is floor division for a positive divisor)
and it is rendered through `Ledger.Cal.toYMD`.  Core Lean only.

Not modelled: the `; note` tail of a clock line, `position_t`, `apply account`
prefixes (the account is a full name; pointer equality of `account_t*` is
equality of full names), `long` overflow of `total_seconds()`.
-/
import LedgerModel.Model.Calendar

namespace Ledger.Timelog

/-- seconds in a day -/
abbrev spd : Int := 86400

/-- calendar day number of a timestamp (`datetime_t::date()`). -/
def dayOf (ts : Int) : Int := ts / 86400

/-- `datetime_t(d.date(), 23:59:59) + seconds(1)`: the midnight that ends the day of `ts`
    (timelog.cc 139-140). -/
def daysEnd (ts : Int) : Int := (ts / 86400 + 1) * 86400

inductive Kind | cin | cout
  deriving DecidableEq, Repr

/-- One `i|I|o|O` line.  `completed` = the letter is capitalised.  `acct = none`
    when the line carries no account field. -/
structure Event where
  kind : Kind
  completed : Bool
  ts : Int
  acct : Option String
  desc : String
  deriving DecidableEq, Repr

/-- An element of `time_xacts` (timelog.h 89-92): an open check-in. -/
structure Open where
  acct : String
  ts : Int
  desc : String
  deriving DecidableEq, Repr

/-- The virtual posting (and its one-posting transaction) made by
    `create_timelog_xact`: `day` = `_date = in_event.checkin.date()` (:49),
    `secs` = `(out − in).total_seconds()` parsed as `"<n>s"` (:58-61), `acct`
    = `in_event.account` (:64), `payee` = `in_event.desc` (:51), `code` =
    `out_event.desc` (:50), `cleared` = `out_event.completed` (:65),
    `tin`/`tout` = `post->checkin`/`post->checkout` (:67-68). -/
structure Posting where
  day : Int
  acct : String
  secs : Int
  payee : String
  code : String
  cleared : Bool
  tin : Int
  tout : Int
  deriving DecidableEq, Repr

inductive Err
  | outNoIn       -- "Timelog check-out event without a check-in" (:89, :194)
  | doubleIn      -- "Cannot double check-in to the same account" (:184)
  | outBeforeIn   -- "Timelog check-out date less than corresponding check-in" (:120)
  | needAccount   -- "When multiple check-ins are active, checking out requires an account" (:93)
  | noMatch       -- "Timelog check-out event does not match any current check-ins" (:110)
  | inNoAccount   -- a check-in without an account: the code would store NULL and dereference it
                  -- at :70; textual.cc never passes NULL (`p` is never NULL), so this point is
                  -- outside the code's reachable inputs and is modelled as an immediate error
  deriving DecidableEq, Repr

/-- a matched check-in/check-out pair (ghost record used by the theorems) -/
structure Session where
  acct : String
  tin : Int
  tout : Int
  deriving DecidableEq, Repr

/-- timelog.cc 98-106: the first open check-in of that account, erased from the list. -/
def takeAcct (a : String) : List Open → Option (Open × List Open)
  | [] => none
  | o :: os =>
    if o.acct = a then some (o, os)
    else match takeAcct a os with
      | some r => some (r.1, o :: r.2)
      | none => none

/-- The matching rule of `clock_out_from_timelog` (84-111), exactly as coded:
    one session open → it is taken *whatever account the check-out names*;
    none open → error; several open and no account named → error; several open
    and an account named → the first open check-in of that account, else error. -/
def matchOut (opens : List Open) (acct : Option String) : Except Err (Open × List Open) :=
  match opens with
  | [] => .error .outNoIn
  | [o] => .ok (o, [])
  | o1 :: o2 :: os =>
    match acct with
    | none => .error .needAccount
    | some a =>
      match takeAcct a (o1 :: o2 :: os) with
      | none => .error .noMatch
      | some r => .ok r

/-- 122-125: a description on the check-out moves to the payee when the check-in had none. -/
def payeeOf (o : Open) (e : Event) : String :=
  if e.desc ≠ "" ∧ o.desc = "" then e.desc else o.desc

def codeOf (o : Open) (e : Event) : String :=
  if e.desc ≠ "" ∧ o.desc = "" then "" else e.desc

/-- `create_timelog_xact(begin, end)` for the piece `[b, t]` of the session opened by `o`
    and closed by `e`. -/
def mkPost (o : Open) (e : Event) (b t : Int) : Posting :=
  { day := dayOf b, acct := o.acct, secs := t - b, payee := payeeOf o e, code := codeOf o e,
    cleared := e.completed, tin := b, tout := t }

/-- The `--day-break` loop (timelog.cc 134-157): `while (begin < out)`: if `out ≤ days_end`
    one last piece `[begin, out]`, else a piece `[begin, days_end]` and `begin := days_end`.
    Terminates because `days_end > begin`: the measure `out − begin` strictly decreases. -/
def dayBreak (mk : Int → Int → Posting) (b out : Int) : List Posting :=
  if b < out then
    if out ≤ daysEnd b then [mk b out]
    else mk b (daysEnd b) :: dayBreak mk (daysEnd b) out
  else []
termination_by (out - b).toNat
decreasing_by
  simp only [daysEnd] at *
  omega

/-- 130-158 -/
def mkPosts (db : Bool) (o : Open) (e : Event) : List Posting :=
  if db then dayBreak (mkPost o e) o.ts e.ts else [mkPost o e o.ts e.ts]

/-- `clock_out_from_timelog`.  Note that the matched check-in is removed from the
    list (86, 104) *before* the `out < in` test (118): a rejected check-out
    still consumes the session. -/
def clockOut (db : Bool) (opens : List Open) (e : Event) :
    List Open × Except Err (List Posting × Option Session) :=
  match matchOut opens e.acct with
  | .error err => (opens, .error err)
  | .ok (o, rest) =>
    if e.ts < o.ts then (rest, .error .outBeforeIn)
    else (rest, .ok (mkPosts db o e, some ⟨o.acct, o.ts, e.ts⟩))

/-- `time_log_t::clock_in` (179-189). -/
def clockIn (opens : List Open) (e : Event) :
    List Open × Except Err (List Posting × Option Session) :=
  match e.acct with
  | none => (opens, .error .inNoAccount)
  | some a =>
    if opens.any (fun o => o.acct = a) then (opens, .error .doubleIn)
    else (opens ++ [⟨a, e.ts, e.desc⟩], .ok ([], none))

abbrev State := List Open
abbrev Out := Except Err (List Posting × Option Session)

/-- One clock line. -/
def step (db : Bool) (st : State) (e : Event) : State × Out :=
  match e.kind with
  | .cin => clockIn st e
  | .cout => clockOut db st e

/-- What has been accumulated while reading a file. -/
structure Acc where
  st : State := []
  posts : List Posting := []
  sess : List Session := []
  errs : List (Nat × Err) := []     -- (line number, kind): textual.cc 265-296 reports and goes on
  line : Nat := 0
  deriving Repr

def outPosts : Out → List Posting
  | .ok r => r.1
  | .error _ => []

def outSess : Out → List Session
  | .ok (_, some s) => [s]
  | _ => []

def outErrs (line : Nat) : Out → List (Nat × Err)
  | .ok _ => []
  | .error e => [(line, e)]

def accStep (db : Bool) (a : Acc) (e : Event) : Acc :=
  let r := step db a.st e
  { st := r.1, posts := a.posts ++ outPosts r.2, sess := a.sess ++ outSess r.2,
    errs := a.errs ++ outErrs (a.line + 1) r.2, line := a.line + 1 }

def readAll (db : Bool) (evs : List Event) : Acc := evs.foldl (accStep db) {}

/-- the check-out synthesised by `time_log_t::close` for one account (:173) -/
def closeEvent (now : Int) (a : String) : Event :=
  { kind := .cout, completed := false, ts := now, acct := some a, desc := "" }

/-- `time_log_t::close` (162-177): the accounts of the open list, in order, are each clocked
    out at `CURRENT_TIME()` (= `--now`); the first failure propagates (it is thrown outside
    the per-line `try`, textual.cc 308). -/
def closeLoop (db : Bool) (now : Int) : List String → State → List Posting → List Session →
    (State × List Posting × List Session × Option Err)
  | [], st, ps, ss => (st, ps, ss, none)
  | a :: as, st, ps, ss =>
    match clockOut db st (closeEvent now a) with
    | (st', .ok r) => closeLoop db now as st' (ps ++ r.1) (ss ++ outSess (.ok r))
    | (st', .error e) => (st', ps, ss, some e)

structure Result where
  posts : List Posting
  sess : List Session
  errs : List (Nat × Err)
  closeErr : Option Err
  deriving Repr

/-- A whole file followed by end-of-input at `now`. -/
def runAll (db : Bool) (evs : List Event) (now : Int) : Result :=
  let a := readAll db evs
  let c := closeLoop db now (a.st.map (·.acct)) a.st a.posts a.sess
  { posts := c.2.1, sess := c.2.2.1, errs := a.errs, closeErr := c.2.2.2 }

/-- The register rows ledger shows: nothing at all when any error was counted. -/
def Result.rows (r : Result) : Option (List Posting) :=
  if r.errs.isEmpty ∧ r.closeErr.isNone then some r.posts else none

/-- the part of a posting the property speaks about: (account, day, seconds, check-in) -/
def Posting.key (p : Posting) : String × Int × Int × Int := (p.acct, p.day, p.secs, p.tin)

/-- what the property says the posting of a session must be -/
def Session.key (s : Session) : String × Int × Int × Int := (s.acct, dayOf s.tin, s.tout - s.tin, s.tin)

/-- total seconds of a list of postings -/
def sumSecs (ps : List Posting) : Int := ps.foldr (fun p s => p.secs + s) 0

/-- total length of a list of sessions -/
def sumSess (ss : List Session) : Int := ss.foldr (fun s t => (s.tout - s.tin) + t) 0

/-- an account's reported time -/
def acctTotal (a : String) (ps : List Posting) : Int := sumSecs (ps.filter (fun p => p.acct = a))

/-- the sum of an account's sessions -/
def sessTotal (a : String) (ss : List Session) : Int := sumSess (ss.filter (fun s => s.acct = a))

/-- consecutive day numbers `d, d+1, …` (`n` of them) -/
def daysFrom (d : Int) : Nat → List Int
  | 0 => []
  | n + 1 => d :: daysFrom (d + 1) n

/-! ### The column reads of textual.cc 467-523

`line` is the text of the clock line (after `read_line` stripped trailing white
space), `stale` the bytes that follow its terminator in `linebuf`, left there by
earlier, longer lines.  `bounded = false` is the code as pinned (`skip_ws(line + 22)`
whatever the length of the line); `bounded = true` is the repaired form (offset
limited to the length of the line).  -/

def NUL : Char := Char.ofNat 0

/-- `linebuf` seen from `line`: the line, its terminator, then what was there before. -/
def lineBuf (line stale : List Char) : List Char := line ++ NUL :: stale

/-- a C string: up to the first NUL -/
def cstr (buf : List Char) : List Char := buf.takeWhile (· ≠ NUL)

/-- utils.h 479-483 -/
def skipWs (s : List Char) : List Char := s.dropWhile (fun c => c = ' ' ∨ c = '\t' ∨ c = '\n')

/-- `next_element(p, true)` (utils.h 493-513) seen from `p`: the element ends at a TAB or at
    two consecutive spaces. -/
def firstElement : List Char → List Char
  | [] => []
  | c :: cs =>
    if c = '\t' then []
    else if c = ' ' then
      match cs with
      | ' ' :: _ => []
      | _ => c :: firstElement cs
    else c :: firstElement cs

/-- The account text `find_account(p)` receives: `p = skip_ws(line + off)` with `off` the fixed
    column (22) — limited to the length of the line only in the bounded form. -/
def readAcctAt (off : Nat) (bounded : Bool) (line stale : List Char) : List Char :=
  let k := if bounded then min off line.length else off
  firstElement (cstr (skipWs ((lineBuf line stale).drop k)))

end Ledger.Timelog
