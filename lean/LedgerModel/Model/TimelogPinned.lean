/- Pinned copy of Gen/Timelog.lean: the source text this model was written against (hand-maintained; refresh with tools/repin.py together with the model). -/
namespace Ledger.Pinned.Timelog

/-- textual.cc clock_*_directive: `string datetime(line, dtOffset, dtLen)`. -/
def dtOffset : Nat := 2
def dtLen : Nat := 19

/-- textual.cc clock_*_directive: the account is read at `line + acctOffset`. -/
def acctOffset : Nat := 22

/-- textual.cc read_next_directive: letter -> (directive, capitalized) -/
def dispatch : List (String × String) := [
  ("i", "clock_in_directive(line, false)"),
  ("I", "clock_in_directive(line, true)"),
  ("o", "clock_out_directive(line, false)"),
  ("O", "clock_out_directive(line, true)")
]

/-- timelog.cc: every throw, in source order, as (function, message) -/
def errorMessages : List (String × String) := [
  ("create_timelog_xact", "Failed to record 'out' timelog transaction"),
  ("clock_out_from_timelog", "Timelog check-out event without a check-in"),
  ("clock_out_from_timelog", "When multiple check-ins are active, checking out requires an account"),
  ("clock_out_from_timelog", "Timelog check-out event does not match any current check-ins"),
  ("clock_out_from_timelog", "Timelog check-in has no corresponding check-out"),
  ("clock_out_from_timelog", "Timelog check-out has no corresponding check-in"),
  ("clock_out_from_timelog", "Timelog check-out date less than corresponding check-in"),
  ("time_log_t::clock_in", "Cannot double check-in to the same account"),
  ("time_log_t::clock_out", "Timelog check-out event without a check-in")
]

/-- timelog.cc clock_out_from_timelog: the conditions of the matching chain, in order (then `else`: search by account). -/
def matchChain : List String := ["time_xacts.size() == 1", "time_xacts.empty()", "! out_event.account"]

/-- timelog.cc: normalised bodies (DEBUG/TRACE statements removed) -/
def shapes : List (String × String) := [
  ("create_timelog_xact", "unique_ptr<xact_t> curr(new xact_t); curr->_date = in_event.checkin.date(); curr->code = out_event.desc; curr->payee = in_event.desc; curr->pos = in_event.position; if (! in_event.note.empty()) curr->append_note(in_event.note.c_str(), *context.scope); char buf[32]; std::snprintf(buf, 32, \"%lds\", long((out_event.checkin - in_event.checkin) .total_seconds())); amount_t amt; amt.parse(buf); VERIFY(amt.valid()); post_t * post = new post_t(in_event.account, amt, POST_VIRTUAL); post->set_state(out_event.completed ? item_t::CLEARED : item_t::UNCLEARED); post->pos = in_event.position; post->checkin = in_event.checkin; post->checkout = out_event.checkin; curr->add_post(post); in_event.account->add_post(post); if (! context.journal->add_xact(curr.get())) throw parse_error(_(\"Failed to record 'out' timelog transaction\")); else curr.release();"),
  ("clock_out_from_timelog", "time_xact_t event; if (time_xacts.size() == 1) { event = time_xacts.back(); time_xacts.clear(); } else if (time_xacts.empty()) { throw parse_error(_(\"Timelog check-out event without a check-in\")); } else if (! out_event.account) { throw parse_error (_(\"When multiple check-ins are active, checking out requires an account\")); } else { bool found = false; for (std::list<time_xact_t>::iterator i = time_xacts.begin(); i != time_xacts.end(); i++) if (out_event.account == (*i).account) { event = *i; found = true; time_xacts.erase(i); break; } if (! found) throw parse_error (_(\"Timelog check-out event does not match any current check-ins\")); } if (event.checkin.is_not_a_date_time()) throw parse_error(_(\"Timelog check-in has no corresponding check-out\")); if (out_event.checkin.is_not_a_date_time()) throw parse_error(_(\"Timelog check-out has no corresponding check-in\")); if (out_event.checkin < event.checkin) throw parse_error (_(\"Timelog check-out date less than corresponding check-in\")); if (! out_event.desc.empty() && event.desc.empty()) { event.desc = out_event.desc; out_event.desc = empty_string; } if (! out_event.note.empty() && event.note.empty()) event.note = out_event.note; if (! context.journal->day_break) { create_timelog_xact(event, out_event, context); return 1; } else { time_xact_t begin(event); std::size_t xact_count = 0; while (begin.checkin < out_event.checkin) { datetime_t days_end(begin.checkin.date(), time_duration_t(23, 59, 59)); days_end += seconds(1); if (out_event.checkin <= days_end) { create_timelog_xact(begin, out_event, context); ++xact_count; break; } else { time_xact_t end(out_event); end.checkin = days_end; create_timelog_xact(begin, end, context); ++xact_count; begin.checkin = end.checkin; } } return xact_count; }"),
  ("time_log_t::close", "if (! time_xacts.empty()) { std::list<account_t *> accounts; foreach (time_xact_t& time_xact, time_xacts) accounts.push_back(time_xact.account); foreach (account_t * account, accounts) { context.count += clock_out_from_timelog (time_xacts, time_xact_t(none, CURRENT_TIME(), false, account), context); } assert(time_xacts.empty()); }"),
  ("time_log_t::clock_in", "if (! time_xacts.empty()) { foreach (time_xact_t& time_xact, time_xacts) { if (event.account == time_xact.account) throw parse_error(_(\"Cannot double check-in to the same account\")); } } time_xacts.push_back(event);"),
  ("time_log_t::clock_out", "if (time_xacts.empty()) throw std::logic_error(_(\"Timelog check-out event without a check-in\")); return clock_out_from_timelog(time_xacts, event, context);")
]

/-- textual.cc: normalised bodies of clock_in_directive / clock_out_directive -/
def directives : List (String × String) := [
  ("textual.cc:clock_in_directive", "string datetime(line, 2, 19); char * p = skip_ws(line + std::min<std::size_t>(22, std::strlen(line))); char * n = next_element(p, true); char * end = n ? next_element(n, true) : NULL; if (end && *end == ';') end = skip_ws(end + 1); else end = NULL; position_t position; position.pathname = context.pathname; position.beg_pos = context.line_beg_pos; position.beg_line = context.linenum; position.end_pos = context.curr_pos; position.end_line = context.linenum; position.sequence = context.sequence++; time_xact_t event(position, parse_datetime(datetime), capitalized, *p ? top_account()->find_account(p) : NULL, n ? n : \"\", end ? end : \"\"); if (! event.account) throw parse_error(_(\"Timelog check-in requires an account\")); timelog.clock_in(event);"),
  ("textual.cc:clock_out_directive", "string datetime(line, 2, 19); char * p = skip_ws(line + std::min<std::size_t>(22, std::strlen(line))); char * n = next_element(p, true); char * end = n ? next_element(n, true) : NULL; if (end && *end == ';') end = skip_ws(end + 1); else end = NULL; position_t position; position.pathname = context.pathname; position.beg_pos = context.line_beg_pos; position.beg_line = context.linenum; position.end_pos = context.curr_pos; position.end_line = context.linenum; position.sequence = context.sequence++; time_xact_t event(position, parse_datetime(datetime), capitalized, *p ? top_account()->find_account(p) : NULL, n ? n : \"\", end ? end : \"\"); context.count += timelog.clock_out(event);")
]

/-- the day-break and now options, CURRENT_TIME, MAX_LINE, skip_ws, next_element -/
def plumbing : List (String × String) := [
  ("session.cc:day_break", "if (HANDLED(day_break)) journal->day_break = true;"),
  ("journal.cc:day_break", "day_break = false;"),
  ("report.h:now_", "date_interval_t interval(str); if (optional<date_t> begin = interval.begin()) { ledger::epoch = parent->terminus = datetime_t(*begin); } else { throw_(std::invalid_argument, _f(\"Could not determine beginning of period '%1%'\") % str); }"),
  ("times.h:CURRENT_TIME", "epoch ? *epoch : TRUE_CURRENT_TIME()"),
  ("context.h:MAX_LINE", "4096"),
  ("utils.h:skip_ws", "while (*ptr == ' ' || *ptr == '\\t' || *ptr == '\\n') ptr++; return ptr;"),
  ("utils.h:next_element", "for (char * p = buf; *p; p++) { if (! (*p == ' ' || *p == '\\t')) continue; if (! variable) { *p = '\\0'; return skip_ws(p + 1); } else if (*p == '\\t') { *p = '\\0'; return skip_ws(p + 1); } else if (*(p + 1) == ' ') { *p = '\\0'; return skip_ws(p + 2); } } return NULL;")
]

/-- textual.cc clock_*_directive: is the fixed offset limited by the length of the line?
    (`skip_ws(line + 22)` with no length test = false: a shorter line is read past its terminator,
    into bytes left in linebuf by earlier lines.) -/
def acctOffsetBounded : Bool := true

end Ledger.Pinned.Timelog
