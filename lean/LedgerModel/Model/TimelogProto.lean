/- Driver ops for the time-clock model (C20).

   `timelog.run <db:0|1> <now:int> <events>`
       events joined by `;`, each `K,ts,acct,desc` with K ∈ i I o O, `acct` empty = no account
       field on the line (names never contain `,` `;` TAB `|`).
       answer  `ok <rows joined by ;>`   row = `YYYY/MM/DD|acct|secs|payee|code|cleared|tin|tout`
           or  `err <line:kind joined by ,>[,close:kind]`
   `timelog.sess <db> <now> <events>`   the matched sessions `acct|tin|tout` (whatever the errors)
   `timelog.acct <off> <bounded:0|1> <line codes> <stale codes>`
       the account text read at the fixed column (char codes joined by `,`).
-/
import LedgerModel.Model.Proto
import LedgerModel.Model.Timelog

namespace Ledger
open Timelog

def tlPad (w : Nat) (n : Int) : String :=
  let s := toString n.toNat
  String.ofList (List.replicate (w - s.length) '0') ++ s

def tlDate (day : Int) : String :=
  let (y, m, d) := Cal.toYMD day
  s!"{tlPad 4 y}/{tlPad 2 m}/{tlPad 2 d}"

def tlErr : Timelog.Err → String
  | .outNoIn => "outNoIn"
  | .doubleIn => "doubleIn"
  | .outBeforeIn => "outBeforeIn"
  | .needAccount => "needAccount"
  | .noMatch => "noMatch"
  | .inNoAccount => "inNoAccount"

def tlRow (p : Posting) : String :=
  s!"{tlDate p.day}|{p.acct}|{p.secs}|{p.payee}|{p.code}|{boolStr p.cleared}|{p.tin}|{p.tout}"

def tlEvent? (s : String) : Option Event :=
  match s.splitOn "," with
  | [k, ts, acct, desc] => do
    let (kind, completed) ← (match k with
      | "i" => some (Kind.cin, false)
      | "I" => some (Kind.cin, true)
      | "o" => some (Kind.cout, false)
      | "O" => some (Kind.cout, true)
      | _ => none)
    let t ← ts.toInt?
    pure { kind := kind, completed := completed, ts := t,
           acct := if acct.isEmpty then none else some acct, desc := desc }
  | _ => none

def tlArgs? (args : List String) : Option (Bool × Int × List Event) :=
  match args with
  | [db, now, evs] => do
    let db ← parseBool? db
    let now ← now.toInt?
    let evs ← optAll tlEvent? (splitList evs ";")
    pure (db, now, evs)
  | _ => none

def opTimelogRun (args : List String) : String :=
  match tlArgs? args with
  | none => "err\tbad-op"
  | some (db, now, evs) =>
    let r := runAll db evs now
    match r.rows with
    | some ps => "ok\t" ++ ";".intercalate (ps.map tlRow)
    | none =>
      let es := r.errs.map (fun le => s!"{le.1}:{tlErr le.2}")
      let ce := match r.closeErr with
        | some e => ["close:" ++ tlErr e]
        | none => []
      "err\t" ++ ",".intercalate (es ++ ce)

def opTimelogSess (args : List String) : String :=
  match tlArgs? args with
  | none => "err\tbad-op"
  | some (db, now, evs) =>
    let r := runAll db evs now
    "ok\t" ++ ";".intercalate (r.sess.map (fun s => s!"{s.acct}|{s.tin}|{s.tout}"))

def tlCodes? (s : String) : Option (List Char) :=
  optAll (fun (x : String) => x.toNat?.map Char.ofNat) (splitList s ",")

def opTimelogAcct (args : List String) : String :=
  match args with
  | [off, b, line, stale] =>
    match off.toNat?, parseBool? b, tlCodes? line, tlCodes? stale with
    | some off, some b, some line, some stale =>
      "ok\t" ++ ",".intercalate ((readAcctAt off b line stale).map (fun c => toString c.toNat))
    | _, _, _, _ => "err\tbad-op"
  | _ => "err\tbad-op"

def TimelogProto.ops : List (String × (List String → String)) :=
  [("timelog.run", opTimelogRun), ("timelog.sess", opTimelogSess), ("timelog.acct", opTimelogAcct)]

end Ledger
