/-
Model of ledger's numeric value lattice: amount_t (amount.cc 413-545, 832-865),
balance_t (balance.cc 63-189, balance.h) and the INTEGER / AMOUNT / BALANCE
cells of value_t's operators (value.cc 336-1189).

Conventions
* quantities are exact `Rat` (GMP `mpq_t` in the code);
* the commodity is a name, `""` = the null commodity;
* a balance is an association list in insertion order; the code uses an
  `unordered_map` keyed by commodity pointer, so every consumer must be (and is
  proved) independent of the order (`Balance.find?`, `den`);
* the display precision of a commodity is an environment `PrecEnv`;
* `long` cells are modelled on `Int` (no overflow; generators stay below 2^31).
Core Lean only.
-/
import LedgerModel.Model.Proto
import LedgerModel.Gen.Consts

namespace Ledger

abbrev Comm := String

abbrev PrecEnv := Comm → Nat

structure Amount where
  q    : Rat
  prec : Nat
  keep : Bool
  comm : Comm
deriving DecidableEq, Repr

inductive Err
  | diffComm          -- add/sub/compare amounts of different commodities
  | divZero
  | multiComm         -- cannot convert a balance with multiple commodities to an amount
  | cannot (op : String)  -- "Cannot <op> <type> ..." cells of value_t
deriving DecidableEq, Repr

abbrev Res := Except Err

namespace Amount

def hasComm (a : Amount) : Bool := a.comm ≠ ""

def ofInt (n : Int) : Amount := { q := (n : Rat), prec := 0, keep := false, comm := "" }

/-- `round half to even` of `q` at `p` decimals, as an integer count of units
    `10^-p` (amount.cc 658-694; also what `%.*RNf` is specified to produce
    except exactly at ties, where MPFR's binary approximation decides). -/
def roundUnits (q : Rat) (p : Nat) : Int :=
  let n := q.num * (10 : Int) ^ p
  let d : Int := q.den
  let w := Int.fdiv n d
  let r := Int.fmod n d
  if 2 * r > d ∨ (2 * r = d ∧ w % 2 ≠ 0) then w + 1 else w

def roundTo (q : Rat) (p : Nat) : Rat := mkRat (roundUnits q p) (10 ^ p)

/-- amount_t::is_zero (amount.cc 832-865): exact when the precision counter does
    not exceed the commodity's display precision, otherwise "prints as zero". -/
def isZero (env : PrecEnv) (a : Amount) : Bool :=
  if a.hasComm then
    if a.keep ∨ a.prec ≤ env a.comm then a.q = 0
    else if a.q = 0 then true
    else if a.q.num > (a.q.den : Int) then false
    else roundUnits a.q (env a.comm) = 0
  else a.q = 0

def isRealZero (a : Amount) : Bool := a.q = 0

def neg (a : Amount) : Amount := { a with q := -a.q }

def abs (a : Amount) : Amount := if a.q < 0 then a.neg else a

def add (a b : Amount) : Res Amount :=
  if a.hasComm ∧ b.hasComm ∧ a.comm ≠ b.comm then .error .diffComm
  else .ok { a with q := a.q + b.q,
                    prec := if a.hasComm = b.hasComm then max a.prec b.prec else a.prec }

def sub (a b : Amount) : Res Amount :=
  if a.hasComm ∧ b.hasComm ∧ a.comm ≠ b.comm then .error .diffComm
  else .ok { a with q := a.q - b.q,
                    prec := if a.hasComm = b.hasComm then max a.prec b.prec else a.prec }

def clampPrec (env : PrecEnv) (a : Amount) : Amount :=
  if a.hasComm ∧ ¬ a.keep then
    { a with prec := min a.prec (env a.comm + Gen.extendByDigits) }
  else a

def mul (env : PrecEnv) (a b : Amount) : Amount :=
  clampPrec env { q := a.q * b.q, prec := a.prec + b.prec, keep := a.keep,
                  comm := if a.hasComm then a.comm else b.comm }

def div (env : PrecEnv) (a b : Amount) : Res Amount :=
  if b.isZero env then .error .divZero
  else .ok (clampPrec env { q := a.q / b.q, prec := a.prec + b.prec + Gen.extendByDigits,
                            keep := a.keep,
                            comm := if a.hasComm then a.comm else b.comm })

/-- amount_t::compare: sign of the difference, or an error. -/
def cmp (a b : Amount) : Res Ordering :=
  if a.hasComm ∧ b.hasComm ∧ a.comm ≠ b.comm then .error .diffComm
  else .ok (if a.q < b.q then .lt else if a.q = b.q then .eq else .gt)

/-- amount_t::operator== (never throws). -/
def eqv (a b : Amount) : Bool := a.comm = b.comm ∧ a.q = b.q

end Amount

/-- Balance: one entry per commodity (invariant `Balance.WF`), insertion order. -/
abbrev Balance := List Amount

namespace Balance

def find? (b : Balance) (c : Comm) : Option Amount := List.find? (fun a => a.comm = c) b

/-- balance_t::operator+=(amount_t): a real-zero amount is ignored; an existing
    entry is updated in place and never erased. -/
def addGo : Balance → Amount → Balance
  | [], a => [a]
  | x :: xs, a =>
    if x.comm = a.comm then { x with q := x.q + a.q, prec := max x.prec a.prec } :: xs
    else x :: addGo xs a

def addAmt (b : Balance) (a : Amount) : Balance := if a.q = 0 then b else addGo b a

/-- balance_t::operator-=(amount_t): an entry that becomes real-zero is erased;
    a missing entry is inserted negated. -/
def subGo : Balance → Amount → Balance
  | [], a => [a.neg]
  | x :: xs, a =>
    if x.comm = a.comm then
      if x.q - a.q = 0 then xs
      else { x with q := x.q - a.q, prec := max x.prec a.prec } :: xs
    else x :: subGo xs a

def subAmt (b : Balance) (a : Amount) : Balance := if a.q = 0 then b else subGo b a

def add (a b : Balance) : Balance := b.foldl addAmt a
def sub (a b : Balance) : Balance := b.foldl subAmt a

def neg (b : Balance) : Balance := b.map Amount.neg
def abs (b : Balance) : Balance := (b.map Amount.abs).foldl addAmt []

def isRealZero (b : Balance) : Bool := b.all Amount.isRealZero

def ofAmt (a : Amount) : Balance := if a.q = 0 then [] else [a]

/-- balance_t::operator*=(amount_t) (balance.cc 109-144). -/
def mulAmt (env : PrecEnv) (b : Balance) (a : Amount) : Res Balance :=
  if b.isRealZero then .ok b
  else if a.q = 0 then .ok (ofAmt a)
  else if ¬ a.hasComm then .ok (b.map (fun x => Amount.mul env x a))
  else match b with
    | [x] => if x.comm = a.comm then .ok [Amount.mul env x a] else .error (.cannot "mul-annotated")
    | _ => .error (.cannot "mul-multi")

def mapM' (f : Amount → Res Amount) : Balance → Res Balance
  | [] => .ok []
  | x :: xs => do
    let y ← f x
    let ys ← mapM' f xs
    pure (y :: ys)

/-- balance_t::operator/=(amount_t) (balance.cc 146-181). -/
def divAmt (env : PrecEnv) (b : Balance) (a : Amount) : Res Balance :=
  if b.isRealZero then .ok b
  else if a.q = 0 then .error .divZero
  else if ¬ a.hasComm then mapM' (fun x => Amount.div env x a) b
  else match b with
    | [x] => if x.comm = a.comm then (Amount.div env x a).map (fun y => [y])
             else .error (.cannot "div-annotated")
    | _ => .error (.cannot "div-multi")

/-- balance_t::operator==(amount_t). -/
def eqAmt (b : Balance) (a : Amount) : Bool :=
  if a.q = 0 then b.isEmpty
  else match b with
    | [x] => x.eqv a
    | _ => false

/-- balance_t::operator==(balance_t): `unordered_map` equality – same key set,
    `amount_t::operator==` on the values; independent of enumeration order. -/
def eqBal (a b : Balance) : Bool :=
  a.length = b.length ∧ a.all (fun x => match b.find? x.comm with
                                        | some y => x.eqv y
                                        | none => false)

end Balance

inductive Value
  | void
  | bool (b : Bool)
  | int (n : Int)
  | amt (a : Amount)
  | bal (b : Balance)
deriving Repr, DecidableEq

namespace Value

def label : Value → String
  | void => "void" | bool _ => "bool" | int _ => "int" | amt _ => "amt" | bal _ => "bal"

def isRealZero : Value → Bool
  | void => true   -- is_null
  | bool b => !b
  | int n => n = 0
  | amt a => a.isRealZero
  | bal b => b.isRealZero

/-- value_t::in_place_simplify (value.cc 277-303). -/
def simplify (v : Value) : Value :=
  if v.isRealZero then .int 0
  else match v with
    | bal [a] => .amt a
    | v => v

/-- value_t::to_amount / in_place_cast(AMOUNT). -/
def toAmount : Value → Res Amount
  | void => .ok (Amount.ofInt 0)
  | bool b => .ok (Amount.ofInt (if b then 1 else 0))
  | int n => .ok (Amount.ofInt n)
  | amt a => .ok a
  | bal [] => .ok (Amount.ofInt 0)
  | bal [a] => .ok a
  | bal _ => .error .multiComm

/-- in_place_cast(BALANCE) of an integer or amount: `set_balance(amount)`. -/
def toBalance : Value → Res Balance
  | int n => .ok (Balance.ofAmt (Amount.ofInt n))
  | amt a => .ok (Balance.ofAmt a)
  | bal b => .ok b
  | _ => .error (.cannot "to-balance")

/-- value_t::operator+= restricted to VOID/INTEGER/AMOUNT/BALANCE. -/
def add (a b : Value) : Res Value :=
  match a, b with
  | void, v => .ok v
  | int x, int y => .ok (.int (x + y))
  | int x, amt y =>
    if y.hasComm then .ok (.bal (Balance.addAmt (Balance.ofAmt (Amount.ofInt x)) y))
    else (Amount.add (Amount.ofInt x) y).map .amt
  | int x, bal y => .ok (.bal (Balance.add (Balance.ofAmt (Amount.ofInt x)) y))
  | amt x, int y =>
    if x.hasComm then .ok (.bal (Balance.addAmt (Balance.ofAmt x) (Amount.ofInt y)))
    else (Amount.add x (Amount.ofInt y)).map .amt
  | amt x, amt y =>
    if x.comm ≠ y.comm then .ok (.bal (Balance.addAmt (Balance.ofAmt x) y))
    else (Amount.add x y).map .amt
  | amt x, bal y => .ok (.bal (Balance.add (Balance.ofAmt x) y))
  | bal x, int y => .ok (.bal (Balance.addAmt x (Amount.ofInt y)))
  | bal x, amt y => .ok (.bal (Balance.addAmt x y))
  | bal x, bal y => .ok (.bal (Balance.add x y))
  | _, _ => .error (.cannot "add")

/-- value_t::operator-=. -/
def sub (a b : Value) : Res Value :=
  match a, b with
  | int x, int y => .ok (.int (x - y))
  | int x, amt y =>
    if Gen.intSubAmtPromotes ∧ y.hasComm then
      .ok (simplify (.bal (Balance.subAmt (Balance.ofAmt (Amount.ofInt x)) y)))
    else (Amount.sub (Amount.ofInt x) y).map (fun r => simplify (.amt r))
  | int x, bal y => .ok (simplify (.bal (Balance.sub (Balance.ofAmt (Amount.ofInt x)) y)))
  | amt x, int y =>
    if x.hasComm then .ok (simplify (.bal (Balance.subAmt (Balance.ofAmt x) (Amount.ofInt y))))
    else (Amount.sub x (Amount.ofInt y)).map (fun r => simplify (.amt r))
  | amt x, amt y =>
    if x.comm ≠ y.comm then .ok (simplify (.bal (Balance.subAmt (Balance.ofAmt x) y)))
    else (Amount.sub x y).map (fun r => simplify (.amt r))
  | amt x, bal y => .ok (simplify (.bal (Balance.sub (Balance.ofAmt x) y)))
  | bal x, int y => .ok (simplify (.bal (Balance.subAmt x (Amount.ofInt y))))
  | bal x, amt y => .ok (simplify (.bal (Balance.subAmt x y)))
  | bal x, bal y => .ok (simplify (.bal (Balance.sub x y)))
  | _, _ => .error (.cannot "sub")

/-- value_t::operator*=. -/
def mul (env : PrecEnv) (a b : Value) : Res Value :=
  match a, b with
  | int x, int y => .ok (.int (x * y))
  | int x, amt y => .ok (.amt (Amount.mul env y (Amount.ofInt x)))
  | amt x, int y => .ok (.amt (Amount.mul env x (Amount.ofInt y)))
  | amt x, amt y => .ok (.amt (Amount.mul env x y))
  | amt x, bal [y] => .ok (.amt (Amount.mul env x y))
  | bal x, int y => (Balance.mulAmt env x (Amount.ofInt y)).map .bal
  | bal [x], amt y => .ok (.amt (Amount.mul env x y))
  | bal x, amt y =>
    if ¬ y.hasComm then (Balance.mulAmt env x y).map .bal else .error (.cannot "mul")
  | _, _ => .error (.cannot "mul")

/-- Truncating C `long` division (value.cc 711); `none` stands for the
    undefined behaviour of dividing by zero (SIGFPE). -/
def intDiv (x y : Int) : Res Value :=
  if y = 0 then .error .divZero else .ok (.int (Int.tdiv x y))

/-- value_t::operator/=. The INTEGER ÷ AMOUNT cell is `Gen.intDivAmtSwapped`-
    dependent: the pinned source computes `amount / integer` there. -/
def div (env : PrecEnv) (a b : Value) : Res Value :=
  match a, b with
  | int x, int y => intDiv x y
  | int x, amt y =>
    if Gen.intDivAmtSwapped then (Amount.div env y (Amount.ofInt x)).map .amt
    else (Amount.div env (Amount.ofInt x) y).map .amt
  | amt x, int y => (Amount.div env x (Amount.ofInt y)).map .amt
  | amt x, amt y => (Amount.div env x y).map .amt
  | amt x, bal [y] => (Amount.div env x y).map .amt
  | bal x, int y => (Balance.divAmt env x (Amount.ofInt y)).map .bal
  | bal [x], amt y => (Amount.div env x y).map .amt
  | bal x, amt y =>
    if ¬ y.hasComm then (Balance.divAmt env x y).map .bal else .error (.cannot "div")
  | _, _ => .error (.cannot "div")

/-- value_t::in_place_negate. -/
def neg : Value → Res Value
  | bool b => .ok (.bool (!b))
  | int n => .ok (.int (-n))
  | amt a => .ok (.amt a.neg)
  | bal b => .ok (.bal b.neg)
  | _ => .error (.cannot "negate")

/-- value_t::abs. -/
def abs : Value → Res Value
  | int n => .ok (.int (if n < 0 then -n else n))
  | amt a => .ok (.amt a.abs)
  | bal b => .ok (.bal b.abs)
  | _ => .error (.cannot "abs")

/-- value_t::is_equal_to. -/
def eq (a b : Value) : Res Bool :=
  match a, b with
  | void, void => .ok true
  | void, _ => .ok false
  | bool x, bool y => .ok (x == y)
  | int x, int y => .ok (x == y)
  | int x, amt y => .ok (y.eqv (Amount.ofInt x))
  | int x, bal y => .ok (Balance.eqAmt y (Amount.ofInt x))
  | amt x, int y => (Amount.cmp x (Amount.ofInt y)).map (· == .eq)
  | amt x, amt y => .ok (x.eqv y)
  | amt x, bal y => .ok (Balance.eqAmt y x)
  | bal x, int y => .ok (Balance.eqAmt x (Amount.ofInt y))
  | bal x, amt y => .ok (Balance.eqAmt x y)
  | bal x, bal y => .ok (Balance.eqBal x y)
  | _, _ => .error (.cannot "compare")

/-- value_t::is_greater_than on the cells reached from `is_less_than`'s
    BALANCE row (`pair.second >= val` expands to `!(val > pair.second)`). -/
def gtAmt (v : Value) (x : Amount) : Res Bool :=
  match v with
  | int n => (Amount.cmp x (Amount.ofInt n)).map (· == .lt)
  | amt a => (Amount.cmp a x).map (· == .gt)
  | _ => .error (.cannot "compare")

/-- Order of two different commodities used by `<` on amounts of different
    commodities (commodity_t::compare_by_commodity on unannotated commodities:
    by symbol). -/
def commLt (a b : Comm) : Bool := a < b

/-- balance_t::sorted_amounts on unannotated commodities: stable sort by symbol
    (commodity_t::compare_by_commodity). -/
def sortByComm (b : Balance) : Balance :=
  b.foldr (fun x acc => ins x acc) []
where ins (x : Amount) : Balance → Balance
  | [] => [x]
  | y :: ys => if y.comm < x.comm then y :: ins x ys else x :: y :: ys

/-- the order in which `<` walks the components of a balance: `sorted_amounts`
    order when the source sorts them (`Gen.ltBalanceSorted`), else the map's
    own enumeration order (here: the list as given). -/
def ltWalkOrder (b : Balance) : Balance := if Gen.ltBalanceSorted then sortByComm b else b

/-- value_t::is_less_than. -/
def lt (a b : Value) : Res Bool :=
  match a, b with
  | bool x, bool y => .ok (!x && y)
  | int x, int y => .ok (decide (x < y))
  | int x, amt y => (Amount.cmp y (Amount.ofInt x)).map (· == .gt)
  | int x, bal y => do
    let t ← toAmount (.bal y)
    (Amount.cmp t (Amount.ofInt x)).map (· == .gt)
  | amt x, int y => (Amount.cmp x (Amount.ofInt y)).map (· == .lt)
  | amt x, amt y =>
    if x.comm = y.comm ∨ ¬ x.hasComm ∨ ¬ y.hasComm then (Amount.cmp x y).map (· == .lt)
    else .ok (commLt x.comm y.comm)
  | amt x, bal y => do
    let t ← toAmount (.bal y)
    (Amount.cmp t x).map (· == .gt)
  | bal x, int y => ltAll (ltWalkOrder x) (.int y)
  | bal x, amt y => ltAll (ltWalkOrder x) (.amt y)
  | bal x, bal y => do
    let t ← toAmount (.bal y)
    let s ← toAmount (.bal x)
    (Amount.cmp t s).map (· == .gt)
  | _, _ => .error (.cannot "compare")
where
  /-- every component is strictly below `v`, and there is at least one. -/
  ltAll (x : Balance) (v : Value) : Res Bool :=
    match x with
    | [] => .ok false
    | c :: cs => do
      let g ← gtAmt v c
      if ¬ g then pure false
      else match cs with
        | [] => pure true
        | _ => ltAll cs v

/-- `>`, `<=`, `>=`, `!=` as boost::operators derives them from `<` and `==`. -/
def gt (a b : Value) : Res Bool := lt b a
def le (a b : Value) : Res Bool := (lt b a).map (!·)
def ge (a b : Value) : Res Bool := (lt a b).map (!·)
def ne (a b : Value) : Res Bool := (eq a b).map (!·)

/-- numeric values: what a posting amount or a running total can be -/
def isNum : Value → Bool
  | int _ | amt _ | bal _ => true
  | _ => false

/-- A report's running total: the left fold of `operator+=` over the values of the
    postings reported so far, starting from `acc` (VOID for a fresh total). -/
def sumFrom (acc : Value) : List Value → Res Value
  | [] => .ok acc
  | v :: vs => match add acc v with
    | .ok r => sumFrom r vs
    | .error e => .error e

end Value

end Ledger
