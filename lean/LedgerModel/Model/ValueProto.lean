/- Driver ops for the numeric value lattice (C03, C15): an RPN program over
   typed operands, answered with the canonical rendering used by the
   `verif_rational` hook. -/
import LedgerModel.Model.Value

namespace Ledger

def Amount.render (a : Amount) : String :=
  s!"{ratStr a.q}:{a.prec}:{boolStr a.keep}:{a.comm}"

/-- insertion sort of strings (lexicographic by code point, as std::sort on std::string for ASCII) -/
def sortStrings (l : List String) : List String :=
  l.foldr (fun x acc => ins x acc) []
where ins (x : String) : List String → List String
  | [] => [x]
  | y :: ys => if x ≤ y then x :: y :: ys else y :: ins x ys

def Value.render : Value → String
  | .void => "N"
  | .bool b => "T:" ++ (if b then "true" else "false")
  | .int n => s!"I:{n}"
  | .amt a => "A:" ++ a.render
  | .bal b => "B:" ++ ";".intercalate (sortStrings (b.map Amount.render))

def Err.render : Err → String
  | .diffComm => "diffComm"
  | .divZero => "divZero"
  | .multiComm => "multiComm"
  | .cannot _ => "cannot"

def parseAmount? (s : String) : Option Amount :=
  -- q:prec:keep:comm   (comm may itself contain ':' – rejoin the tail)
  match s.splitOn ":" with
  | q :: p :: k :: rest => do
    let q ← parseRat? q
    let p ← p.toNat?
    let k ← parseBool? k
    pure { q := q, prec := p, keep := k, comm := ":".intercalate rest }
  | _ => none

def parseEnv (s : String) : PrecEnv :=
  let pairs := (splitList s ",").filterMap (fun kv =>
    match kv.splitOn "=" with
    | [k, v] => v.toNat?.map (fun n => (k, n))
    | _ => none)
  fun c => match pairs.find? (fun kv => kv.1 = c) with
    | some kv => kv.2
    | none => 0

def rpnStep (env : PrecEnv) (st : List Value) (tok : String) : Except String (List Value) :=
  let bin (f : Value → Value → Res Value) : Except String (List Value) :=
    match st with
    | b :: a :: rest => match f a b with
      | .ok v => .ok (v :: rest)
      | .error e => .error e.render
    | _ => .error "stack"
  let un (f : Value → Res Value) : Except String (List Value) :=
    match st with
    | a :: rest => match f a with
      | .ok v => .ok (v :: rest)
      | .error e => .error e.render
    | _ => .error "stack"
  let cmp (f : Value → Value → Res Bool) := bin (fun a b => (f a b).map Value.bool)
  if tok.startsWith "i:" then
    match (tok.drop 2).toString.toInt? with
    | some n => .ok (.int n :: st)
    | none => .error "bad-op"
  else if tok.startsWith "a:" then
    match parseAmount? (tok.drop 2).toString with
    | some a => .ok (.amt a :: st)
    | none => .error "bad-op"
  else match tok with
    | "+" => bin Value.add
    | "-" => bin Value.sub
    | "*" => bin (Value.mul env)
    | "/" => bin (Value.div env)
    | "neg" => un Value.neg
    | "abs" => un Value.abs
    | "==" => cmp Value.eq
    | "!=" => cmp Value.ne
    | "<" => cmp Value.lt
    | ">" => cmp Value.gt
    | "<=" => cmp Value.le
    | ">=" => cmp Value.ge
    | _ => .error "bad-op"

/-- `val.rpn <env> <tok> <tok> ...` -/
def opValRpn (args : List String) : String :=
  match args with
  | envs :: toks =>
    let env := parseEnv envs
    let rec go (st : List Value) : List String → String
      | [] => match st with
        | [v] => "ok\t" ++ v.render
        | _ => "err\tstack"
      | t :: ts => match rpnStep env st t with
        | .ok st' => go st' ts
        | .error e => "err\t" ++ e
    go [] toks
  | _ => "err\tbad-op"

def ValueProto.ops : List (String × (List String → String)) := [("val.rpn", opValRpn)]

end Ledger
