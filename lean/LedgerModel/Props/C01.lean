/-
C01 — a transaction is accepted if and only if its postings balance.

Model: `FinX.finalize env bucket enum x` (Model/Finalize.lean) mirrors
`xact_base_t::finalize` (src/xact.cc 158-423) step by step; `FinX.step` is the
journal step that drops a transaction whose finalize fails and counts one error
(journal.cc 365-372, textual.cc 258-300).  `env` is the commodity display
precision in force, `enum` the enumeration order of the residual's hash map
(assumed only to be an enumeration: `(enum b).Perm b`).

`FinX.residual ps c` is the exact per-commodity sum of cost-or-amount over the
must-balance postings (ordinary and [bracketed]); `FinX.displaysZero env c q`
says that the exact quantity `q` of commodity `c` prints as all zeros at `c`'s
display precision (`Amount.isZero` of an amount whose precision counter exceeds
the display precision; for the null commodity: `q = 0`).

Not modelled (kept out of the generators, see Model/Finalize.lean): lot
annotations and the gain/loss adjustment, scaling commodities.

The tie to the C++: `C01.finalize_shape_pinned` (every statement the model
mirrors, and the whole bodies of finalize / add_xact / the textual.cc error
path, re-extracted from the working tree) and the differential check of
`xact.fin` / `journal.fin` against the rebuilt binary (tools/props/c01.py).
-/
import LedgerModel.Lemmas.Finalize
import LedgerModel.Gen.Finalize
import LedgerModel.Model.FinalizePinned

namespace Ledger
open FinX

/-- The statements of finalize (must_balance filter, cost-or-amount, null-post
    errors, bucket, implicit exchange, null filling, the `is_zero` test and its
    error text), of add_balancing_post, sorted_amounts, compare_by_commodity,
    add_xact and the textual.cc error accounting found in the working tree are,
    token for token, the ones the model mirrors. -/
theorem C01.finalize_shape_pinned : Gen.finalizeShape = Pinned.finalizeShape := rfl

/-- An accepted transaction balances to within display precision: in every
    commodity — an annotated (lot) commodity is a commodity of its own — the exact
    residual of the RESULT (costs applied, lot-priced costs at their basis,
    inferred postings included) prints as zero at the display precision of the
    commodity's base. -/
theorem C01.finalize_ok_residual_zero (env : PrecEnv) (bucket : Option String)
    (enum : Balance → Balance) (henum : ∀ b, (enum b).Perm b) (x : LXact) (x' : FXact)
    (h : finalize env bucket enum x = .ok x') :
    ∀ c, displaysZero (liftEnv env) c (residual x'.posts c) = true :=
  finalizeF_ok (liftEnv env) bucket enum henum _ _ (ofPosting_cc _ x.posts) x' h

/-- Exact fragment: no posting carries a cost or a lot annotation and every
    amount is a commoditized decimal written with at most its commodity's display
    precision (`FinX.Exact`; the loader guarantees the precision part,
    `C01.step_precision_covers`).  Then an accepted transaction sums to EXACTLY
    zero in every commodity.  The implicit two-commodity exchange is covered
    (`y + |y/x|·x` is 0 or 2y, and 2y is a non-zero multiple of the display unit,
    which never prints as zero). -/
theorem C01.finalize_exact_of_migrated (env : PrecEnv) (bucket : Option String)
    (enum : Balance → Balance) (henum : ∀ b, (enum b).Perm b) (x : LXact) (x' : FXact)
    (hcost : ∀ p ∈ x.posts, p.post.cost = none) (hlot : ∀ p ∈ x.posts, p.lot = none)
    (hex : ∀ p ∈ x.posts, ∀ a, p.post.amount = some a → Exact (liftEnv env) a)
    (h : finalize env bucket enum x = .ok x') :
    ∀ c, residual x'.posts c = 0 :=
  finalizeF_exact (liftEnv env) bucket enum henum _ _ (ofPosting_cost_none _ x.posts hcost)
    (ofPosting_cc _ x.posts) (ofPosting_lot_none _ x.posts hlot)
    (ofPosting_amount _ x.posts _ hlot hex) x' h

/-- once a transaction has been read, the display precision of every commodity
    covers each of its posting amounts (amount.cc 1190-1195) -/
theorem C01.step_precision_covers (env : PrecEnv) (x : LXact) (p : LPosting) (a : Amount)
    (hp : p ∈ x.posts) (ha : p.post.amount = some a) : a.prec ≤ observe env x a.comm :=
  observe_covers env x p a hp ha

/-- Rejection.  Every must-balance posting has an amount, no bucket posting is
    added, every written cost is in another commodity than its amount, the
    implicit two-commodity exchange does not apply (`FinX.implicitExchange`: exactly
    two residual commodities, both displaying non-zero, and no written cost), no
    posting has both a lot price and a cost (for those see `C01.lot_cost_consistent`:
    the residual is then taken at the basis cost), and in some commodity the exact
    residual does not print as zero (in particular: it is off by a whole unit)
    ⇒ "Transaction does not balance". -/
theorem C01.finalize_unbalanced_error (env : PrecEnv) (bucket : Option String)
    (enum : Balance → Balance) (henum : ∀ b, (enum b).Perm b) (x : LXact)
    (hnonull : ∀ p ∈ x.posts.map (FPost.ofPosting (liftEnv env)), p.mustBalance = true → (costOrAmt p).isSome = true)
    (hb : bucket = none ∨ x.posts.length ≠ 1)
    (hcosts : costsOk (x.posts.map (FPost.ofPosting (liftEnv env))) = true)
    (himp : implicitExchange (liftEnv env) (x.posts.map (FPost.ofPosting (liftEnv env))) = false)
    (hlot : ∀ p ∈ x.posts.map (FPost.ofPosting (liftEnv env)), p.lotPrice = none ∨ p.cost = none)
    (c : Comm)
    (hres : displaysZero (liftEnv env) c (residual (x.posts.map (FPost.ofPosting (liftEnv env))) c) = false) :
    finalize env bucket enum x = .error .unbalanced :=
  finalizeF_unbalanced (liftEnv env) bucket enum henum _ _ hnonull (by simpa using hb) hcosts himp hlot c hres

/-- a written cost rules the implicit exchange out -/
theorem C01.no_implicit_exchange_with_cost (env : PrecEnv) (x : LXact)
    (h : ∃ p ∈ x.posts, p.post.amount.isSome = true ∧ p.post.cost.isSome = true) :
    implicitExchange env (x.posts.map (FPost.ofPosting env)) = false := by
  apply implicitExchange_false_of_cost
  obtain ⟨p, hp, ha, hc⟩ := h
  refine ⟨FPost.ofPosting env p, List.mem_map.2 ⟨p, hp, rfl⟩, ?_, rfl⟩
  cases hpa : p.post.amount with
  | none => rw [hpa] at ha; cases ha
  | some a =>
    cases hpc : p.post.cost with
    | none => rw [hpc] at hc; cases hc
    | some k => simp [FPost.ofPosting, hpa, hpc]

/-- a whole unit (or more) never prints as zero: `|q| ≥ 1` in a commodity `c` -/
theorem C01.whole_unit_not_zero (env : PrecEnv) (c : Comm) (hc : c ≠ "") (n : Int) (hn : n ≠ 0) :
    displaysZero env c ((n : Rat)) = false := by
  have : ((n : Rat)) = mkRat (n * (10 : Int) ^ (env c)) (10 ^ env c) := by
    have h0 : ((n : Rat)) = mkRat n (10 ^ 0) := by
      rw [Rat.mkRat_eq_div]; simp; grind
    rw [h0, mkRat_rescale n 0 (env c) (Nat.zero_le _)]; simp
  rw [this]
  apply displaysZero_grid_false env c hc
  intro h
  rcases Int.mul_eq_zero.1 h with h1 | h1
  · exact hn h1
  · exact absurd h1 (Int.pow_ne_zero (by decide))

/-- Lots (xact.cc 296-352).  A posting whose amount carries a lot price in the
    commodity of its cost leaves the cost loop with the BASIS cost
    `lot price × quantity` (exactly), its amount and annotation untouched; the
    balance receives exactly `basis − given cost` when the posting must balance
    (so a sale above or below the lot price has to be completed by a gain/loss
    posting, or is absorbed by an elided one).  [In this source the separate
    gain/loss posting is `#if 0`; the cost is adjusted instead.] -/
theorem C01.lot_cost_consistent (env : PrecEnv) (date : String) (p p' : FPost) (gl : Option Amount)
    (price amt cost : Amount)
    (h : lotStep env date p = .ok (p', gl)) (hl : p.lotPrice = some price) (ha : p.amount = some amt)
    (hc : p.cost = some cost) (hcomm : (Amount.mul env price amt).comm = cost.comm) :
    ∃ c', p'.cost = some c' ∧ c'.q = price.q * amt.q ∧ c'.comm = cost.comm ∧ p'.amount = some amt ∧
      (∀ g, gl = some g → g.q = price.q * amt.q - cost.q ∧ g.comm = cost.comm) ∧
      (gl = none → p.mustBalance = false ∨ price.q * amt.q = cost.q) :=
  lotStep_cost_consistent env date p p' gl price amt cost h hl ha hc hcomm

/-- … and a lot-priced posting WITHOUT `@` gets no cost at all: it stays an amount
    of its annotated commodity (and is balanced in that commodity). -/
theorem C01.lot_without_cost_untouched (env : PrecEnv) (date : String) (p : FPost) (h : p.cost = none) :
    lotStep env date p = .ok (p, none) :=
  lotStep_nocost env date p h

/-- whatever the cost loop does to a posting, its contribution to the residual
    moves by exactly what is handed to the balance; account, kind and the
    presence of an amount are unchanged -/
theorem C01.lot_step_residual (env : PrecEnv) (date : String) (p p' : FPost) (gl : Option Amount)
    (h : lotStep env date p = .ok (p', gl)) :
    p'.account = p.account ∧ p'.kind = p.kind ∧ p'.amount.isSome = p.amount.isSome ∧
    ∀ c, p'.bal c = p.bal c + glDen gl c := by
  obtain ⟨_, h2, h3, h4, _, h6, _⟩ := lotStep_spec env date p p' gl h
  exact ⟨h2, h3, h4, h6⟩

/-- Stripping lot annotations (any `s : Comm → Comm`, in particular C05's
    `stripComm k` over the same `BASE{price}[date](tag)` encoding) moves every
    quantity from its lot commodity `x` to `s x` and does nothing else: the
    residual of the stripped transaction at `c` is the residual of the original
    one summed over all lots that strip to `c` — the statement `C05.strip_den`
    makes about values, here about a transaction's balancing postings. -/
theorem C01.strip_residual (s : Comm → Comm) (ps : List FPost) (c : Comm) :
    residual (ps.map (stripPost s)) c = residualOn (fun x => decide (s x = c)) ps := by
  rw [residual_eq_residualOn, residualOn_strip]

/-- Journal step: a transaction whose finalize fails (other than the silent
    all-null case) is absent from the state and the error count grows by one. -/
theorem C01.step_rejects (enum : Balance → Balance) (st : JState) (x : LXact) (e : FinErr)
    (h : finalize (observe st.env x) st.bucket enum x = .error e) (he : e ≠ .ignored) :
    (step enum st (.xact x)).xacts = st.xacts ∧ (step enum st (.xact x)).errors = st.errors + 1 := by
  cases e <;> first | exact absurd rfl he | simp [step, h]

/-- and an accepted one is appended, the error count unchanged -/
theorem C01.step_accepts (enum : Balance → Balance) (st : JState) (x : LXact) (fx : FXact)
    (h : finalize (observe st.env x) st.bucket enum x = .ok fx) :
    (step enum st (.xact x)).xacts = st.xacts ++ [fx] ∧ (step enum st (.xact x)).errors = st.errors := by
  simp [step, h]

/-- The grand total at cost of all balancing postings of a loaded journal
    (accumulated posting by posting, as `bal -B` does) is the sum of the
    per-transaction residuals of the accepted transactions, each of which prints
    as zero at the display precision in force when it was accepted. -/
theorem C01.journal_total_at_cost (enum : Balance → Balance) (henum : ∀ b, (enum b).Perm b)
    (items : List JItem) (c : Comm) :
    grandTotal (load enum items) c
      = sumR ((load enum items).xacts.map (fun fx => residual fx.posts c)) ∧
    ∀ fx ∈ (load enum items).xacts, ∃ env, ∀ c, displaysZero env c (residual fx.posts c) = true := by
  refine ⟨residual_flatMap _ c, ?_⟩
  apply foldl_step_forall enum (fun fx => ∃ env, ∀ c, displaysZero env c (residual fx.posts c) = true) items
  · intro env bucket x fx _ hf
    exact ⟨liftEnv (observe env x), C01.finalize_ok_residual_zero _ bucket enum henum x fx hf⟩
  · intro fx hfx; cases hfx

/-- On the exact fragment (no costs, no lots; every posting amount a
    commoditized decimal as the reader produces it) the grand total of an
    accepted journal is EXACTLY zero in every commodity. -/
theorem C01.journal_total_exact (enum : Balance → Balance) (henum : ∀ b, (enum b).Perm b)
    (items : List JItem)
    (hcost : ∀ x, JItem.xact x ∈ items → ∀ p ∈ x.posts, p.post.cost = none ∧ p.lot = none)
    (hdec : ∀ x, JItem.xact x ∈ items → ∀ p ∈ x.posts, ∀ a, p.post.amount = some a →
      Decimal a ∧ hasAnn a.comm = false)
    (c : Comm) : grandTotal (load enum items) c = 0 := by
  rw [(C01.journal_total_at_cost enum henum items c).1]
  apply sumR_zero
  intro q hq
  obtain ⟨fx, hfx, rfl⟩ := List.mem_map.1 hq
  have := foldl_step_forall enum (fun fx => ∀ c, residual fx.posts c = 0) items
    (fun env bucket x fx hx hf =>
      C01.finalize_exact_of_migrated (observe env x) bucket enum henum x fx
        (fun p hp => (hcost x hx p hp).1) (fun p hp => (hcost x hx p hp).2)
        (fun p hp a ha => exact_of_decimal _ a (hdec x hx p hp a ha).1 (by
          show a.prec ≤ observe env x (lotBase a.comm)
          rw [lotBase_of_plain a.comm (hdec x hx p hp a ha).2]
          exact observe_covers env x p a hp ha)) hf)
    JState.init (fun fx h => by cases h)
  exact this fx hfx c

/-! ### non-vacuity -/

private def eur (n : Int) (d : Nat) : Amount := { q := mkRat n (10 ^ d), prec := d, keep := false, comm := "EUR" }
private def usd (n : Int) (d : Nat) : Amount := { q := mkRat n (10 ^ d), prec := d, keep := false, comm := "$" }
private def xx (n : Int) : Amount := { q := n, prec := 0, keep := false, comm := "XX" }
private def mkPost (acct : String) (k : PostKind) (a : Option Amount) (c : Option Cost) : Posting :=
  { account := acct, kind := k, state := 0, amount := a, cost := c, assert := none, note := "", line := 0 }
private def mkX (ps : List Posting) : LXact := { date := 18000, posts := ps.map (fun p => ⟨p, none⟩) }
private def aapl (n : Int) : Amount := { q := n, prec := 0, keep := false, comm := "AAPL" }
private def lot5 : LotSpec := { price := some (usd 500 2), total := false, fixated := false, date := none, tag := none }
private def mkL (ps : List (Posting × Option LotSpec)) : LXact := { date := 18262, posts := ps.map (fun p => ⟨p.1, p.2⟩) }
private def env2 : PrecEnv := fun c => if c = "EUR" ∨ c = "$" then 2 else 0

/-- a balanced transaction with a [bracketed] posting is accepted -/
example : (finalize env2 none id (mkX [mkPost "A" .real (some (eur 1000 2)) none,
    mkPost "B" .bvirtual (some (eur (-1000) 2)) none])).toBool = true := by decide +kernel

/-- `3 XX @ $0.333` against `$-1.00`: accepted with an exact residual of $-0.001 -/
example : (finalize env2 none id (mkX [mkPost "A" .real (some (xx 3)) (some ⟨usd 333 3, true⟩),
    mkPost "B" .real (some (usd (-100) 2)) none])).toBool = true := by decide +kernel

/-- off by one unit: rejected with `unbalanced` -/
example : finalize env2 none id (mkX [mkPost "A" .real (some (eur 1000 2)) none,
    mkPost "B" .real (some (eur (-900) 2)) none]) = .error .unbalanced := by decide +kernel

/-- the rejected transaction is dropped and counted -/
example : ((load id [.xact (mkX [mkPost "A" .real (some (eur 1000 2)) none,
      mkPost "B" .real (some (eur (-900) 2)) none]),
    .xact (mkX [mkPost "A" .real (some (eur 1000 2)) none, mkPost "B" .real none none])]).errors,
   (load id [.xact (mkX [mkPost "A" .real (some (eur 1000 2)) none,
      mkPost "B" .real (some (eur (-900) 2)) none]),
    .xact (mkX [mkPost "A" .real (some (eur 1000 2)) none, mkPost "B" .real none none])]).xacts.length) = (1, 1) := by
  decide +kernel

/-- the implicit exchange: 10.00 EUR against $-12.34 is accepted -/
example : (finalize env2 none id (mkX [mkPost "A" .real (some (eur 1000 2)) none,
    mkPost "B" .real (some (usd (-1234) 2)) none])).toBool = true := by decide +kernel

/-- hypotheses of `finalize_exact_of_migrated` are satisfiable -/
example : Exact (liftEnv env2) (eur 1000 2) := ⟨by decide, rfl, by decide +kernel, 1000, by decide +kernel⟩

/-- selling 10 AAPL {$5.00} @ $7.00 for $70.00 does not balance (the $20 gain is missing) … -/
example : finalize env2 none id (mkL [(mkPost "A" .real (some (aapl (-10))) (some ⟨usd 700 2, true⟩), some lot5),
    (mkPost "B" .real (some (usd 7000 2)) none, none)]) = .error .unbalanced := by decide +kernel

/-- … with the gain posted it does, and the lot posting is carried at its basis cost $-50 -/
example : (finalize env2 none id (mkL [(mkPost "A" .real (some (aapl (-10))) (some ⟨usd 700 2, true⟩), some lot5),
    (mkPost "B" .real (some (usd 7000 2)) none, none), (mkPost "G" .real (some (usd (-2000) 2)) none, none)])).toOption.map
      (fun fx => fx.posts.map (fun p => (p.account, (p.amount.map (·.comm)).getD "", ((costOrAmt p).map (·.q)).getD 0)))
    = some [("A", "AAPL{5/1 $}[]()", (-50 : Rat)), ("B", "$", (70 : Rat)), ("G", "$", (-20 : Rat))] := by
  decide +kernel

/-- a purchase `10 AAPL @ $5.00` is annotated with the computed price and the transaction date -/
example : (finalize env2 none id (mkL [(mkPost "A" .real (some (aapl 10)) (some ⟨usd 500 2, true⟩), none),
    (mkPost "B" .real none none, none)])).toOption.map
      (fun fx => fx.posts.map (fun p => (p.account, p.amount.map (fun a => (a.comm, a.q)))))
    = some [("A", some ("AAPL{5/1 $}[2020/01/01]()", 10)), ("B", some ("$", -50))] := by
  decide +kernel

end Ledger
