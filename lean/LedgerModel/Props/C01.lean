/-
C01 — a transaction is accepted if and only if its postings balance.

Model: `FinX.finalize env bucket enum x` (Model/Finalize.lean) mirrors
`xact_base_t::finalize` (src/xact.cc 158-423) step by step; `FinX.step` is the
journal step that drops a transaction whose finalize fails and counts one error
(journal.cc 365-372, textual.cc 258-300).  `env` is the commodity display
precision in force, `enum` the enumeration order of the residual's hash map
(assumed only to be an enumeration: `(enum b).Perm b`).

`FinX.residual ps c` is the exact per-commodity sum of cost-or-amount over the
must-balance postings (ordinary and [bracketed]); `FinX.displaysZero env c q`
says that the exact quantity `q` of commodity `c` prints as all zeros at `c`'s
display precision (`Amount.isZero` of an amount whose precision counter exceeds
the display precision; for the null commodity: `q = 0`).

Not modelled (kept out of the generators, see Model/Finalize.lean): lot
annotations and the gain/loss adjustment, scaling commodities.

The tie to the C++: `C01.finalize_shape_pinned` (every statement the model
mirrors, and the whole bodies of finalize / add_xact / the textual.cc error
path, re-extracted from the working tree) and the differential check of
`xact.fin` / `journal.fin` against the rebuilt binary (tools/props/c01.py).
-/
import LedgerModel.Lemmas.Finalize
import LedgerModel.Gen.Finalize
import LedgerModel.Model.FinalizePinned

namespace Ledger
open FinX

/-- The statements of finalize (must_balance filter, cost-or-amount, null-post
    errors, bucket, implicit exchange, null filling, the `is_zero` test and its
    error text), of add_balancing_post, sorted_amounts, compare_by_commodity,
    add_xact and the textual.cc error accounting found in the working tree are,
    token for token, the ones the model mirrors. -/
theorem C01.finalize_shape_pinned : Gen.finalizeShape = Pinned.finalizeShape := rfl

/-- An accepted transaction balances to within display precision: in every
    commodity the exact residual of the RESULT (costs applied, inferred postings
    included) prints as zero. -/
theorem C01.finalize_ok_residual_zero (env : PrecEnv) (bucket : Option String)
    (enum : Balance → Balance) (henum : ∀ b, (enum b).Perm b) (x : Xact) (x' : FXact)
    (h : finalize env bucket enum x = .ok x') :
    ∀ c, displaysZero env c (residual x'.posts c) = true :=
  finalizeF_ok env bucket enum henum _ (ofPosting_cc env x.posts) x' h

/-- Exact fragment: no posting carries a cost and every amount is a commoditized
    decimal written with at most its commodity's display precision (`FinX.Exact`;
    the loader guarantees the precision part, `C01.step_precision_covers`).  Then an
    accepted transaction sums to EXACTLY zero in every commodity.  The implicit
    two-commodity exchange is covered (`y + |y/x|·x` is 0 or 2y, and 2y is a
    non-zero multiple of the display unit, which never prints as zero). -/
theorem C01.finalize_exact_of_migrated (env : PrecEnv) (bucket : Option String)
    (enum : Balance → Balance) (henum : ∀ b, (enum b).Perm b) (x : Xact) (x' : FXact)
    (hcost : ∀ p ∈ x.posts, p.cost = none)
    (hex : ∀ p ∈ x.posts, ∀ a, p.amount = some a → Exact env a)
    (h : finalize env bucket enum x = .ok x') :
    ∀ c, residual x'.posts c = 0 :=
  finalizeF_exact env bucket enum henum _ (ofPosting_cost_none env x.posts hcost)
    (ofPosting_cc env x.posts) (ofPosting_amount env x.posts _ hex) x' h

/-- once a transaction has been read, the display precision of every commodity
    covers each of its posting amounts (amount.cc 1190-1195) -/
theorem C01.step_precision_covers (env : PrecEnv) (x : Xact) (p : Posting) (a : Amount)
    (hp : p ∈ x.posts) (ha : p.amount = some a) : a.prec ≤ observe env x a.comm :=
  observe_covers env x p a hp ha

/-- Rejection.  Every must-balance posting has an amount, no bucket posting is
    added, every written cost is in another commodity than its amount, the
    implicit two-commodity exchange does not apply (`FinX.implicitExchange`: exactly
    two residual commodities, both displaying non-zero, and no written cost), and
    in some commodity the exact residual does not print as zero (in particular:
    it is off by a whole unit) ⇒ "Transaction does not balance". -/
theorem C01.finalize_unbalanced_error (env : PrecEnv) (bucket : Option String)
    (enum : Balance → Balance) (henum : ∀ b, (enum b).Perm b) (x : Xact)
    (hnonull : ∀ p ∈ x.posts.map (FPost.ofPosting env), p.mustBalance = true → (costOrAmt p).isSome = true)
    (hb : bucket = none ∨ x.posts.length ≠ 1)
    (hcosts : costsOk (x.posts.map (FPost.ofPosting env)) = true)
    (himp : implicitExchange env (x.posts.map (FPost.ofPosting env)) = false)
    (c : Comm) (hres : displaysZero env c (residual (x.posts.map (FPost.ofPosting env)) c) = false) :
    finalize env bucket enum x = .error .unbalanced :=
  finalizeF_unbalanced env bucket enum henum _ hnonull (by simpa using hb) hcosts himp c hres

/-- a written cost rules the implicit exchange out -/
theorem C01.no_implicit_exchange_with_cost (env : PrecEnv) (x : Xact)
    (h : ∃ p ∈ x.posts, p.amount.isSome = true ∧ p.cost.isSome = true) :
    implicitExchange env (x.posts.map (FPost.ofPosting env)) = false := by
  apply implicitExchange_false_of_cost
  obtain ⟨p, hp, ha, hc⟩ := h
  refine ⟨FPost.ofPosting env p, List.mem_map.2 ⟨p, hp, rfl⟩, ?_, rfl⟩
  cases hpa : p.amount with
  | none => rw [hpa] at ha; cases ha
  | some a =>
    cases hpc : p.cost with
    | none => rw [hpc] at hc; cases hc
    | some k => simp [FPost.ofPosting, hpa, hpc]

/-- a whole unit (or more) never prints as zero: `|q| ≥ 1` in a commodity `c` -/
theorem C01.whole_unit_not_zero (env : PrecEnv) (c : Comm) (hc : c ≠ "") (n : Int) (hn : n ≠ 0) :
    displaysZero env c ((n : Rat)) = false := by
  have : ((n : Rat)) = mkRat (n * (10 : Int) ^ (env c)) (10 ^ env c) := by
    have h0 : ((n : Rat)) = mkRat n (10 ^ 0) := by
      rw [Rat.mkRat_eq_div]; simp; grind
    rw [h0, mkRat_rescale n 0 (env c) (Nat.zero_le _)]; simp
  rw [this]
  apply displaysZero_grid_false env c hc
  intro h
  rcases Int.mul_eq_zero.1 h with h1 | h1
  · exact hn h1
  · exact absurd h1 (Int.pow_ne_zero (by decide))

/-- Journal step: a transaction whose finalize fails (other than the silent
    all-null case) is absent from the state and the error count grows by one. -/
theorem C01.step_rejects (enum : Balance → Balance) (st : JState) (x : Xact) (e : FinErr)
    (h : finalize (observe st.env x) st.bucket enum x = .error e) (he : e ≠ .ignored) :
    (step enum st (.xact x)).xacts = st.xacts ∧ (step enum st (.xact x)).errors = st.errors + 1 := by
  cases e <;> first | exact absurd rfl he | simp [step, h]

/-- and an accepted one is appended, the error count unchanged -/
theorem C01.step_accepts (enum : Balance → Balance) (st : JState) (x : Xact) (fx : FXact)
    (h : finalize (observe st.env x) st.bucket enum x = .ok fx) :
    (step enum st (.xact x)).xacts = st.xacts ++ [fx] ∧ (step enum st (.xact x)).errors = st.errors := by
  simp [step, h]

/-- The grand total at cost of all balancing postings of a loaded journal
    (accumulated posting by posting, as `bal -B` does) is the sum of the
    per-transaction residuals of the accepted transactions, each of which prints
    as zero at the display precision in force when it was accepted. -/
theorem C01.journal_total_at_cost (enum : Balance → Balance) (henum : ∀ b, (enum b).Perm b)
    (items : List JItem) (c : Comm) :
    grandTotal (load enum items) c
      = sumR ((load enum items).xacts.map (fun fx => residual fx.posts c)) ∧
    ∀ fx ∈ (load enum items).xacts, ∃ env, ∀ c, displaysZero env c (residual fx.posts c) = true := by
  refine ⟨residual_flatMap _ c, ?_⟩
  apply foldl_step_forall enum (fun fx => ∃ env, ∀ c, displaysZero env c (residual fx.posts c) = true) items
  · intro env bucket x fx _ hf
    exact ⟨observe env x, C01.finalize_ok_residual_zero _ bucket enum henum x fx hf⟩
  · intro fx hfx; cases hfx

/-- On the exact fragment (no costs; every posting amount a commoditized decimal
    as the reader produces it) the grand total of an accepted journal is EXACTLY
    zero in every commodity. -/
theorem C01.journal_total_exact (enum : Balance → Balance) (henum : ∀ b, (enum b).Perm b)
    (items : List JItem)
    (hcost : ∀ x, JItem.xact x ∈ items → ∀ p ∈ x.posts, p.cost = none)
    (hdec : ∀ x, JItem.xact x ∈ items → ∀ p ∈ x.posts, ∀ a, p.amount = some a → Decimal a)
    (c : Comm) : grandTotal (load enum items) c = 0 := by
  rw [(C01.journal_total_at_cost enum henum items c).1]
  apply sumR_zero
  intro q hq
  obtain ⟨fx, hfx, rfl⟩ := List.mem_map.1 hq
  have := foldl_step_forall enum (fun fx => ∀ c, residual fx.posts c = 0) items
    (fun env bucket x fx hx hf =>
      C01.finalize_exact_of_migrated (observe env x) bucket enum henum x fx (hcost x hx)
        (fun p hp a ha => exact_of_decimal _ a (hdec x hx p hp a ha) (observe_covers env x p a hp ha)) hf)
    JState.init (fun fx h => by cases h)
  exact this fx hfx c

/-! ### non-vacuity -/

private def eur (n : Int) (d : Nat) : Amount := { q := mkRat n (10 ^ d), prec := d, keep := false, comm := "EUR" }
private def usd (n : Int) (d : Nat) : Amount := { q := mkRat n (10 ^ d), prec := d, keep := false, comm := "$" }
private def xx (n : Int) : Amount := { q := n, prec := 0, keep := false, comm := "XX" }
private def mkPost (acct : String) (k : PostKind) (a : Option Amount) (c : Option Cost) : Posting :=
  { account := acct, kind := k, state := 0, amount := a, cost := c, assert := none, note := "", line := 0 }
private def mkX (ps : List Posting) : Xact :=
  { date := 18000, aux := none, state := 0, code := "", payee := "p", note := "", posts := ps, line := 1, endLine := 3 }
private def env2 : PrecEnv := fun c => if c = "EUR" ∨ c = "$" then 2 else 0

/-- a balanced transaction with a [bracketed] posting is accepted -/
example : (finalize env2 none id (mkX [mkPost "A" .real (some (eur 1000 2)) none,
    mkPost "B" .bvirtual (some (eur (-1000) 2)) none])).toBool = true := by decide +kernel

/-- `3 XX @ $0.333` against `$-1.00`: accepted with an exact residual of $-0.001 -/
example : (finalize env2 none id (mkX [mkPost "A" .real (some (xx 3)) (some ⟨usd 333 3, true⟩),
    mkPost "B" .real (some (usd (-100) 2)) none])).toBool = true := by decide +kernel

/-- off by one unit: rejected with `unbalanced` -/
example : finalize env2 none id (mkX [mkPost "A" .real (some (eur 1000 2)) none,
    mkPost "B" .real (some (eur (-900) 2)) none]) = .error .unbalanced := by decide +kernel

/-- the rejected transaction is dropped and counted -/
example : ((load id [.xact (mkX [mkPost "A" .real (some (eur 1000 2)) none,
      mkPost "B" .real (some (eur (-900) 2)) none]),
    .xact (mkX [mkPost "A" .real (some (eur 1000 2)) none, mkPost "B" .real none none])]).errors,
   (load id [.xact (mkX [mkPost "A" .real (some (eur 1000 2)) none,
      mkPost "B" .real (some (eur (-900) 2)) none]),
    .xact (mkX [mkPost "A" .real (some (eur 1000 2)) none, mkPost "B" .real none none])]).xacts.length) = (1, 1) := by
  decide +kernel

/-- the implicit exchange: 10.00 EUR against $-12.34 is accepted -/
example : (finalize env2 none id (mkX [mkPost "A" .real (some (eur 1000 2)) none,
    mkPost "B" .real (some (usd (-1234) 2)) none])).toBool = true := by decide +kernel

/-- hypotheses of `finalize_exact_of_migrated` are satisfiable -/
example : Exact env2 (eur 1000 2) := ⟨by decide, rfl, by decide, 1000, rfl⟩

end Ledger
