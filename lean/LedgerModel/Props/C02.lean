/-
C02 — an elided amount is inferred as the exact negation of the rest.

Same model as C01 (`FinX.finalize`, Model/Finalize.lean, mirroring
`xact_base_t::finalize`, src/xact.cc 158-423, and `add_balancing_post`,
xact.cc 125-155).  `FinX.residual ps c` is the exact per-commodity sum of
cost-or-amount over the must-balance postings — ordinary and [bracketed]
postings share ONE residual, so a real null posting also offsets bracketed
amounts (as the binary does).  `FinX.fillPosts ps i n amts` is the transaction
after `add_balancing_post`: posting `i` (= `n`) gets `-amts[0]`, one copy of `n`
per further amount is appended (same account, kind and state; flagged
calculated and generated).

`enum` is the enumeration order of the residual's hash map; the theorems assume
only `(enum b).Perm b`, and `C02.fill_order_free` shows the result does not
depend on it (the C++ sorts with compare_by_commodity, balance.cc 273-300).
-/
import LedgerModel.Lemmas.Finalize
import LedgerModel.Gen.Finalize
import LedgerModel.Model.FinalizePinned

namespace Ledger
open FinX

/-- C02 rests on the same statements of the C++ as C01 (null-post detection and
    its error texts, bucket, `add_balancing_post`, `map_sorted_amounts`,
    `compare_by_commodity`, the cost computation of textual.cc). -/
theorem C02.finalize_shape_pinned : Gen.finalizeShape = Pinned.finalizeShape := rfl

/-- Exactly one must-balance posting `n` has no amount, at index `pre.length`
    (any position).  If the transaction is accepted then, with `ps'` the postings
    after the cost loop of xact.cc 288-352 (amounts that have a cost annotated with
    the computed price and date, lot-priced costs at their basis — see
    `C01.lot_cost_consistent`; the elided posting itself untouched, at the same
    index) and `amts` the entries of the residual of those postings:
    * the result is `fillPosts …`: posting `i` carries `-amts[0]`, and one
      generated posting per further amount is appended, each on `n`'s account
      with `n`'s kind, all flagged calculated;
    * `amts` has one entry per commodity — annotated (lot) commodities are
      commodities of their own — in `compare_by_commodity` order, and the entry
      of commodity `c` is exactly the sum over the other must-balance postings of
      cost-or-amount in `c` (a commodity without entry sums to 0);
    * the result sums to exactly zero in every commodity. -/
theorem C02.finalize_fills_null (env : PrecEnv) (bucket : Option String)
    (enum : Balance → Balance) (henum : ∀ b, (enum b).Perm b) (x : LXact) (x' : FXact)
    (pre post : List FPost) (n : FPost)
    (hx : x.posts.map (FPost.ofPosting (liftEnv env)) = pre ++ n :: post)
    (hpre : ∀ p ∈ pre, p.mustBalance = true → (costOrAmt p).isSome = true)
    (hpost : ∀ p ∈ post, p.mustBalance = true → (costOrAmt p).isSome = true)
    (hn : n.mustBalance = true ∧ n.cost = none ∧ n.amount = none)
    (h : finalize env bucket enum x = .ok x') :
    ∃ (bal0 : Value) (ps' : List FPost) (bal' : Value) (amts : List Amount),
      lotLoop (liftEnv env) (dateText x.date) (pre ++ n :: post) bal0 = .ok (ps', bal') ∧
      ps'[pre.length]? = some n ∧
      x'.posts = fillPosts ps' pre.length n amts ∧
      (∀ a ∈ amts, a.q = residual ps' a.comm) ∧
      (∀ c, c ∉ amts.map (·.comm) → residual ps' c = 0) ∧
      (amts.map (·.comm)).Nodup ∧ amts.Pairwise (fun a b => commLe a.comm b.comm = true) ∧
      (∀ c, residual x'.posts c = 0) := by
  unfold finalize at h
  rw [hx] at h
  obtain ⟨bal0, ps', bal', amts, h0, hi, h1, h2, h3, h4, h5⟩ :=
    finalizeF_fills_null (liftEnv env) bucket enum henum _ pre post n hpre hpost hn x' h
  refine ⟨bal0, ps', bal', amts, h0, hi, h1, ?_, ?_, h3, h4, h5⟩
  · intro a ha
    rw [← h2 a.comm, den_of_mem_wf h3 ha]
  · intro c hc
    rw [← h2 c, den_eq_zero_of_not_mem amts c hc]

/-- without costs the cost loop changes nothing: `ps'` above is the transaction as written -/
theorem C02.no_cost_no_change (env : PrecEnv) (date : String) (ps : List FPost) (bal : Value)
    (h : ∀ p ∈ ps, p.cost = none) : lotLoop env date ps bal = .ok (ps, bal) := by
  induction ps generalizing bal with
  | nil => rfl
  | cons q qs ih =>
    unfold lotLoop
    rw [lotStep_nocost env date q (h q List.mem_cons_self)]
    simp only [addGain, ih bal (fun r hr => h r (List.mem_cons_of_mem _ hr))]

/-- what `fillPosts` is, spelled out: the null posting filled in place, the rest
    appended on the same account, all calculated -/
theorem C02.fillPosts_spec (ps : List FPost) (i : Nat) (n : FPost) (a : Amount) (rest : List Amount) :
    fillPosts ps i n (a :: rest) =
      ps.set i { n with amount := some a.neg, calculated := true } ++
      rest.map (fun r => { n with amount := some r.neg, calculated := true, generated := true }) ∧
    (∀ p ∈ rest.map (fun r => ({ n with amount := some r.neg, calculated := true, generated := true } : FPost)),
      p.account = n.account ∧ p.kind = n.kind ∧ p.calculated = true) ∧
    fillPosts ps i n [] = ps := by
  refine ⟨rfl, ?_, rfl⟩
  intro p hp
  obtain ⟨r, _, rfl⟩ := List.mem_map.1 hp
  exact ⟨rfl, rfl, rfl⟩

/-- Two (or more) must-balance postings without amount: the transaction is
    rejected with "Only one posting with null amount allowed per transaction"
    (or its "account may be misspelled" variant). -/
theorem C02.finalize_two_nulls (env : PrecEnv) (bucket : Option String) (enum : Balance → Balance)
    (x : LXact) (pre rest : List FPost) (n₁ : FPost)
    (hx : x.posts.map (FPost.ofPosting (liftEnv env)) = pre ++ n₁ :: rest)
    (h₁ : n₁.mustBalance = true ∧ costOrAmt n₁ = none)
    (h₂ : ∃ p ∈ rest, p.mustBalance = true ∧ costOrAmt p = none) :
    finalize env bucket enum x = .error .twoNulls ∨
    finalize env bucket enum x = .error .misspelled := by
  unfold finalize
  rw [hx]
  exact finalizeF_two_nulls (liftEnv env) bucket enum _ pre rest n₁ h₁.1 h₁.2 h₂

/-- A transaction with a single posting (must-balance, with an amount and no
    cost; the amount may carry a lot) while a bucket account `b` is in force: a
    posting on the bucket account carrying the exact negation of the amount — in
    its own, possibly annotated, commodity — is appended, flagged calculated. -/
theorem C02.finalize_bucket (env : PrecEnv) (b : String) (enum : Balance → Balance) (x : LXact)
    (p : LPosting) (a : Amount) (hx : x.posts = [p])
    (hm : p.post.kind ≠ .virtual)
    (ha : (FPost.ofPosting (liftEnv env) p).amount = some a)
    (hc : p.post.cost = none) :
    finalize env (some b) enum x =
      .ok ⟨[FPost.ofPosting (liftEnv env) p,
            bucketPost b p.post.state (some ({ a with keep := false } : Amount).neg) true]⟩ := by
  unfold finalize
  rw [hx]
  have hcn : (FPost.ofPosting (liftEnv env) p).cost = none := by
    simp only [FPost.ofPosting, hc]; split <;> simp_all
  have hco : costOrAmt (FPost.ofPosting (liftEnv env) p) = some a := by
    simp [costOrAmt, hcn, ha]
  have hck : costsOk [FPost.ofPosting (liftEnv env) p] = true := by
    simp [costsOk, hcn]
  exact finalizeF_bucket (liftEnv env) b enum _ _ _ a (by simp [FPost.mustBalance, FPost.ofPosting, hm]) hco
    (by rw [ha]; rfl) hck (lotStep_nocost _ _ _ hcn)

/-- With a cost, the COST commodity is what the elided posting offsets: a
    posting `a @ k` / `a @@ k` (no lot price) followed by an elided one yields the
    exact negation of the total cost, in the cost's commodity; the priced posting
    comes back annotated with the computed per-unit price and the date. -/
theorem C02.cost_commodity_offset (env : PrecEnv) (enum : Balance → Balance) (x : LXact)
    (p n : LPosting) (a : Amount) (k : Cost) (pu : Amount) (hx : x.posts = [p, n])
    (hp : p.post.kind ≠ .virtual ∧ p.post.amount = some a ∧ p.post.cost = some k ∧ p.lot = none)
    (hak : a.comm ≠ k.amt.comm)
    (hpu : perUnitCost (liftEnv env) a (parseCost (liftEnv env) a k) = .ok pu)
    (hn : n.post.kind ≠ .virtual ∧ n.post.amount = none) :
    finalize env none enum x =
      .ok ⟨[annotatedPost (FPost.ofPosting (liftEnv env) p) a pu (dateText x.date),
            { FPost.ofPosting (liftEnv env) n with
              amount := some ({ parseCost (liftEnv env) a k with keep := false } : Amount).neg,
              calculated := true }]⟩ ∧
    ({ parseCost (liftEnv env) a k with keep := false } : Amount).neg.comm = k.amt.comm ∧
    ({ parseCost (liftEnv env) a k with keep := false } : Amount).neg.q =
      - (if k.perUnit then k.amt.q * a.q else if a.q < 0 then - k.amt.q else k.amt.q) := by
  have hcomm : (parseCost (liftEnv env) a k).comm = k.amt.comm := by
    unfold parseCost
    split
    · rfl
    · split <;> rfl
  have hq : (parseCost (liftEnv env) a k).q = (if k.perUnit then k.amt.q * a.q else if a.q < 0 then - k.amt.q else k.amt.q) := by
    unfold parseCost
    split
    · simp [Amount.mul_q]
    · split <;> simp [Amount.neg]
  refine ⟨?_, by simp [Amount.neg, hcomm], by simp [Amount.neg, hq]⟩
  unfold finalize
  rw [hx]
  have hpm : (FPost.ofPosting (liftEnv env) p).mustBalance = true := by simp [FPost.mustBalance, FPost.ofPosting, hp.1]
  have hnm : nullMB (FPost.ofPosting (liftEnv env) n) := by
    simp [nullMB, FPost.mustBalance, FPost.ofPosting, hn.1, hn.2]
  have hpa : (FPost.ofPosting (liftEnv env) p).amount = some a := by
    rw [ofPosting_amount_plain _ p hp.2.2.2]; exact hp.2.1
  have hpc : (FPost.ofPosting (liftEnv env) p).cost = some (parseCost (liftEnv env) a k) := by
    simp [FPost.ofPosting, hp.2.1, hp.2.2.1]
  have hpl : (FPost.ofPosting (liftEnv env) p).lotPrice = none := by
    simp [FPost.ofPosting, hp.2.2.2]
  exact finalizeF_pair (liftEnv env) enum _ _ _ a _ pu hpm hpa hpc hpl hpu (by rw [hcomm]; exact hak) hnm

/-- With a null posting present the result does not depend on the order in which
    the hash map of the residual is enumerated (`balance_t::map_sorted_amounts`
    sorts by `compare_by_commodity` and each commodity occurs once). -/
theorem C02.fill_order_free (env : PrecEnv) (bucket : Option String) (e₁ e₂ : Balance → Balance)
    (h₁ : ∀ b, (e₁ b).Perm b) (h₂ : ∀ b, (e₂ b).Perm b) (x : LXact)
    (hnull : ∃ p ∈ x.posts, p.post.kind ≠ .virtual ∧ p.post.amount = none) :
    finalize env bucket e₁ x = finalize env bucket e₂ x := by
  unfold finalize
  apply finalizeF_order_free (liftEnv env) bucket e₁ e₂ h₁ h₂
  obtain ⟨p, hp, hk, ha⟩ := hnull
  refine ⟨FPost.ofPosting (liftEnv env) p, List.mem_map.2 ⟨p, hp, rfl⟩, ?_, ?_⟩
  · simp [FPost.mustBalance, FPost.ofPosting, hk]
  · simp [costOrAmt, FPost.ofPosting, ha]

/-- Default-account declarations.  For any directive list, whatever the spelling
    of each declaration (`A X`, `bucket X`, `account X` + `default`): the bucket
    in force when a transaction is read is the account of the LAST declaration
    preceding it (none if there is none), and that is the bucket its `finalize`
    is run with. -/
theorem C02.bucket_last_declaration_wins (enum : Balance → Balance) (pre : List JItem) (x : LXact) :
    (load enum pre).bucket = lastBucket pre ∧
    load enum (pre ++ [.xact x]) = step enum (load enum pre) (.xact x) ∧
    (∀ fx, finalize (observe (load enum pre).env x) (lastBucket pre) enum x = .ok fx →
      (load enum (pre ++ [.xact x])).xacts = (load enum pre).xacts ++ [fx]) := by
  have hb : (load enum pre).bucket = lastBucket pre := by
    unfold load
    rw [foldl_step_bucket]
    cases lastBucket pre <;> rfl
  have hl : load enum (pre ++ [.xact x]) = step enum (load enum pre) (.xact x) := by
    simp [load, List.foldl_append]
  refine ⟨hb, hl, fun fx hf => ?_⟩
  rw [hl]
  simp only [step, hb, hf]

/-- a later declaration replaces an earlier one, in every combination of spellings -/
theorem C02.bucket_redeclared (enum : Balance → Balance) (pre mid : List JItem) (h₁ h₂ : BucketDecl) (a b : String)
    (hmid : lastBucket mid = none) :
    (load enum (pre ++ [.bucket h₁ a] ++ mid ++ [.bucket h₂ b])).bucket = some b ∧
    (load enum (pre ++ [.bucket h₁ a] ++ mid)).bucket = some a := by
  have key : ∀ l, (load enum l).bucket = lastBucket l := by
    intro l; unfold load; rw [foldl_step_bucket]; cases lastBucket l <;> rfl
  have app : ∀ l₁ l₂, lastBucket (l₁ ++ l₂) = (match lastBucket l₂ with | some c => some c | none => lastBucket l₁) := by
    intro l₁ l₂
    induction l₁ with
    | nil => simp only [List.nil_append, lastBucket]; cases lastBucket l₂ <;> rfl
    | cons it its ih =>
      cases it with
      | bucket how c => simp only [List.cons_append, lastBucket, ih]; cases lastBucket l₂ <;> rfl
      | xact y => simp only [List.cons_append, lastBucket, ih]
  constructor
  · rw [key, app]; rfl
  · rw [key, app, hmid]
    simp only
    rw [app]; rfl

/-- the sort itself: any two enumerations of a residual with one entry per
    commodity are sorted into the same list (shared with C19) -/
theorem C02.sortedAmounts_perm (l₁ l₂ : List Amount) (hp : l₁.Perm l₂)
    (hw : (l₁.map (·.comm)).Nodup) : sortByComm l₁ = sortByComm l₂ :=
  sortByComm_eq_of_perm hp hw

/-! ### non-vacuity -/

private def eur (n : Int) (d : Nat) : Amount := { q := mkRat n (10 ^ d), prec := d, keep := false, comm := "EUR" }
private def usd (n : Int) (d : Nat) : Amount := { q := mkRat n (10 ^ d), prec := d, keep := false, comm := "$" }
private def aaa (n : Int) : Amount := { q := n, prec := 0, keep := false, comm := "AAA" }
private def mkPost (acct : String) (k : PostKind) (a : Option Amount) (c : Option Cost) : Posting :=
  { account := acct, kind := k, state := 0, amount := a, cost := c, assert := none, note := "", line := 0 }
private def mkX (ps : List Posting) : LXact := { date := 18262, posts := ps.map (fun p => ⟨p, none⟩) }
private def lot (price : Int) (d : Option String) : LotSpec :=
  { price := some (usd price 2), total := false, fixated := false, date := d, tag := none }
private def mkL (ps : List (Posting × Option LotSpec)) : LXact := { date := 18262, posts := ps.map (fun p => ⟨p.1, p.2⟩) }
private def env2 : PrecEnv := fun c => if c = "EUR" ∨ c = "$" then 2 else 0

/-- null posting first, three commodities (one of them on a [bracketed] posting):
    `$` goes into the null posting, `AAA` and `EUR` are appended in that order -/
example : (finalize env2 none List.reverse (mkX [mkPost "N" .real none none,
      mkPost "A" .real (some (eur 1000 2)) none, mkPost "B" .bvirtual (some (usd 500 2)) none,
      mkPost "C" .real (some (aaa 7)) none])).toOption.map
      (fun fx => fx.posts.map (fun p => (p.account, p.amount.map (fun a => (a.comm, a.q)), p.calculated)))
    = some [("N", some ("$", -5), true), ("A", some ("EUR", 10), false), ("B", some ("$", 5), false),
            ("C", some ("AAA", 7), false), ("N", some ("AAA", -7), true), ("N", some ("EUR", -10), true)] := by
  decide +kernel

/-- elided posting next to two lots of one commodity: one inferred posting per lot,
    each in its own annotated commodity, the cheaper lot first -/
example : (finalize env2 none List.reverse (mkL [(mkPost "A" .real (some (aaa 5)) none, some (lot 600 none)),
      (mkPost "A" .real (some (aaa 10)) none, some (lot 500 (some "2019/02/01"))),
      (mkPost "N" .real none none, none)])).toOption.map
      (fun fx => fx.posts.map (fun p => (p.account, (p.amount.map (·.comm)).getD "", (p.amount.map (·.q)).getD 0, p.calculated)))
    = some [("A", "AAA{6/1 $}[]()", (5 : Rat), false), ("A", "AAA{5/1 $}[2019/02/01]()", (10 : Rat), false),
            ("N", "AAA{5/1 $}[2019/02/01]()", (-10 : Rat), true), ("N", "AAA{6/1 $}[]()", (-5 : Rat), true)] := by
  decide +kernel

/-- two null postings -/
example : finalize env2 none id (mkX [mkPost "N" .real none none,
      mkPost "A" .real (some (eur 1000 2)) none, mkPost "M" .bvirtual none none]) = .error .twoNulls := by
  decide +kernel

/-- bucket -/
example : (finalize env2 (some "Bucket") id (mkX [mkPost "A" .real (some (eur 1000 2)) none])).toOption.map
      (fun fx => fx.posts.map (fun p => (p.account, p.amount.map (fun a => (a.comm, a.q)), p.calculated)))
    = some [("A", some ("EUR", 10), false), ("Bucket", some ("EUR", -10), true)] := by
  decide +kernel

/-- cost commodity is offset: 10 AAA @ $2.50 and an elided posting gives $-25 -/
example : (finalize env2 none id (mkX [mkPost "A" .real (some (aaa 10)) (some ⟨usd 250 2, true⟩),
      mkPost "N" .real none none])).toOption.map
      (fun fx => fx.posts.map (fun p => (p.account, p.amount.map (fun a => (a.comm, a.q)), p.calculated)))
    = some [("A", some ("AAA{5/2 $}[2020/01/01]()", 10), false), ("N", some ("$", -25), true)] := by
  decide +kernel

end Ledger
