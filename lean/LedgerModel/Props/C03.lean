/-
C03 — amount arithmetic is exact rational arithmetic.

Field laws of `Rat` are Lean's; the content here is that ledger's *dispatch*
(type promotion INTEGER → AMOUNT → BALANCE, balance entry bookkeeping,
simplification, precision counters) preserves the exact denotation
`den : Value → Comm → Rat` of every operand, for all operands.

The tie to value.cc is `C03.cells_pinned` (the dispatch cells re-extracted from
the working tree are the ones this model was written against), the two
interpreted cells of `Gen.Consts`, and the differential check of `Value.*`
against the rebuilt binary.
-/
import LedgerModel.Lemmas.Value
import LedgerModel.Lemmas.BalanceEq
import LedgerModel.Gen.ValueCells
import LedgerModel.Model.ValueCellsPinned
import LedgerModel.Gen.AmountFns
import LedgerModel.Model.AmountFnsPinned

namespace Ledger
open Value

/-- The dispatch cells found in the working tree are the ones the model mirrors. -/
theorem C03.cells_pinned : Gen.valueCells = Pinned.valueCells := rfl

/-- The amount_t / balance_t / value_t routines found in the working tree are, token for
    token, the ones `Model/Value.lean` mirrors. -/
theorem C03.amount_fns_pinned : Gen.amountFns = Pinned.amountFns := rfl

/-- Addition preserves denotation, for every pair of operands on which it is defined
    (integers, plain and commoditized amounts, balances, in any combination). -/
theorem C03.add_den (a b r : Value) (h : Value.add a b = .ok r) (c : Comm) :
    r.den c = a.den c + b.den c := by
  unfold Value.add at h
  split at h
  · cases h; simp only [Value.den]; grind
  · cases h; simp only [Value.den]; split <;> grind
  · rename_i x y
    split at h
    · cases h
      simp only [Value.den, Balance.addAmt_den, Balance.den_ofAmt, Amount.den_ofInt]
    · rename_i hy
      obtain ⟨r', hr, rfl⟩ := Except.map_eq_ok h
      have hc : (Amount.ofInt x).comm = y.comm := by
        simp [Amount.hasComm] at hy; simp [Amount.ofInt, hy]
      simpa [Value.den] using Amount.add_den hr hc c
  · cases h
    simp only [Value.den, Balance.add_den, Balance.den_ofAmt, Amount.den_ofInt]
  · rename_i x y
    split at h
    · cases h
      simp only [Value.den, Balance.addAmt_den, Balance.den_ofAmt, Amount.den_ofInt]
    · rename_i hx
      obtain ⟨r', hr, rfl⟩ := Except.map_eq_ok h
      have hc : x.comm = (Amount.ofInt y).comm := by
        simp [Amount.hasComm] at hx; simp [Amount.ofInt, hx]
      simpa [Value.den] using Amount.add_den hr hc c
  · rename_i x y
    split at h
    · cases h
      simp only [Value.den, Balance.addAmt_den, Balance.den_ofAmt]
    · rename_i hxy
      obtain ⟨r', hr, rfl⟩ := Except.map_eq_ok h
      have hc : x.comm = y.comm := by simpa using hxy
      simpa [Value.den] using Amount.add_den hr hc c
  · cases h; simp only [Value.den, Balance.add_den, Balance.den_ofAmt]
  · cases h; simp only [Value.den, Balance.addAmt_den, Amount.den_ofInt]
  · cases h; simp only [Value.den, Balance.addAmt_den]
  · cases h; simp only [Value.den, Balance.add_den]
  · cases h

/-- Subtraction preserves denotation (including the erase-on-zero and
    simplify-to-integer-zero bookkeeping), provided the INTEGER − AMOUNT cell
    promotes a commoditized subtrahend to a balance as operator+= does
    (`Gen.intSubAmtPromotes`, read from the source; `C03.sub_flag` below is the
    obligation that it does). -/
theorem C03.sub_den (hflag : Gen.intSubAmtPromotes = true)
    (a b r : Value) (h : Value.sub a b = .ok r) (c : Comm) :
    r.den c = a.den c - b.den c := by
  unfold Value.sub at h
  split at h
  · cases h; simp only [Value.den]; split <;> grind
  · rename_i x y
    split at h
    · cases h
      rw [Value.simplify_den]
      simp only [Value.den, Balance.subAmt_den, Balance.den_ofAmt, Amount.den_ofInt]
    · rename_i hy
      obtain ⟨r', hr, rfl⟩ := Except.map_eq_ok h
      rw [Value.simplify_den]
      have hc : (Amount.ofInt x).comm = y.comm := by
        simp [hflag, Amount.hasComm] at hy; simp [Amount.ofInt, hy]
      simpa [Value.den] using Amount.sub_den hr hc c
  · cases h; rw [Value.simplify_den]
    simp only [Value.den, Balance.sub_den, Balance.den_ofAmt, Amount.den_ofInt]
  · rename_i x y
    split at h
    · cases h; rw [Value.simplify_den]
      simp only [Value.den, Balance.subAmt_den, Balance.den_ofAmt, Amount.den_ofInt]
    · rename_i hx
      obtain ⟨r', hr, rfl⟩ := Except.map_eq_ok h
      rw [Value.simplify_den]
      have hc : x.comm = (Amount.ofInt y).comm := by
        simp [Amount.hasComm] at hx; simp [Amount.ofInt, hx]
      simpa [Value.den] using Amount.sub_den hr hc c
  · rename_i x y
    split at h
    · cases h; rw [Value.simplify_den]
      simp only [Value.den, Balance.subAmt_den, Balance.den_ofAmt]
    · rename_i hxy
      obtain ⟨r', hr, rfl⟩ := Except.map_eq_ok h
      rw [Value.simplify_den]
      have hc : x.comm = y.comm := by simpa using hxy
      simpa [Value.den] using Amount.sub_den hr hc c
  · cases h; rw [Value.simplify_den]; simp only [Value.den, Balance.sub_den, Balance.den_ofAmt]
  · cases h; rw [Value.simplify_den]; simp only [Value.den, Balance.subAmt_den, Amount.den_ofInt]
  · cases h; rw [Value.simplify_den]; simp only [Value.den, Balance.subAmt_den]
  · cases h; rw [Value.simplify_den]; simp only [Value.den, Balance.sub_den]
  · cases h

/-- Obligation on the working tree: INTEGER − (commoditized AMOUNT) promotes to a balance. -/
theorem C03.sub_flag : Gen.intSubAmtPromotes = true := by decide

/-- Without the promotion the commodity of the subtrahend is lost: the model of the
    unpromoted cell computes `int 5 − 2 EUR = 3` (no commodity). -/
theorem C03.sub_unpromoted_counterexample (hflag : Gen.intSubAmtPromotes = false) :
    ∃ a b r, Value.sub a b = .ok r ∧ ∃ c, r.den c ≠ a.den c - b.den c := by
  refine ⟨.int 5, .amt ⟨2, 0, false, "EUR"⟩, .amt ⟨3, 0, false, ""⟩, ?_, "EUR", ?_⟩
  · simp only [Value.sub, hflag]; decide +kernel
  · decide +kernel

/-- Negation negates every component. -/
theorem C03.neg_den (a r : Value) (h : Value.neg a = .ok r) (hb : ∀ b, a ≠ .bool b) (c : Comm) :
    r.den c = - a.den c := by
  unfold Value.neg at h
  split at h
  · exact absurd rfl (hb _)
  · cases h; simp only [Value.den]; split <;> grind
  · cases h; simp only [Value.den, Amount.den_neg]
  · cases h; simp only [Value.den, Balance.den_neg]
  · cases h

/-- balance × amount scales the total (helper for `C03.mul_tot`). -/
theorem C03.mulAmt_tot (env : PrecEnv) (x : Balance) (y : Amount) (r : Balance)
    (h : Balance.mulAmt env x y = .ok r) : r.tot = x.tot * y.q := by
  unfold Balance.mulAmt at h
  by_cases hz : x.isRealZero = true
  · rw [if_pos hz] at h; cases h; rw [Balance.tot_of_isRealZero _ hz]; grind
  · rw [if_neg hz] at h
    by_cases hq : y.q = 0
    · rw [if_pos hq] at h; cases h; rw [Balance.tot_ofAmt, hq]; grind
    · rw [if_neg hq] at h
      by_cases hc : ¬ y.hasComm = true
      · rw [if_pos hc] at h; cases h; exact Balance.tot_map_mul env x y
      · rw [if_neg hc] at h
        match x, h with
        | [x0], h =>
          simp only at h
          split at h
          · cases h; simp only [Balance.tot, Amount.mul_q]; grind
          · cases h
        | [], h => simp at h
        | _ :: _ :: _, h => simp at h

/-- balance ÷ amount (helper for `C03.div_mul_cancel`). -/
theorem C03.divAmt_tot (env : PrecEnv) (x : Balance) (y : Amount) (r : Balance)
    (h : Balance.divAmt env x y = .ok r) : r.tot * y.q = x.tot ∧ (x.tot ≠ 0 → y.q ≠ 0) := by
  unfold Balance.divAmt at h
  by_cases hz : x.isRealZero = true
  · rw [if_pos hz] at h; cases h; rw [Balance.tot_of_isRealZero _ hz]; constructor <;> grind
  · rw [if_neg hz] at h
    by_cases hq : y.q = 0
    · rw [if_pos hq] at h; cases h
    · rw [if_neg hq] at h
      by_cases hc : ¬ y.hasComm = true
      · rw [if_pos hc] at h
        have := Balance.mapM'_div_tot h
        constructor <;> grind
      · rw [if_neg hc] at h
        match x, h with
        | [x0], h =>
          simp only at h
          split at h
          · obtain ⟨r', hr, rfl⟩ := Except.map_eq_ok h
            have h1 := Amount.div_q hr
            simp only [Balance.tot, h1]; constructor <;> grind
          · cases h
        | [], h => simp at h
        | _ :: _ :: _, h => simp at h

/-- Multiplication is exact: the total quantity of the result is the product of the
    totals, in every cell where the code defines it. -/
theorem C03.mul_tot (env : PrecEnv) (a b r : Value) (h : Value.mul env a b = .ok r) :
    r.tot = a.tot * b.tot := by
  unfold Value.mul at h
  split at h
  · cases h; simp only [Value.tot]; grind
  · cases h; simp only [Value.tot, Amount.mul_q, Amount.ofInt]; grind
  · cases h; simp only [Value.tot, Amount.mul_q, Amount.ofInt]
  · cases h; simp only [Value.tot, Amount.mul_q]
  · cases h; simp only [Value.tot, Amount.mul_q, Balance.tot]; grind
  · rename_i x y
    obtain ⟨r', hr, rfl⟩ := Except.map_eq_ok h
    simp only [Value.tot]
    have := C03.mulAmt_tot env x (Amount.ofInt y) r' hr
    simpa [Amount.ofInt] using this
  · cases h; simp only [Value.tot, Amount.mul_q, Balance.tot]; grind
  · rename_i x y _
    split at h
    · obtain ⟨r', hr, rfl⟩ := Except.map_eq_ok h
      simp only [Value.tot]
      exact C03.mulAmt_tot env x y r' hr
    · cases h
  · cases h

/-- Multiplying a (multi-commodity) balance or an amount by a commodity-less scalar
    scales every commodity component. -/
theorem C03.mul_scalar_den (env : PrecEnv) (x : Balance) (s : Amount) (r : Value)
    (hs : s.hasComm = false)
    (h : Value.mul env (.bal x) (.amt s) = .ok r) (c : Comm) :
    r.den c = x.den c * s.q := by
  match x, h with
  | [x0], h =>
    simp only [Value.mul] at h; cases h
    simp only [Value.den]
    have := Balance.den_map_mul env [x0] s hs c
    simp only [List.map, Balance.den_cons, Balance.den_nil] at this ⊢; grind
  | [], h =>
    simp only [Value.mul, hs, Bool.false_eq_true, not_false_eq_true, if_true] at h
    obtain ⟨r', hr, rfl⟩ := Except.map_eq_ok h
    simp [Balance.mulAmt, Balance.isRealZero] at hr; cases hr
    simp only [Value.den, Balance.den_nil]; grind
  | x0 :: x1 :: xs, h =>
    simp only [Value.mul, hs, Bool.false_eq_true, not_false_eq_true, if_true] at h
    obtain ⟨r', hr, rfl⟩ := Except.map_eq_ok h
    simp only [Value.den]
    unfold Balance.mulAmt at hr
    by_cases hz : Balance.isRealZero (x0 :: x1 :: xs) = true
    · rw [if_pos hz] at hr; cases hr; rw [Balance.den_of_isRealZero _ hz]; grind
    · rw [if_neg hz] at hr
      by_cases hq : s.q = 0
      · rw [if_pos hq] at hr; cases hr; rw [Balance.den_ofAmt]; simp only [Amount.den, hq]; split <;> grind
      · rw [if_neg hq] at hr
        have hc : ¬ s.hasComm = true := by simp [hs]
        rw [if_pos hc] at hr; cases hr
        exact Balance.den_map_mul env _ s hs c

/-- Division is exact: quotient × divisor = dividend on total quantities, in every
    cell except INTEGER ÷ INTEGER (C `long` division, truncating by design, see
    `C03.int_div_int`), provided the INTEGER ÷ AMOUNT cell does not swap its operands
    (`Gen.intDivAmtSwapped`, read from the source).  This is the full statement. -/
theorem C03.div_mul_cancel (hflag : Gen.intDivAmtSwapped = false)
    (env : PrecEnv) (a b r : Value) (h : Value.div env a b = .ok r)
    (hint : ¬ ∃ x y, a = .int x ∧ b = .int y) :
    r.tot * b.tot = a.tot ∧ (a.tot ≠ 0 → b.tot ≠ 0) := by
  unfold Value.div at h
  split at h
  · exact absurd ⟨_, _, rfl, rfl⟩ hint
  · simp only [hflag] at h
    obtain ⟨r', hr, rfl⟩ := Except.map_eq_ok h
    have h1 := Amount.div_q hr; have h2 := Amount.div_ok_ne hr
    simp only [Value.tot, h1, Amount.ofInt]; constructor <;> grind
  · obtain ⟨r', hr, rfl⟩ := Except.map_eq_ok h
    have h1 := Amount.div_q hr; have h2 := Amount.div_ok_ne hr
    simp only [Value.tot, h1, Amount.ofInt] at *; constructor <;> grind
  · obtain ⟨r', hr, rfl⟩ := Except.map_eq_ok h
    have h1 := Amount.div_q hr; have h2 := Amount.div_ok_ne hr
    simp only [Value.tot, h1]; constructor <;> grind
  · obtain ⟨r', hr, rfl⟩ := Except.map_eq_ok h
    have h1 := Amount.div_q hr; have h2 := Amount.div_ok_ne hr
    simp only [Value.tot, h1, Balance.tot]; constructor <;> grind
  · rename_i x y
    obtain ⟨r', hr, rfl⟩ := Except.map_eq_ok h
    simp only [Value.tot]
    have := C03.divAmt_tot env x (Amount.ofInt y) r' hr
    simpa [Amount.ofInt] using this
  · obtain ⟨r', hr, rfl⟩ := Except.map_eq_ok h
    have h1 := Amount.div_q hr; have h2 := Amount.div_ok_ne hr
    simp only [Value.tot, h1, Balance.tot]; constructor <;> grind
  · rename_i x y _
    split at h
    · obtain ⟨r', hr, rfl⟩ := Except.map_eq_ok h
      simp only [Value.tot]
      exact C03.divAmt_tot env x y r' hr
    · cases h
  · cases h

/-- The same statement with the INTEGER ÷ AMOUNT cell excluded holds whatever that
    cell does (`…_partial`: what is proved about the pinned tree, where the cell is
    swapped and pinned by test/unit/t_value.cc:646-651). -/
theorem C03.div_mul_cancel_partial (env : PrecEnv) (a b r : Value) (h : Value.div env a b = .ok r)
    (hint : ¬ ∃ x y, a = .int x ∧ b = .int y) (hia : ¬ ∃ x y, a = .int x ∧ b = .amt y) :
    r.tot * b.tot = a.tot ∧ (a.tot ≠ 0 → b.tot ≠ 0) := by
  unfold Value.div at h
  split at h
  · exact absurd ⟨_, _, rfl, rfl⟩ hint
  · exact absurd ⟨_, _, rfl, rfl⟩ hia
  · obtain ⟨r', hr, rfl⟩ := Except.map_eq_ok h
    have h1 := Amount.div_q hr; have h2 := Amount.div_ok_ne hr
    simp only [Value.tot, h1, Amount.ofInt] at *; constructor <;> grind
  · obtain ⟨r', hr, rfl⟩ := Except.map_eq_ok h
    have h1 := Amount.div_q hr; have h2 := Amount.div_ok_ne hr
    simp only [Value.tot, h1]; constructor <;> grind
  · obtain ⟨r', hr, rfl⟩ := Except.map_eq_ok h
    have h1 := Amount.div_q hr; have h2 := Amount.div_ok_ne hr
    simp only [Value.tot, h1, Balance.tot]; constructor <;> grind
  · rename_i x y
    obtain ⟨r', hr, rfl⟩ := Except.map_eq_ok h
    simp only [Value.tot]
    have := C03.divAmt_tot env x (Amount.ofInt y) r' hr
    simpa [Amount.ofInt] using this
  · obtain ⟨r', hr, rfl⟩ := Except.map_eq_ok h
    have h1 := Amount.div_q hr; have h2 := Amount.div_ok_ne hr
    simp only [Value.tot, h1, Balance.tot]; constructor <;> grind
  · rename_i x y _
    split at h
    · obtain ⟨r', hr, rfl⟩ := Except.map_eq_ok h
      simp only [Value.tot]
      exact C03.divAmt_tot env x y r' hr
    · cases h
  · cases h

/-- With the operands swapped the cell is not exact: `int 10 ÷ 2.5` gives `0.25`. -/
theorem C03.div_swapped_counterexample (hflag : Gen.intDivAmtSwapped = true) :
    ∃ env a b r, Value.div env a b = .ok r ∧ (¬ ∃ x y, a = .int x ∧ b = .int y) ∧
      r.tot * b.tot ≠ a.tot := by
  refine ⟨fun _ => 0, .int 10, .amt ⟨5/2, 1, false, ""⟩, .amt ⟨1/4, 7, false, ""⟩, ?_, ?_, ?_⟩
  · simp only [Value.div, hflag]; decide +kernel
  · rintro ⟨x, y, -, h⟩; cases h
  · decide +kernel

/-- The one deliberately inexact cell: INTEGER ÷ INTEGER is C `long` division
    (truncation toward zero); dividing by integer zero is an error, never a value. -/
theorem C03.int_div_int (env : PrecEnv) (x y : Int) :
    Value.div env (.int x) (.int y) =
      if y = 0 then .error .divZero else .ok (.int (Int.tdiv x y)) := by
  simp [Value.div, Value.intDiv]

/-- No division ever succeeds with a zero divisor. -/
theorem C03.div_ok_divisor_ne_zero (hflag : Gen.intDivAmtSwapped = false) (env : PrecEnv) (a b r : Value)
    (h : Value.div env a b = .ok r) (ha : a.tot ≠ 0) : b.tot ≠ 0 := by
  by_cases hint : ∃ x y, a = .int x ∧ b = .int y
  · obtain ⟨x, y, rfl, rfl⟩ := hint
    rw [C03.int_div_int] at h
    split at h
    · cases h
    · rename_i hy; simp only [Value.tot]; intro h0; apply hy; exact_mod_cast h0
  · exact (C03.div_mul_cancel hflag env a b r h hint).2 ha

/-- amount_t::compare decides the order of the exact quantities. -/
theorem C03.cmp_spec (p q : Amount) (h : ¬ (p.hasComm = true ∧ q.hasComm = true ∧ p.comm ≠ q.comm)) :
    Amount.cmp p q = .ok (if p.q < q.q then .lt else if p.q = q.q then .eq else .gt) := by
  simp only [Amount.cmp, if_neg h]

/-- Equality of scalars of one commodity is equality of the exact quantities. -/
theorem C03.eq_iff (a b : Value) (x y : Rat) (ca : Comm)
    (ha : a.scalar? = some (x, ca)) (hb : b.scalar? = some (y, ca)) :
    Value.eq a b = .ok (decide (x = y)) := by
  cases a <;> cases b <;> simp only [Value.scalar?, Option.some.injEq, Prod.mk.injEq, reduceCtorEq] at ha hb
  · obtain ⟨rfl, rfl⟩ := ha; obtain ⟨rfl, -⟩ := hb
    rename_i n m
    simp only [Value.eq]; congr 1
    by_cases h : n = m <;> simp [h, Rat.intCast_inj]
  · obtain ⟨rfl, rfl⟩ := ha; obtain ⟨rfl, hc⟩ := hb
    rename_i n p
    simp only [Value.eq, Amount.eqv, Amount.ofInt, ← hc]; congr 1
    by_cases h : p.q = (n : Rat) <;> simp [h, eq_comm]
  · obtain ⟨rfl, rfl⟩ := ha; obtain ⟨rfl, hc⟩ := hb
    rename_i p n
    have hne : ¬ (p.hasComm = true ∧ (Amount.ofInt n).hasComm = true ∧ p.comm ≠ (Amount.ofInt n).comm) := by
      simp [Amount.hasComm, Amount.ofInt]
    simp only [Value.eq]; rw [C03.cmp_spec _ _ hne]; simp only [Except.map, Amount.ofInt]; congr 1
    by_cases h1 : p.q < (n : Rat)
    · have : p.q ≠ (n : Rat) := by grind
      simp [h1, this]
    · by_cases h2 : p.q = (n : Rat) <;> simp [h1, h2]
  · obtain ⟨rfl, rfl⟩ := ha; obtain ⟨rfl, hc⟩ := hb
    rename_i p q
    simp only [Value.eq, Amount.eqv, hc]; congr 1
    by_cases h : p.q = q.q <;> simp [h]

/-- Ordering of scalars whose commodities agree (or one of which has none) is the
    ordering of the exact quantities. -/
theorem C03.lt_iff (a b : Value) (x y : Rat) (ca cb : Comm)
    (ha : a.scalar? = some (x, ca)) (hb : b.scalar? = some (y, cb))
    (hc : ca = cb ∨ ca = "" ∨ cb = "") :
    Value.lt a b = .ok (decide (x < y)) := by
  cases a <;> cases b <;> simp only [Value.scalar?, Option.some.injEq, Prod.mk.injEq, reduceCtorEq] at ha hb
  · obtain ⟨rfl, rfl⟩ := ha; obtain ⟨rfl, -⟩ := hb
    rename_i n m
    simp only [Value.lt]; congr 1
    by_cases h : n < m
    · have : (n : Rat) < (m : Rat) := Rat.intCast_lt_intCast.mpr h
      simp [h, this]
    · have : ¬ (n : Rat) < (m : Rat) := fun h' => h (Rat.intCast_lt_intCast.mp h')
      simp [h, this]
  · obtain ⟨rfl, rfl⟩ := ha; obtain ⟨rfl, rfl⟩ := hb
    rename_i n p
    have hne : ¬ (p.hasComm = true ∧ (Amount.ofInt n).hasComm = true ∧ p.comm ≠ (Amount.ofInt n).comm) := by
      simp [Amount.hasComm, Amount.ofInt]
    simp only [Value.lt]; rw [C03.cmp_spec _ _ hne]; simp only [Except.map, Amount.ofInt]; congr 1
    by_cases h1 : p.q < (n : Rat)
    · have : ¬ (n : Rat) < p.q := by grind
      simp [h1, this]
    · by_cases h2 : p.q = (n : Rat)
      · have : ¬ (n : Rat) < p.q := by grind
        simp [h1, h2]
      · have : (n : Rat) < p.q := by grind
        simp [h1, h2, this]
  · obtain ⟨rfl, rfl⟩ := ha; obtain ⟨rfl, rfl⟩ := hb
    rename_i p n
    have hne : ¬ (p.hasComm = true ∧ (Amount.ofInt n).hasComm = true ∧ p.comm ≠ (Amount.ofInt n).comm) := by
      simp [Amount.hasComm, Amount.ofInt]
    simp only [Value.lt]; rw [C03.cmp_spec _ _ hne]; simp only [Except.map, Amount.ofInt]; congr 1
    by_cases h1 : p.q < (n : Rat)
    · simp [h1]
    · by_cases h2 : p.q = (n : Rat) <;> simp [h1, h2]
  · obtain ⟨rfl, rfl⟩ := ha; obtain ⟨rfl, rfl⟩ := hb
    rename_i p q
    simp only [Value.lt]
    have hcond : (p.comm = q.comm ∨ ¬p.hasComm = true ∨ ¬q.hasComm = true) := by
      rcases hc with h | h | h
      · exact Or.inl h
      · exact Or.inr (Or.inl (by simp [Amount.hasComm, h]))
      · exact Or.inr (Or.inr (by simp [Amount.hasComm, h]))
    rw [if_pos hcond]
    have hne : ¬ (p.hasComm = true ∧ q.hasComm = true ∧ p.comm ≠ q.comm) := by
      simp only [Amount.hasComm] at hcond ⊢; grind
    simp only [C03.cmp_spec _ _ hne, Except.map]; congr 1
    by_cases h1 : p.q < q.q
    · simp [h1]
    · by_cases h2 : p.q = q.q <;> simp [h1, h2]

/-- Full statement for balances: `==` decides equality of the exact denotations.
    It is FALSE for the code as it is (`C03.eq_bal_counterexample`): `balance_t::operator+=`
    keeps a component that cancels to zero (known finding `C03:zero-entry-balance`). -/
def C03.EqBalDecidesDen : Prop :=
  ∀ a b : Balance, Value.eq (.bal a) (.bal b) = .ok (decide (∀ c ∈ a.comms ++ b.comms, a.den c = b.den c))

/-- What is proved instead (`…_partial`): on balances satisfying the representation
    invariant `Balance.WF` (one entry per commodity, none zero) `==` decides equality
    of denotations. -/
theorem C03.eq_bal_iff_den_partial (a b : Balance) (ha : a.WF) (hb : b.WF) :
    Value.eq (.bal a) (.bal b) = .ok true ↔ ∀ c, a.den c = b.den c := by
  simp only [Value.eq, Except.ok.injEq]
  exact Balance.eqBal_iff_den a b ha hb

/-- The witness reported by the check: {2.50 EUR, 0 USD} and {2.50 EUR} denote the same
    function but are not `==`. -/
theorem C03.eq_bal_counterexample :
    ∃ a b : Balance, Value.eq (.bal a) (.bal b) = .ok false ∧ ∀ c, a.den c = b.den c := by
  refine ⟨[⟨5/2, 2, false, "EUR"⟩, ⟨0, 0, false, "USD"⟩], [⟨5/2, 2, false, "EUR"⟩], by decide +kernel, ?_⟩
  intro c
  simp only [Balance.den_cons, Balance.den_nil, Amount.den]
  split <;> split <;> grind

/-- `-=` maintains the invariant (it erases an entry that becomes zero); `+=` is the
    operation that does not. -/
theorem C03.sub_keeps_wf (b : Balance) (a : Amount) (h : b.WF) : (Balance.subAmt b a).WF :=
  Balance.subAmt_WF b a h

theorem C03.add_breaks_wf : ∃ (b : Balance) (a : Amount), b.WF ∧ ¬ (Balance.addAmt b a).WF := by
  refine ⟨[⟨3, 0, false, "USD"⟩], ⟨-3, 0, false, "USD"⟩, ?_, ?_⟩
  · refine ⟨by simp [Balance.comms], ?_⟩
    intro x hx; simp only [List.mem_singleton] at hx; subst hx; decide +kernel
  · intro h
    have hne : ¬ ((-3 : Rat) = 0) := by decide +kernel
    have := h.2 ⟨3 + -3, 0, false, "USD"⟩ (by simp [Balance.addAmt, Balance.addGo, hne])
    exact this (by decide +kernel)

/-- The derived comparison operators are the ones boost::operators builds from `<` and `==`. -/
theorem C03.derived_ops (a b : Value) :
    Value.gt a b = Value.lt b a ∧ Value.le a b = (Value.lt b a).map (!·) ∧
    Value.ge a b = (Value.lt a b).map (!·) ∧ Value.ne a b = (Value.eq a b).map (!·) :=
  ⟨rfl, rfl, rfl, rfl⟩

/-- Corollary: addition is commutative on denotations. -/
theorem C03.add_comm_den (a b r r' : Value) (h : Value.add a b = .ok r) (h' : Value.add b a = .ok r')
    (c : Comm) : r.den c = r'.den c := by
  rw [C03.add_den a b r h, C03.add_den b a r' h']; grind

/-- Corollary: addition is associative on denotations. -/
theorem C03.add_assoc_den (a b c' ab bc r r' : Value)
    (h1 : Value.add a b = .ok ab) (h2 : Value.add ab c' = .ok r)
    (h3 : Value.add b c' = .ok bc) (h4 : Value.add a bc = .ok r') (c : Comm) :
    r.den c = r'.den c := by
  rw [C03.add_den _ _ _ h2, C03.add_den _ _ _ h1, C03.add_den _ _ _ h4, C03.add_den _ _ _ h3]; grind

/-- Corollary: subtraction undoes addition exactly. -/
theorem C03.add_sub_cancel_den (a b ab r : Value)
    (h1 : Value.add a b = .ok ab) (h2 : Value.sub ab b = .ok r) (c : Comm) :
    r.den c = a.den c := by
  rw [C03.sub_den C03.sub_flag _ _ _ h2, C03.add_den _ _ _ h1]; grind

/-- Corollary: division undoes multiplication exactly (outside INTEGER ÷ INTEGER). -/
theorem C03.mul_div_cancel_tot (env : PrecEnv) (a b ab r : Value)
    (h1 : Value.mul env a b = .ok ab) (h2 : Value.div env ab b = .ok r)
    (hint : ¬ ∃ x y, ab = .int x ∧ b = .int y) (hia : ¬ ∃ x y, ab = .int x ∧ b = .amt y)
    (hb : b.tot ≠ 0) :
    r.tot = a.tot := by
  have := (C03.div_mul_cancel_partial env ab b r h2 hint hia).1
  rw [C03.mul_tot env a b ab h1] at this
  grind

/-- The precision counter and the keep-precision flag never influence a quantity:
    results on operands that differ only in those fields have the same denotation. -/
theorem C03.prec_irrelevant_add (q1 q2 : Rat) (p1 p1' p2 p2' : Nat) (k1 k1' k2 k2' : Bool)
    (c1 c2 : Comm) (r r' : Value)
    (h : Value.add (.amt ⟨q1, p1, k1, c1⟩) (.amt ⟨q2, p2, k2, c2⟩) = .ok r)
    (h' : Value.add (.amt ⟨q1, p1', k1', c1⟩) (.amt ⟨q2, p2', k2', c2⟩) = .ok r') (c : Comm) :
    r.den c = r'.den c := by
  rw [C03.add_den _ _ _ h, C03.add_den _ _ _ h']; rfl

/-- `operator+=` is total on numeric operands and yields a numeric value. -/
theorem C03.add_total (a b : Value) (ha : a.isNum = true ∨ a = .void) (hb : b.isNum = true) :
    ∃ r, Value.add a b = .ok r ∧ r.isNum = true := by
  rcases a with _ | _ | x | x | x <;> rcases b with _ | _ | y | y | y <;>
    simp_all [Value.isNum, Value.add]
  · split <;> simp [Amount.add, Amount.ofInt, Amount.hasComm, Except.map]
  · split <;> simp [Amount.add, Amount.ofInt, Amount.hasComm, Except.map]
  · split
    · rename_i h; simp [Amount.add, Except.map, h]
    · exact ⟨_, rfl, rfl⟩

/-- A running total over arbitrarily many numeric posting values never fails. -/
theorem C03.sum_total (acc : Value) (vs : List Value) (hacc : acc.isNum = true ∨ acc = .void)
    (hvs : ∀ v ∈ vs, v.isNum = true) : ∃ r, Value.sumFrom acc vs = .ok r := by
  induction vs generalizing acc with
  | nil => exact ⟨acc, rfl⟩
  | cons v vs ih =>
    obtain ⟨r, hr, hn⟩ := C03.add_total acc v hacc (hvs v (List.mem_cons_self ..))
    simp only [Value.sumFrom, hr]
    exact ih r (Or.inl hn) (fun w hw => hvs w (List.mem_cons_of_mem _ hw))

/-- Report totals over arbitrarily many postings: the running total denotes, in every
    commodity, the exact sum of what was added — for any number of postings. -/
theorem C03.sum_den (acc : Value) (vs : List Value) (r : Value) (h : Value.sumFrom acc vs = .ok r)
    (c : Comm) : r.den c = acc.den c + (vs.map (fun v => v.den c)).sum := by
  induction vs generalizing acc with
  | nil => simp only [Value.sumFrom] at h; cases h; simp only [List.map_nil, List.sum_nil]; grind
  | cons v vs ih =>
    simp only [Value.sumFrom] at h
    split at h
    · rename_i r' hr'
      rw [ih r' h, C03.add_den acc v r' hr' c, List.map_cons, List.sum_cons]; grind
    · cases h

private theorem sum_perm_rat {l l' : List Rat} (h : l.Perm l') : l.sum = l'.sum := by
  induction h with
  | nil => rfl
  | cons x _ ih => simp only [List.sum_cons, ih]
  | swap x y l => simp only [List.sum_cons]; grind
  | trans _ _ ih1 ih2 => exact ih1.trans ih2

/-- The total does not depend on the order in which the postings are added. -/
theorem C03.sum_perm (acc : Value) (vs ws : List Value) (hp : vs.Perm ws) (r r' : Value)
    (h : Value.sumFrom acc vs = .ok r) (h' : Value.sumFrom acc ws = .ok r') (c : Comm) :
    r.den c = r'.den c := by
  rw [C03.sum_den acc vs r h c, C03.sum_den acc ws r' h' c,
      sum_perm_rat (hp.map (fun v => v.den c))]

/-- Adding a posting and its negation to a total leaves every commodity's quantity unchanged
    (cancelling pairs, however many postings lie between them). -/
theorem C03.sum_cancel (acc v nv : Value) (mid : List Value) (r r' : Value)
    (hneg : Value.neg v = .ok nv) (hb : ∀ b, v ≠ .bool b)
    (h : Value.sumFrom acc (v :: mid ++ [nv]) = .ok r) (h' : Value.sumFrom acc mid = .ok r')
    (c : Comm) : r.den c = r'.den c := by
  rw [C03.sum_den _ _ _ h c, C03.sum_den _ _ _ h' c]
  simp only [List.map_cons, List.map_append, List.map_nil, List.sum_cons, List.sum_append,
    List.sum_nil, C03.neg_den v nv hneg hb c]
  grind

/- Non-vacuity: concrete operands meet the hypotheses of the theorems above. -/
example : Value.add (.amt ⟨5/2, 2, false, "EUR"⟩) (.amt ⟨1/3, 6, false, "USD"⟩) =
    .ok (.bal [⟨5/2, 2, false, "EUR"⟩, ⟨1/3, 6, false, "USD"⟩]) := by decide +kernel
example : Value.div (fun _ => 2) (.amt ⟨10, 0, false, ""⟩) (.amt ⟨5/2, 1, false, ""⟩) =
    .ok (.amt ⟨4, 7, false, ""⟩) := by decide +kernel
example : Value.sub (.amt ⟨5, 0, false, ""⟩) (.amt ⟨2, 0, false, "EUR"⟩) =
    .ok (.bal [⟨5, 0, false, ""⟩, ⟨-2, 0, false, "EUR"⟩]) := by decide +kernel
example : Value.sumFrom .void [.amt ⟨5/2, 2, false, "EUR"⟩, .int 3, .amt ⟨-5/2, 2, false, "EUR"⟩] =
    .ok (.bal [⟨0, 2, false, "EUR"⟩, ⟨3, 0, false, ""⟩]) := by decide +kernel

end Ledger
