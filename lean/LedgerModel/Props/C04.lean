/-
C04 — amounts print at commodity precision, correctly rounded, and re-read unchanged.

Model: Model/AmountText.lean (printer `printAmount`/`fmtNum`/`groupInt`, reader
`parseAmount`/`scan`/`parseSymbol`, learning `migrate`).  Everything below is for
all quantities, precisions, symbols and styles; the only hypotheses are the
decidable guards spelled out at `C04.print_parse_roundtrip_partial`, each of which
excludes inputs on which the *current reader really fails* (witness theorems
below, replayed on the binary by tools/props/c04.py).

Tie to the source: `C04.code_pinned` (text of every mirrored C++ function),
`C04.rounding_mode` (the MPFR conversion rounds to nearest), the facts about the
regenerated `Gen.invalidChars` table, `Gen.quantityBufMax`/`Gen.symbolBufMax`
inside the model, and the differential check.
-/
import LedgerModel.Lemmas.AmountText
import LedgerModel.Model.AmountTextPinned

namespace Ledger
open AmountText

/-! ### tie to the source -/

/-- The functions the model mirrors still read as they did when it was written. -/
theorem C04.code_pinned : Gen.amountTextCode = Pinned.amountTextCode := rfl

/-- amount_t::print converts with `%.*RNf` / GMP_RNDN: round to nearest, not truncation. -/
theorem C04.rounding_mode :
    Gen.mpfrFormat = "%.*RNf" ∧ Gen.printRnd = "GMP_RNDN" ∧ Gen.defaultRnd = "GMP_RNDN" := by decide

/-- Characters that must never be part of a bare symbol are "invalid" in the table found in
    commodity.cc now: every digit, white space, sign, both decimal marks, `@`, `;`. -/
theorem C04.invalid_chars_facts :
    (∀ c, isDigit c = true → invalidChar c = true) ∧
    invalidChar ' ' = true ∧ invalidChar '\t' = true ∧ invalidChar '\n' = true ∧ invalidChar '\r' = true ∧
    invalidChar '-' = true ∧ invalidChar '.' = true ∧ invalidChar ',' = true ∧
    invalidChar '@' = true ∧ invalidChar ';' = true :=
  ⟨invalid_of_digit, invalid_space, invalid_tab, invalid_newline, invalid_return, invalid_minus,
   invalid_period, invalid_comma, invalid_at, invalid_semicolon⟩

/-- …while the double quote and the backslash are not: with the pinned `symbol_needs_quotes` a
    symbol containing them is printed bare (the cause of `C04.roundtrip_fails_backslash`). -/
theorem C04.quote_and_backslash_are_not_invalid : invalidChar '"' = false ∧ invalidChar '\\' = false :=
  ⟨quote_not_invalid, backslash_not_invalid⟩

/-- When a symbol is quoted, as read from commodity.cc / pool.cc in the working tree
    (`Gen.symbolQuotesBackslashQuote`, `Gen.symbolQuotesReserved`, `Gen.symbolEscapesBackslashQuote`). -/
theorem C04.quoted_iff (sym : Text) :
    needsQuotes sym = (sym.any invalidChar
      || (Gen.symbolQuotesBackslashQuote && sym.any (fun c => c = '\\' || c = '"'))
      || (Gen.symbolQuotesReserved && isReserved sym)) ∧
    qualified sym = (if needsQuotes sym then
        '"' :: ((if Gen.symbolEscapesBackslashQuote then escapeSym sym else sym) ++ ['"']) else sym) :=
  ⟨rfl, rfl⟩

/-! ### rounding -/

/-- Never off by more than half a unit in the last displayed place. -/
theorem C04.roundTo_nearest (q : Rat) (p : Nat) :
    (Amount.roundTo q p - q).abs ≤ 1 / (2 * (10 : Rat) ^ p) := by
  obtain ⟨h1, h2⟩ := roundTo_nearest_aux q p
  have hT := ten_pow_pos p
  have e : 1 / (2 * (10 : Rat) ^ p) = (1 / (10 : Rat) ^ p) / 2 := by
    generalize (10 : Rat) ^ p = T at *
    have : T ≠ 0 := Rat.ne_of_gt hT
    grind
  rw [e]
  generalize Amount.roundTo q p - q = x at *
  generalize 1 / (10 : Rat) ^ p = e at *
  rcases Rat.le_total (a := 0) (b := x) with hx | hx
  · rw [Rat.abs_of_nonneg hx]; grind
  · rw [Rat.abs_of_nonpos hx]; grind

/-- The rounded value has at most `p` decimals. -/
theorem C04.roundTo_decimals (q : Rat) (p : Nat) :
    ∃ m : Int, Amount.roundTo q p * (10 : Rat) ^ p = (m : Rat) :=
  ⟨Amount.roundUnits q p, roundTo_mul_pow q p⟩

/-- Exactly at a tie (`q·10^p = k + ½`) the even neighbour is chosen. -/
theorem C04.roundTo_half_even (q : Rat) (p : Nat) (k : Int)
    (h : q * (10 : Rat) ^ p = (k : Rat) + 1 / 2) :
    Amount.roundTo q p * (10 : Rat) ^ p = ((if k % 2 = 0 then k else k + 1 : Int) : Rat) := by
  rw [roundTo_mul_pow, roundUnits_tie q p k h]

/-- A quantity that already has at most `p` decimals is left alone: never truncated, never moved. -/
theorem C04.roundTo_id_of_decimals (q : Rat) (p : Nat) (m : Int)
    (h : q * (10 : Rat) ^ p = (m : Rat)) : Amount.roundTo q p = q :=
  roundTo_id_aux q p m h

/-! ### digit generation -/

/-- The printed digits denote exactly the rounded value (sign · (integer digits + decimals/10^n)),
    with or without the trailing-zero trimming. -/
theorem C04.fmt_value (q : Rat) (p : Nat) (zeros : Option Nat) :
    (fmtNum q p zeros).val = Amount.roundTo q p :=
  fmtNum_val q p zeros

/-- Integer and fractional parts are decimal digits, at least one integer digit. -/
theorem C04.fmt_digits (q : Rat) (p : Nat) (zeros : Option Nat) :
    (fmtNum q p zeros).int ≠ [] ∧ (∀ c ∈ (fmtNum q p zeros).int, isDigit c = true) ∧
    (∀ c ∈ (fmtNum q p zeros).frac, isDigit c = true) :=
  ⟨(fmtNum_int_digits q p zeros).1, (fmtNum_int_digits q p zeros).2, fmtNum_frac_digits q p zeros⟩

/-- Exactly `p` decimals without trimming; with `zeros_prec = z` between `min z p` and `p`. -/
theorem C04.fmt_decimals (q : Rat) (p : Nat) :
    (fmtNum q p none).frac.length = p ∧
    ∀ z, min z p ≤ (fmtNum q p (some z)).frac.length ∧ (fmtNum q p (some z)).frac.length ≤ p :=
  fmtNum_frac_length q p

/-- An amount that does not keep its precision is displayed with exactly the commodity's
    precision, whatever its own precision counter says. -/
theorem C04.display_is_commodity_precision (ci : CommInfo) (q : Rat) (amtPrec : Nat) :
    (printedNum ci q amtPrec false).frac.length = ci.prec ∧
    (printedNum ci q amtPrec false).val = Amount.roundTo q ci.prec := by
  have hd : displayPrec true ci.prec amtPrec false = ci.prec := by simp [displayPrec]
  unfold printedNum
  rw [hd]
  exact ⟨fmtNum_frac_length_exact q ci.prec, fmtNum_val _ _ _⟩

/-! ### what the default register / balance listing shows (value_t::print, amount_t::is_zero) -/

/-- For a rounded commoditized amount carrying more decimals than its commodity displays,
    amount_t::is_zero holds exactly when the amount rounds to zero at the display precision: an
    amount below one that rounds UP to one (0.996 at two decimals) is not zero. -/
theorem C04.is_zero_iff (cp : Nat) (q : Rat) (ap : Nat) (hlt : cp < ap) :
    isZeroAmt true cp q ap false = true ↔ Amount.roundTo q cp = 0 := by
  constructor
  · intro h
    have := isZeroAmt_sound true cp q ap false h
    have hd : displayPrec true cp ap false = cp := by simp [displayPrec]
    rwa [hd] at this
  · exact isZeroAmt_complete cp q ap hlt

/-- Otherwise (no commodity, precision kept, or no more decimals than displayed) it is exact. -/
theorem C04.is_zero_exact (hasComm : Bool) (cp : Nat) (q : Rat) (ap : Nat) (keep : Bool)
    (h : hasComm = false ∨ keep = true ∨ ap ≤ cp) :
    isZeroAmt hasComm cp q ap keep = decide (q = 0) := by
  unfold isZeroAmt
  rcases h with h | h | h
  · simp [h]
  · cases hasComm <;> simp [h]
  · cases hasComm <;> simp [h]

/-- value_t::print of an amount is amount_t::print of it (quotes elided), or a bare `0` — and the
    latter only when the amount rounds to zero at its display precision: the listing is never a
    whole unit off. -/
theorem C04.show_value (dcDefault : Bool) (sym : Text) (ci : CommInfo) (q : Rat) (amtPrec : Nat) (keep : Bool) :
    showAmount dcDefault sym ci q amtPrec keep = printAmountElided dcDefault sym ci q amtPrec keep ∨
    (showAmount dcDefault sym ci q amtPrec keep = ['0'] ∧
      Amount.roundTo q (displayPrec (decide (sym ≠ [])) ci.prec amtPrec keep) = 0) := by
  unfold showAmount
  by_cases h : isZeroAmt (decide (sym ≠ [])) ci.prec q amtPrec keep = true
  · right
    rw [if_pos h]
    exact ⟨rfl, isZeroAmt_sound _ _ _ _ _ h⟩
  · left
    rw [if_neg h]

/-- The listing spells the amount exactly as amount_t::print does unless the commodity is
    separated and its printed symbol starts with a quote (then only the symbol's quotes differ). -/
theorem C04.elided_eq_print (dcDefault : Bool) (sym : Text) (ci : CommInfo) (q : Rat) (amtPrec : Nat)
    (keep : Bool) (h : startsQuote (qualified sym) = false ∨ ci.style.separated = false ∨ sym = []) :
    printAmountElided dcDefault sym ci q amtPrec keep = printAmount dcDefault sym ci q amtPrec keep := by
  have he : elidedSymbol (if sym ≠ [] then ci.style else ({} : Style)).separated sym = qualified sym := by
    unfold elidedSymbol
    rcases h with h | h | h
    · simp [h]
    · by_cases hs : sym ≠ [] <;> simp [hs, h]
    · simp [h]
  unfold printAmountElided printAmount
  simp only [he]

/-! ### thousands marks -/

/-- Removing the marks recovers the digits, and read from the right the marks sit after every
    third digit as long as digits follow (`groupRev` is that specification). -/
theorem C04.group_ungroup (sep : Char) (ds : Text) (h : ∀ c ∈ ds, c ≠ sep) :
    (groupInt sep ds).filter (fun c => decide (c ≠ sep)) = ds ∧
    (groupInt sep ds).reverse = groupRev sep ds.reverse ∧
    (groupInt sep ds).length = ds.length + (ds.length - 1) / 3 :=
  ⟨groupInt_filter sep ds h, groupInt_reverse sep ds, groupInt_length sep ds⟩

/-! ### reading back what was printed -/

/-- The full claim, for the record: *whatever* the reader knows about the commodity beforehand
    (`dcOf`), a printed amount reads back as the printed value and the same commodity. -/
def C04.RoundtripFull : Prop :=
  ∀ (dcDefault : Bool) (sym : Text) (ci : CommInfo) (q : Rat) (amtPrec : Nat) (keep : Bool) (dcOf : Text → Bool),
    sym ≠ [] →
    ∃ p, parseAmount dcOf (printAmount dcDefault sym ci q amtPrec keep) = .ok p ∧
      p.q = Amount.roundTo q (displayPrec true ci.prec amtPrec keep) ∧ p.sym = sym

/-- What holds of the reader: for every quantity, precision, keep flag, every style
    (prefix/suffix × separated × thousands × decimal comma, `--decimal-comma` or not) and every
    symbol, parsing what `amount_t::print` wrote — followed by nothing or by a separator — yields
    the rounded value exactly, the number of decimals written, the same symbol and the style flags
    that are visible in the text, under three decidable guards:
    * `SymOK sym`: no newline in the symbol; and, where the source in the working tree does not
      protect them (`Gen.symbol…` flags), no `"`/`\\` and no bare reserved word;
    * the number fits parse_quantity's buffer (`Gen.quantityBufMax` characters);
    * the reader already knows the commodity's decimal mark, or it assumes a period and the
      number of decimals written is not a multiple of three. -/
theorem C04.print_parse_roundtrip_partial
    (dcDefault : Bool) (sym : Text) (ci : CommInfo) (q : Rat) (amtPrec : Nat) (keep : Bool)
    (dcOf : Text → Bool) (tail : Text)
    (hsym : SymOK sym)
    (hlen : ((printedNum ci q amtPrec keep).render ci.style.thousands
              (dcDefault || ci.style.decimalComma)).length ≤ Gen.quantityBufMax)
    (hdc : dcOf sym = (dcDefault || ci.style.decimalComma) ∨
           (dcOf sym = false ∧ (printedNum ci q amtPrec keep).frac.length % 3 ≠ 0))
    (ht : TailOK tail) :
    parseAmount dcOf (printAmount dcDefault sym ci q amtPrec keep ++ tail) =
      .ok { q := Amount.roundTo q (displayPrec true ci.prec amtPrec keep),
            prec := (printedNum ci q amtPrec keep).frac.length,
            sym := sym,
            flags := learnedStyle ci.style (dcDefault || ci.style.decimalComma) (printedNum ci q amtPrec keep),
            rest := tail } :=
  parse_print_main dcDefault sym ci q amtPrec keep dcOf tail hsym hlen hdc ht

/-- Printed at full precision (the quantity has no more decimals than are displayed), the amount
    reads back as exactly the same quantity and commodity. -/
theorem C04.print_parse_exact_partial
    (dcDefault : Bool) (sym : Text) (ci : CommInfo) (q : Rat) (amtPrec : Nat) (keep : Bool)
    (dcOf : Text → Bool) (m : Int)
    (hfull : q * (10 : Rat) ^ (displayPrec true ci.prec amtPrec keep) = (m : Rat))
    (hsym : SymOK sym)
    (hlen : ((printedNum ci q amtPrec keep).render ci.style.thousands
              (dcDefault || ci.style.decimalComma)).length ≤ Gen.quantityBufMax)
    (hdc : dcOf sym = (dcDefault || ci.style.decimalComma) ∨
           (dcOf sym = false ∧ (printedNum ci q amtPrec keep).frac.length % 3 ≠ 0)) :
    ∃ p, parseAmount dcOf (printAmount dcDefault sym ci q amtPrec keep) = .ok p ∧ p.q = q ∧ p.sym = sym := by
  have h := parse_print_main dcDefault sym ci q amtPrec keep dcOf [] hsym hlen hdc (Or.inl rfl)
  rw [List.append_nil] at h
  exact ⟨_, h, roundTo_id_aux q _ m hfull, rfl⟩

/-- In the session that printed it (the commodity's style is known to the reader) the decimal
    guard disappears; and re-reading its own rounded output teaches the commodity nothing new:
    style and precision stay as they were. -/
theorem C04.reread_same_session_partial
    (dcDefault : Bool) (sym : Text) (ci : CommInfo) (q : Rat) (amtPrec : Nat) (tail : Text)
    (hsym : SymOK sym)
    (hlen : ((printedNum ci q amtPrec false).render ci.style.thousands
              (dcDefault || ci.style.decimalComma)).length ≤ Gen.quantityBufMax)
    (hd : dcDefault = true → ci.style.decimalComma = true)
    (ht : TailOK tail) :
    ∃ p, parseAmount (fun _ => dcDefault || ci.style.decimalComma)
           (printAmount dcDefault sym ci q amtPrec false ++ tail) = .ok p ∧
      p.q = Amount.roundTo q ci.prec ∧ p.sym = sym ∧ p.rest = tail ∧ migrate ci p = ci := by
  have h := parse_print_main dcDefault sym ci q amtPrec false (fun _ => dcDefault || ci.style.decimalComma)
    tail hsym hlen (Or.inl rfl) ht
  have hdp : displayPrec true ci.prec amtPrec false = ci.prec := by simp [displayPrec]
  have hp := (C04.display_is_commodity_precision ci q amtPrec).1
  refine ⟨_, h, by rw [hdp], rfl, rfl, ?_⟩
  unfold migrate
  split
  · rfl
  · simp only [hp, Nat.max_self]
    unfold learnedStyle Style.union
    cases hdd : dcDefault
    · cases ci with
      | mk st pr nm => cases st with
        | mk a b c d => cases a <;> cases b <;> cases c <;> cases d <;> simp
    · have := hd hdd
      cases ci with
      | mk st pr nm => cases st with
        | mk a b c d =>
          simp only at this
          subst this
          cases a <;> cases b <;> cases c <;> simp

/-- A plain number (no commodity) reads back too. -/
theorem C04.print_parse_plain_partial (q : Rat) (amtPrec : Nat) (keep : Bool)
    (hlen : (printAmount false [] {} q amtPrec keep).length ≤ Gen.quantityBufMax) :
    ∃ p, parseAmount (fun _ => false) (printAmount false [] {} q amtPrec keep) = .ok p ∧
      p.q = Amount.roundTo q amtPrec ∧ p.sym = [] := by
  have e : printAmount false [] {} q amtPrec keep =
      numText (if (fmtNum q amtPrec (some 0)).neg then ['-'] else []) (fmtNum q amtPrec (some 0)).int
        (fmtNum q amtPrec (some 0)).frac false false := by
    have hres : isReserved [] = false := by decide
    unfold printAmount
    simp [displayPrec, qualified, needsQuotes, Num.render_eq, hres]
  rw [e] at hlen ⊢
  obtain ⟨hine, hi⟩ := fmtNum_int_digits q amtPrec (some 0)
  have hf := fmtNum_frac_digits q amtPrec (some 0)
  have hs : (if (fmtNum q amtPrec (some 0)).neg then ['-'] else []) = [] ∨
      (if (fmtNum q amtPrec (some 0)).neg then ['-'] else []) = ['-'] := by
    cases (fmtNum q amtPrec (some 0)).neg <;> simp
  have h := parse_plain (fun _ => false) _ _ _ false false hs hine hi hf (Or.inl rfl) hlen
  refine ⟨_, h, ?_, rfl⟩
  simp only
  rw [Num.val_magVal, fmtNum_val]

/-! ### the inputs excluded by the guards really fail (replayed on the binary by the check) -/

/-- Decimal comma learned from the data, three decimals: `1,500 EUR` (= 1.5) is read by a fresh
    reader as one thousand five hundred. -/
theorem C04.roundtrip_fails_decimal_comma_3 :
    ∃ p, parseAmount (fun _ => false)
          (printAmount false "EUR".toList { style := { suffixed := true, separated := true, decimalComma := true }, prec := 3 }
            (3 / 2) 2 false) = .ok p ∧ p.q = 1500 ∧ Amount.roundTo (3 / 2 : Rat) 3 = 3 / 2 := by
  refine ⟨{ q := 1500, prec := 0, sym := "EUR".toList,
            flags := { suffixed := true, separated := true, thousands := true }, rest := [] }, ?_, rfl, ?_⟩
  · decide +kernel
  · decide +kernel

theorem C04.roundtrip_full_is_false : ¬ C04.RoundtripFull := by
  intro h
  obtain ⟨p, hp, hq, _⟩ := h false "EUR".toList
    { style := { suffixed := true, separated := true, decimalComma := true }, prec := 3 } (3 / 2) 2 false
    (fun _ => false) (by decide)
  obtain ⟨p', hp', hq', hr⟩ := C04.roundtrip_fails_decimal_comma_3
  rw [hp'] at hp
  cases hp
  rw [hq'] at hq
  have hd : displayPrec true 3 2 false = 3 := by decide
  simp only [hd] at hq
  rw [hr] at hq
  revert hq
  decide +kernel

/-- With the pinned quoting rule a symbol with a backslash is printed bare and unescaped; the
    reader takes the backslash as an escape and finds another commodity (`a\b` → `ab`). -/
theorem C04.roundtrip_fails_backslash :
    Gen.symbolQuotesBackslashQuote = false →
    parseAmount (fun _ => false)
      (printAmount false ['a', '\\', 'b'] { style := { suffixed := true, separated := true }, prec := 0 } 5 0 false)
      = .ok { q := 5, prec := 0, sym := ['a', 'b'], flags := { suffixed := true, separated := true }, rest := [] } := by
  decide +kernel

/-- With the pinned quoting rule a symbol spelled like a reserved word (`and`, `or`, `not`, `div`,
    `if`, `else`, `true`, `false`) is printed bare; the reader refuses it as a symbol, so the amount
    loses its commodity. -/
theorem C04.roundtrip_fails_reserved_word :
    Gen.symbolQuotesReserved = false →
    parseAmount (fun _ => false)
      (printAmount false "and".toList { style := { suffixed := true, separated := true }, prec := 0 } 5 0 false)
      = .ok { q := 5, prec := 0, sym := [], flags := { separated := true }, rest := " and".toList } := by
  decide +kernel

/-- With the repaired quoting rule (all three flags read as true from the working tree) every
    symbol without a newline — reserved words and symbols containing `"` or `\\` included — reads
    back; the remaining guards are the buffer sizes and the decimal-comma ambiguity. -/
theorem C04.print_parse_roundtrip_protected_partial
    (hr : Gen.symbolQuotesReserved = true) (hb : Gen.symbolQuotesBackslashQuote = true)
    (he : Gen.symbolEscapesBackslashQuote = true)
    (dcDefault : Bool) (sym : Text) (ci : CommInfo) (q : Rat) (amtPrec : Nat) (keep : Bool)
    (dcOf : Text → Bool) (tail : Text)
    (hne : sym ≠ []) (hslen : sym.length ≤ Gen.symbolBufMax)
    (hc : ∀ c ∈ sym, c ≠ '\n' ∧ c.toNat ≠ 11 ∧ c.toNat ≠ 12)
    (hlen : ((printedNum ci q amtPrec keep).render ci.style.thousands
              (dcDefault || ci.style.decimalComma)).length ≤ Gen.quantityBufMax)
    (hdc : dcOf sym = (dcDefault || ci.style.decimalComma) ∨
           (dcOf sym = false ∧ (printedNum ci q amtPrec keep).frac.length % 3 ≠ 0))
    (ht : TailOK tail) :
    parseAmount dcOf (printAmount dcDefault sym ci q amtPrec keep ++ tail) =
      .ok { q := Amount.roundTo q (displayPrec true ci.prec amtPrec keep),
            prec := (printedNum ci q amtPrec keep).frac.length,
            sym := sym,
            flags := learnedStyle ci.style (dcDefault || ci.style.decimalComma) (printedNum ci q amtPrec keep),
            rest := tail } :=
  parse_print_main dcDefault sym ci q amtPrec keep dcOf tail
    (symOK_of_protected hr hb he sym hne hslen hc) hlen hdc ht

/-- …for instance the two witnesses above. -/
theorem C04.roundtrip_protected_examples :
    Gen.symbolQuotesReserved = true → Gen.symbolQuotesBackslashQuote = true →
    Gen.symbolEscapesBackslashQuote = true →
    (parseAmount (fun _ => false)
      (printAmount false ['a', '\\', 'b'] { style := { suffixed := true, separated := true }, prec := 0 } 5 0 false)
      = .ok { q := 5, prec := 0, sym := ['a', '\\', 'b'], flags := { suffixed := true, separated := true }, rest := [] }) ∧
    (parseAmount (fun _ => false)
      (printAmount false "and".toList { style := { suffixed := true, separated := true }, prec := 0 } 5 0 false)
      = .ok { q := 5, prec := 0, sym := "and".toList, flags := { suffixed := true, separated := true }, rest := [] }) := by
  decide +kernel

/-! ### reading decimals, learning precision and style -/

/-- A decimal text of any length within the reader's buffer denotes its positional value, and the
    precision recorded is the number of decimals written. -/
theorem C04.parse_decimal_exact_partial (ints frac : Text) (hine : ints ≠ [])
    (hi : ∀ c ∈ ints, isDigit c = true) (hf : ∀ c ∈ frac, isDigit c = true)
    (hlen : (ints ++ (if frac = [] then [] else '.' :: frac)).length ≤ Gen.quantityBufMax) :
    parseAmount (fun _ => false) (ints ++ (if frac = [] then [] else '.' :: frac)) =
      .ok { q := ((decVal (ints ++ frac) : Int) : Rat) / (10 : Rat) ^ frac.length, prec := frac.length,
            sym := [], flags := {}, rest := [] } := by
  have e : ints ++ (if frac = [] then [] else '.' :: frac) = numText [] ints frac false false := by
    unfold numText; simp
  rw [e] at hlen ⊢
  rw [parse_plain (fun _ => false) [] ints frac false false (Or.inl rfl) hine hi hf (Or.inl rfl) hlen, decVal_div]
  simp

/-- A commodity's display precision is the largest number of decimals seen, and is attained… -/
theorem C04.precision_is_max_seen (c : CommInfo) (ps : List Parsed) (h : c.noMigrate = false) :
    c.prec ≤ (learnAll c ps).prec ∧ (∀ p ∈ ps, p.prec ≤ (learnAll c ps).prec) ∧
    ((learnAll c ps).prec = c.prec ∨ ∃ p ∈ ps, (learnAll c ps).prec = p.prec) :=
  ⟨(learnAll_prec_ge c ps h).1, (learnAll_prec_ge c ps h).2, learnAll_prec_attained c ps h⟩

/-- …unless fixed by a `format` directive (NO_MIGRATE): then nothing read later changes it. -/
theorem C04.precision_fixed_by_format (c : CommInfo) (ps : List Parsed) (h : c.noMigrate = true) :
    learnAll c ps = c :=
  learnAll_fixed c ps h

/-- Style flags are or-ed together over everything read. -/
theorem C04.style_is_union_seen (c : CommInfo) (ps : List Parsed) (h : c.noMigrate = false) :
    (learnAll c ps).style = ps.foldl (fun s p => s.union p.flags) c.style :=
  learnAll_style c ps h

/-! ### non-vacuity -/

example : SymOK "A B".toList ∧ SymOK "EUR".toList ∧ SymOK "2020".toList ∧
    (Gen.symbolQuotesReserved = false → ¬ SymOK "and".toList) ∧
    (Gen.symbolQuotesReserved = true → SymOK "and".toList) := by decide

example : printAmount false "$".toList { style := { thousands := true }, prec := 2 } (-1234567891 / 1000) 3 false
    = "$-1,234,567.89".toList := by decide +kernel

example : printAmount false "A B".toList
    { style := { suffixed := true, separated := true, thousands := true, decimalComma := true }, prec := 2 }
    (1234567891 / 1000) 3 true = "1.234.567,891 \"A B\"".toList := by decide +kernel

example : parseAmount (fun _ => true) "1.234.567,891 \"A B\"".toList =
    .ok { q := 1234567891 / 1000, prec := 3, sym := "A B".toList,
          flags := { suffixed := true, separated := true, thousands := true, decimalComma := true }, rest := [] } := by
  decide +kernel

example : showAmount false "$".toList { style := { thousands := true }, prec := 2 } (996 / 1000) 3 false = "$1.00".toList ∧
    showAmount false "$".toList { style := { thousands := true }, prec := 2 } (-9951 / 10000) 4 false = "$-1.00".toList ∧
    showAmount false "$".toList { style := { thousands := true }, prec := 2 } (4 / 1000) 3 false = "0".toList := by
  decide +kernel

example : TailOK " ; note".toList := by decide

example : Amount.roundTo (5 / 1000 : Rat) 2 = 0 ∧ Amount.roundTo (15 / 1000 : Rat) 2 = 2 / 100 := by
  decide +kernel

end Ledger
