/-
C05 — balance, register and account-tree totals agree.

Every theorem is about `Model/Reports.lean` and holds for ALL finalised posting
lists `ps`, ALL valuations `f : RPost → Value` (the amount; the cost for `-B`;
anything else `--amount` could compute) and ALL posting predicates
`keep : RPost → Bool` (`--real`, `--cleared`, `--uncleared`, `--pending`,
account/payee queries, any `--limit`), with no bound on the number of postings,
accounts, commodities or the depth of the tree.  Identities are stated on the
denotation `Value.den : Value → Comm → Rat` (per commodity, exact), so the
bookkeeping of balances (zero entries, insertion order) is irrelevant.
`rsum` is the sum of a list of rationals; `under a q` says that account `a` is
`q` or an ancestor of `q`.

The hypotheses `… = .ok …` say that the report was produced; `C05.reports_defined`
shows that this is always the case for numeric valuations (in particular for
the amount and the cost), so no theorem is vacuous for any journal.

Tie to the source: `C05.chain_order` (the handler order constructed by chain.cc,
evaluated per scenario by tools/extract_reports.py, is the order the model
implements: limit filter → [collapse] → calc_posts → display), `C05.report_fns_pinned`
(the bodies of the mirrored C++ routines are the ones the model was written
against), the option tables of Gen/Chain.lean that the model interprets, and the
row-by-row differential check tools/props/c05.py.
-/
import LedgerModel.Lemmas.ReportsDefined
import LedgerModel.Gen.ReportFns
import LedgerModel.Model.ReportFnsPinned

namespace Ledger
open Reports

/-- In each of the 16 scenarios (register/balance × limit × depth × basis) the handlers chain.cc
    activates run in the order the model implements; in particular the `--limit` filter always
    precedes calc_posts, so a filtered posting never enters a running total or an account total. -/
theorem C05.chain_order :
    ∀ s ∈ allScenarios, Gen.Chain.execOrder.lookup s = some (assumedOrder s.1 s.2.1 s.2.2.1 s.2.2.2) := by
  decide

/-- The C++ routines mirrored by the model are textually the ones it was written against. -/
theorem C05.report_fns_pinned : Gen.reportFns = Pinned.reportFns := rfl

/-- `amount_expr`, `total_expr`, `display_amount`, `display_total` default to the amount and the
    running/account total; `-B` replaces the amount by the cost and nothing else. -/
theorem C05.default_exprs :
    Gen.Chain.amountExpr = ("amount_expr", "amount") ∧ Gen.Chain.totalExpr = ("total_expr", "total") ∧
    Gen.Chain.displayAmountExpr = ("display_amount", "amount_expr") ∧
    Gen.Chain.displayTotalExpr = ("display_total", "total_expr") ∧ Gen.Chain.basisExpr = "rounded(cost)" := by
  decide

/-- The register lists exactly the postings that pass the filter, in journal order, each with its value. -/
theorem C05.reg_rows_are_kept_postings (f : RPost → Value) (keep : RPost → Bool) (ps : List RPost)
    (rows : List RegRow) (hr : regRows f keep ps = .ok rows) :
    rows.map (fun r => (r.post, r.amount)) = (ps.filter keep).map (fun p => (p, f p)) :=
  regGo_posts f _ _ rows hr

/-- Every parent's total equals its own postings plus its children's totals. -/
theorem C05.total_eq_own_plus_children (f : RPost → Value) (keep : RPost → Bool) (ps : List RPost) (a : Path)
    (t own kids : Value) (ht : acctTotal f keep ps a = .ok t) (ho : acctAmount f keep ps a = .ok own)
    (hk : sumMapM (acctTotal f keep ps) (children ps a) .void = .ok kids) (c : Comm) :
    t.den c = own.den c + kids.den c := by
  have h1 := sumMapM_den (acctTotal f keep ps) (fun ch => gsum f keep c ps (under ch)) c (children ps a) .void kids hk
    (fun ch _ v hv => acctTotal_den f keep c ps ch v hv)
  rw [acctTotal_den f keep c ps a t ht, acctAmount_den f keep c ps a own ho, h1, gsum_children]
  simp only [Value.den]; grind

/-- The recursion account_t::total performs (children's totals first, then the own amount, down the
    tree) computes exactly "own postings plus all descendants' postings". -/
theorem C05.total_rec_eq_total (f : RPost → Value) (keep : RPost → Bool) (ps : List RPost) (a : Path)
    (r t : Value) (hr : acctTotalRec f keep ps (maxLen ps) a = .ok r) (ht : acctTotal f keep ps a = .ok t) (c : Comm) :
    r.den c = t.den c := by
  rw [acctTotalRec_den f keep c ps (maxLen ps) a r (by omega) hr, acctTotal_den f keep c ps a t ht]

/-- The balance of an account equals the exact sum of the amounts of the register's rows that
    post to the account or one of its sub-accounts. -/
theorem C05.bal_eq_sum_reg (f : RPost → Value) (keep : RPost → Bool) (ps : List RPost) (a : Path)
    (t : Value) (rows : List RegRow) (ht : acctTotal f keep ps a = .ok t) (hr : regRows f keep ps = .ok rows) (c : Comm) :
    t.den c = rsum ((rows.filter (fun r => under a r.post.path)).map (fun r => r.amount.den c)) := by
  have hp := regGo_posts f _ _ rows hr
  rw [acctTotal_den f keep c ps a t ht, rsum_filter]
  have : rsum (rows.map (fun r => if under a r.post.path then r.amount.den c else 0)) =
      rsum ((rows.map (fun r => (r.post, r.amount))).map (fun pr => if under a pr.1.path then pr.2.den c else 0)) := by
    rw [List.map_map]; rfl
  rw [this, hp, List.map_map, rsum_filter]
  unfold gsum wt
  apply rsum_map_congr
  intro p _
  cases keep p <;> simp

/-- … and the amount shown for the account itself is the sum of the rows that post to exactly it. -/
theorem C05.amount_eq_sum_reg (f : RPost → Value) (keep : RPost → Bool) (ps : List RPost) (a : Path)
    (t : Value) (rows : List RegRow) (ht : acctAmount f keep ps a = .ok t) (hr : regRows f keep ps = .ok rows) (c : Comm) :
    t.den c = rsum ((rows.filter (fun r => decide (r.post.path = a))).map (fun r => r.amount.den c)) := by
  have hp := regGo_posts f _ _ rows hr
  rw [acctAmount_den f keep c ps a t ht, rsum_filter]
  have : rsum (rows.map (fun r => if decide (r.post.path = a) then r.amount.den c else 0)) =
      rsum ((rows.map (fun r => (r.post, r.amount))).map (fun pr => if decide (pr.1.path = a) then pr.2.den c else 0)) := by
    rw [List.map_map]; rfl
  rw [this, hp, List.map_map, rsum_filter]
  unfold gsum wt
  apply rsum_map_congr
  intro p _
  cases keep p <;> simp

/-- Whatever `--flat` / `--depth` select for display, every row that IS displayed shows the sum of
    the register's rows to the account (amount) and to its subtree (total). -/
theorem C05.bal_rows_eq_sum_reg (o : BalOpts) (f : RPost → Value) (keep : RPost → Bool) (ps : List RPost)
    (brows : List BalRow) (rows : List RegRow) (hb : balRows o f keep ps = .ok brows)
    (hr : regRows f keep ps = .ok rows) (b : BalRow) (hmem : b ∈ brows) (c : Comm) :
    b.amount.den c = rsum ((rows.filter (fun r => decide (r.post.path = b.acct))).map (fun r => r.amount.den c)) ∧
    b.total.den c = rsum ((rows.filter (fun r => under b.acct r.post.path)).map (fun r => r.amount.den c)) := by
  obtain ⟨_, h1, h2⟩ := balRowsOf_mem f keep ps _ brows hb b hmem
  constructor
  · exact C05.amount_eq_sum_reg f keep ps b.acct b.amount rows h1 hr c
  · have hp := regGo_posts f _ _ rows hr
    rw [acctTotalRec_den f keep c ps (maxLen ps) b.acct b.total (by omega) h2, rsum_filter]
    have : rsum (rows.map (fun r => if under b.acct r.post.path then r.amount.den c else 0)) =
        rsum ((rows.map (fun r => (r.post, r.amount))).map (fun pr => if under b.acct pr.1.path then pr.2.den c else 0)) := by
      rw [List.map_map]; rfl
    rw [this, hp, List.map_map, rsum_filter]
    unfold gsum wt
    apply rsum_map_congr
    intro p _
    cases keep p <;> simp

/-- The running total on row k is the sum of the amounts of rows 0..k. -/
theorem C05.running_total_prefix (f : RPost → Value) (keep : RPost → Bool) (ps : List RPost)
    (rows : List RegRow) (hr : regRows f keep ps = .ok rows) (k : Nat) (hk : k < rows.length) (c : Comm) :
    rows[k].total.den c = rsum ((rows.take (k + 1)).map (fun r => r.amount.den c)) := by
  have := regGo_running f c _ .void rows hr k hk
  rw [this]; simp only [Value.den]; grind

/-- The last running total of the register equals the balance report's grand total. -/
theorem C05.last_total_eq_grand_total (f : RPost → Value) (keep : RPost → Bool) (ps : List RPost)
    (rows : List RegRow) (g : Value) (hr : regRows f keep ps = .ok rows) (hg : grandTotal f keep ps = .ok g) (c : Comm) :
    (lastTotal rows).den c = g.den c := by
  have h1 := regGo_last f c _ .void rows hr
  have h2 : lastTotal rows = (rows.getLast?.map (·.total)).getD .void := by
    unfold lastTotal; cases rows.getLast? <;> rfl
  rw [h2, h1, grandTotal_den f keep c ps g hg, rsum_filter]
  unfold gsum wt
  simp only [Value.den]
  have : ∀ l : List Rat, (0 : Rat) + rsum l = rsum l := by intro l; grind
  rw [this]
  apply rsum_map_congr
  intro p _
  cases keep p <;> simp

/-- `--flat` only regroups: the rows of `bal --flat` are the accounts that received postings, each with
    its own amount, and these amounts add up to the grand total. -/
theorem C05.flat_preserves_total (f : RPost → Value) (keep : RPost → Bool) (ps : List RPost)
    (brows : List BalRow) (g : Value) (hb : balRows flatOpts f keep ps = .ok brows)
    (hg : grandTotal f keep ps = .ok g) (c : Comm) :
    rsum (brows.map (fun b => b.amount.den c)) = g.den c := by
  have h := (balRowsOf_sum f keep ps (fun b => b.amount.den c) (fun a => gsum f keep c ps (fun q => decide (q = a)))
    (fun a am _ ham _ => acctAmount_den f keep c ps a am ham) _ brows hb).1
  rw [h, grandTotal_den f keep c ps g hg]
  unfold shownAccounts
  rw [rsum_shown, ← gsum_by_account]
  apply rsum_map_congr
  intro a _
  rw [shown_flat]
  cases hv : visited keep ps a
  · simp only [Bool.false_eq_true, if_false]
    exact (visited_false_gsum f keep c ps a hv).symm
  · simp

/-- `--depth N` only regroups: cutting the displayed tree at depth N (own amounts above the cut,
    totals at the cut; nothing is displayed below it) still adds up to the grand total. -/
theorem C05.depth_preserves_total (N : Nat) (hN : 1 ≤ N) (f : RPost → Value) (keep : RPost → Bool) (ps : List RPost)
    (brows : List BalRow) (g : Value) (hb : balRows (depthOpts N) f keep ps = .ok brows)
    (hg : grandTotal f keep ps = .ok g) (c : Comm) :
    (∀ b ∈ brows, b.acct.length ≤ N) ∧
    rsum (brows.map (fun b => if b.acct.length < N then b.amount.den c else b.total.den c)) = g.den c := by
  constructor
  · intro b hmem
    obtain ⟨hin, _, _⟩ := balRowsOf_mem f keep ps _ brows hb b hmem
    unfold shownAccounts at hin
    have hs := (List.mem_filter.mp hin).2
    cases Nat.lt_or_ge N b.acct.length with
    | inl hlt => rw [shown_deep N keep ps _ b.acct hlt] at hs; cases hs
    | inr hle => exact hle
  · have h := (balRowsOf_sum f keep ps (fun b => if b.acct.length < N then b.amount.den c else b.total.den c)
      (cutTerm f keep c ps N)
      (fun a am tot ham htot => by
        unfold cutTerm
        simp only [acctAmount_den f keep c ps a am ham, acctTotalRec_den f keep c ps (maxLen ps) a tot (by omega) htot])
      _ brows hb).1
    rw [h, grandTotal_den f keep c ps g hg]
    unfold shownAccounts
    rw [rsum_shown, ← gsum_cut f keep c ps N hN]
    apply rsum_map_congr
    intro a _
    exact cut_shown_term f keep c ps N (maxLen ps) a

/-- `--flat` and `--depth` only regroup rows; the grand total itself does not depend on them at all
    (`grandTotal` has no such argument). -/
theorem C05.depth_flat_preserve_total (N : Nat) (hN : 1 ≤ N) (f : RPost → Value) (keep : RPost → Bool) (ps : List RPost)
    (frows drows : List BalRow) (g : Value) (hf : balRows flatOpts f keep ps = .ok frows)
    (hd : balRows (depthOpts N) f keep ps = .ok drows) (hg : grandTotal f keep ps = .ok g) (c : Comm) :
    rsum (frows.map (fun b => b.amount.den c)) = g.den c ∧
    rsum (drows.map (fun b => if b.acct.length < N then b.amount.den c else b.total.den c)) = g.den c :=
  ⟨C05.flat_preserves_total f keep ps frows g hf hg c, (C05.depth_preserves_total N hN f keep ps drows g hd hg c).2⟩

/-- `reg --depth N` (collapse_posts) only regroups too: the rows a transaction is collapsed into, one per
    depth-N account, carry exactly the sum of the transaction's postings, so running totals at
    transaction boundaries and the final total are those of the uncollapsed register. -/
theorem C05.collapse_preserves_sum (f : RPost → Value) (n : Nat) (g : List RPost) (rows : List (Path × Value))
    (h : collapseXact f n g = .ok rows) (c : Comm) :
    rsum (rows.map (fun r => r.2.den c)) = rsum (g.map (fun p => (f p).den c)) :=
  collapseXact_sum f n c g rows h

/-- Stripping lot annotations moves every quantity from its lot commodity `x` to the stripped
    commodity `s x` and does nothing else: at a stripped commodity `c` one sees the sum of all lots
    that strip to `c`. -/
theorem C05.strip_den (s : Comm → Comm) (hs : s "" = "") (v : Value) (c : Comm) :
    (stripV s v).den c = denOnV (fun x => decide (s x = c)) v := by
  rw [den_eq_denOnV, denOnV_strip _ s hs]

/-- Stripping then summing = summing then stripping (what the report shows as a total of stripped
    amounts is the stripped total), commodity by commodity. -/
theorem C05.strip_annotations_hom (s : Comm → Comm) (hs : s "" = "") (vs : List Value) (t t' : Value)
    (ht : sumV vs = .ok t) (ht' : sumV (vs.map (stripV s)) = .ok t') (c : Comm) :
    (stripV s t).den c = t'.den c := by
  rw [C05.strip_den s hs, sumV_denOn _ vs t ht, sumV_den _ t' ht' c, List.map_map]
  apply rsum_map_congr
  intro v _
  exact (C05.strip_den s hs v c).symm

/-- Showing lots refines a total but never changes its per-commodity sum: for any notion of base
    commodity that stripping respects, the amount held in base commodity `B` is the same before and
    after stripping (so `--lots`, `--lot-prices`, `--lot-dates` and no option at all agree on it). -/
theorem C05.strip_preserves_base_sum (s base : Comm → Comm) (hs : s "" = "") (hb : ∀ x, base (s x) = base x)
    (v : Value) (B : Comm) :
    denOnV (fun x => decide (base x = B)) (stripV s v) = denOnV (fun x => decide (base x = B)) v := by
  rw [denOnV_strip _ s hs]
  simp only [hb]

/-- … in particular for the total of any list of values. -/
theorem C05.lots_refine_total (s base : Comm → Comm) (hs : s "" = "") (hb : ∀ x, base (s x) = base x)
    (vs : List Value) (t t' : Value) (ht : sumV vs = .ok t) (ht' : sumV (vs.map (stripV s)) = .ok t') (B : Comm) :
    denOnV (fun x => decide (base x = B)) t' = denOnV (fun x => decide (base x = B)) t := by
  rw [sumV_denOn _ _ t' ht', sumV_denOn _ vs t ht, List.map_map]
  apply rsum_map_congr
  intro v _
  exact C05.strip_preserves_base_sum s base hs hb v B

/-- The null commodity is never annotated: the model's strip function satisfies `s "" = ""`. -/
theorem C05.strip_null (k : Keep) : stripComm k "" = "" := stripComm_empty k

/-- Non-vacuity for every journal: with a numeric valuation (the amount and the cost are) every
    report of the model is defined, so the `= .ok` hypotheses above can always be met. -/
theorem C05.reports_defined (f : RPost → Value) (hf : ∀ p, isNum (f p) = true) (keep : RPost → Bool)
    (ps : List RPost) (o : BalOpts) (a : Path) :
    (∃ rows, regRows f keep ps = .ok rows) ∧ (∃ t, acctTotal f keep ps a = .ok t) ∧
    (∃ t, acctAmount f keep ps a = .ok t) ∧ (∃ g, grandTotal f keep ps = .ok g) ∧
    (∃ brows, balRows o f keep ps = .ok brows) ∧
    (∃ kids, sumMapM (acctTotal f keep ps) (children ps a) .void = .ok kids) := by
  refine ⟨regGo_defined f hf _ .void rfl, ?_, ?_, ?_, balRowsOf_defined f hf keep ps _, ?_⟩
  · obtain ⟨r, h, _⟩ := sumV_map_isNum f hf (ps.filter (fun p => keep p && under a p.path)); exact ⟨r, h⟩
  · obtain ⟨r, h, _⟩ := sumV_map_isNum f hf (ps.filter (fun p => keep p && decide (p.path = a))); exact ⟨r, h⟩
  · obtain ⟨r, h, _⟩ := acctTotalRec_isNum f hf keep ps (maxLen ps) []; exact ⟨r, h⟩
  · obtain ⟨r, h, _⟩ := sumMapM_isNum (acctTotal f keep ps) (children ps a) .void rfl
      (fun k _ => sumV_map_isNum f hf (ps.filter (fun p => keep p && under k p.path)))
    exact ⟨r, h⟩

/-- The two valuations of the C05 option set are numeric. -/
theorem C05.valuations_numeric (p : RPost) : isNum (valAmount p) = true ∧ isNum (valCost p) = true :=
  ⟨valAmount_isNum p, valCost_isNum p⟩

/-! Non-vacuity on concrete values. -/

example : sumV [.amt ⟨5, 0, false, "AAA{5/1 $}[2020/01/05](lotA)"⟩, .amt ⟨-2, 0, false, "AAA{6/1 $}[2020/01/06]()"⟩,
                .amt ⟨7/2, 2, false, "$"⟩] =
    .ok (.bal [⟨5, 0, false, "AAA{5/1 $}[2020/01/05](lotA)"⟩, ⟨-2, 0, false, "AAA{6/1 $}[2020/01/06]()"⟩, ⟨7/2, 2, false, "$"⟩]) := by
  decide +kernel

example : stripV (fun c => if c = "$" then "$" else "AAA")
      (.bal [⟨5, 0, false, "AAA{5/1 $}[2020/01/05](lotA)"⟩, ⟨-2, 0, false, "AAA{6/1 $}[2020/01/06]()"⟩, ⟨7/2, 2, false, "$"⟩]) =
    .bal [⟨3, 0, false, "AAA"⟩, ⟨7/2, 2, false, "$"⟩] := by
  decide +kernel

example : assumedOrder false true true true =
    ["filter_posts:limit_", "collapse_posts", "calc_posts", "changed_value_posts", "filter_posts:display_", "display_filter_posts"] := rfl

end Ledger
